# sourced by bin/check and bin/setup: offline Go 1.26.8 toolchain
export PATH=/opt/veriftools/go1.26.8/bin:$PATH
export GOTOOLCHAIN=local GOFLAGS=-mod=mod GOPROXY=off
unset GOWORK
