#!/bin/bash
# usage: tools/reverify_seed.sh <name>   — re-checks a stored seed against /repo HEAD: patch still applies (git apply, else
# patch -p1 with fuzz), builds, and its demonstration still fails with the patch and passes without. No full suite.
set -u
name=$1
src=/verif/seeded/$name
export GOFLAGS=-mod=mod GOPROXY=off; unset GOWORK
wt=/tmp/rv_$name
git -C /repo worktree remove --force $wt >/dev/null 2>&1
git -C /repo worktree add -q --detach $wt HEAD || exit 2
cd $wt
clean_rc=0; bash $src/demo.sh $wt >/tmp/rv_$name.clean.log 2>&1 || clean_rc=$?
git checkout -q -- . ; git clean -fdq
apply_rc=0; how=git
if ! git apply $src/patch.diff 2>/dev/null; then
  how=patch
  patch -p1 -s --no-backup-if-mismatch < $src/patch.diff >/tmp/rv_$name.patch.log 2>&1 || apply_rc=$?
  find . -name '*.rej' -delete; find . -name '*.orig' -delete
fi
build_rc=0; go build ./internal/... >/tmp/rv_$name.build.log 2>&1 || build_rc=$?
demo_rc=0; bash $src/demo.sh $wt >/tmp/rv_$name.patched.log 2>&1 || demo_rc=$?
cd /
git -C /repo worktree remove --force $wt
echo "{\"name\":\"$name\",\"demo_clean_rc\":$clean_rc,\"apply\":\"$how\",\"apply_rc\":$apply_rc,\"build_rc\":$build_rc,\"demo_patched_rc\":$demo_rc}"
