#!/bin/bash
# usage: tools/verify_seed.sh <out-dir e.g. /tmp/out_C01/a> <name e.g. C01a>
# Confirms a seeded change in a scratch worktree: demo passes clean, patch applies+builds,
# the existing suite passes with it, demo fails with it. Prints a one-line JSON summary.
set -u
src=$1; name=$2
export GOFLAGS=-mod=mod GOPROXY=off; unset GOWORK
wt=/tmp/vs_$name
git -C /repo worktree remove --force $wt >/dev/null 2>&1
git -C /repo worktree add -q --detach $wt HEAD || exit 2
cd $wt
clean_rc=0; bash $src/demo.sh $wt >/tmp/vs_$name.clean.log 2>&1 || clean_rc=$?
git checkout -q -- . ; git clean -fdq
apply_rc=0; git apply $src/patch.diff || apply_rc=$?
build_rc=0; (go build ./internal/... && go vet ./internal/... ) >/tmp/vs_$name.build.log 2>&1 || build_rc=$?
suite_rc=0; go test -vet=off -count=1 ./internal/... ./cmd/... >/tmp/vs_$name.suite.log 2>&1 || suite_rc=$?
# TestManagerMerging has a pre-existing flake on the unchanged tree ("close of closed channel": the test cancels a
# listener twice); when only that shows, run the suite again (at most twice more)
for attempt in 2 3; do
  if grep -q "close of closed channel" /tmp/vs_$name.suite.log; then
    go test -vet=off -count=1 ./internal/... ./cmd/... >/tmp/vs_$name.suite.log 2>&1 || true
  fi
done
# cmd/pkappa2 may fail to build for the web embed reason on the clean tree as well: only internal counts
suite_int_rc=0; grep -E "^(FAIL[[:space:]]+[^[:space:]]|--- FAIL)" /tmp/vs_$name.suite.log | grep -v "cmd/pkappa2\|/web" | grep -q . && suite_int_rc=1
demo_rc=0; bash $src/demo.sh $wt >/tmp/vs_$name.patched.log 2>&1 || demo_rc=$?
cd /
git -C /repo worktree remove --force $wt
echo "{\"name\":\"$name\",\"demo_clean_rc\":$clean_rc,\"apply_rc\":$apply_rc,\"build_rc\":$build_rc,\"suite_internal_fail\":$suite_int_rc,\"demo_patched_rc\":$demo_rc}"
