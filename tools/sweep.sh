#!/bin/bash
# usage: tools/sweep.sh <logdir> [parallel]  — the thorough tier of all 20 properties, <parallel> (default 2) at a time
# (each run analyses its variants with up to eight workers of its own),
# with a COPY of the built checker (so that editing/rebuilding the checker meanwhile does not disturb the run).
# Writes <logdir>/<id>.log (selftest summary, misses, stale variants) and <logdir>/DONE at the end.
out=${1:?logdir}; par=${2:-2}
mkdir -p "$out"
cp /verif/.build/pkcheck "$out/pkcheck.bin"
one() {
  p=$1; out=$2
  "$out/pkcheck.bin" -prop $p -tier thorough -repo /repo -out "$out/ev" -kf /verif/known-findings.json -verif /verif > "$out/$p.full" 2>&1
  grep -i "SELFTEST-MISS\|selftest $p\|VIOLATION" "$out/$p.full" | cut -c1-300 > "$out/$p.log"
  python3 - >> "$out/$p.log" <<PY
import json
try:
    e=json.load(open('$out/ev/$p.json'))
    st=e['coverage'].get('selftest',{})
    if st.get('stale'): print('  stale:', st.get('stale'))
except Exception as ex:
    print('  no evidence:', ex)
PY
}
export -f one
cd /verif
for p in C01 C02 C03 C04 C05 C06 C07 C08 C09 C10 C11 C12 C13 C14 C15 C16 C17 C18 C19 C20; do echo $p; done | xargs -P $par -I{} bash -c "one {} $out"
echo SWEEP-DONE > "$out/DONE"
