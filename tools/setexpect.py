#!/usr/bin/env python3
"""usage: setexpect.py <seed name> <expect_rule> [expect_key] | setexpect.py <seed name> --undetectable '<reason>' | --also C07,C10"""
import json, sys
name = sys.argv[1]
fn = '/verif/seeded/%s/meta.json' % name
m = json.load(open(fn))
if sys.argv[2] == '--undetectable':
    m['statically_undetectable_because'] = sys.argv[3]; m['expect_rule'] = ''
elif sys.argv[2] == '--also':
    m['also_checked_by'] = sys.argv[3].split(',')
else:
    m['expect_rule'] = sys.argv[2]; m['expect_key'] = sys.argv[3] if len(sys.argv) > 3 else ''; m['statically_undetectable_because'] = ''
json.dump(m, open(fn, 'w'), indent=1)
