#!/bin/bash
# usage: tools/verify_refactor.sh <dir with patch.diff> <name>
# Confirms a behaviour-preserving patch in a scratch worktree: applies, builds, vets, the ./internal/... suite passes.
set -u
src=$1; name=$2
export GOFLAGS=-mod=mod GOPROXY=off; unset GOWORK
wt=/tmp/vr_$name
git -C /repo worktree remove --force $wt >/dev/null 2>&1
git -C /repo worktree add -q --detach $wt HEAD || exit 2
cd $wt
apply_rc=0; git apply $src/patch.diff || apply_rc=$?
build_rc=0; (go build ./internal/... && go vet ./internal/... ) >/tmp/vr_$name.build.log 2>&1 || build_rc=$?
suite_rc=0; go test -vet=off -count=1 ./internal/... >/tmp/vr_$name.suite.log 2>&1 || suite_rc=$?
for attempt in 2 3; do
  if [ $suite_rc != 0 ] && grep -q "close of closed channel" /tmp/vr_$name.suite.log; then
    suite_rc=0; go test -vet=off -count=1 ./internal/... >/tmp/vr_$name.suite.log 2>&1 || suite_rc=$?
  fi
done
cmd_rc=-1
if grep -q "cmd/pkappa2" $src/patch.diff; then
  mkdir -p web/dist; echo '<html></html>' > web/dist/index.html
  cmd_rc=0; (go vet ./cmd/... && go test -vet=off -count=1 ./cmd/...) >/tmp/vr_$name.cmd.log 2>&1 || cmd_rc=$?
fi
cd /
git -C /repo worktree remove --force $wt
echo "{\"name\":\"$name\",\"apply_rc\":$apply_rc,\"build_rc\":$build_rc,\"suite_rc\":$suite_rc,\"cmd_rc\":$cmd_rc}"
