#!/usr/bin/env python3
"""Regenerates /verif/MANIFEST.json from tools/claims.json (claimed checks) and the fixed
not-applicable reasons. Run after adding a property to the checker's registry."""
import json, os, sys
root = os.path.dirname(os.path.dirname(os.path.abspath(__file__)))
props = [json.loads(l) for l in open(os.path.join(root, 'properties.jsonl'))]
claims = json.load(open(os.path.join(root, 'tools', 'claims.json')))
NA = {
}
checks, na = [], []
for p in props:
    pid = p['id']
    c = claims.get(pid)
    if c is None:
        na.append({"property_id": pid, "reason": NA.get(pid, "static check for this property not built yet; not claimed")})
        continue
    checks.append({
        "property_id": pid,
        "quick_cmd": "bin/check %s quick" % pid,
        "thorough_cmd": "bin/check %s thorough" % pid,
        "evidence_file": "evidence/%s.json" % pid,
        "replay_cmd_template": "bin/check %s quick   # deterministic; the violated obligation is named after '#' in {path}" % pid,
        "engine": "pkcheck",
        "level_claimed": {"category": "other", "text": c["text"], "design_ref": "DESIGN.md §4 " + pid},
        "level_note": c["note"],
        "technique": c["technique"],
    })
m = {
 "version": 1,
 "setup_cmd": "bin/setup",
 "hooks": {"guard": "verif", "enable": "no hooks: the checker only reads /repo's source (go/packages on the working tree)",
           "baseline_off_cmd": "cd /repo && GOFLAGS=-mod=mod go test -json -vet=off -count=1 -timeout 25m ./...",
           "source_commits": [], "add_only": True},
 "engines": [{"name": "pkcheck", "path": "checker", "serves_properties": [c["property_id"] for c in checks],
              "kind_free_text": "repository-specific static analyser (go/packages + go/types + go/cfg + go/ssa + VTA call graph), golang.org/x/tools v0.50.0 on go1.26.8; thorough tier re-runs the rules on in-memory variants (mutants, seeded changes) through packages.Config.Overlay"}],
 "checks": checks,
 "notes": "Static analysis only: every verdict is computed from /repo's current source (type-checked AST, CFG, SSA, call graph); no pkappa2 code is executed. Each claim is a set of structural necessary conditions of the property (level 'other'); what is not decided is stated in each level_note and in DESIGN.md. Known findings: known-findings.json.",
 "not_applicable": na,
}
json.dump(m, open(os.path.join(root, 'MANIFEST.json'), 'w'), indent=1)
print("claimed:", [c["property_id"] for c in checks])
print("not applicable:", [n["property_id"] for n in na])
