#!/bin/bash
# usage: tools/run_probes.sh   — regression over /verif/probes: every probe (a scratch test that failed before the repair
# of a defect and passes after it) is copied into a scratch worktree of /repo HEAD, into the package its `package`
# clause and its imports say, and run; probes with a run.sh are run through it. Prints one line per probe; exit 1 if
# one fails. Not part of the checks (it executes code); used after every repair in /repo.
set -u
export GOFLAGS=-mod=mod GOPROXY=off; unset GOWORK
wt=/tmp/wt_probes_$$
git -C /repo worktree add -q --detach $wt HEAD || exit 2
trap 'cd /; git -C /repo worktree remove --force '$wt' >/dev/null 2>&1' EXIT
rc=0
for d in /verif/probes/*/; do
  name=$(basename $d)
  case $name in open_*) echo "$name skipped (unrepaired finding: fails by design)"; continue;; fuzzers_*) continue;; esac
  if [ -f $d/run.sh ]; then
    bash $d/run.sh $wt > /tmp/probe_$name.log 2>&1; r=$?
  else
    pkgs=""
    for f in $d/*.go; do
      pk=$(grep -m1 "^package" $f | awk '{print $2}')
      dst=$(grep -o "copy into internal/[a-zA-Z/]*" $f | head -1 | sed 's/copy into //')
      if [ -z "$dst" ]; then
        case $pk in
          query) dst=internal/query;; index) dst=internal/index;; manager) dst=internal/index/manager;;
          converters) dst=internal/index/converters;; bitmask) dst=internal/tools/bitmask;; builder) dst=internal/index/builder;;
          regexanalysis) dst=internal/tools/regexAnalysis;;
        esac
      fi
      cp $f $wt/$dst/; pkgs="$pkgs ./$dst/"
    done
    pkgs=$(echo $pkgs | tr ' ' '\n' | sort -u | tr '\n' ' ')
    (cd $wt && timeout 900 go test -count=1 -vet=off -run 'Probe|Hunt|C16|Neg|Hang|Tomb|IDTag|C06|Fuzz' $pkgs > /tmp/probe_$name.log 2>&1); r=$?
    (cd $wt && git clean -fdq)
  fi
  echo "$name rc=$r"
  [ $r -ne 0 ] && rc=1
done
exit $rc
