#!/usr/bin/env python3
"""usage: import_seed.py <agent out dir> <name> '<verify json line>'  — copies a confirmed seeded change into /verif/seeded/<name>/"""
import json, os, shutil, sys
src, name, ver = sys.argv[1], sys.argv[2], json.loads(sys.argv[3])
dst = os.path.join('/verif/seeded', name)
if os.path.exists(dst): shutil.rmtree(dst)
shutil.copytree(src, dst)
m = json.load(open(os.path.join(dst, 'meta.json')))
m.setdefault('expect_rule', '')
m.setdefault('expect_key', '')
m.setdefault('statically_undetectable_because', '')
m.setdefault('also_checked_by', [])
m['confirmed_by_me'] = {"how": "tools/verify_seed.sh in a scratch worktree of /repo HEAD: demo.sh on clean tree, git apply, go build+vet ./internal/..., go test -vet=off -count=1 ./internal/..., demo.sh with patch", "result": ver,
    "repo_head": os.popen('git -C /repo rev-parse --short HEAD').read().strip()}
json.dump(m, open(os.path.join(dst, 'meta.json'), 'w'), indent=1)
print('imported', name)
