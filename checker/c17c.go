package main

// c17c.go: C17-c no-element-pointer-after-shift.
//
// `e := &s[i]` is a pointer to slot i of the backing array, not to the element's value. After the elements of s are
// shifted (s = append(s[:i], s[i+1:]...), slices.Delete/Insert, copy within s) slot i holds a different element, so a
// later read or write through e concerns the wrong run of the set.

import (
	"fmt"
	"go/ast"
	"go/token"
	"go/types"
)

func init() {
	register("C17",
		"C17-c (FLOW): in package bitmask a local pointer to a slice slot (e := &s.entries[i]) is not used after a statement, reachable from its definition, that shifts the elements of that slice (re-assignment of the slice from append over its own sub-slices, slices.Delete/Insert/Replace, copy into itself) unless it is redefined first: after the shift the slot holds another element, so the merged/split run takes a neighbour's bounds.",
		ruleC17StalePtr)
}

func ruleC17StalePtr(p *Prog, r *Res) {
	const rule = "C17-c no-element-pointer-after-shift"
	r.Rule(rule + ": pointers into a slice are dead after the slice's elements are shifted")
	n := 0
	for _, f := range p.FnList {
		if f.Short != "bitmask" || f.Body() == nil {
			continue
		}
		info := f.Pkg.TypesInfo
		fl := p.Flow(f)
		type def struct {
			v     types.Object
			slice string
			node  ast.Node
		}
		var defs []def
		for _, pt := range fl.Find(func(n ast.Node) bool { _, ok := n.(*ast.AssignStmt); return ok }) {
			as := fl.node(pt).(*ast.AssignStmt)
			if len(as.Lhs) != len(as.Rhs) {
				continue
			}
			for i, rh := range as.Rhs {
				ue, ok := ast.Unparen(rh).(*ast.UnaryExpr)
				if !ok || ue.Op != token.AND {
					continue
				}
				ix, ok := ast.Unparen(ue.X).(*ast.IndexExpr)
				if !ok {
					continue
				}
				if _, isSlice := info.TypeOf(ix.X).Underlying().(*types.Slice); !isSlice {
					continue
				}
				if o := identObj(info, as.Lhs[i]); o != nil {
					defs = append(defs, def{o, exprString(p.Fset, ix.X), as})
				}
			}
		}
		for _, d := range defs {
			n++
			key := fmt.Sprintf("%s %s := &%s[…] (line %d)", f.Key(), d.v.Name(), d.slice, lineOf(p.Fset, d.node)-lineOf(p.Fset, f.Node()))
			redef := func(x ast.Node) bool {
				if as, ok := x.(*ast.AssignStmt); ok {
					for _, l := range as.Lhs {
						if sameObj(info, l, d.v) {
							return true
						}
					}
				}
				return false
			}
			shifts := func(x ast.Node) bool {
				hit := false
				inspectShallow(x, func(y ast.Node) bool {
					switch s := y.(type) {
					case *ast.AssignStmt:
						for i, l := range s.Lhs {
							if exprString(p.Fset, l) != d.slice || i >= len(s.Rhs) {
								continue
							}
							// re-assignment from an expression that mentions a sub-slice of itself
							ast.Inspect(s.Rhs[i], func(z ast.Node) bool {
								if se, ok := z.(*ast.SliceExpr); ok && exprString(p.Fset, se.X) == d.slice {
									hit = true
								}
								if c, ok := z.(*ast.CallExpr); ok {
									if fn := p.Callee(f.Pkg, c); fn != nil && fn.Pkg() != nil && fn.Pkg().Path() == "slices" {
										switch fn.Name() {
										case "Delete", "Insert", "Replace", "DeleteFunc", "Compact", "CompactFunc":
											hit = true
										}
									}
								}
								return true
							})
						}
					case *ast.CallExpr:
						if isBuiltin(info, s, "copy") && len(s.Args) == 2 {
							if se, ok := ast.Unparen(s.Args[0]).(*ast.SliceExpr); ok && exprString(p.Fset, se.X) == d.slice {
								hit = true
							}
						}
					}
					return !hit
				})
				return hit
			}
			uses := func(x ast.Node) bool {
				found := false
				inspectShallow(x, func(y ast.Node) bool {
					if id, ok := y.(*ast.Ident); ok && info.Uses[id] == d.v {
						found = true
					}
					return !found
				})
				return found
			}
			dpt, _ := fl.PointOf(d.node)
			bad := false
			for _, spt := range fl.Find(shifts) {
				sn := fl.node(spt)
				if !fl.Reach([]Pt{After(dpt)}, func(x ast.Node) bool { return x == sn }, redef).Found {
					continue
				}
				// the shifting statement itself may read through the pointer on its right-hand side: that is before the shift
				if res := fl.Reach([]Pt{After(spt)}, uses, redef); res.Found {
					bad = true
					r.Bad(rule, key, p.Pos(res.End), fmt.Sprintf("%s points at a slot of %s; the elements are shifted at line %d and %s is used afterwards (line %d): the slot now holds a different run", d.v.Name(), d.slice, lineOf(p.Fset, sn), d.v.Name(), lineOf(p.Fset, res.End)))
					break
				}
			}
			if !bad {
				r.Ok(rule, key, p.Pos(d.node), "not used after a shift of "+d.slice)
			}
		}
	}
	r.Floor(rule, 5, n)
}
