package main

// c16p.go: two rules about the ways a converter's output goes out of date without an import.
//
// C16-p every "the file has new content" event restarts a registered converter.
//
// The converter directory is watched. New content reaches an executable in three ways, and fsnotify names them
// differently: written in place (Write), made executable (Chmod), or — what mv, rsync, install and sed -i do — written
// next to it and renamed over it, which arrives as a single Create for the existing name. The handler restarted the
// converter for Write and Chmod; for Create it called addConverter, which answers "already exists", and returned: old
// processes and old cached output stayed, processes started later ran the new version, one converter then showed
// output of two versions (#71, probes/c16_converter_replaced_by_rename).
//
// Rule (callee summary): in a function of package manager every positive test of an fsnotify operation that means new
// content — Create, Write, Chmod — guards, somewhere in the function, a call that reaches CachedConverter.Reset
// (within package manager, depth ≤ 3).
//
// C16-q detaching a converter drops the output only the tag had asked for.
//
// "Detaching stops further runs": a stream stays subscribed to a converter as long as its output is cached — an import
// that extends it drops the output and queues the stream again (invalidateConverters), whether or not a tag still asks
// for it. detachConverterFromTag emptied the cache when no other tag used the converter, and otherwise only took the
// streams off the queue (a TODO): conv attached to tag/all and tag/one, detached from tag/all, stream 1 (not in tag/one)
// extended by an import → the converter ran for stream 1 again (#72, probes/c16_detach_leaves_streams_subscribed).
//
// Rule (FLOW, case split on repeated conditions): in a function of package manager that removes an element from a
// tag's converters list every path to a return passes a call of a CachedConverter method that drops records — it reaches,
// within package converters (depth ≤ 2), a cacheFile method that deletes from or replaces cacheFile.streamInfos.

import (
	"fmt"
	"go/ast"
	"go/token"
	"go/types"
	"sort"
	"strings"

	"golang.org/x/tools/go/cfg"
)

// dropsRecordsSummary: methods of CachedConverter that reach (depth ≤ 2 within package converters) a cacheFile method
// which deletes from or replaces the record table cacheFile.streamInfos.
func dropsRecordsSummary(p *Prog) map[*types.Func]string {
	infos := p.Field("converters", "cacheFile", "streamInfos")
	out := map[*types.Func]string{}
	if infos == nil {
		return out
	}
	direct := map[*Fn]bool{}
	for _, g := range p.FnList {
		if g.Short != "converters" || g.Lit != nil || g.Decl == nil || g.Decl.Recv == nil || g.Body() == nil || recvTypeName(g.Decl.Recv.List[0].Type) != "cacheFile" {
			continue
		}
		info := g.Pkg.TypesInfo
		inspectShallow(g.Body(), func(x ast.Node) bool {
			switch s := x.(type) {
			case *ast.CallExpr:
				if isBuiltin(info, s, "delete") && len(s.Args) == 2 && isFieldOf(info, s.Args[0], infos) {
					direct[g] = true
				}
				if isBuiltin(info, s, "clear") && len(s.Args) == 1 && isFieldOf(info, s.Args[0], infos) {
					direct[g] = true
				}
			case *ast.AssignStmt:
				for _, l := range s.Lhs {
					if isFieldOf(info, l, infos) {
						direct[g] = true
					}
				}
			}
			return true
		})
	}
	var reaches func(g *Fn, d int, seen map[*Fn]bool) bool
	reaches = func(g *Fn, d int, seen map[*Fn]bool) bool {
		if g == nil || g.Body() == nil || seen[g] {
			return false
		}
		seen[g] = true
		if direct[g] {
			return true
		}
		if d == 0 {
			return false
		}
		for _, c := range callsIn(g.Body()) {
			if fn := p.Callee(g.Pkg, c); fn != nil {
				if h := p.FnOfObj(fn); h != nil && h.Short == "converters" && reaches(h, d-1, seen) {
					return true
				}
			}
		}
		return false
	}
	for _, g := range p.FnList {
		if g.Short != "converters" || g.Lit != nil || g.Decl == nil || g.Decl.Recv == nil || g.Body() == nil || recvTypeName(g.Decl.Recv.List[0].Type) != "CachedConverter" {
			continue
		}
		gobj, _ := g.Pkg.TypesInfo.Defs[g.Decl.Name].(*types.Func)
		if gobj != nil && reaches(g, 3, map[*Fn]bool{}) {
			out[gobj.Origin()] = "CachedConverter." + gobj.Name()
		}
	}
	return out
}

// stableConds: conditions that are tested more than once in f and whose operands nothing else mentions after the first
// test: they have the same value at every test, a path that takes them differently is infeasible. Returned by text.
func stableConds(fl *Flow) []string {
	info := fl.F.Pkg.TypesInfo
	type occ struct {
		n   ast.Expr
		pos token.Pos
	}
	byText := map[string][]occ{}
	for _, b := range fl.G.Blocks {
		if !b.Live || len(b.Succs) != 2 || len(b.Nodes) == 0 {
			continue
		}
		e, ok := b.Nodes[len(b.Nodes)-1].(ast.Expr)
		if !ok {
			continue
		}
		core, _ := condCore(e)
		byText[core] = append(byText[core], occ{e, e.Pos()})
	}
	var out []string
	for txt, os := range byText {
		if len(os) < 2 {
			continue
		}
		// operands: identifiers of local variables; calls only of methods on them (IsZero and the like)
		objs := map[types.Object]bool{}
		pure := true
		ast.Inspect(os[0].n, func(x ast.Node) bool {
			switch s := x.(type) {
			case *ast.Ident:
				if v, ok := info.Uses[s].(*types.Var); ok && !v.IsField() {
					if v.Parent() == nil || v.Parent() == v.Pkg().Scope() {
						pure = false
					}
					objs[v] = true
				}
			case *ast.FuncLit:
				pure = false
			}
			return true
		})
		if !pure || len(objs) == 0 {
			continue
		}
		first := os[0].pos
		inCond := map[ast.Node]bool{}
		for _, o := range os {
			if o.pos < first {
				first = o.pos
			}
			inCond[o.n] = true
		}
		stable := true
		var walk func(n ast.Node)
		walk = func(n ast.Node) {
			ast.Inspect(n, func(x ast.Node) bool {
				if x == nil || !stable {
					return false
				}
				if e, ok := x.(ast.Expr); ok && inCond[e] {
					return false
				}
				if id, ok := x.(*ast.Ident); ok && id.Pos() > first {
					if o := info.Uses[id]; o != nil && objs[o] {
						stable = false
					}
				}
				return true
			})
		}
		walk(fl.F.Body())
		if stable {
			out = append(out, txt)
		}
	}
	sort.Strings(out)
	return out
}

// mustPassSplit is MustPass with a case split on the stable repeated conditions of the function: a path counts only
// if it takes every stable condition the same way at each of its tests.
func mustPassSplit(fl *Flow, pass func(ast.Node) bool) pathResult {
	conds := stableConds(fl)
	if len(conds) == 0 || len(conds) > 4 {
		return fl.MustPass(pass)
	}
	old := fl.EdgeOK
	defer func() { fl.EdgeOK = old }()
	var worst pathResult
	for m := 0; m < 1<<len(conds); m++ {
		val := map[string]bool{}
		for i, c := range conds {
			val[c] = m&(1<<i) != 0
		}
		fl.EdgeOK = func(b *cfg.Block, succ int) bool {
			if old != nil && !old(b, succ) {
				return false
			}
			if len(b.Succs) != 2 || len(b.Nodes) == 0 {
				return true
			}
			e, ok := b.Nodes[len(b.Nodes)-1].(ast.Expr)
			if !ok {
				return true
			}
			core, neg := condCore(e)
			v, ok := val[core]
			if !ok {
				return true
			}
			return (v != neg) == (succ == 0)
		}
		if res := fl.MustPass(pass); res.Found {
			worst = res
			break
		}
	}
	return worst
}

func exprText(e ast.Expr) string { return types.ExprString(e) }

// condCore strips negations: the text of the condition without leading "!" and whether an odd number was stripped.
func condCore(e ast.Expr) (string, bool) {
	neg := false
	for {
		e = ast.Unparen(e)
		u, ok := e.(*ast.UnaryExpr)
		if !ok || u.Op != token.NOT {
			break
		}
		neg = !neg
		e = u.X
	}
	return types.ExprString(e), neg
}

func init() {
	register("C16",
		"C16-p (callee summary): in a function of package manager every positive test of an fsnotify operation that means the file has new content — Create, Write, Chmod — guards a call that reaches CachedConverter.Reset (within package manager, depth ≤ 3). A new version moved over the executable (mv, rsync, install, sed -i) arrives as one Create event for a registered name; handled with addConverter alone it is answered \"already exists\", the old processes and the old output stay and one converter shows output of two versions.",
		func(p *Prog, r *Res) {
			const rule = "C16-p new-content-event-restarts-converter"
			r.Rule(rule + ": Create, Write and Chmod events each reach a restart of the registered converter")
			reset := p.Method("converters", "CachedConverter", "Reset")
			if reset == nil {
				p.anchorFail("converters.CachedConverter.Reset")
				return
			}
			restarts := map[*Fn]bool{}
			var reaches func(g *Fn, d int, seen map[*Fn]bool) bool
			reaches = func(g *Fn, d int, seen map[*Fn]bool) bool {
				if g == nil || g.Body() == nil || seen[g] {
					return false
				}
				seen[g] = true
				for _, c := range callsIn(g.Body()) {
					fn := p.Callee(g.Pkg, c)
					if fn == nil {
						continue
					}
					if fn.Origin() == reset {
						return true
					}
					if d > 0 {
						if h := p.FnOfObj(fn); h != nil && h.Short == "manager" && h.Lit == nil && reaches(h, d-1, seen) {
							return true
						}
					}
				}
				return false
			}
			for _, g := range p.FnList {
				if g.Short == "manager" && g.Lit == nil && reaches(g, 3, map[*Fn]bool{}) {
					restarts[g] = true
				}
			}
			ops := []string{"Create", "Write", "Chmod"}
			n := 0
			for _, f := range p.FnList {
				if f.Short != "manager" || f.Lit != nil || f.Body() == nil {
					continue
				}
				info := f.Pkg.TypesInfo
				opOf := func(e ast.Expr) string {
					se, ok := ast.Unparen(e).(*ast.SelectorExpr)
					if !ok {
						return ""
					}
					c, ok := info.Uses[se.Sel].(*types.Const)
					if !ok || c.Pkg() == nil || !strings.HasSuffix(c.Pkg().Path(), "fsnotify/fsnotify") {
						return ""
					}
					for _, o := range ops {
						if c.Name() == o {
							return o
						}
					}
					return ""
				}
				// positive mentions of an operation in a condition: not below a "!", not on the != 0 … == 0 side
				var positive func(e ast.Expr, neg bool, out map[string]bool)
				positive = func(e ast.Expr, neg bool, out map[string]bool) {
					switch s := ast.Unparen(e).(type) {
					case *ast.UnaryExpr:
						if s.Op == token.NOT {
							positive(s.X, !neg, out)
							return
						}
					case *ast.BinaryExpr:
						if s.Op == token.LAND || s.Op == token.LOR {
							positive(s.X, neg, out)
							positive(s.Y, neg, out)
							return
						}
						if s.Op == token.EQL && isZeroLit(s.Y) {
							positive(s.X, !neg, out)
							return
						}
						if s.Op == token.NEQ && isZeroLit(s.Y) {
							positive(s.X, neg, out)
							return
						}
					}
					if neg {
						return
					}
					ast.Inspect(e, func(x ast.Node) bool {
						if ex, ok := x.(ast.Expr); ok {
							if o := opOf(ex); o != "" {
								out[o] = true
							}
						}
						return true
					})
				}
				// local closures of the function (`restart := func() {…}`): a call of one is a call of its body
				localLits := map[types.Object]*ast.FuncLit{}
				ast.Inspect(f.Body(), func(x ast.Node) bool {
					if as, ok := x.(*ast.AssignStmt); ok && len(as.Lhs) == len(as.Rhs) {
						for i, rh := range as.Rhs {
							if fl, ok := ast.Unparen(rh).(*ast.FuncLit); ok {
								if o := identObj(info, as.Lhs[i]); o != nil {
									localLits[o] = fl
								}
							}
						}
					}
					return true
				})
				var bodyRestartsD func(body ast.Node, depth int) bool
				bodyRestartsD = func(body ast.Node, depth int) bool {
					hit := false
					ast.Inspect(body, func(x ast.Node) bool {
						if c, ok := x.(*ast.CallExpr); ok && !hit {
							if fn := p.Callee(f.Pkg, c); fn != nil {
								if fn.Origin() == reset || restarts[p.FnOfObj(fn)] {
									hit = true
								}
							} else if fl := localLits[identObj(info, c.Fun)]; fl != nil && depth < 2 {
								if bodyRestartsD(fl.Body, depth+1) {
									hit = true
								}
							}
						}
						return !hit
					})
					return hit
				}
				bodyRestarts := func(body ast.Node) bool { return bodyRestartsD(body, 0) }
				seenOp := map[string]ast.Node{}
				okOp := map[string]bool{}
				ast.Inspect(f.Body(), func(x ast.Node) bool {
					switch s := x.(type) {
					case *ast.IfStmt:
						got := map[string]bool{}
						positive(s.Cond, false, got)
						for o := range got {
							if seenOp[o] == nil {
								seenOp[o] = s
							}
							if bodyRestarts(s.Body) {
								okOp[o] = true
							}
						}
					case *ast.CaseClause:
						got := map[string]bool{}
						for _, e := range s.List {
							positive(e, false, got)
						}
						for o := range got {
							if seenOp[o] == nil {
								seenOp[o] = s
							}
							for _, st := range s.Body {
								if bodyRestarts(st) {
									okOp[o] = true
								}
							}
						}
					}
					return true
				})
				for _, o := range ops {
					at := seenOp[o]
					if at == nil {
						continue
					}
					n++
					key := fmt.Sprintf("%s handles fsnotify.%s", f.Key(), o)
					r.Check(okOp[o], rule, key, p.Pos(at), "guards a call that reaches CachedConverter.Reset", "no branch taken for a "+o+" event reaches a restart of the converter: new content that arrives this way (for Create: a file moved over the executable of a registered converter) leaves the old processes and the old cached output in place, streams keep the output of the old version and processes started later run the new one")
				}
			}
			r.Floor(rule, 3, n)
		})

	register("C16",
		"C16-q (FLOW, case split on repeated conditions): in a function of package manager that removes an element from a tag's converters list every path to a return passes a call of a CachedConverter method that drops records (it reaches, within package converters, a cacheFile method that deletes from or replaces cacheFile.streamInfos). A stream is subscribed to a converter as long as its output is cached: an import that extends it drops the output and queues it again, whether or not a tag still asks for it — output left behind by a detach makes the detached converter run again.",
		func(p *Prog, r *Res) {
			const rule = "C16-q detach-drops-output-of-its-streams"
			r.Rule(rule + ": removing a converter from a tag drops cached output on every path")
			convs := p.Field("manager", "tag", "converters")
			if convs == nil {
				p.anchorFail("manager.tag.converters")
				return
			}
			drops := dropsRecordsSummary(p)
			var names []string
			for _, w := range drops {
				names = append(names, w)
			}
			sort.Strings(names)
			r.Note("%s: record-dropping methods: %s", rule, strings.Join(names, ", "))
			if len(drops) < 2 {
				p.anchorFail("fewer than two CachedConverter methods drop records (Reset, InvalidateChangedStreams expected)")
				return
			}
			n := 0
			for _, f := range p.FnList {
				if f.Short != "manager" || f.Lit != nil || f.Body() == nil {
					continue
				}
				info := f.Pkg.TypesInfo
				removes := false
				inspectShallow(f.Body(), func(x ast.Node) bool {
					as, ok := x.(*ast.AssignStmt)
					if !ok || len(as.Lhs) != 1 || len(as.Rhs) != 1 || !isFieldOf(info, as.Lhs[0], convs) {
						return true
					}
					ast.Inspect(as.Rhs[0], func(y ast.Node) bool {
						if se, ok := y.(*ast.SliceExpr); ok && isFieldOf(info, se.X, convs) {
							removes = true
						}
						return true
					})
					return true
				})
				if !removes {
					continue
				}
				n++
				fl := p.Flow(f)
				isDrop := func(m ast.Node) bool {
					hit := false
					inspectShallow(m, func(x ast.Node) bool {
						if c, ok := x.(*ast.CallExpr); ok {
							if fn := p.Callee(f.Pkg, c); fn != nil {
								if _, ok := drops[fn.Origin()]; ok {
									hit = true
								}
							}
						}
						return !hit
					})
					return hit
				}
				res := mustPassSplit(fl, isDrop)
				key := fmt.Sprintf("%s removes a converter from a tag", f.Key())
				r.Check(!res.Found, rule, key, p.Pos(f.Node()), "every path to a return drops cached output of the converter", "a return is reached without any cached output being dropped ("+fl.traceString(res)+"): the streams only this tag had asked for keep their output, the next import that extends one of them drops it and queues the stream again — the detached converter runs for a stream no tag asks it for")
			}
			r.Floor(rule, 1, n)
		})
}
