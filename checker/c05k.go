package main

// c05k.go: C05-k bytes borrowed from the reassembler are copied before they are kept.
//
// gopacket's reassembler hands payload to Stream.ReassembledSG through a ScatterGather that it reuses after the call:
// "it's important to copy anything you need out of it, especially bytes". Fetch returns the packet's own bytes when the
// data arrived in order — and a slice of a pooled buffer page when it comes out of the out-of-order buffer (a hole that
// is given up by FlushCloseOlderThan). Stream.ReassembledSG stored the fetched slice in Stream.Data as it was; the next
// buffered segment of ANY connection on the same assembler reused the page, and since FromPcap writes streams only at
// the end of the import, connection A was stored with "GET /index.html … sent by connection B" in place of its
// "user=alice&password=…" (#76, probes/c05_fetched_bytes_copied).
//
// Rule (typed AST, value uses): the result of a call of a method of a type of package gopacket/reassembly that returns
// []byte is only read or copied — spread into append, source of copy, bytes.Clone / slices.Clone, converted to string,
// len/cap, indexed, ranged over — directly or through a local variable all of whose uses are of these kinds. Anything
// else (stored in a field or composite literal, appended as an element, returned, passed on) keeps a borrowed buffer.

import (
	"fmt"
	"go/ast"
	"go/token"
	"go/types"
	"strings"
)

func init() {
	register("C05",
		"C05-k (typed AST, value uses): the []byte result of a method of a type of package gopacket/reassembly (ScatterGather.Fetch) is only read or copied — spread into append, source of copy, bytes.Clone / slices.Clone, converted to a string, len/cap, indexed, ranged over — directly or through a local variable all of whose uses are of these kinds. The reassembler reuses its ScatterGather and recycles the pages of its out-of-order buffer after ReassembledSG returns; a fetched slice that is stored as it is shows, at the end of the import, the bytes of whatever segment used the page last — payload of another connection.",
		func(p *Prog, r *Res) {
			const rule = "C05-k borrowed-bytes-are-copied"
			r.Rule(rule + ": bytes fetched from the reassembler are copied before they are kept")
			n := 0
			for _, f := range p.FnList {
				if f.Body() == nil {
					continue
				}
				switch f.Short {
				case "streams", "udpreassembly", "builder", "index":
				default:
					continue
				}
				info := f.Pkg.TypesInfo
				isSource := func(c *ast.CallExpr) bool {
					fn := p.Callee(f.Pkg, c)
					if fn == nil || fn.Pkg() == nil || !strings.HasSuffix(fn.Pkg().Path(), "gopacket/reassembly") {
						return false
					}
					sig, _ := fn.Type().(*types.Signature)
					if sig == nil || sig.Recv() == nil || sig.Results().Len() != 1 {
						return false
					}
					return types.TypeString(sig.Results().At(0).Type(), nil) == "[]byte"
				}
				// classify the use of expression e (a borrowed slice) given its parents
				var useOK func(e ast.Expr, parents []ast.Node, depth int) (bool, string)
				useOK = func(e ast.Expr, parents []ast.Node, depth int) (bool, string) {
					if len(parents) == 0 {
						return false, "used in an unknown way"
					}
					par := parents[len(parents)-1]
					switch s := par.(type) {
					case *ast.ParenExpr:
						return useOK(s, parents[:len(parents)-1], depth)
					case *ast.CallExpr:
						if ast.Unparen(s.Fun) == e {
							return true, ""
						}
						if isBuiltin(info, s, "append") {
							if s.Ellipsis.IsValid() && len(s.Args) >= 2 && ast.Unparen(s.Args[len(s.Args)-1]) == ast.Unparen(e) {
								return true, ""
							}
							return false, "appended as it is (the slice, not its bytes)"
						}
						if isBuiltin(info, s, "copy") && len(s.Args) == 2 && ast.Unparen(s.Args[1]) == ast.Unparen(e) {
							return true, ""
						}
						if isBuiltin(info, s, "len") || isBuiltin(info, s, "cap") {
							return true, ""
						}
						if tv, ok := info.Types[s.Fun]; ok && tv.IsType() {
							if b, ok := tv.Type.Underlying().(*types.Basic); ok && b.Info()&types.IsString != 0 {
								return true, ""
							}
							return false, "converted to another slice type (still the same bytes)"
						}
						if fn := p.Callee(f.Pkg, s); fn != nil {
							switch fn.FullName() {
							case "bytes.Clone", "slices.Clone", "bytes.Equal", "bytes.Contains", "bytes.Index", "bytes.HasPrefix", "bytes.HasSuffix", "bytes.Compare", "bytes.IndexByte", "bytes.Count":
								return true, ""
							}
							return false, "passed to " + fn.FullName()
						}
						return false, "passed to a function value"
					case *ast.IndexExpr:
						if ast.Unparen(s.X) == ast.Unparen(e) {
							// an element read; an element store writes into the borrowed buffer, which is not keeping it
							return true, ""
						}
						return true, ""
					case *ast.RangeStmt:
						if s.X == e {
							return true, ""
						}
					case *ast.BinaryExpr:
						return true, "" // comparison with nil
					case *ast.AssignStmt, *ast.ValueSpec:
						if depth >= 2 {
							return false, "copied from local to local"
						}
						var lhs []ast.Expr
						var rhs []ast.Expr
						if as, ok := par.(*ast.AssignStmt); ok {
							lhs, rhs = as.Lhs, as.Rhs
						} else {
							vs := par.(*ast.ValueSpec)
							for _, nm := range vs.Names {
								lhs = append(lhs, nm)
							}
							rhs = vs.Values
						}
						if len(lhs) != len(rhs) {
							return false, "assigned in a multi-value assignment"
						}
						for i, rh := range rhs {
							if ast.Unparen(rh) != ast.Unparen(e) {
								continue
							}
							id, ok := ast.Unparen(lhs[i]).(*ast.Ident)
							if !ok {
								return false, "stored in " + types.ExprString(lhs[i])
							}
							if id.Name == "_" {
								return true, ""
							}
							obj := info.Defs[id]
							if obj == nil {
								obj = info.Uses[id]
							}
							v, _ := obj.(*types.Var)
							if v == nil || v.IsField() || v.Parent() == nil || v.Parent() == v.Pkg().Scope() {
								return false, "stored in " + id.Name
							}
							// every use of the local
							bad := ""
							inspectParents(f.Body(), func(x ast.Node, ps []ast.Node) bool {
								uid, ok := x.(*ast.Ident)
								if !ok || bad != "" || info.Uses[uid] != types.Object(v) {
									return true
								}
								// the left side of a later assignment to the local is not a use of the bytes
								if as, ok := ps[len(ps)-1].(*ast.AssignStmt); ok {
									for _, l := range as.Lhs {
										if l == ast.Expr(uid) {
											return true
										}
									}
								}
								if ok2, why := useOK(uid, ps, depth+1); !ok2 {
									bad = fmt.Sprintf("local %s is %s (%s)", v.Name(), why, p.Pos(uid))
								}
								return true
							})
							if bad != "" {
								return false, bad
							}
							return true, ""
						}
					case *ast.KeyValueExpr, *ast.CompositeLit:
						return false, "stored in a composite literal"
					case *ast.ReturnStmt:
						return false, "returned"
					case *ast.SliceExpr:
						return useOK(s, parents[:len(parents)-1], depth)
					case *ast.ExprStmt:
						return true, ""
					}
					return false, fmt.Sprintf("used in a %T", par)
				}
				inspectParents(f.Body(), func(x ast.Node, parents []ast.Node) bool {
					c, ok := x.(*ast.CallExpr)
					if !ok || !isSource(c) {
						return true
					}
					n++
					ok2, why := useOK(c, parents, 0)
					key := fmt.Sprintf("%s %s", f.Key(), types.ExprString(c.Fun))
					r.Check(ok2, rule, key, p.Pos(c), "only read or copied", "the fetched slice is "+why+": it may point into a page of the reassembler's out-of-order buffer that is recycled after ReassembledSG returns; the stream is written at the end of the import with the bytes of whatever segment — of any connection — used the page last")
					return true
				})
			}
			_ = token.NoPos
			r.Floor(rule, 1, n)
		})
}
