package main

// units.go: UNITS — bytes versus hosts in the host tables of an index file (DESIGN §3.3).
//
// Dimensions: B bytes, H hosts, S bytes-per-host (the stride), N a plain number. Values that count hosts also
// carry a bias: hostGroupEntry.Count stores (hosts − 1), so writer and reader must agree on where the ±1 goes.

import (
	"fmt"
	"go/ast"
	"go/constant"
	"go/token"
	"go/types"
	"strings"
)

type udim int

const (
	dU udim = iota // unknown
	dN             // dimensionless number (literal)
	dB             // bytes
	dH             // hosts
	dS             // bytes per host
)

func (d udim) String() string { return [...]string{"?", "number", "bytes", "hosts", "bytes/host"}[d] }

type uval struct {
	d         udim
	bias      int // for H: value = true host count + bias
	biasKnown bool
	lit       int64
	isLit     bool
}

type unitsCtx struct {
	p       *Prog
	f       *Fn // function being analysed (root declaration for variable lookup)
	info    *types.Info
	varMemo map[types.Object]*uval
	inProg  map[types.Object]bool
	hbMemo  map[types.Object]int // 1 in progress, 2 yes, 3 no
}

func isHostGroupType(t types.Type) bool {
	n := namedOf(t)
	return n != nil && (n.Obj().Name() == "hostGroup" || n.Obj().Name() == "readerHostGroup")
}

// hostBytes: e denotes (a slice of) a host table.
func (u *unitsCtx) hostBytes(e ast.Expr) bool {
	e = ast.Unparen(e)
	switch x := e.(type) {
	case *ast.SelectorExpr:
		return x.Sel.Name == "hosts" && isHostGroupType(u.info.TypeOf(x.X))
	case *ast.SliceExpr:
		return u.hostBytes(x.X)
	case *ast.Ident:
		obj := u.info.ObjectOf(x)
		if obj == nil || !isSliceType(obj.Type()) {
			return false
		}
		if u.hbMemo == nil {
			u.hbMemo = map[types.Object]int{}
		}
		switch u.hbMemo[obj] {
		case 1, 3:
			return false
		case 2:
			return true
		}
		u.hbMemo[obj] = 1
		defer func() {
			if u.hbMemo[obj] == 1 {
				u.hbMemo[obj] = 3
			}
		}()
		hb := false
		root := u.f.Root()
		ast.Inspect(root.Body(), func(n ast.Node) bool {
			if as, ok := n.(*ast.AssignStmt); ok {
				for i, l := range as.Lhs {
					if sameObj(u.info, l, obj) && i < len(as.Rhs) {
						r := ast.Unparen(as.Rhs[i])
						if id, ok := r.(*ast.Ident); ok && u.info.ObjectOf(id) == obj {
							continue
						}
						if sl, ok := r.(*ast.SliceExpr); ok && sameObj(u.info, sliceBase(sl), obj) {
							continue
						}
						if u.hostBytesRHS(r) {
							hb = true
						}
					}
				}
			}
			return true
		})
		if hb {
			u.hbMemo[obj] = 2
		}
		return hb
	}
	return false
}

func (u *unitsCtx) hostBytesRHS(r ast.Expr) bool {
	if c, ok := r.(*ast.CallExpr); ok && isBuiltin(u.info, c, "make") && len(c.Args) >= 2 {
		s := types.ExprString(c.Args[1])
		return strings.Contains(s, "sectionV4Hosts") || strings.Contains(s, "sectionV6Hosts")
	}
	if c, ok := r.(*ast.CallExpr); ok && isBuiltin(u.info, c, "append") && len(c.Args) >= 2 {
		return u.hostBytes(c.Args[1]) || u.hostBytes(c.Args[0])
	}
	return u.hostBytes(r)
}

func (u *unitsCtx) eval(e ast.Expr) uval {
	e = ast.Unparen(e)
	if tv, ok := u.info.Types[e]; ok && tv.Value != nil && tv.Value.Kind() == constant.Int {
		v, _ := constant.Int64Val(tv.Value)
		return uval{d: dN, lit: v, isLit: true, biasKnown: true}
	}
	switch x := e.(type) {
	case *ast.CallExpr:
		if tv, ok := u.info.Types[x.Fun]; ok && tv.IsType() && len(x.Args) == 1 {
			return u.eval(x.Args[0]) // conversion
		}
		if isBuiltin(u.info, x, "len") && len(x.Args) == 1 {
			if u.hostBytes(x.Args[0]) {
				return uval{d: dB, biasKnown: true}
			}
			// len(host) of one address
			if id, ok := ast.Unparen(x.Args[0]).(*ast.Ident); ok {
				if obj := u.info.ObjectOf(id); obj != nil && isSliceType(obj.Type()) && paramIndexDeep(u.f, obj) >= 0 && u.f.Root().Name == "hostGroup.add" {
					return uval{d: dS, biasKnown: true}
				}
			}
		}
		return uval{}
	case *ast.SelectorExpr:
		if v, ok := u.info.Uses[x.Sel].(*types.Var); ok && v.IsField() {
			owner := namedOf(u.info.TypeOf(x.X))
			on := ""
			if owner != nil {
				on = owner.Obj().Name()
			}
			switch {
			case x.Sel.Name == "hostSize" && isHostGroupType(u.info.TypeOf(x.X)):
				return uval{d: dS, biasKnown: true}
			case x.Sel.Name == "hostCount" && on == "readerHostGroup":
				return uval{d: dH, biasKnown: true}
			case on == "hostGroupEntry" && x.Sel.Name == "Count":
				return uval{d: dH, bias: -1, biasKnown: true}
			case on == "hostGroupEntry" && x.Sel.Name == "Start":
				return uval{d: dH, biasKnown: true}
			case (on == "stream" || on == "Stream") && (x.Sel.Name == "ClientHost" || x.Sel.Name == "ServerHost"):
				return uval{d: dH, biasKnown: true}
			case x.Sel.Name == "nAdded":
				return uval{d: dH, biasKnown: true}
			}
		}
		return uval{}
	case *ast.Ident:
		obj := u.info.ObjectOf(x)
		if obj == nil {
			return uval{}
		}
		return u.varVal(obj)
	case *ast.BinaryExpr:
		a, b := u.eval(x.X), u.eval(x.Y)
		switch x.Op {
		case token.MUL:
			if (a.d == dH && b.d == dS) || (a.d == dS && b.d == dH) {
				h := a
				if b.d == dH {
					h = b
				}
				if h.biasKnown && h.bias == 0 {
					return uval{d: dB, biasKnown: true}
				}
				return uval{d: dB} // (hosts+bias)*stride: bytes, but not the bytes of the whole table
			}
			if a.d == dN && a.isLit {
				return b
			}
			if b.d == dN && b.isLit {
				return a
			}
		case token.QUO:
			if a.d == dB && b.d == dS {
				return uval{d: dH, biasKnown: a.biasKnown}
			}
		case token.ADD, token.SUB:
			sign := 1
			if x.Op == token.SUB {
				sign = -1
			}
			switch {
			case a.d == dH && b.d == dN && b.isLit:
				return uval{d: dH, bias: a.bias + sign*int(b.lit), biasKnown: a.biasKnown}
			case a.d == dN && a.isLit && b.d == dH && x.Op == token.ADD:
				return uval{d: dH, bias: b.bias + int(a.lit), biasKnown: b.biasKnown}
			case a.d == dH && b.d == dH:
				return uval{d: dH, bias: a.bias + sign*b.bias, biasKnown: a.biasKnown && b.biasKnown}
			case a.d == dB && (b.d == dB || b.d == dS):
				return uval{d: dB, biasKnown: a.biasKnown && b.biasKnown}
			case a.d == dS && b.d == dB && x.Op == token.ADD:
				return uval{d: dB, biasKnown: true}
			case a.d == dB && b.d == dN && b.isLit && b.lit == 0:
				return a
			case a.d == dB && b.d == dN:
				return uval{d: dU} // bytes ± a bare number: not stride aligned
			case a.d == dB && b.d == dH:
				return uval{d: dU}
			}
		}
		return uval{}
	}
	return uval{}
}

// varVal infers the dimension of a local variable / parameter from what flows into it.
func (u *unitsCtx) varVal(obj types.Object) uval {
	if v, ok := u.varMemo[obj]; ok {
		return *v
	}
	if u.inProg[obj] {
		return uval{d: dN, isLit: false}
	}
	u.inProg[obj] = true
	defer delete(u.inProg, obj)
	root := u.f.Root()
	var contrib []uval
	add := func(v uval) {
		if v.d == dU || (v.d == dN) {
			if v.d == dN {
				contrib = append(contrib, v)
			}
			return
		}
		contrib = append(contrib, v)
	}
	// parameters of known meaning
	if pi := paramIndexDeep(u.f, obj); pi >= 0 {
		switch root.Name {
		case "hostGroup.popN":
			add(uval{d: dH, biasKnown: true})
		case "readerHostGroup.get":
			add(uval{d: dH, biasKnown: true})
		}
	}
	ast.Inspect(root.Body(), func(n ast.Node) bool {
		switch s := n.(type) {
		case *ast.AssignStmt:
			for i, l := range s.Lhs {
				if !sameObj(u.info, l, obj) || i >= len(s.Rhs) {
					continue
				}
				v := u.eval(s.Rhs[i])
				switch s.Tok {
				case token.ADD_ASSIGN, token.SUB_ASSIGN:
					if v.d == dS {
						add(uval{d: dB, biasKnown: true}) // accumulating strides counts bytes
					} else {
						add(v)
					}
				default:
					add(v)
				}
			}
		case *ast.BinaryExpr:
			// comparisons give a hint for variables initialised with a literal
			switch s.Op {
			case token.LSS, token.LEQ, token.GTR, token.GEQ, token.EQL, token.NEQ:
				if sameObj(u.info, s.X, obj) {
					if v := u.eval(s.Y); v.d == dH || v.d == dB {
						add(uval{d: v.d, biasKnown: false})
					}
				}
			}
		case *ast.ValueSpec:
			for i, id := range s.Names {
				if u.info.Defs[id] == obj && i < len(s.Values) {
					add(u.eval(s.Values[i]))
				}
			}
		}
		return true
	})
	res := uval{d: dN, biasKnown: true}
	first := true
	for _, c := range contrib {
		if c.d == dN {
			continue
		}
		if first {
			res = uval{d: c.d, bias: c.bias, biasKnown: c.biasKnown}
			first = false
			continue
		}
		if res.d != c.d {
			res = uval{d: dU}
			break
		}
		if !c.biasKnown {
			// a comparison hint: keeps the dimension, says nothing about bias
			continue
		}
		if res.biasKnown && res.bias != c.bias {
			res.biasKnown = false
		} else if !res.biasKnown {
			res.bias, res.biasKnown = c.bias, true
		}
	}
	// a variable that only ever holds the literals 4 / 16 chosen by the IP-version flag is a stride
	if res.d == dN {
		only := len(contrib) > 0
		for _, c := range contrib {
			if !(c.isLit && (c.lit == 4 || c.lit == 16 || c.lit == 0)) {
				only = false
			}
		}
		if only && strings.Contains(strings.ToLower(obj.Name()), "size") {
			res = uval{d: dS, biasKnown: true}
		}
	}
	u.varMemo[obj] = &res
	return res
}

func ruleUnits(p *Prog, r *Res, rule string) {
	r.Rule(rule + ": offsets into host tables are bytes built from hosts×stride; persisted Start/Count agree between writer and reader")
	nSinks, nStores := 0, 0
	for _, f := range p.FnList {
		if f.Short != "index" {
			continue
		}
		u := &unitsCtx{p: p, f: f, info: f.Pkg.TypesInfo, varMemo: map[types.Object]*uval{}, inProg: map[types.Object]bool{}}
		info := f.Pkg.TypesInfo
		idx := 0
		inspectShallow(f.Body(), func(x ast.Node) bool {
			switch s := x.(type) {
			case *ast.SliceExpr:
				if !u.hostBytes(s.X) {
					return true
				}
				for _, b := range []struct {
					name string
					e    ast.Expr
				}{{"low", s.Low}, {"high", s.High}} {
					if b.e == nil {
						continue
					}
					idx++
					nSinks++
					v := u.eval(b.e)
					key := fmt.Sprintf("%s host-table slice#%d %s bound %s", f.Key(), idx, b.name, types.ExprString(b.e))
					ok := (v.d == dB && v.biasKnown) || v.d == dS || (v.isLit && v.lit == 0)
					detail := "dimension " + v.d.String()
					if v.d == dB && !v.biasKnown {
						detail = "bytes computed from a biased host count (count±1)"
					}
					r.Check(ok, rule, key, p.Pos(b.e), "bytes (hosts×stride or a table length)", "the bound of a slice of a host table is not a stride-aligned byte offset ("+detail+"): addresses of every later host are decoded from the wrong position")
				}
			case *ast.IndexExpr:
				if u.hostBytes(s.X) {
					idx++
					nSinks++
					v := u.eval(s.Index)
					r.Check(v.d == dB, rule, fmt.Sprintf("%s host-table index#%d %s", f.Key(), idx, types.ExprString(s.Index)), p.Pos(s), "bytes", "index into a host table has dimension "+v.d.String())
				}
			case *ast.CompositeLit:
				if n := namedOf(info.TypeOf(s)); n != nil && n.Obj().Name() == "hostGroupEntry" {
					for _, el := range s.Elts {
						kv, ok := el.(*ast.KeyValueExpr)
						if !ok {
							continue
						}
						name := types.ExprString(kv.Key)
						v := u.eval(kv.Value)
						switch name {
						case "Start":
							nStores++
							r.Check(v.d == dH && v.biasKnown && v.bias == 0, rule, f.Key()+" hostGroupEntry.Start = "+types.ExprString(kv.Value), p.Pos(kv), "hosts, unbiased (the reader multiplies it by the stride)",
								fmt.Sprintf("Start is stored as %s (bias known=%v, bias=%d): the reader interprets it as the number of hosts before this group, so every group after the first of its family starts at the wrong address", v.d, v.biasKnown, v.bias))
						case "Count":
							nStores++
							r.Check(v.d == dH && v.biasKnown && v.bias == -1, rule, f.Key()+" hostGroupEntry.Count = "+types.ExprString(kv.Value), p.Pos(kv), "hosts − 1 (the reader adds 1)",
								fmt.Sprintf("Count is stored as %s with bias %d (known=%v); the format stores hosts−1", v.d, v.bias, v.biasKnown))
						}
					}
				}
			case *ast.AssignStmt:
				// accumulators feeding Start: v4offset/v6offset += E must add unbiased host counts
				if (s.Tok == token.ADD_ASSIGN) && len(s.Lhs) == 1 && len(s.Rhs) == 1 {
					if id, ok := s.Lhs[0].(*ast.Ident); ok && strings.Contains(strings.ToLower(id.Name), "offset") {
						tv := u.varVal(info.ObjectOf(id))
						if tv.d == dH || tv.d == dU {
							v := u.eval(s.Rhs[0])
							if v.d == dH || tv.d == dH {
								nStores++
								r.Check(v.d == dH && v.biasKnown && v.bias == 0, rule, f.Key()+" "+id.Name+" += "+types.ExprString(s.Rhs[0]), p.Pos(s), "adds the group's host count",
									fmt.Sprintf("the running host offset is advanced by %s with bias %d (known=%v) instead of the number of hosts in the group: the next group's Start is off", v.d, v.bias, v.biasKnown))
							}
						}
					}
				}
				// reader side: hostCount := int(hg.Count) + 1 must undo the bias
				for i, l := range s.Lhs {
					if id, ok := l.(*ast.Ident); ok && i < len(s.Rhs) && strings.EqualFold(id.Name, "hostCount") {
						v := u.eval(s.Rhs[i])
						nStores++
						r.Check(v.d == dH && v.biasKnown && v.bias == 0, rule, f.Key()+" hostCount = "+types.ExprString(s.Rhs[i]), p.Pos(s), "hosts, unbiased",
							fmt.Sprintf("hostCount is computed as %s with bias %d (known=%v): the reader and writer disagree on the ±1 of hostGroupEntry.Count", v.d, v.bias, v.biasKnown))
					}
				}
			case *ast.CallExpr:
				// popN(n): host counts
				if fn := p.Callee(f.Pkg, s); fn != nil && fn.Name() == "popN" && len(s.Args) == 1 {
					nSinks++
					v := u.eval(s.Args[0])
					r.Check(v.d == dH || v.d == dN, rule, fmt.Sprintf("%s popN(%s)", f.Key(), types.ExprString(s.Args[0])), p.Pos(s), "a number of hosts", "popN is called with "+v.d.String()+"; it removes that many hosts")
				}
				if fn := p.Callee(f.Pkg, s); fn != nil && fn.Name() == "get" && len(s.Args) == 1 && fn.Type().(*types.Signature).Recv() != nil && isHostGroupType(fn.Type().(*types.Signature).Recv().Type()) {
					nSinks++
					v := u.eval(s.Args[0])
					r.Check(v.d == dH || v.d == dN, rule, fmt.Sprintf("%s get(%s)", f.Key(), types.ExprString(s.Args[0])), p.Pos(s), "a host id", "get is called with "+v.d.String()+"; it expects a host index")
				}
			}
			return true
		})
	}
	r.Floor(rule+" host-table bounds and calls", 9, nSinks)
	r.Floor(rule+" persisted Start/Count stores and uses", 4, nStores)
}
