package main

// c07p.go: C07-p / C02-u the order of search results is total.
//
// A search with a limit keeps the best `limit` streams by the sort keys. The comparison was built from the keys alone:
// two streams with the same first-packet time (pcap timestamps have µs resolution, two SYNs in one µs are common in CTF
// traffic) compared as equal, and which of them was kept depended on the order they were visited in — newest index file
// first, within a file the order of the lookup table. Merging two index files into one changed that order: `limit:1`
// (the UI's default list) returned [1] before the merge and [0] after, page 1 the other one; with `group:` the tie
// decided which group was shown (#77, probes/c07_equal_sort_keys_across_merge).
//
// Rule (typed AST, dominating definition): in a function of package index that calls Reader.searchStreams at least one
// argument of type func(*Stream, *Stream) bool is, at the call, total or absent: following local copies, the definition
// that dominates the call and every conditional re-definition after it is nil or a function literal that compares
// Stream.StreamID with <.

import (
	"fmt"
	"go/ast"
	"go/token"
	"go/types"
)

func ruleTotalOrder(id string) func(p *Prog, r *Res) {
	return func(p *Prog, r *Res) {
		rule := id + " result-order-is-total"
		r.Rule(rule + ": the comparison that orders search results decides ties by stream id")
		search := p.Method("index", "Reader", "searchStreams")
		sid := p.Field("index", "Stream", "StreamID")
		if search == nil || sid == nil {
			p.anchorFail("index.Reader.searchStreams / index.Stream.StreamID")
			return
		}
		n := 0
		for _, f := range p.FnList {
			if f.Short != "index" || f.Lit != nil || f.Body() == nil {
				continue
			}
			info := f.Pkg.TypesInfo
			isCmpType := func(t types.Type) bool {
				sig, ok := t.Underlying().(*types.Signature)
				if !ok || sig.Params().Len() != 2 || sig.Results().Len() != 1 {
					return false
				}
				if b, ok := sig.Results().At(0).Type().Underlying().(*types.Basic); !ok || b.Kind() != types.Bool {
					return false
				}
				for i := 0; i < 2; i++ {
					pt, ok := sig.Params().At(i).Type().(*types.Pointer)
					if !ok {
						return false
					}
					nt, ok := pt.Elem().(*types.Named)
					if !ok || nt.Obj().Name() != "Stream" {
						return false
					}
				}
				return true
			}
			// a function literal that decides ties by id
			totalLit := func(fl *ast.FuncLit) bool {
				hit := false
				ast.Inspect(fl.Body, func(x ast.Node) bool {
					be, ok := x.(*ast.BinaryExpr)
					if !ok || (be.Op != token.LSS && be.Op != token.GTR) {
						return true
					}
					if sx, ok := ast.Unparen(be.X).(*ast.SelectorExpr); ok && info.Uses[sx.Sel] == types.Object(sid) {
						if sy, ok := ast.Unparen(be.Y).(*ast.SelectorExpr); ok && info.Uses[sy.Sel] == types.Object(sid) {
							hit = true
						}
					}
					return true
				})
				return hit
			}
			type asg struct {
				pos   token.Pos
				rhs   ast.Expr // nil: declared without a value
				block *ast.BlockStmt
			}
			// all assignments to obj with the block they are a direct statement of
			assignsOf := func(obj types.Object) []asg {
				var out []asg
				var walk func(b *ast.BlockStmt)
				var stmts func(list []ast.Stmt, b *ast.BlockStmt)
				stmts = func(list []ast.Stmt, b *ast.BlockStmt) {
					for _, st := range list {
						switch s := st.(type) {
						case *ast.AssignStmt:
							if len(s.Lhs) == len(s.Rhs) {
								for i, l := range s.Lhs {
									if identObj(info, l) == obj {
										out = append(out, asg{s.Pos(), s.Rhs[i], b})
									}
								}
							}
						case *ast.DeclStmt:
							if gd, ok := s.Decl.(*ast.GenDecl); ok {
								for _, sp := range gd.Specs {
									if vs, ok := sp.(*ast.ValueSpec); ok {
										for i, nm := range vs.Names {
											if info.Defs[nm] == obj {
												var rh ast.Expr
												if i < len(vs.Values) {
													rh = vs.Values[i]
												}
												out = append(out, asg{s.Pos(), rh, b})
											}
										}
									}
								}
							}
						}
						// nested blocks
						ast.Inspect(st, func(x ast.Node) bool {
							if x == ast.Node(st) {
								return true
							}
							switch y := x.(type) {
							case *ast.FuncLit:
								return false
							case *ast.BlockStmt:
								walk(y)
								return false
							case *ast.CaseClause:
								stmts(y.Body, nil)
								return false
							case *ast.CommClause:
								stmts(y.Body, nil)
								return false
							}
							return true
						})
					}
				}
				walk = func(b *ast.BlockStmt) { stmts(b.List, b) }
				walk(f.Body())
				return out
			}
			var totalAt func(e ast.Expr, at token.Pos, depth int) (bool, string)
			totalAt = func(e ast.Expr, at token.Pos, depth int) (bool, string) {
				e = ast.Unparen(e)
				if id, ok := e.(*ast.Ident); ok && id.Name == "nil" {
					return true, ""
				}
				if conv, ok := e.(*ast.CallExpr); ok && len(conv.Args) == 1 {
					// a conversion of nil: (func(a, b *Stream) bool)(nil)
					if tv, ok := info.Types[conv.Fun]; ok && tv.IsType() {
						if id, ok := ast.Unparen(conv.Args[0]).(*ast.Ident); ok && id.Name == "nil" {
							return true, ""
						}
					}
				}
				if call, ok := e.(*ast.CallExpr); ok {
					// a helper of the package every return of which is a literal that decides ties by id
					if fn := p.Callee(f.Pkg, call); fn != nil {
						if h := p.FnOfObj(fn); h != nil && h.Short == "index" && h.Body() != nil {
							nRet, allTotal := 0, true
							inspectShallow(h.Body(), func(x ast.Node) bool {
								if ret, ok := x.(*ast.ReturnStmt); ok && len(ret.Results) == 1 {
									nRet++
									if fl, ok := ast.Unparen(ret.Results[0]).(*ast.FuncLit); !ok || !totalLit(fl) {
										allTotal = false
									}
								}
								return true
							})
							if nRet > 0 && allTotal {
								return true, ""
							}
							return false, "the result of " + h.Key() + ", which does not always return a comparison that looks at StreamID"
						}
					}
				}
				if fl, ok := e.(*ast.FuncLit); ok {
					if totalLit(fl) {
						return true, ""
					}
					return false, "a function literal that does not compare StreamID (" + p.Pos(fl) + ")"
				}
				obj := identObj(info, e)
				v, _ := obj.(*types.Var)
				if v == nil || depth > 3 {
					return false, types.ExprString(e) + " (" + p.PosOf(e.Pos()) + ")"
				}
				// blocks that enclose `at`
				encl := map[*ast.BlockStmt]bool{}
				ast.Inspect(f.Body(), func(x ast.Node) bool {
					if b, ok := x.(*ast.BlockStmt); ok && b.Pos() <= at && at <= b.End() {
						encl[b] = true
					}
					return true
				})
				all := assignsOf(v)
				dom := token.NoPos
				for _, a := range all {
					if a.pos < at && a.block != nil && encl[a.block] && a.pos > dom {
						dom = a.pos
					}
				}
				if dom == token.NoPos {
					return false, v.Name() + " has no definition that dominates the call"
				}
				for _, a := range all {
					if a.pos < dom || a.pos >= at {
						continue
					}
					if a.rhs == nil {
						if a.pos == dom {
							continue // declared nil, what follows decides
						}
						continue
					}
					if ok, why := totalAt(a.rhs, a.pos, depth+1); !ok {
						return false, v.Name() + " = " + why
					}
				}
				// a bare declaration as dominating definition with nothing total after it: nil, which is fine only if nothing else is assigned
				return true, ""
			}
			for _, c := range callsInDeep(f.Body()) {
				fn := p.Callee(f.Pkg, c)
				if fn == nil || fn.Origin() != search {
					continue
				}
				n++
				found, anyTotal, why := 0, false, ""
				for _, a := range c.Args {
					if t := info.TypeOf(a); t != nil && isCmpType(t) {
						found++
						ok, w := totalAt(a, c.Pos(), 0)
						if ok {
							anyTotal = true
						} else if why == "" {
							why = w
						}
					}
				}
				key := fmt.Sprintf("%s orders the results of searchStreams", f.Key())
				if found == 0 {
					r.Check(false, rule, key, p.Pos(c), "", "no comparison function is passed to searchStreams: the rule cannot see how results are ordered")
					continue
				}
				r.Check(anyTotal, rule, key, p.Pos(c), "a comparison that decides ties by StreamID (or none) reaches the call", "the comparison that orders the results can be "+why+": streams with equal sort keys compare as equal, which of them a limited search keeps depends on the order the index files and their lookup tables are visited in — a merge changes the page a stream is on")
			}
		}
		r.Floor(rule, 1, n)
	}
}

// callsInDeep returns all calls below n, function literals included.
func callsInDeep(n ast.Node) []*ast.CallExpr {
	var out []*ast.CallExpr
	ast.Inspect(n, func(x ast.Node) bool {
		if c, ok := x.(*ast.CallExpr); ok {
			out = append(out, c)
		}
		return true
	})
	return out
}

func init() {
	const expl = " (typed AST, dominating definition): in a function of package index that calls Reader.searchStreams at least one argument of type func(*Stream, *Stream) bool is total or absent at the call — following local copies, the definition that dominates the call and every conditional re-definition after it is nil or a function literal that compares Stream.StreamID with <. Built from the sort keys alone the comparison leaves streams with equal keys (two first packets in one microsecond) unordered; a limited search then keeps whichever it visits first, and merging index files changes the visiting order: `limit:1` answered [1] before a merge and [0] after it."
	register("C07", "C07-p"+expl, ruleTotalOrder("C07-p"))
	register("C02", "C02-u"+expl, ruleTotalOrder("C02-u"))
}
