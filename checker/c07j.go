package main

// c07j.go: C07-j / C02-j host-index-stays-in-its-file.
//
// HostGroup, ClientHost and ServerHost of a reader-bound Stream are positions in the host tables of the index file the
// stream was read from; a merge renumbers them. They mean something only when they are resolved through that file's
// tables. For every use of such a field on a value of type Stream in package index the rule accepts exactly:
//   - the index of <same stream>.r.hostGroups[…] (or of a local holding that table),
//   - an argument of the host table's get method,
//   - an operand of a comparison with the same field of another Stream (whether that comparison is guarded by the
//     identity of the two readers is C02-h's business),
//   - the value of a local that is itself only used in those ways.
// Anything else — bytes of a grouping key, a map key, arithmetic — lets a file-relative number stand for an address
// across files.

import (
	"fmt"
	"go/ast"
	"go/token"
	"go/types"
)

func init() {
	const expl = "(typed AST): in package index a use of HostGroup / ClientHost / ServerHost of a reader-bound Stream is the index into that stream's own reader's host-group table, an argument of the table's get method, an operand of a comparison with the same field of another Stream (C02-h decides the guard), or initialises a local used only in those ways. Used as bytes of a key, as a map key or in arithmetic, a number that is only meaningful inside one index file stands for an address across files: grouping, deduplication or ordering then differ between a stack of files and its merge."
	register("C07", "C07-j "+expl, func(p *Prog, r *Res) { ruleHostIndexLocal(p, r, "C07-j host-index-stays-in-its-file") })
	register("C02", "C02-j "+expl, func(p *Prog, r *Res) { ruleHostIndexLocal(p, r, "C02-j host-index-stays-in-its-file") })
}

func ruleHostIndexLocal(p *Prog, r *Res, rule string) {
	r.Rule(rule + ": host-table positions of a Stream are only resolved through its own reader")
	pk := p.By["index"]
	if pk == nil {
		return
	}
	info := pk.TypesInfo
	rel := map[string]bool{"HostGroup": true, "ClientHost": true, "ServerHost": true}
	isStream := func(e ast.Expr) types.Object {
		o := identObj(info, e)
		if o == nil {
			return nil
		}
		if nt := namedOf(derefType(o.Type())); nt != nil && nt.Obj().Name() == "Stream" && nt.Obj().Pkg() == pk.Types {
			return o
		}
		return nil
	}
	n := 0
	for _, file := range pk.Syntax {
		if fn := p.Fset.Position(file.Pos()).Filename; len(fn) > 8 && fn[len(fn)-8:] == "_test.go" {
			continue
		}
		var classify func(use ast.Node, parents []ast.Node, owner types.Object, depth int) (bool, string)
		classify = func(use ast.Node, parents []ast.Node, owner types.Object, depth int) (bool, string) {
			// walk up through conversions and parentheses
			cur := use
			for i := len(parents) - 1; i >= 0; i-- {
				switch par := parents[i].(type) {
				case *ast.ParenExpr:
					cur = par
					continue
				case *ast.CallExpr:
					// conversion T(x)
					if tv, ok := info.Types[par.Fun]; ok && tv.IsType() && len(par.Args) == 1 && par.Args[0] == cur {
						cur = par
						continue
					}
					// argument of get
					if se, ok := ast.Unparen(par.Fun).(*ast.SelectorExpr); ok && se.Sel.Name == "get" {
						for _, a := range par.Args {
							if a == cur {
								return true, "argument of the host table's get"
							}
						}
					}
					// handed to a function of package index: the parameter must itself only be resolved (one level)
					if fn := p.Callee(pk, par); fn != nil && depth > 0 {
						if h := p.FnOfObj(fn); h != nil && h.Lit == nil && h.Pkg == pk && h.Body() != nil {
							for ai, a := range par.Args {
								if a != cur {
									continue
								}
								po := paramObj(h, ai)
								if po == nil {
									break
								}
								okAll, why := true, "handed to "+h.Key()+", which only resolves it through a host table"
								inspectParents(h.Body(), func(y ast.Node, ps []ast.Node) bool {
									id, ok := y.(*ast.Ident)
									if !ok || info.Uses[id] != po || len(ps) == 0 {
										return true
									}
									switch q := ps[len(ps)-1].(type) {
									case *ast.CallExpr:
										if se, ok := ast.Unparen(q.Fun).(*ast.SelectorExpr); ok && se.Sel.Name == "get" {
											return true
										}
									case *ast.BinaryExpr:
										switch q.Op {
										case token.EQL, token.NEQ:
											other := q.X
											if other == ast.Expr(id) {
												other = q.Y
											}
											if oo, ok := identObj(info, other).(*types.Var); ok && paramIndex(h, oo) >= 0 {
												return true // compared with the sibling parameter; the reader test is C02-h's business
											}
										}
									}
									okAll, why = false, "handed to "+h.Key()+", where it is used other than through a host table"
									return true
								})
								return okAll, why
							}
						}
					}
					return false, "passed to " + exprString(p.Fset, par.Fun)
				case *ast.IndexExpr:
					if par.Index == cur {
						// <owner>.r.hostGroups[…] or a table local
						base := ast.Unparen(par.X)
						if se, ok := base.(*ast.SelectorExpr); ok && se.Sel.Name == "hostGroups" {
							if inner, ok := ast.Unparen(se.X).(*ast.SelectorExpr); ok && inner.Sel.Name == "r" && identObj(info, inner.X) == owner {
								return true, "index into its own reader's host groups"
							}
							return false, "index into the host groups of " + exprString(p.Fset, se.X) + ", not of the stream's own reader"
						}
						return false, "index into " + exprString(p.Fset, base)
					}
					return false, "indexed"
				case *ast.BinaryExpr:
					switch par.Op {
					case token.EQL, token.NEQ, token.LSS, token.GTR, token.LEQ, token.GEQ:
						other := par.X
						if other == cur {
							other = par.Y
						}
						if ose, ok := ast.Unparen(other).(*ast.SelectorExpr); ok && rel[ose.Sel.Name] && isStream(ose.X) != nil {
							return true, "compared with the same kind of field of another stream"
						}
						return false, "compared with " + exprString(p.Fset, other)
					}
					return false, "operand of " + par.Op.String()
				case *ast.AssignStmt:
					// initialises a local: every use of the local must classify
					for k, rh := range par.Rhs {
						if rh != cur || k >= len(par.Lhs) || depth <= 0 {
							continue
						}
						lo := identObj(info, par.Lhs[k])
						if lo == nil {
							return false, "stored into " + exprString(p.Fset, par.Lhs[k])
						}
						okAll, why := true, "initialises "+lo.Name()+", which is only used to resolve the address"
						inspectAllParents(file, func(y ast.Node, ps []ast.Node) bool {
							id, ok := y.(*ast.Ident)
							if !ok || info.Uses[id] != lo {
								return true
							}
							if ok2, w := classify(id, ps, owner, depth-1); !ok2 {
								// an assignment to the same local from the sibling field is fine (myHid = s.ServerHost)
								okAll, why = false, lo.Name()+" is "+w
							}
							return true
						})
						return okAll, why
					}
					// plain re-assignment of a tracked local: `myHid = s.ServerHost`
					for k, rh := range par.Rhs {
						if rh == cur && k < len(par.Lhs) {
							if lo := identObj(info, par.Lhs[k]); lo != nil && depth > 0 {
								okAll, why := true, "assigned to "+lo.Name()+", which is only used to resolve the address"
								inspectAllParents(file, func(y ast.Node, ps []ast.Node) bool {
									id, ok := y.(*ast.Ident)
									if !ok || info.Uses[id] != lo {
										return true
									}
									if ok2, w := classify(id, ps, owner, depth-1); !ok2 {
										okAll, why = false, lo.Name()+" is "+w
									}
									return true
								})
								return okAll, why
							}
						}
					}
					// the identifier on the left-hand side of its own assignment
					for _, l := range par.Lhs {
						if l == cur {
							return true, "assignment target"
						}
					}
					return false, "assigned"
				default:
					return false, fmt.Sprintf("used in a %T", par)
				}
			}
			return false, "unclassified use"
		}
		inspectAllParents(file, func(x ast.Node, parents []ast.Node) bool {
			se, ok := x.(*ast.SelectorExpr)
			if !ok || !rel[se.Sel.Name] {
				return true
			}
			owner := isStream(se.X)
			if owner == nil {
				return true
			}
			// the selector on the left of an assignment (writer side) does not occur for Stream; skip key of composite literals
			n++
			encl := p.EnclosingFn(pk, se.Pos())
			name := "package-level initialiser"
			if encl != nil {
				name = encl.Key()
			}
			key := fmt.Sprintf("%s %s@%d", name, exprString(p.Fset, se), p.Fset.Position(se.Pos()).Line-p.Fset.Position(file.Pos()).Line)
			if encl != nil {
				key = fmt.Sprintf("%s %s@%s", name, exprString(p.Fset, se), relLine(p, encl, se))
			}
			ok2, why := classify(se, parents, owner, 2)
			r.Check(ok2, rule, key, p.Pos(se), why, "a position in one file's host table leaves the file: it is "+why+". After a merge — or in another file of the same stack — the same number names another address")
			return true
		})
	}
	r.Floor(rule, 8, n)
}
