package main

// c14m.go: C14-m a summand that may cancel out is removed where it is made.
//
// A number filter with variables is kept as Σ factor·variable + number ≥ 0. cleanNumberConditions divides by the
// common factor of the summands — commonFactor starts as |Summands[0].Factor| and `f % commonFactor` follows — and
// relies on there being no summand with factor 0 (it only drops a zero summand that has a successor). The code that
// builds the summands in (*queryTerm).QueryConditions adds and subtracts factors (`id:@id@` subtracts the filtered field
// from its own bound) and removes a summand whose factor became 0 on the spot. Seeded C14o rewrote that loop with
// slices.IndexFunc and left the removal "to the clean-up": Parse("id:@id@"), `sport:@sport@+0`, `port:@cport@` panicked
// with "integer divide by zero".
//
// Rule (typed AST): in package query a function (other than the clean-up itself) that changes a
// NumberConditionSummand.Factor by arithmetic (++, --, +=, -=) contains an if whose condition compares such a Factor
// with 0 and whose body shortens a Summands slice — as a direct statement of a loop body, with no `continue` in front of
// it: the test is applied to every summand, not only to the one that was just changed (seeded C14e and C14m removed
// zero summands of the filter's own variable only; `id:@id@+@x:id@-@x:id@` then panicked).

import (
	"go/ast"
	"go/token"
	"go/types"
)

func init() {
	register("C14",
		"C14-m (typed AST): in package query a function other than cleanNumberConditions that changes a NumberConditionSummand.Factor by arithmetic (++, --, +=, -=) contains an if whose condition compares such a Factor with 0 and whose body shortens a Summands slice, placed directly in a loop body with no `continue` in front of it (it is applied to every summand): a summand that cancels out is removed where it is made. The clean-up takes the first summand's factor as the common divisor and computes `f % commonFactor`; a zero factor that reaches it makes Parse panic with an integer divide by zero (`id:@id@`).",
		func(p *Prog, r *Res) {
			const rule = "C14-m cancelled-summand-removed-where-it-is-made"
			r.Rule(rule + ": arithmetic on a summand's factor is accompanied by the removal of zero summands")
			fac := p.Field("query", "NumberConditionSummand", "Factor")
			sums := p.Field("query", "NumberCondition", "Summands")
			if fac == nil || sums == nil {
				p.anchorFail("query.NumberConditionSummand.Factor / NumberCondition.Summands")
				return
			}
			n := 0
			for _, f := range p.FnList {
				if f.Short != "query" || f.Lit != nil || f.Body() == nil || f.Name == "cleanNumberConditions" {
					continue
				}
				info := f.Pkg.TypesInfo
				isFac := func(e ast.Expr) bool {
					se, ok := ast.Unparen(e).(*ast.SelectorExpr)
					return ok && info.Uses[se.Sel] == types.Object(fac)
				}
				var change ast.Node
				ast.Inspect(f.Body(), func(x ast.Node) bool {
					switch s := x.(type) {
					case *ast.IncDecStmt:
						if isFac(s.X) && change == nil {
							change = s
						}
					case *ast.AssignStmt:
						if (s.Tok == token.ADD_ASSIGN || s.Tok == token.SUB_ASSIGN) && len(s.Lhs) == 1 && isFac(s.Lhs[0]) && change == nil {
							change = s
						}
					}
					return true
				})
				if change == nil {
					continue
				}
				n++
				removes := false
				var scan func(body ast.Node, binfo *types.Info)
				scan = func(body ast.Node, binfo *types.Info) {
					isFacB := func(e ast.Expr) bool {
						se, ok := ast.Unparen(e).(*ast.SelectorExpr)
						return ok && binfo.Uses[se.Sel] == types.Object(fac)
					}
					inspectParents(body, func(x ast.Node, ps []ast.Node) bool {
						ifs, ok := x.(*ast.IfStmt)
						if !ok {
							return true
						}
						// the test is applied to EVERY summand: it is a direct statement of the body of a loop, and no
						// statement in front of it in that body can `continue` past it
						everySummand := false
						if len(ps) >= 2 {
							if blk, ok := ps[len(ps)-1].(*ast.BlockStmt); ok {
								isLoopBody := false
								switch l := ps[len(ps)-2].(type) {
								case *ast.ForStmt:
									isLoopBody = l.Body == blk
								case *ast.RangeStmt:
									isLoopBody = l.Body == blk
								}
								if isLoopBody {
									everySummand = true
									for _, st := range blk.List {
										if st == ast.Stmt(ifs) {
											break
										}
										ast.Inspect(st, func(y ast.Node) bool {
											switch b := y.(type) {
											case *ast.FuncLit, *ast.ForStmt, *ast.RangeStmt:
												return false
											case *ast.BranchStmt:
												if b.Tok == token.CONTINUE {
													everySummand = false
												}
											}
											return true
										})
									}
								}
							}
						}
						if !everySummand {
							return true
						}
						zeroTest := false
						ast.Inspect(ifs.Cond, func(y ast.Node) bool {
							if be, ok := y.(*ast.BinaryExpr); ok && be.Op == token.EQL {
								if (isFacB(be.X) && isZeroLit(be.Y)) || (isFacB(be.Y) && isZeroLit(be.X)) {
									zeroTest = true
								}
							}
							return true
						})
						if !zeroTest {
							return true
						}
						ast.Inspect(ifs.Body, func(y ast.Node) bool {
							as, ok := y.(*ast.AssignStmt)
							if !ok {
								return true
							}
							for i, l := range as.Lhs {
								if se, ok := ast.Unparen(l).(*ast.SelectorExpr); ok && binfo.Uses[se.Sel] == types.Object(sums) && i < len(as.Rhs) {
									ast.Inspect(as.Rhs[i], func(z ast.Node) bool {
										if _, ok := z.(*ast.SliceExpr); ok {
											removes = true
										}
										return true
									})
								}
							}
							return true
						})
						return true
					})
				}
				scan(f.Body(), info)
				if !removes {
					// the removal may live in a helper of the package that this function calls (subtractSummand)
					for _, c := range callsInDeep(f.Body()) {
						if fn := p.Callee(f.Pkg, c); fn != nil {
							if h := p.FnOfObj(fn); h != nil && h.Short == "query" && h.Lit == nil && h.Body() != nil && h.Name != "cleanNumberConditions" {
								scan(h.Body(), h.Pkg.TypesInfo)
							}
						}
					}
				}
				r.Check(removes, rule, f.Key()+" changes a summand's factor", p.Pos(change), "zero summands are removed in the same function", "the function adds to or subtracts from a summand's factor and nowhere removes a summand whose factor has become 0: the clean-up takes |Summands[0].Factor| as common divisor and computes f % commonFactor — a filter that subtracts a field from its own bound (`id:@id@`, `sport:@sport@+0`) makes Parse panic with an integer divide by zero")
			}
			r.Floor(rule, 1, n)
		})
}
