package main

import (
	"fmt"
	"go/ast"
	"go/token"
	"go/types"
	"sort"
	"strings"
)

func init() {
	register("C01",
		"C01-h = C07-a (FRESH, the writer owns its tables): every value stored into hostGroup.hosts is owned by the writer (nil, make, a copy, the field's own append/reslice). A reader's group table is a sub-slice of its host section with capacity reaching into the next group: adopted by AddIndex, a later add() overwrites the next group's first host — the merged file stores a wrong address for a stream (seeded C01l), and the open input reader is corrupted.",
		func(p *Prog, r *Res) { ruleWriterOwnsTables(p, r, "C01-h writer-owns-tables") })
	register("C07",
		"C07-a (FRESH, the writer owns its tables): every value stored into hostGroup.hosts — the table hostGroup.add appends to and popN re-slices — is owned by the writer (nil, make, a copy, or the field's own append/reslice); adopting a reader's slice lets a later append overwrite the next host group of the input reader, which is still being served (defect repaired in e83173b). C07-c (every file-relative field is remapped): the fields of stream and packet that the reader uses as an index into another section of the same file, as an offset into the data section, or as a time relative to the file's reference second are derived from the reader's own code; in AddIndex each of them is re-assigned on every path between the record copy (newStream := *s / newPacket := *p) and the append to the writer's table, or re-based in the tail of AddIndex.",
		ruleC07)
}

func ruleC07(p *Prog, r *Res) {
	ruleWriterOwnsTables(p, r, "C07-a writer-owns-tables")

	// ---------- C07-c ----------
	const ruleC = "C07-c file-relative-fields-remapped"
	r.Rule(ruleC + ": fields the reader uses as indexes/offsets/relative times are re-assigned when a record is carried into another file")
	streamT, packetT := p.Named("index", "stream"), p.Named("index", "packet")
	if streamT == nil || packetT == nil {
		return
	}
	relative := map[string]map[string]string{"stream": {}, "packet": {}} // type -> field -> why
	fieldOf := func(info *types.Info, e ast.Expr) (string, string) {
		var tn, fn string
		ast.Inspect(e, func(y ast.Node) bool {
			se, ok := y.(*ast.SelectorExpr)
			if !ok {
				return true
			}
			v, ok := info.Uses[se.Sel].(*types.Var)
			if !ok || !v.IsField() {
				return true
			}
			n := namedOf(info.TypeOf(se.X))
			if n == nil {
				return true
			}
			name := n.Obj().Name()
			if name == "Stream" {
				name = "stream" // embedded
			}
			if (name == "stream" || name == "packet") && fn == "" {
				// the field must be declared in index.stream / index.packet
				st := streamT
				if name == "packet" {
					st = packetT
				}
				ss := st.Underlying().(*types.Struct)
				for i := 0; i < ss.NumFields(); i++ {
					if ss.Field(i) == v {
						tn, fn = name, se.Sel.Name
					}
				}
			}
			return true
		})
		return tn, fn
	}
	for _, f := range p.FnList {
		if f.Short != "index" || strings.HasPrefix(f.Key(), "index.Writer.") || f.Key() == "index.Merge" {
			continue
		}
		info := f.Pkg.TypesInfo
		inspectShallow(f.Body(), func(x ast.Node) bool {
			switch s := x.(type) {
			case *ast.IndexExpr:
				// r.hostGroups[s.HostGroup], r.imports[p.ImportID]
				base := types.ExprString(s.X)
				if strings.HasSuffix(base, "hostGroups") || strings.HasSuffix(base, "imports") {
					if tn, fn := fieldOf(info, s.Index); fn != "" {
						relative[tn][fn] = "index into " + base + " (" + f.Key() + ")"
					}
				}
			case *ast.CallExpr:
				if fn := p.Callee(f.Pkg, s); fn != nil {
					switch fn.Name() {
					case "get", "packetByIndex", "streamByIndex":
						for _, a := range s.Args {
							if tn, fld := fieldOf(info, a); fld != "" {
								relative[tn][fld] = "argument of " + fn.Name() + " (" + f.Key() + ")"
							}
						}
					case "Add":
						// ReferenceTime.Add(time.Nanosecond * time.Duration(s.FirstPacketTimeNS))
						if se, ok := ast.Unparen(s.Fun).(*ast.SelectorExpr); ok && strings.HasSuffix(types.ExprString(se.X), "ReferenceTime") {
							for _, a := range s.Args {
								if tn, fld := fieldOf(info, a); fld != "" {
									relative[tn][fld] = "added to the file's ReferenceTime (" + f.Key() + ")"
								}
							}
						}
					case "NewSectionReader", "Seek":
						for _, a := range s.Args {
							if strings.Contains(types.ExprString(a), ".Begin") || fn.Name() == "Seek" {
								if tn, fld := fieldOf(info, a); fld != "" {
									relative[tn][fld] = "offset into a section (" + f.Key() + ")"
								}
							}
						}
					}
				}
			}
			return true
		})
	}
	var derived []string
	for tn, m := range relative {
		for fn := range m {
			derived = append(derived, tn+"."+fn)
		}
	}
	sort.Strings(derived)
	r.Note("%s: file-relative fields derived from the reader: %s", ruleC, strings.Join(derived, ", "))
	r.Floor(ruleC+" derived file-relative fields", 7, len(derived))

	f := p.Fn("index.Writer.AddIndex")
	if f == nil {
		return
	}
	info := f.Pkg.TypesInfo
	fl := p.Flow(f)
	for _, tn := range []string{"stream", "packet"} {
		// the copy: newX := *y with type tn
		var copyPt *Pt
		var copyObj types.Object
		for _, b := range fl.G.Blocks {
			for i, n := range b.Nodes {
				if as, ok := n.(*ast.AssignStmt); ok && as.Tok == token.DEFINE && len(as.Lhs) == 1 && len(as.Rhs) == 1 {
					if st, ok := ast.Unparen(as.Rhs[0]).(*ast.StarExpr); ok {
						if nn := namedOf(info.TypeOf(st.X)); nn != nil && nn.Obj().Name() == tn {
							pt := Pt{b, i}
							copyPt, copyObj = &pt, identObj(info, as.Lhs[0])
						}
					}
				}
			}
		}
		if copyPt == nil {
			r.Bad(ruleC, "AddIndex copies a "+tn+" record", p.Pos(f.Node()), "the record copy (new"+strings.Title(tn)+" := *x) was not found; cannot check the remapping")
			continue
		}
		// the append of the copy to the writer's table
		isAppend := func(n ast.Node) bool {
			as, ok := n.(*ast.AssignStmt)
			if !ok || len(as.Rhs) != 1 {
				return false
			}
			c, ok := as.Rhs[0].(*ast.CallExpr)
			if !ok || !isBuiltin(info, c, "append") {
				return false
			}
			for _, a := range c.Args[1:] {
				if sameObj(info, a, copyObj) {
					return true
				}
			}
			return false
		}
		var fields []string
		for fn := range relative[tn] {
			fields = append(fields, fn)
		}
		sort.Strings(fields)
		for _, fn := range fields {
			key := fmt.Sprintf("AddIndex remaps %s.%s", tn, fn)
			isAssign := func(n ast.Node) bool {
				hit := false
				inspectShallow(n, func(y ast.Node) bool {
					switch s := y.(type) {
					case *ast.AssignStmt:
						for _, l := range s.Lhs {
							if se, ok := ast.Unparen(l).(*ast.SelectorExpr); ok && se.Sel.Name == fn && sameObj(info, se.X, copyObj) {
								hit = true
							}
						}
					case *ast.UnaryExpr:
						// w.setPos(&newStream.DataStart)
						if s.Op == token.AND {
							if se, ok := ast.Unparen(s.X).(*ast.SelectorExpr); ok && se.Sel.Name == fn && sameObj(info, se.X, copyObj) {
								hit = true
							}
						}
					}
					return true
				})
				return hit
			}
			res := fl.Reach([]Pt{After(*copyPt)}, isAppend, isAssign)
			if !res.Found {
				r.Ok(ruleC, key, p.Pos(fl.node(*copyPt)), "re-assigned on every path between the copy and the append ("+relative[tn][fn]+")")
				continue
			}
			// times are re-based in the tail instead: an op-assignment to the field on elements of the writer's table after the loop
			rebased := false
			addsToField := func(body ast.Node, after token.Pos) bool {
				hit := false
				inspectShallow(body, func(y ast.Node) bool {
					if as, ok := y.(*ast.AssignStmt); ok && as.Tok == token.ADD_ASSIGN && len(as.Lhs) == 1 {
						if se, ok := ast.Unparen(as.Lhs[0]).(*ast.SelectorExpr); ok && se.Sel.Name == fn && as.Pos() > after {
							hit = true
						}
					}
					return true
				})
				return hit
			}
			rebased = addsToField(f.Body(), fl.node(*copyPt).Pos())
			if !rebased {
				// the tail may delegate to a helper of the package that is handed (a part of) the writer's table
				inspectShallow(f.Body(), func(y ast.Node) bool {
					if c, ok := y.(*ast.CallExpr); ok && c.Pos() > fl.node(*copyPt).Pos() {
						if cf := p.Callee(f.Pkg, c); cf != nil {
							if h := p.FnOfObj(cf); h != nil && h.Pkg == f.Pkg && h != f && h.Body() != nil && addsToField(h.Body(), token.NoPos) {
								rebased = true
							}
						}
					}
					return true
				})
			}
			r.Check(rebased, ruleC, key, p.Pos(fl.node(*copyPt)), "re-based in the tail of AddIndex ("+relative[tn][fn]+")", "the field is carried into the merged file unchanged although the reader interprets it relative to its own file ("+relative[tn][fn]+"): "+fl.traceString(res))
		}
	}
}

// ---- C07-e: AddIndex refuses a file only for capacity ----

func init() {
	register("C07",
		"C07-e (AST, typed, one level of callee inlining): Merge offers every input file to its writers in turn and opens a further writer when all refuse; a refusal (`return false, nil` from Writer.AddIndex) therefore moves the file into a LATER output file, which sits above the earlier ones in the stack. That is only harmless when nothing of the file was kept, and only necessary when a table of the output is full: every refusal in AddIndex is nested in a condition that compares against a math.Max* capacity constant (directly or in a called helper). A refusal for any other reason reorders stream versions, so an outdated version can win.",
		ruleC07Refusal)
}

func ruleC07Refusal(p *Prog, r *Res) {
	const rule = "C07-e refusal-only-for-capacity"
	r.Rule(rule + ": every `return false, nil` of Writer.AddIndex is guarded by a capacity (math.Max*) comparison")
	f := p.Fn("index.Writer.AddIndex")
	if f == nil {
		return
	}
	info := f.Pkg.TypesInfo
	var mentionsCap func(pk *Fn, e ast.Node, depth int) bool
	mentionsCap = func(owner *Fn, e ast.Node, depth int) bool {
		found := false
		ast.Inspect(e, func(x ast.Node) bool {
			if found {
				return false
			}
			switch y := x.(type) {
			case *ast.Ident:
				// a named boolean: `tooManyStreams := len(w.streams) > math.MaxUint32`
				if v, ok := owner.Pkg.TypesInfo.Uses[y].(*types.Var); ok && !v.IsField() && depth >= 0 {
					if bt, isB := v.Type().Underlying().(*types.Basic); isB && bt.Kind() == types.Bool && owner.Body() != nil {
						var defs []ast.Expr
						ast.Inspect(owner.Body(), func(z ast.Node) bool {
							if as, ok := z.(*ast.AssignStmt); ok && len(as.Lhs) == len(as.Rhs) {
								for i, l := range as.Lhs {
									if identObj(owner.Pkg.TypesInfo, l) == types.Object(v) {
										defs = append(defs, as.Rhs[i])
									}
								}
							}
							return true
						})
						if len(defs) == 1 && mentionsCap(owner, defs[0], depth-1) {
							found = true
						}
					}
				}
			case *ast.SelectorExpr:
				if c, ok := owner.Pkg.TypesInfo.Uses[y.Sel].(*types.Const); ok && c.Pkg() != nil && c.Pkg().Path() == "math" && strings.HasPrefix(c.Name(), "Max") {
					found = true
				}
			case *ast.CallExpr:
				if depth > 0 {
					if fn := p.Callee(owner.Pkg, y); fn != nil {
						if g := p.FnOfObj(fn); g != nil && g.Body() != nil && mentionsCap(g, g.Body(), depth-1) {
							found = true
						}
					}
				}
			}
			return !found
		})
		return found
	}
	n := 0
	inspectParents(f.Body(), func(x ast.Node, parents []ast.Node) bool {
		ret, ok := x.(*ast.ReturnStmt)
		if !ok || len(ret.Results) != 2 {
			return true
		}
		tv, ok := info.Types[ret.Results[0]]
		if !ok || tv.Value == nil || tv.Value.ExactString() != "false" {
			return true
		}
		if id, ok := ast.Unparen(ret.Results[1]).(*ast.Ident); !ok || id.Name != "nil" {
			return true
		}
		n++
		key := fmt.Sprintf("%s refusal#%d", f.Key(), n)
		guarded := false
		for i, par := range parents {
			is, ok := par.(*ast.IfStmt)
			if !ok {
				continue
			}
			var child ast.Node = x
			if i+1 < len(parents) {
				child = parents[i+1]
			}
			if child == ast.Node(is.Body) && mentionsCap(f, is.Cond, 1) {
				guarded = true
			}
		}
		r.Check(guarded, rule, key, p.Pos(ret), "inside a capacity check against math.Max*", "AddIndex refuses the file although no table is full: Merge then copies the whole file into a later output, above files holding newer versions of its streams — after the merge an outdated version is served")
		return true
	})
	r.Floor(rule, 3, n)
}

// ---- C07-f: per-attempt state in a retry loop is fresh ----

func init() {
	register("C07",
		"C07-f (FLOW): a retry loop is a for statement whose body ends in break/return, so that it iterates again only through `continue` — every further iteration is a new attempt after an abandoned one. Inside such a loop an append to a variable (or to a field of a variable) that is declared outside the loop body, from which a `continue` of the loop is reachable, must be preceded on every path from the start of the iteration by an assignment of a fresh value to that variable/field: otherwise the entries appended by the abandoned attempt survive into the next one (AddIndex: a host remap table that is shifted by the hosts of a writer group that turned out to be full).",
		ruleC07Retry)
}

func ruleC07Retry(p *Prog, r *Res) {
	const rule = "C07-f retry-attempt-state-fresh"
	r.Rule(rule + ": appends made during an attempt that can be abandoned go to state created (or reset) in that attempt")
	nLoops, nApp := 0, 0
	for _, f := range p.FnList {
		switch f.Short {
		case "index", "builder", "manager", "converters":
		default:
			continue
		}
		if f.Body() == nil {
			continue
		}
		info := f.Pkg.TypesInfo
		var fl *Flow
		inspectParents(f.Body(), func(x ast.Node, parents []ast.Node) bool {
			loop, ok := x.(*ast.ForStmt)
			if !ok || len(loop.Body.List) == 0 {
				return true
			}
			switch last := loop.Body.List[len(loop.Body.List)-1].(type) {
			case *ast.BranchStmt:
				if last.Tok != token.BREAK {
					return true
				}
			case *ast.ReturnStmt:
			default:
				return true
			}
			// label of the loop, if any
			label := ""
			if len(parents) > 0 {
				if ls, ok := parents[len(parents)-1].(*ast.LabeledStmt); ok {
					label = ls.Label.Name
				}
			}
			// continues of this loop
			var continues []ast.Node
			var walk func(n ast.Node, depth int)
			walk = func(n ast.Node, depth int) {
				ast.Inspect(n, func(y ast.Node) bool {
					switch s := y.(type) {
					case *ast.FuncLit:
						return false
					case *ast.ForStmt:
						if s != loop {
							walk(s.Body, depth+1)
							return false
						}
					case *ast.RangeStmt:
						walk(s.Body, depth+1)
						return false
					case *ast.BranchStmt:
						if s.Tok == token.CONTINUE && ((s.Label == nil && depth == 0) || (s.Label != nil && s.Label.Name == label && label != "")) {
							continues = append(continues, s)
						}
					}
					return true
				})
			}
			walk(loop.Body, 0)
			if len(continues) == 0 {
				return true
			}
			nLoops++
			if fl == nil {
				fl = p.Flow(f)
			}
			// go/cfg turns `continue` into an edge, not a node: since the body ends in break/return, the loop's post
			// statement (or, without one, its condition) is reached from inside the body only through a continue
			var again ast.Node
			if loop.Post != nil {
				again = loop.Post
			} else if loop.Cond != nil {
				again = loop.Cond
			}
			if again == nil {
				return true
			}
			isContinue := func(n ast.Node) bool { return n == again }
			// appends inside the loop body to state declared outside it
			for _, pt := range fl.Find(func(n ast.Node) bool {
				as, ok := n.(*ast.AssignStmt)
				return ok && within(n, loop.Body) && len(as.Lhs) == 1 && len(as.Rhs) == 1
			}) {
				as := fl.node(pt).(*ast.AssignStmt)
				c, ok := as.Rhs[0].(*ast.CallExpr)
				if !ok || !isBuiltin(info, c, "append") || len(c.Args) < 1 {
					continue
				}
				target := exprString(p.Fset, as.Lhs[0])
				if exprString(p.Fset, c.Args[0]) != target {
					continue
				}
				rootObj, _, okp := accessPath(info, as.Lhs[0])
				if !okp || rootObj == nil {
					continue
				}
				if rootObj.Pos() >= loop.Body.Pos() && rootObj.Pos() <= loop.Body.End() {
					continue // declared inside the attempt
				}
				// the collection the loop retries over (it appears in the loop condition) grows on purpose: a new
				// candidate is appended when all existing ones refused
				if loop.Cond != nil && strings.Contains(exprString(p.Fset, loop.Cond), target) {
					continue
				}
				// only appends from which the attempt can be abandoned
				if !fl.Reach([]Pt{After(pt)}, isContinue, func(n ast.Node) bool { return !within(n, loop.Body) }).Found {
					continue // leaves the loop (break/return) before it can iterate again
				}
				nApp++
				key := fmt.Sprintf("%s retry loop (line +%d): append to %s", f.Key(), lineOf(p.Fset, loop)-lineOf(p.Fset, f.Node()), target)
				// is the root variable (with the slice header inside it) stored somewhere — appended to a collection,
				// assigned to another variable? Then re-using its backing array (x = x[:0]) would overwrite what was stored.
				rootStored := false
				ast.Inspect(loop.Body, func(y ast.Node) bool {
					switch s := y.(type) {
					case *ast.CallExpr:
						if isBuiltin(info, s, "append") {
							for _, a := range s.Args[1:] {
								if sameObj(info, a, rootObj) {
									rootStored = true
								}
							}
						}
					case *ast.AssignStmt:
						for _, rh := range s.Rhs {
							if sameObj(info, rh, rootObj) {
								rootStored = true
							}
						}
					}
					return true
				})
				// fresh assignment to the target (or to the whole root variable) before the append, within this iteration
				isFresh := func(n ast.Node) bool {
					a2, ok := n.(*ast.AssignStmt)
					if !ok || n == ast.Node(as) || !within(n, loop.Body) {
						return false
					}
					for i, l := range a2.Lhs {
						ls := exprString(p.Fset, l)
						if ls != target && ls != rootObj.Name() {
							continue
						}
						if i < len(a2.Rhs) || len(a2.Rhs) == 1 {
							rh := a2.Rhs[0]
							if i < len(a2.Rhs) {
								rh = a2.Rhs[i]
							}
							derived := false
							ast.Inspect(rh, func(y ast.Node) bool {
								if id, ok := y.(*ast.Ident); ok && info.Uses[id] == rootObj {
									derived = true
								}
								return true
							})
							// x = x[:0] empties the slice: as good as a fresh one for what the next attempt appends
							if se, ok := ast.Unparen(rh).(*ast.SliceExpr); ok && !rootStored && ls == target && exprString(p.Fset, se.X) == target && se.Low == nil && se.High != nil {
								if tv, ok := info.Types[se.High]; ok && tv.Value != nil && tv.Value.ExactString() == "0" {
									derived = false
								}
							}
							if !derived {
								return true
							}
						}
					}
					return false
				}
				// start of an iteration: first node of the loop body
				var starts []Pt
				for _, b := range fl.G.Blocks {
					for i, n := range b.Nodes {
						if within(n, loop.Body) && len(starts) == 0 && n.Pos() >= loop.Body.List[0].Pos() && n.End() <= loop.Body.List[0].End() {
							starts = append(starts, Pt{b, i})
						}
					}
				}
				if len(starts) == 0 {
					r.Undecided(rule, key, p.Pos(as), "cannot locate the start of the loop body in the CFG")
					continue
				}
				res := fl.Reach(starts, func(n ast.Node) bool { return n == ast.Node(as) }, isFresh)
				r.Check(!res.Found, rule, key, p.Pos(as), "a fresh value is assigned in this iteration before the append", "the state appended to was created outside this attempt and is not reset at its start: entries appended by an attempt that was abandoned by `continue` are still there in the next attempt ("+fl.traceString(res)+")")
			}
			return true
		})
	}
	r.Note("%s: %d retry loops (body ends in break/return, iterates again only through continue), %d appends to outer state from which the attempt can be abandoned", rule, nLoops, nApp)
	r.Floor(rule+" retry loops", 1, nLoops)
}

// ruleWriterOwnsTables: C07-a / C01-h.
func ruleWriterOwnsTables(p *Prog, r *Res, ruleA string) {
	r.Rule(ruleA + ": values stored into hostGroup.hosts are owned by the writer")
	hostsFld := p.Field("index", "hostGroup", "hosts")
	oc := newOwnCtx(p)
	na := 0
	for _, f := range p.FnList {
		if f.Short != "index" {
			continue
		}
		info := f.Pkg.TypesInfo
		inspectShallow(f.Body(), func(x ast.Node) bool {
			switch s := x.(type) {
			case *ast.CompositeLit:
				if n := namedOf(info.TypeOf(s)); n != nil && n.Obj().Name() == "hostGroup" {
					for _, el := range s.Elts {
						if kv, ok := el.(*ast.KeyValueExpr); ok && types.ExprString(kv.Key) == "hosts" {
							na++
							okO, why := oc.owned(f, kv.Value)
							r.Check(okO, ruleA, fmt.Sprintf("%s hostGroup{hosts: %s}", f.Key(), types.ExprString(kv.Value)), p.Pos(kv), why, "the writer adopts a host table it does not own ("+why+"): hostGroup.add appends to it, and with spare capacity in the adopted slice that overwrites the following host group of the input reader — which views are still serving — and of the merged file")
						}
					}
				}
			case *ast.AssignStmt:
				for i, l := range s.Lhs {
					if !isFieldOf(info, l, hostsFld) || i >= len(s.Rhs) {
						continue
					}
					na++
					rhs := ast.Unparen(s.Rhs[i])
					key := fmt.Sprintf("%s %s = %s", f.Key(), types.ExprString(l), firstLine(types.ExprString(rhs)))
					self := false
					if c, ok := rhs.(*ast.CallExpr); ok && isBuiltin(info, c, "append") && types.ExprString(sliceBase(c.Args[0])) == types.ExprString(l) {
						self = true
					}
					if sl, ok := rhs.(*ast.SliceExpr); ok && types.ExprString(sliceBase(sl)) == types.ExprString(l) {
						self = true
					}
					if self {
						r.OkTrivial(ruleA, key, p.Pos(s), "the table's own append / reslice")
						continue
					}
					okO, why := oc.owned(f, rhs)
					r.Check(okO, ruleA, key, p.Pos(s), why, "the writer's host table is set to memory it does not own: "+why)
				}
			}
			return true
		})
	}
	r.Floor(ruleA, 4, na)

}
