package main

// own.go: FRESH for slices — ownership of append targets (DESIGN §3.2, flow-insensitive per variable).
//
// An append (or in-place compaction) writes into the backing array of its first argument. That is
// only safe if this function owns that array: it was created here (nil, literal, make, conversion of
// nil, result of a call that returns owned memory) and every assignment to the variable keeps it so.

import (
	"fmt"
	"go/ast"
	"go/token"
	"go/types"
)

type ownCtx struct {
	p        *Prog
	memoVar  map[types.Object]int // 1 in progress, 2 owned, 3 not owned
	whyVar   map[types.Object]string
	memoRet  map[*Fn]int
	memoElem map[types.Object]int
	use      ast.Node // the append call currently being judged (for flow-sensitive pointee checks)
	// strict: the question is not "may this be appended to" but "is this memory disjoint from everybody else's":
	// a capacity-limited window x[:n:n] is safe to append to, but it still shares its elements
	strict bool
}

func newOwnCtx(p *Prog) *ownCtx {
	return &ownCtx{p: p, memoVar: map[types.Object]int{}, whyVar: map[types.Object]string{}, memoRet: map[*Fn]int{}, memoElem: map[types.Object]int{}}
}

func isSliceType(t types.Type) bool {
	if t == nil {
		return false
	}
	_, ok := t.Underlying().(*types.Slice)
	return ok
}

// declFn returns the root declaration Fn in which obj is declared (by position).
func (o *ownCtx) declFn(f *Fn, obj types.Object) *Fn {
	root := f.Root()
	if root.Node().Pos() <= obj.Pos() && obj.Pos() < root.Node().End() {
		return root
	}
	return nil
}

// owned reports whether expression e (evaluated in function f) denotes slice memory this function owns.
func (o *ownCtx) owned(f *Fn, e ast.Expr) (bool, string) {
	info := f.Pkg.TypesInfo
	e = ast.Unparen(e)
	switch x := e.(type) {
	case *ast.Ident:
		if x.Name == "nil" {
			return true, "nil"
		}
		obj := info.ObjectOf(x)
		v, ok := obj.(*types.Var)
		if !ok {
			return false, "not a variable"
		}
		return o.ownedVar(f, v)
	case *ast.CompositeLit:
		return true, "composite literal"
	case *ast.CallExpr:
		if tv, ok := info.Types[x.Fun]; ok && tv.IsType() {
			// conversion
			if len(x.Args) == 1 {
				return o.owned(f, x.Args[0])
			}
			return false, "conversion"
		}
		if isBuiltin(info, x, "make") || isBuiltin(info, x, "new") {
			return true, "make"
		}
		if isBuiltin(info, x, "append") {
			return o.owned(f, x.Args[0])
		}
		if lit, ok := ast.Unparen(x.Fun).(*ast.FuncLit); ok {
			return o.returnsOwned(o.p.FnOfLit(lit))
		}
		if fn := o.p.Callee(f.Pkg, x); fn != nil {
			if tf := o.p.FnOfObj(fn); tf != nil {
				return o.returnsOwned(tf)
			}
			return true, "result of external call " + fn.FullName()
		}
		// call of a local function variable that is only ever bound to one literal
		if id, ok := ast.Unparen(x.Fun).(*ast.Ident); ok {
			if v, ok := info.ObjectOf(id).(*types.Var); ok {
				if root := o.declFn(f, v); root != nil {
					rhs, _ := o.assignmentsTo(root, v)
					var lit *ast.FuncLit
					n := 0
					for _, e := range rhs {
						if l, ok := ast.Unparen(e).(*ast.FuncLit); ok {
							lit = l
							n++
						} else if c, ok := ast.Unparen(e).(*ast.CallExpr); ok {
							if tv, ok := info.Types[c.Fun]; ok && tv.IsType() {
								continue // (func(...))(nil) declaration idiom
							}
							n += 2
						} else {
							n += 2
						}
					}
					if n == 1 && lit != nil {
						return o.returnsOwned(o.p.FnOfLit(lit))
					}
				}
			}
		}
		return false, "result of a dynamic call"
	case *ast.SliceExpr:
		if !o.strict && x.Slice3 && x.High != nil && x.Max != nil && types.ExprString(x.High) == types.ExprString(x.Max) {
			return true, "capacity-limited slice x[:n:n]: an append must reallocate"
		}
		return o.owned(f, x.X)
	case *ast.IndexExpr:
		// element of a slice of slices
		if id, ok := ast.Unparen(x.X).(*ast.Ident); ok {
			if v, ok := info.ObjectOf(id).(*types.Var); ok {
				okc, why := o.ownedVar(f, v)
				if !okc {
					return false, "element of " + id.Name + ", which is not owned: " + why
				}
				return o.elemOwned(f, v)
			}
		}
		return false, "element of a container that is not a local variable"
	case *ast.SelectorExpr:
		// field of a local struct value created here
		if id, ok := ast.Unparen(x.X).(*ast.Ident); ok {
			if v, ok := info.ObjectOf(id).(*types.Var); ok && !v.IsField() {
				if _, isPtr := v.Type().Underlying().(*types.Pointer); !isPtr {
					okc, why := o.ownedStructField(f, v, x.Sel.Name)
					return okc, why
				}
				return o.ownedThroughPointer(f, v, x.Sel.Name)
			}
		}
		return false, "field of a shared object"
	case *ast.StarExpr:
		if id, ok := ast.Unparen(x.X).(*ast.Ident); ok {
			if v, ok := info.ObjectOf(id).(*types.Var); ok {
				return o.ownedPointee(f, v)
			}
		}
		return false, "dereference"
	}
	return false, fmt.Sprintf("unrecognised expression %T", e)
}

// assignmentsTo collects the right-hand sides assigned to variable v anywhere in root (incl. nested literals).
func (o *ownCtx) assignmentsTo(root *Fn, v *types.Var) (rhs []ast.Expr, other []string) {
	info := root.Pkg.TypesInfo
	ast.Inspect(root.Body(), func(n ast.Node) bool {
		switch s := n.(type) {
		case *ast.AssignStmt:
			for i, l := range s.Lhs {
				id, ok := ast.Unparen(l).(*ast.Ident)
				if !ok || info.ObjectOf(id) != types.Object(v) {
					continue
				}
				if len(s.Rhs) == len(s.Lhs) {
					rhs = append(rhs, s.Rhs[i])
				} else {
					// multi-value call: treat result as call result
					rhs = append(rhs, s.Rhs[0])
				}
			}
		case *ast.ValueSpec:
			for i, id := range s.Names {
				if info.Defs[id] == types.Object(v) && i < len(s.Values) {
					rhs = append(rhs, s.Values[i])
				}
			}
		case *ast.RangeStmt:
			for _, kv := range []ast.Expr{s.Key, s.Value} {
				if id, ok := kv.(*ast.Ident); ok && info.ObjectOf(id) == types.Object(v) {
					other = append(other, "range variable over "+types.ExprString(s.X))
				}
			}
		case *ast.UnaryExpr:
			if s.Op == token.AND {
				if id, ok := ast.Unparen(s.X).(*ast.Ident); ok && info.ObjectOf(id) == types.Object(v) {
					// &v passed somewhere: a callee may write through it; handled by ownedPointee at the callee
				}
			}
		}
		return true
	})
	return
}

func (o *ownCtx) ownedVar(f *Fn, v *types.Var) (bool, string) {
	switch o.memoVar[v] {
	case 1:
		return true, "self-reference"
	case 2:
		return true, o.whyVar[v]
	case 3:
		return false, o.whyVar[v]
	}
	root := o.declFn(f, v)
	if root == nil {
		o.memoVar[v], o.whyVar[v] = 3, "declared outside this function"
		return false, o.whyVar[v]
	}
	// parameters, receivers
	for g := f; g != nil; g = g.Parent {
		if idx := paramIndex(g, v); idx >= 0 {
			// a slice parameter of an unexported declared function is as owned as what every call site in the package passes
			if g.Lit == nil && g.Decl != nil && !ast.IsExported(g.Decl.Name.Name) && isSliceType(v.Type()) && !o.strict {
				if gobj, _ := g.Pkg.TypesInfo.Defs[g.Decl.Name].(*types.Func); gobj != nil {
					o.memoVar[v] = 1
					sites, bad := 0, ""
					for _, c := range o.p.FnList {
						if c.Pkg != g.Pkg || c.Body() == nil {
							continue
						}
						var calls []*ast.CallExpr
						inspectShallow(c.Body(), func(x ast.Node) bool {
							if call, ok := x.(*ast.CallExpr); ok {
								calls = append(calls, call)
							}
							return true
						})
						for _, call := range calls {
							if o.p.Callee(c.Pkg, call) != gobj || idx >= len(call.Args) {
								continue
							}
							sites++
							if okE, w := o.owned(c, call.Args[idx]); !okE && bad == "" {
								bad = "call site " + o.p.Pos(call) + " passes " + types.ExprString(call.Args[idx]) + ", which is not owned: " + w
							}
						}
					}
					// a method value or function value use would escape this census
					escapes := false
					for _, c := range o.p.FnList {
						if c.Pkg != g.Pkg || c.Body() == nil {
							continue
						}
						inspectParents(c.Body(), func(x ast.Node, parents []ast.Node) bool {
							id, ok := x.(*ast.Ident)
							if !ok || c.Pkg.TypesInfo.Uses[id] != types.Object(gobj) {
								return true
							}
							// the identifier must be the Fun (or the Sel of the Fun) of a call
							for i := len(parents) - 1; i >= 0; i-- {
								switch par := parents[i].(type) {
								case *ast.SelectorExpr:
									continue
								case *ast.CallExpr:
									if f2 := ast.Unparen(par.Fun); f2 == ast.Expr(id) {
										return true
									} else if se, ok := f2.(*ast.SelectorExpr); ok && se.Sel == id {
										return true
									}
								}
								break
							}
							escapes = true
							return true
						})
					}
					if sites > 0 && bad == "" && !escapes {
						o.memoVar[v], o.whyVar[v] = 2, fmt.Sprintf("parameter %s: every one of the %d call sites of %s passes owned memory", v.Name(), sites, g.Key())
						return true, o.whyVar[v]
					}
					if bad != "" {
						o.memoVar[v], o.whyVar[v] = 3, "parameter "+v.Name()+": "+bad
						return false, o.whyVar[v]
					}
				}
			}
			o.memoVar[v], o.whyVar[v] = 3, "parameter "+v.Name()+" (caller's memory)"
			return false, o.whyVar[v]
		}
	}
	if root.Decl.Recv != nil {
		for _, fld := range root.Decl.Recv.List {
			for _, id := range fld.Names {
				if root.Pkg.TypesInfo.Defs[id] == types.Object(v) {
					// a slice receiver of an unexported method is as owned as what every call in the package is made on
					// (the accumulator idiom x = x.add(y)); method values would escape the census
					if !ast.IsExported(root.Decl.Name.Name) && isSliceType(v.Type()) && !o.strict {
						if gobj, _ := root.Pkg.TypesInfo.Defs[root.Decl.Name].(*types.Func); gobj != nil {
							o.memoVar[v] = 1
							sites, uses, bad := 0, 0, ""
							for _, c := range o.p.FnList {
								if c.Pkg != root.Pkg || c.Body() == nil {
									continue
								}
								cinfo := c.Pkg.TypesInfo
								inspectShallow(c.Body(), func(x ast.Node) bool {
									switch y := x.(type) {
									case *ast.Ident:
										if cinfo.Uses[y] == types.Object(gobj) {
											uses++
										}
									case *ast.CallExpr:
										if o.p.Callee(c.Pkg, y) != gobj {
											return true
										}
										se, ok := ast.Unparen(y.Fun).(*ast.SelectorExpr)
										if !ok {
											return true
										}
										sites++
										if okE, w := o.owned(c, se.X); !okE && bad == "" {
											bad = "the call at " + o.p.Pos(y) + " is made on " + types.ExprString(se.X) + ", which is not owned: " + w
										}
									}
									return true
								})
							}
							if sites > 0 && sites == uses && bad == "" {
								o.memoVar[v], o.whyVar[v] = 2, fmt.Sprintf("receiver %s: every one of the %d calls of %s is made on owned memory", v.Name(), sites, root.Key())
								return true, o.whyVar[v]
							}
						}
					}
					o.memoVar[v], o.whyVar[v] = 3, "receiver "+v.Name()+" (caller's memory)"
					return false, o.whyVar[v]
				}
			}
		}
	}
	o.memoVar[v] = 1
	rhs, other := o.assignmentsTo(root, v)
	if len(other) > 0 {
		o.memoVar[v], o.whyVar[v] = 3, v.Name()+" is a "+other[0]
		return false, o.whyVar[v]
	}
	for _, e := range rhs {
		// the function in which the assignment occurs
		ef := o.p.EnclosingFn(root.Pkg, e.Pos())
		if ef == nil {
			ef = root
		}
		if ok, why := o.owned(ef, e); !ok {
			o.memoVar[v], o.whyVar[v] = 3, fmt.Sprintf("%s is assigned %s (%s)", v.Name(), types.ExprString(e), why)
			return false, o.whyVar[v]
		}
	}
	o.memoVar[v], o.whyVar[v] = 2, "local "+v.Name()+", only assigned owned values"
	return true, o.whyVar[v]
}

// elemOwned: every element ever inserted into container v (a slice of slices) is owned and distinct.
func (o *ownCtx) elemOwned(f *Fn, v *types.Var) (bool, string) {
	root := o.declFn(f, v)
	if root == nil {
		return false, "container declared elsewhere"
	}
	info := root.Pkg.TypesInfo
	ok, why := true, "all inserted elements are owned"
	bad := func(s string) { ok, why = false, s }
	checkElems := func(ef *Fn, e ast.Expr) {
		e = ast.Unparen(e)
		switch x := e.(type) {
		case *ast.CompositeLit:
			for _, el := range x.Elts {
				if kv, isKV := el.(*ast.KeyValueExpr); isKV {
					el = kv.Value
				}
				if cl, isCL := el.(*ast.CompositeLit); isCL {
					_ = cl
					continue
				}
				if okE, w := o.owned(ef, el); !okE {
					bad("literal element " + types.ExprString(el) + " is not owned: " + w)
				}
			}
		case *ast.CallExpr:
			if isBuiltin(info, x, "append") {
				if id, isID := ast.Unparen(x.Args[0]).(*ast.Ident); !isID || info.ObjectOf(id) != types.Object(v) {
					if okE, w := o.owned(ef, x.Args[0]); !okE {
						bad("append base " + types.ExprString(x.Args[0]) + ": " + w)
					}
				}
				for i, a := range x.Args[1:] {
					if x.Ellipsis.IsValid() && i == len(x.Args)-2 {
						// spread: elements of another container are shared with it unless it is a temporary
						if c, isCall := ast.Unparen(a).(*ast.CallExpr); isCall && !isBuiltin(info, c, "append") {
							if okE, w := o.owned(ef, a); !okE {
								bad("spread of " + types.ExprString(a) + ": " + w)
							}
							continue
						}
						bad("spread of " + types.ExprString(a) + " duplicates element headers: the copies share their backing arrays with the originals")
						continue
					}
					if okE, w := o.owned(ef, a); !okE {
						bad("inserted element " + types.ExprString(a) + " is not owned: " + w)
					}
				}
			}
		}
	}
	ast.Inspect(root.Body(), func(n ast.Node) bool {
		as, isAs := n.(*ast.AssignStmt)
		if !isAs {
			return true
		}
		ef := o.p.EnclosingFn(root.Pkg, as.Pos())
		for i, l := range as.Lhs {
			if i >= len(as.Rhs) {
				break
			}
			l = ast.Unparen(l)
			if id, isID := l.(*ast.Ident); isID && info.ObjectOf(id) == types.Object(v) {
				checkElems(ef, as.Rhs[i])
			}
			if ix, isIx := l.(*ast.IndexExpr); isIx {
				if id, isID := ast.Unparen(ix.X).(*ast.Ident); isID && info.ObjectOf(id) == types.Object(v) {
					// v[i] = E : E owned, or append(v[i], …)
					if c, isCall := ast.Unparen(as.Rhs[i]).(*ast.CallExpr); isCall && isBuiltin(info, c, "append") {
						if ix2, isIx2 := ast.Unparen(c.Args[0]).(*ast.IndexExpr); isIx2 && types.ExprString(ix2) == types.ExprString(ix) {
							continue
						}
					}
					if okE, w := o.owned(ef, as.Rhs[i]); !okE {
						bad("element assignment " + types.ExprString(as.Rhs[i]) + ": " + w)
					}
				}
			}
		}
		return true
	})
	return ok, why
}

// ownedStructField: v is a local struct value; field is owned if v was created from a literal/zero value
// and every assignment to v.field is owned.
func (o *ownCtx) ownedStructField(f *Fn, v *types.Var, field string) (bool, string) {
	root := o.declFn(f, v)
	if root == nil {
		return false, "struct declared elsewhere"
	}
	for g := f; g != nil; g = g.Parent {
		if paramIndex(g, v) >= 0 {
			return false, "field of parameter " + v.Name()
		}
	}
	info := root.Pkg.TypesInfo
	rhs, other := o.assignmentsTo(root, v)
	if len(other) > 0 {
		return false, v.Name() + " is a " + other[0]
	}
	for _, e := range rhs {
		switch x := ast.Unparen(e).(type) {
		case *ast.CompositeLit:
			for _, el := range x.Elts {
				if kv, ok := el.(*ast.KeyValueExpr); ok {
					if id, ok := kv.Key.(*ast.Ident); ok && id.Name == field {
						ef := o.p.EnclosingFn(root.Pkg, kv.Pos())
						if okE, w := o.owned(ef, kv.Value); !okE {
							return false, fmt.Sprintf("%s.%s initialised with %s (%s)", v.Name(), field, types.ExprString(kv.Value), w)
						}
					}
				}
			}
		default:
			return false, fmt.Sprintf("%s is a copy of %s: its %s shares the backing array with the original", v.Name(), types.ExprString(e), field)
		}
	}
	okAll, why := true, "field of local struct, only assigned owned values"
	ast.Inspect(root.Body(), func(n ast.Node) bool {
		as, isAs := n.(*ast.AssignStmt)
		if !isAs {
			return true
		}
		for i, l := range as.Lhs {
			se, isSel := ast.Unparen(l).(*ast.SelectorExpr)
			if !isSel || se.Sel.Name != field || i >= len(as.Rhs) {
				continue
			}
			if id, isID := ast.Unparen(se.X).(*ast.Ident); isID && info.ObjectOf(id) == types.Object(v) {
				// self append is fine
				if c, isCall := ast.Unparen(as.Rhs[i]).(*ast.CallExpr); isCall && isBuiltin(info, c, "append") {
					if types.ExprString(sliceBase(c.Args[0])) == types.ExprString(se) {
						continue
					}
				}
				ef := o.p.EnclosingFn(root.Pkg, as.Pos())
				if okE, w := o.owned(ef, as.Rhs[i]); !okE {
					okAll, why = false, fmt.Sprintf("%s.%s is assigned %s (%s)", v.Name(), field, types.ExprString(as.Rhs[i]), w)
				}
			}
		}
		return true
	})
	return okAll, why
}

func sliceBase(e ast.Expr) ast.Expr {
	for {
		e = ast.Unparen(e)
		if s, ok := e.(*ast.SliceExpr); ok {
			e = s.X
			continue
		}
		return e
	}
}

// ownedPointee: v is a pointer variable; *v is owned if v is a parameter and every call site in the
// package passes the address of an owned local.
func (o *ownCtx) ownedPointee(f *Fn, v *types.Var) (bool, string) {
	var g *Fn
	idx := -1
	for h := f; h != nil; h = h.Parent {
		if i := paramIndex(h, v); i >= 0 {
			g, idx = h, i
		}
	}
	if g == nil || g.Lit != nil {
		return false, "pointer " + v.Name() + " is not a parameter of a declared function"
	}
	gobj, _ := g.Pkg.TypesInfo.Defs[g.Decl.Name].(*types.Func)
	sites := 0
	for _, c := range o.p.FnList {
		if c.Pkg != g.Pkg {
			continue
		}
		for _, call := range callsIn(c.Body()) {
			if o.p.Callee(c.Pkg, call) != gobj || idx >= len(call.Args) {
				continue
			}
			sites++
			u, ok := ast.Unparen(call.Args[idx]).(*ast.UnaryExpr)
			if !ok || u.Op != token.AND {
				return false, "call site " + o.p.Pos(call) + " does not pass &local"
			}
			if okE, w := o.owned(c, u.X); !okE {
				return false, "call site " + o.p.Pos(call) + " passes &" + types.ExprString(u.X) + ", which is not owned: " + w
			}
		}
	}
	if sites == 0 {
		return false, "no call site found for " + g.Key()
	}
	return true, fmt.Sprintf("every one of the %d call sites of %s passes the address of an owned local", sites, g.Key())
}

// returnsOwned: all slice-typed results returned by fn are owned expressions.
func (o *ownCtx) returnsOwned(fn *Fn) (bool, string) {
	if fn == nil {
		return false, "unknown function"
	}
	switch o.memoRet[fn] {
	case 1:
		return true, "recursive"
	case 2:
		return true, "returns owned memory"
	case 3:
		return false, fn.Key() + " can return memory it does not own"
	}
	o.memoRet[fn] = 1
	ok := true
	inspectShallow(fn.Body(), func(n ast.Node) bool {
		rs, isRet := n.(*ast.ReturnStmt)
		if !isRet {
			return true
		}
		for _, res := range rs.Results {
			t := fn.Pkg.TypesInfo.TypeOf(res)
			if !isSliceType(t) {
				continue
			}
			if okE, _ := o.owned(fn, res); !okE {
				ok = false
			}
		}
		return true
	})
	if ok {
		o.memoRet[fn] = 2
		return true, "returns owned memory"
	}
	o.memoRet[fn] = 3
	return false, fn.Key() + " can return memory it does not own"
}

// ownedThroughPointer: p is a local pointer variable. p.field is owned if p only ever points to a
// struct literal created here whose field is owned, or if the pointee is overwritten (`*p = S`) with a
// local struct S whose field is owned before the use (checked on the CFG when a use site is known).
func (o *ownCtx) ownedThroughPointer(f *Fn, p *types.Var, field string) (bool, string) {
	root := o.declFn(f, p)
	if root == nil {
		return false, "pointer " + p.Name() + " declared elsewhere"
	}
	for g := f; g != nil; g = g.Parent {
		if paramIndex(g, p) >= 0 {
			return false, "field through pointer parameter " + p.Name()
		}
	}
	info := root.Pkg.TypesInfo
	rhs, other := o.assignmentsTo(root, p)
	if len(other) > 0 {
		return false, p.Name() + " is a " + other[0]
	}
	allLits := len(rhs) > 0
	for _, e := range rhs {
		u, ok := ast.Unparen(e).(*ast.UnaryExpr)
		if !ok || u.Op != token.AND {
			allLits = false
			continue
		}
		cl, ok := ast.Unparen(u.X).(*ast.CompositeLit)
		if !ok {
			allLits = false
			continue
		}
		for _, el := range cl.Elts {
			if kv, ok := el.(*ast.KeyValueExpr); ok {
				if id, ok := kv.Key.(*ast.Ident); ok && id.Name == field {
					ef := o.p.EnclosingFn(root.Pkg, kv.Pos())
					if okE, w := o.owned(ef, kv.Value); !okE {
						return false, fmt.Sprintf("%s points to a literal whose %s is %s (%s)", p.Name(), field, types.ExprString(kv.Value), w)
					}
				}
			}
		}
	}
	// assignments to p.field
	fieldAssignsOwned := func() (bool, string) {
		okAll, why := true, ""
		ast.Inspect(root.Body(), func(n ast.Node) bool {
			as, isAs := n.(*ast.AssignStmt)
			if !isAs {
				return true
			}
			for i, l := range as.Lhs {
				se, isSel := ast.Unparen(l).(*ast.SelectorExpr)
				if !isSel || se.Sel.Name != field || i >= len(as.Rhs) {
					continue
				}
				if id, isID := ast.Unparen(se.X).(*ast.Ident); isID && info.ObjectOf(id) == types.Object(p) {
					if c, isCall := ast.Unparen(as.Rhs[i]).(*ast.CallExpr); isCall && isBuiltin(info, c, "append") {
						if types.ExprString(sliceBase(c.Args[0])) == types.ExprString(se) {
							continue
						}
					}
					if sl, isSl := ast.Unparen(as.Rhs[i]).(*ast.SliceExpr); isSl && types.ExprString(sliceBase(sl)) == types.ExprString(se) {
						continue
					}
					ef := o.p.EnclosingFn(root.Pkg, as.Pos())
					if okE, w := o.owned(ef, as.Rhs[i]); !okE {
						okAll, why = false, fmt.Sprintf("%s.%s is assigned %s (%s)", p.Name(), field, types.ExprString(as.Rhs[i]), w)
					}
				}
			}
			return true
		})
		return okAll, why
	}
	if allLits {
		if ok, why := fieldAssignsOwned(); !ok {
			return false, why
		}
		return true, "field of a struct literal created in this function (through pointer " + p.Name() + ")"
	}
	// pointee overwritten with an owned struct before the use?
	var overwrites []*ast.AssignStmt
	ast.Inspect(root.Body(), func(n ast.Node) bool {
		as, isAs := n.(*ast.AssignStmt)
		if !isAs || len(as.Lhs) != 1 || len(as.Rhs) != 1 {
			return true
		}
		st, isStar := ast.Unparen(as.Lhs[0]).(*ast.StarExpr)
		if !isStar {
			return true
		}
		if id, isID := ast.Unparen(st.X).(*ast.Ident); isID && info.ObjectOf(id) == types.Object(p) {
			overwrites = append(overwrites, as)
		}
		return true
	})
	if len(overwrites) == 0 {
		return false, "field through pointer " + p.Name() + " into memory this function did not create"
	}
	for _, as := range overwrites {
		ef := o.p.EnclosingFn(root.Pkg, as.Pos())
		switch x := ast.Unparen(as.Rhs[0]).(type) {
		case *ast.Ident:
			sv, ok := info.ObjectOf(x).(*types.Var)
			if !ok {
				return false, "pointee overwritten with a non-variable"
			}
			if okE, w := o.ownedStructField(ef, sv, field); !okE {
				return false, fmt.Sprintf("*%s is overwritten with %s whose %s is not owned: %s", p.Name(), x.Name, field, w)
			}
		case *ast.CompositeLit:
			for _, el := range x.Elts {
				if kv, ok := el.(*ast.KeyValueExpr); ok {
					if id, ok := kv.Key.(*ast.Ident); ok && id.Name == field {
						if okE, w := o.owned(ef, kv.Value); !okE {
							return false, "pointee literal field not owned: " + w
						}
					}
				}
			}
		default:
			return false, "pointee overwritten with " + types.ExprString(as.Rhs[0])
		}
	}
	if ok, why := fieldAssignsOwned(); !ok {
		return false, why
	}
	// the overwrite must come before the use on every path from the pointer's definition
	if o.use != nil {
		uf := o.p.EnclosingFn(root.Pkg, o.use.Pos())
		fl := o.p.Flow(uf)
		var defPts []Pt
		for _, b := range fl.G.Blocks {
			for i, n := range b.Nodes {
				if as, ok := n.(*ast.AssignStmt); ok {
					for _, l := range as.Lhs {
						if id, ok := ast.Unparen(l).(*ast.Ident); ok && info.ObjectOf(id) == types.Object(p) {
							defPts = append(defPts, Pt{b, i + 1})
						}
					}
				}
			}
		}
		isOverwrite := func(n ast.Node) bool {
			for _, as := range overwrites {
				if n == ast.Node(as) {
					return true
				}
			}
			return false
		}
		usePt, okU := fl.PointOf(o.use)
		if !okU || len(defPts) == 0 {
			return false, "cannot order the overwrite of *" + p.Name() + " and the use"
		}
		res := fl.Reach(defPts, func(n ast.Node) bool { return n == fl.node(usePt) }, isOverwrite)
		if res.Found {
			return false, "the use is reachable from the definition of " + p.Name() + " without passing `*" + p.Name() + " = <owned struct>` (" + fl.traceString(res) + ")"
		}
	}
	return true, "pointee is overwritten with a struct whose " + field + " was allocated here before every use"
}
