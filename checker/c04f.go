package main

// c04f.go: C04-f captured-text-is-quoted.
//
// Sub-query variables carry bytes captured from stream payloads (variableDataValue.value, progressVariant.variables).
// When such a value is substituted into the text of a regular expression it has to match literally; it therefore has
// to pass binaryregexp.QuoteMeta before it reaches (a) the pre-quoted per-variant table `quotedData`, or (b) the
// content that a splice inserts into an expression. A small flow-sensitive taint analysis per function:
//   sources     selectors of field `value` of variableDataValue, index expressions on the map field `variables`
//   sanitiser   the result of a call of binaryregexp.QuoteMeta
//   propagation locals assigned / op-assigned / appended from tainted expressions, strings.Join of a tainted slice
//   sinks       stores into something that ends up as field `quotedData`; the non-target operands of a splice (C04-e)
// The analysis is a forward dataflow over the function's CFG: the state is the set of variables that may hold
// captured, unquoted text; a plain assignment is a strong update, op-assignments and element stores only add; states
// are joined by union at merge points. A sink is violated when its expression is tainted in the state at its node.

import (
	"fmt"
	"go/ast"
	"go/token"
	"go/types"

	"golang.org/x/tools/go/cfg"
)

func init() {
	register("C04",
		"C04-f (flow-sensitive taint, per function in package index): payload bytes captured into sub-query variables (variableDataValue.value, progressVariant.variables[…]) reach regex text — the pre-quoted table quotedData or the content inserted by a splice — only through binaryregexp.QuoteMeta. Unquoted, a captured `a.c` also selects `abc`, a captured `x|y` flips a negated filter and a captured `f(1` makes the search fail with a parse error.",
		ruleC04Quoted)
}

func ruleC04Quoted(p *Prog, r *Res) {
	const rule = "C04-f captured-text-is-quoted"
	r.Rule(rule + ": captured variable values pass QuoteMeta before they become regex text")
	valueFld := p.Field("index", "variableDataValue", "value")
	varsFld := p.Field("index", "progressVariant", "variables")
	if valueFld == nil || varsFld == nil {
		p.anchorFail("index.variableDataValue.value / index.progressVariant.variables")
		return
	}
	// quoting helpers of the package: one string in, one string out, the parameter goes through QuoteMeta (since #74 the
	// result is also rewritten byte by byte; C04-q looks at that)
	quoteHelpers := map[*types.Func]bool{}
	for _, g := range p.FnList {
		if g.Short != "index" || g.Lit != nil || g.Decl == nil || g.Body() == nil || g.Decl.Recv != nil {
			continue
		}
		ginfo := g.Pkg.TypesInfo
		ft := g.Decl.Type
		if ft.Params == nil || len(ft.Params.List) != 1 || len(ft.Params.List[0].Names) != 1 || ft.Results == nil || len(ft.Results.List) != 1 {
			continue
		}
		par := ginfo.Defs[ft.Params.List[0].Names[0]]
		if par == nil || types.TypeString(par.Type(), nil) != "string" || types.TypeString(ginfo.TypeOf(ft.Results.List[0].Type), nil) != "string" {
			continue
		}
		// what is derived from the parameter: copies, conversions, elements of a range over it
		derived := map[types.Object]bool{par: true}
		mentions := func(n ast.Node) bool {
			hit := false
			ast.Inspect(n, func(x ast.Node) bool {
				if id, ok := x.(*ast.Ident); ok && derived[ginfo.Uses[id]] {
					hit = true
				}
				return !hit
			})
			return hit
		}
		for round := 0; round < 3; round++ {
			inspectShallow(g.Body(), func(x ast.Node) bool {
				switch st := x.(type) {
				case *ast.AssignStmt:
					for i, rh := range st.Rhs {
						if i < len(st.Lhs) && mentions(rh) {
							if o := identObj(ginfo, st.Lhs[i]); o != nil {
								derived[o] = true
							}
						}
					}
				case *ast.RangeStmt:
					if st.Value != nil && mentions(st.X) {
						if o := identObj(ginfo, st.Value); o != nil {
							derived[o] = true
						}
					}
				}
				return true
			})
		}
		for _, c := range callsIn(g.Body()) {
			if fn := p.Callee(g.Pkg, c); fn != nil && fn.Name() == "QuoteMeta" && len(c.Args) == 1 && mentions(c.Args[0]) {
				if gobj, _ := ginfo.Defs[g.Decl.Name].(*types.Func); gobj != nil {
					quoteHelpers[gobj.Origin()] = true
				}
			}
		}
	}
	nSinks := 0
	for _, f := range p.FnList {
		if f.Short != "index" || f.Body() == nil {
			continue
		}
		info := f.Pkg.TypesInfo
		isSanitiser := func(c *ast.CallExpr) bool {
			fn := p.Callee(f.Pkg, c)
			return fn != nil && (fn.Name() == "QuoteMeta" || quoteHelpers[fn.Origin()])
		}
		// tainted(expr) given the set of currently tainted variables
		var taintedExpr func(e ast.Node, tv map[types.Object]bool) bool
		taintedExpr = func(e ast.Node, tv map[types.Object]bool) bool {
			found := false
			ast.Inspect(e, func(x ast.Node) bool {
				if found {
					return false
				}
				switch y := x.(type) {
				case *ast.FuncLit:
					return false
				case *ast.CallExpr:
					if isSanitiser(y) {
						return false
					}
				case *ast.SelectorExpr:
					if info.Uses[y.Sel] == types.Object(valueFld) {
						found = true
					}
				case *ast.IndexExpr:
					if se, ok := ast.Unparen(y.X).(*ast.SelectorExpr); ok && info.Uses[se.Sel] == types.Object(varsFld) {
						found = true
					}
				case *ast.Ident:
					if tv[info.Uses[y]] {
						found = true
					}
				}
				return !found
			})
			return found
		}
		// sinks
		type sink struct {
			node ast.Node
			expr ast.Expr
			what string
		}
		var sinks []sink
		// (a) quotedData: locals that are used as value of key quotedData in a composite literal, or the field itself
		quotedLocals := map[types.Object]bool{}
		ast.Inspect(f.Body(), func(x ast.Node) bool {
			if kv, ok := x.(*ast.KeyValueExpr); ok {
				if k, ok := kv.Key.(*ast.Ident); ok && k.Name == "quotedData" {
					if o := identObj(info, kv.Value); o != nil {
						quotedLocals[o] = true
					}
				}
			}
			return true
		})
		inspectShallow(f.Body(), func(x ast.Node) bool {
			as, ok := x.(*ast.AssignStmt)
			if !ok {
				return true
			}
			for i, l := range as.Lhs {
				base := ast.Unparen(l)
				if ix, ok := base.(*ast.IndexExpr); ok {
					base = ast.Unparen(ix.X)
				}
				isQ := false
				if o := identObj(info, base); o != nil && quotedLocals[o] {
					isQ = true
				}
				if se, ok := base.(*ast.SelectorExpr); ok && se.Sel.Name == "quotedData" {
					isQ = true
				}
				if !isQ {
					continue
				}
				var rh ast.Expr
				if len(as.Rhs) == len(as.Lhs) {
					rh = as.Rhs[i]
				} else if len(as.Rhs) == 1 {
					rh = as.Rhs[0]
				}
				// allocation of the table itself is not a store of text
				if c, ok := ast.Unparen(rh).(*ast.CallExpr); ok && isBuiltin(info, c, "make") {
					continue
				}
				if rh != nil {
					sinks = append(sinks, sink{as, rh, "stored into the pre-quoted table quotedData"})
				}
			}
			return true
		})
		// (b) splices: target = f(target[:P] …, other operands …, target[P:]) or splice helper call
		posField := p.Field("query", "DataConditionElementVariable", "Position")
		inspectShallow(f.Body(), func(x ast.Node) bool {
			as, ok := x.(*ast.AssignStmt)
			if !ok || len(as.Lhs) != 1 || len(as.Rhs) != 1 || posField == nil {
				return true
			}
			target := identObj(info, as.Lhs[0])
			if target == nil {
				return true
			}
			usesPos := false
			ast.Inspect(as.Rhs[0], func(y ast.Node) bool {
				if se, ok := y.(*ast.SelectorExpr); ok && info.Uses[se.Sel] == types.Object(posField) {
					usesPos = true
				}
				return true
			})
			mentionsTarget := false
			ast.Inspect(as.Rhs[0], func(y ast.Node) bool {
				if id, ok := y.(*ast.Ident); ok && info.Uses[id] == target {
					mentionsTarget = true
				}
				return true
			})
			if usesPos && mentionsTarget {
				sinks = append(sinks, sink{as, as.Rhs[0], "inserted into the expression " + target.Name() + " by a splice"})
			}
			return true
		})
		if len(sinks) == 0 {
			continue
		}
		// forward dataflow over the CFG: the set of variables that may hold captured, unquoted text at each node
		fl := p.Flow(f)
		rangeOf := map[*ast.Ident]*ast.RangeStmt{}
		inspectShallow(f.Body(), func(x ast.Node) bool {
			if rs, ok := x.(*ast.RangeStmt); ok {
				if id, ok := rs.Value.(*ast.Ident); ok {
					rangeOf[id] = rs
				}
			}
			return true
		})
		transfer := func(n ast.Node, st map[types.Object]bool) {
			switch x := n.(type) {
			case *ast.AssignStmt:
				type upd struct {
					o      types.Object
					t      bool
					strong bool
				}
				var upds []upd
				for i, l := range x.Lhs {
					var rh ast.Expr
					if len(x.Rhs) == len(x.Lhs) {
						rh = x.Rhs[i]
					} else if len(x.Rhs) == 1 {
						rh = x.Rhs[0]
					}
					t := rh != nil && taintedExpr(rh, st)
					if o := identObj(info, l); o != nil {
						upds = append(upds, upd{o, t, x.Tok == token.ASSIGN || x.Tok == token.DEFINE})
						continue
					}
					// element / field store into a local container: adds, never cleans
					if ri := rootIdentOf(l); ri != nil {
						if o := info.Uses[ri]; o != nil {
							upds = append(upds, upd{o, t, false})
						}
					}
				}
				for _, u := range upds {
					if u.t {
						st[u.o] = true
					} else if u.strong {
						delete(st, u.o)
					}
				}
			case *ast.ValueSpec:
				for i, id := range x.Names {
					o := info.Defs[id]
					if o == nil {
						continue
					}
					if i < len(x.Values) && taintedExpr(x.Values[i], st) {
						st[o] = true
					} else {
						delete(st, o)
					}
				}
			case *ast.Ident:
				if rs := rangeOf[x]; rs != nil {
					o := info.Defs[x]
					if o == nil {
						o = info.Uses[x]
					}
					if o != nil {
						if taintedExpr(rs.X, st) {
							st[o] = true
						} else {
							delete(st, o)
						}
					}
				}
			}
		}
		in := map[*cfg.Block]map[types.Object]bool{}
		at := map[ast.Node]map[types.Object]bool{}
		work := []*cfg.Block{fl.G.Blocks[0]}
		in[fl.G.Blocks[0]] = map[types.Object]bool{}
		for len(work) > 0 {
			b := work[0]
			work = work[1:]
			st := map[types.Object]bool{}
			for k := range in[b] {
				st[k] = true
			}
			for _, n := range b.Nodes {
				cp := map[types.Object]bool{}
				for k := range st {
					cp[k] = true
				}
				at[n] = cp
				transfer(n, st)
			}
			for _, sc := range b.Succs {
				m, seen := in[sc]
				if !seen {
					m = map[types.Object]bool{}
					in[sc] = m
				}
				changed := !seen
				for k := range st {
					if !m[k] {
						m[k] = true
						changed = true
					}
				}
				if changed {
					work = append(work, sc)
				}
			}
		}
		for _, sk := range sinks {
			nSinks++
			key := fmt.Sprintf("%s text %s (line +%d)", f.Key(), sk.what, lineOf(p.Fset, sk.node)-lineOf(p.Fset, f.Node()))
			st, live := at[sk.node]
			if !live {
				if pt, ok := fl.PointOf(sk.node); ok {
					st, live = at[fl.node(pt)]
				}
			}
			if !live {
				r.Ok(rule, key, p.Pos(sk.node), "not reachable")
				continue
			}
			if taintedExpr(sk.expr, st) {
				which := "a captured value"
				ast.Inspect(sk.expr, func(y ast.Node) bool {
					if c, ok := y.(*ast.CallExpr); ok && isSanitiser(c) {
						return false
					}
					if id, ok := y.(*ast.Ident); ok && st[info.Uses[id]] {
						which = id.Name + " (which can hold a captured value here)"
					}
					return true
				})
				r.Bad(rule, key, p.Pos(sk.node), which+" is "+sk.what+" without having passed QuoteMeta: it would be interpreted as regex syntax")
			} else {
				r.Ok(rule, key, p.Pos(sk.node), "every captured value reaching this point has passed QuoteMeta")
			}
		}
	}
	r.Floor(rule, 3, nSinks)
}
