package main

import (
	"fmt"
	"go/ast"
	"go/token"
	"go/types"
)

func init() {
	register("C10",
		"C10 (snapshot isolation, structural): (a) View fields are written only by View.fetch, the closure it posts on the service goroutine, and the view-local tag prefetch; (b) what a view or job holds is never written again: index lists leave the loop only as the owned copy made by getIndexesCopy and Manager.indexes itself is only read in place, index.Reader fields are written only while NewReader constructs the reader, tag snapshots obey copy-on-write (C06-a rule), and replacing a run of Manager.indexes keeps every reader outside the run (C13-b rule); (c) every traversal of a reader stack that takes the first hit (View.Stream, View.AllStreams, SearchStreams, the converter job's lookup) walks from the newest reader to the oldest; (d) in no closure of the service goroutine is Manager.indexes changed after a snapshot of it was taken (a job started from that snapshot would not see what was just imported and would re-use stream IDs). Completeness of Manager.indexes itself and tag prefetch correctness are NOT decided.",
		ruleC10,
		ruleIndexesMembership("C10-b membership-hold"),
		func(p *Prog, r *Res) { ruleFreshBitmasks(p, r, "C10-b cow-published-bitmask", []string{"manager"}, 30) })
	readerStack := func(t types.Type) bool {
		return t != nil && types.TypeString(t, nil) == "[]*github.com/spq/pkappa2/internal/index.Reader"
	}
	const explE = "C10-e (FRESH-slices on reader stacks): every append in packages index and manager whose first argument is a []*index.Reader writes into a backing array the function owns. A view's index list is handed down to SearchStreams and buildSearchObjects as sub-slices of the view's own array; filtering such a slice in place (x[:0] + append) rewrites the view's list, and later queries on the same view lose the streams of the overwritten files."
	register("C10", explE, func(p *Prog, r *Res) {
		ruleAppendOwnedFiltered(p, r, "C10-e reader-stacks-read-only", []string{"index", "manager"}, 8, readerStack)
	})
	register("C02", "C02-y = "+explE, func(p *Prog, r *Res) {
		ruleAppendOwnedFiltered(p, r, "C02-y reader-stacks-read-only", []string{"index", "manager"}, 8, readerStack)
	})
	register("C07", "C07-g = "+explE, func(p *Prog, r *Res) {
		ruleAppendOwnedFiltered(p, r, "C07-g reader-stacks-read-only", []string{"index", "manager"}, 8, readerStack)
	})
	register("C07",
		"C07-d (merge replacement): the C13-b rule on mergeIndexesJob's completion — the merged run replaces exactly the sub-slice that was released, the inserted readers are locked, and every reader outside the run stays in Manager.indexes.",
		ruleIndexesMembership("C07-d membership-hold"))
}

func ruleC10(p *Prog, r *Res) {
	ctx := p.Contexts()
	// (a) who may write View fields
	const ruleA = "C10-a view-writers"
	r.Rule(ruleA + ": View fields are written only by fetch, its posted closure and prefetchTags")
	view := p.Named("manager", "View")
	allowedA := map[string]string{
		"manager.View.fetch":        "initialises the view's maps on the caller's goroutine before posting",
		"manager.View.fetch$1":      "fills the view on the service goroutine",
		"manager.View.prefetchTags": "updates the view-local copy of tag details (view is owned by one request)",
		"manager.Manager.GetView":   "constructs the view",
	}
	na := 0
	if view != nil {
		for _, f := range p.FnList {
			if f.Short != "manager" && f.Short != "main" {
				continue
			}
			info := f.Pkg.TypesInfo
			inspectShallow(f.Body(), func(x ast.Node) bool {
				as, ok := x.(*ast.AssignStmt)
				if !ok {
					return true
				}
				for _, l := range as.Lhs {
					base := ast.Unparen(l)
					if ix, ok := base.(*ast.IndexExpr); ok {
						base = ast.Unparen(ix.X)
					}
					se, ok := base.(*ast.SelectorExpr)
					if !ok {
						continue
					}
					fv, ok := info.Uses[se.Sel].(*types.Var)
					if !ok || !fv.IsField() {
						continue
					}
					if n := namedOf(info.TypeOf(se.X)); n == nil || n.Obj() != view.Obj() {
						continue
					}
					na++
					key := fmt.Sprintf("store to View.%s in %s", fv.Name(), f.Key())
					if why, ok := allowedA[f.Key()]; ok {
						r.OkTrivial(ruleA, key, p.Pos(as), why)
					} else if calledOnlyFrom(p, f.Root(), func(g *Fn) bool { _, ok := allowedA[g.Key()]; return ok }, 0) {
						r.OkTrivial(ruleA, key, p.Pos(as), "helper called only from the view's own writers")
					} else {
						r.Bad(ruleA, key, p.Pos(as), "a view's snapshot is modified outside fetch/prefetch: the view no longer gives the same answers for its lifetime")
					}
				}
				return true
			})
		}
	}
	r.Floor(ruleA, 6, na)

	// (b-i) Manager.indexes is only used in place; lists that leave the loop come from getIndexesCopy
	const ruleB = "C10-b index-list-ownership"
	r.Rule(ruleB + ": Manager.indexes never escapes; escaping lists are owned copies")
	idxFld := p.Field("manager", "Manager", "indexes")
	nbu := 0
	if idxFld != nil {
		for _, f := range p.FnList {
			if f.Short != "manager" {
				continue
			}
			info := f.Pkg.TypesInfo
			inspectParents(f.Body(), func(n ast.Node, stack []ast.Node) bool {
				if se, ok := n.(*ast.SelectorExpr); ok && info.Uses[se.Sel] == types.Object(idxFld) && len(stack) > 0 {
					nbu++
					par := stack[len(stack)-1]
					okUse, why := false, fmt.Sprintf("used in %T", par)
					switch pn := par.(type) {
					case *ast.CallExpr:
						if isBuiltin(info, pn, "len") {
							okUse, why = true, "len()"
						}
						if isBuiltin(info, pn, "append") && pn.Args[0] == ast.Expr(se) {
							okUse, why = true, "append base (self-append, assigned back)"
						}
						if fn := p.Callee(f.Pkg, pn); fn != nil && (fn.Name() == "lock" || fn.FullName() == "slices.Replace") {
							okUse, why = true, "argument of "+fn.Name()+" (does not retain the slice: lock copies, Replace is assigned back)"
						}
					case *ast.RangeStmt:
						okUse, why = pn.X == ast.Expr(se), "ranged over in place"
					case *ast.SliceExpr:
						// sub-slice: allowed as append base/tail, as argument of the copying append in getIndexesCopy, and as
						// the short-lived indexReleaser conversion released before the list changes (C13-b)
						okUse, why = true, "sliced in place (consumer checked by C13-b / getIndexesCopy ownership)"
					case *ast.IndexExpr:
						okUse, why = true, "indexed"
					case *ast.AssignStmt:
						for _, l := range pn.Lhs {
							if l == ast.Expr(se) {
								okUse, why = true, "assignment target"
							}
						}
					}
					key := fmt.Sprintf("%s use of Manager.indexes@%s", f.Key(), relLine(p, f, se))
					if okUse {
						r.OkTrivial(ruleB, key, p.Pos(se), why)
					} else {
						r.Bad(ruleB, key, p.Pos(se), "Manager.indexes is stored, passed or returned ("+why+"): the holder would see later appends and splices, or the service would see the holder's writes")
					}
				}
				return true
			})
		}
	}
	r.Floor(ruleB+" uses", 12, nbu)
	if f := p.Fn("manager.Manager.getIndexesCopy"); f != nil {
		oc := newOwnCtx(p)
		oc.strict = true
		inspectShallow(f.Body(), func(x ast.Node) bool {
			if rs, ok := x.(*ast.ReturnStmt); ok && len(rs.Results) >= 1 {
				okO, why := oc.owned(f, rs.Results[0])
				r.Check(okO, ruleB, "manager.Manager.getIndexesCopy returns an owned copy", p.Pos(rs), why, "getIndexesCopy hands out memory it does not own: "+why)
			}
			return true
		})
	}
	// every []*index.Reader passed to a go call or stored into a View comes from getIndexesCopy
	copyM := p.Method("manager", "Manager", "getIndexesCopy")
	ne := 0
	for _, gs := range ctx.GoSites {
		if gs.In.Short != "manager" {
			continue
		}
		info := gs.In.Pkg.TypesInfo
		for _, a := range gs.Stmt.Call.Args {
			t := info.TypeOf(a)
			if t == nil || types.TypeString(t, nil) != "[]*github.com/spq/pkappa2/internal/index.Reader" {
				continue
			}
			ne++
			obj := identObj(info, a)
			fromCopy := false
			if obj != nil {
				inspectShallow(gs.In.Body(), func(x ast.Node) bool {
					if as, ok := x.(*ast.AssignStmt); ok && len(as.Rhs) == 1 && len(as.Lhs) == 2 && sameObj(info, as.Lhs[0], obj) {
						if c, ok := as.Rhs[0].(*ast.CallExpr); ok && p.Callee(gs.In.Pkg, c) == copyM {
							fromCopy = true
						}
					}
					return true
				})
			}
			r.Check(fromCopy, ruleB, fmt.Sprintf("%s: go %s(… %s …)", gs.In.Key(), types.ExprString(gs.Stmt.Call.Fun), types.ExprString(a)), p.Pos(gs.Stmt), "list comes from getIndexesCopy in the same function", "a reader list is handed to a goroutine that is not the copy made by getIndexesCopy")
		}
	}
	r.Floor(ruleB+" lists handed to jobs", 5, ne)

	// (b-iii) index.Reader fields are written only during construction
	const ruleR = "C10-b reader-immutable"
	r.Rule(ruleR + ": fields of index.Reader are assigned only in NewReader")
	reader := p.Named("index", "Reader")
	nr := 0
	if reader != nil {
		for _, f := range p.FnList {
			info := f.Pkg.TypesInfo
			inspectShallow(f.Body(), func(x ast.Node) bool {
				var lhss []ast.Expr
				switch s := x.(type) {
				case *ast.AssignStmt:
					lhss = s.Lhs
				case *ast.IncDecStmt:
					lhss = []ast.Expr{s.X}
				}
				for _, l := range lhss {
					// peel index expressions: r.containedStreamIds[k] = v writes the reader's map
					base := ast.Unparen(l)
					for {
						if ix, ok := base.(*ast.IndexExpr); ok {
							base = ast.Unparen(ix.X)
							continue
						}
						break
					}
					se, ok := base.(*ast.SelectorExpr)
					if !ok {
						continue
					}
					// walk down the selector chain to find a field of Reader
					for cur := se; cur != nil; {
						if fv, ok := info.Uses[cur.Sel].(*types.Var); ok && fv.IsField() {
							if n := namedOf(info.TypeOf(cur.X)); n != nil && n.Obj() == reader.Obj() {
								nr++
								key := fmt.Sprintf("store to Reader.%s in %s", fv.Name(), f.Key())
								inCtor := f.Root().Key() == "index.NewReader" || calledOnlyFrom(p, f.Root(), func(g *Fn) bool { return g.Root().Key() == "index.NewReader" }, 2)
								r.Check(inCtor, ruleR, key, p.Pos(x), "during construction (NewReader or an unexported helper that only NewReader calls)", "a served reader is modified after construction: views and jobs share readers without synchronisation and expect them to be immutable")
								break
							}
						}
						nx, ok := ast.Unparen(cur.X).(*ast.SelectorExpr)
						if !ok {
							break
						}
						cur = nx
					}
				}
				return true
			})
		}
	}
	r.Floor(ruleR, 8, nr)

	// (c) newest-first traversal of reader stacks
	const ruleC = "C10-c newest-first"
	r.Rule(ruleC + ": traversals of a reader stack that take the first hit iterate from the last (newest) reader down")
	nc := 0
	readerSliceT := "[]*github.com/spq/pkappa2/internal/index.Reader"
	for _, key := range []string{"manager.View.Stream", "manager.View.AllStreams", "index.SearchStreams", "manager.Manager.convertStreamJob"} {
		f := p.Fn(key)
		if f == nil {
			continue
		}
		// look in f and nested literals for loops whose body indexes a []*Reader with the loop variable
		ast.Inspect(f.Body(), func(x ast.Node) bool {
			info := f.Pkg.TypesInfo
			switch s := x.(type) {
			case *ast.RangeStmt:
				// `for _, idx := range slices.Backward(indexes)`: newest first by construction
				if c, ok := ast.Unparen(s.X).(*ast.CallExpr); ok && len(c.Args) == 1 {
					if fn := p.Callee(f.Pkg, c); fn != nil && fn.FullName() == "slices.Backward" {
						if t := info.TypeOf(c.Args[0]); t != nil && types.TypeString(t, nil) == readerSliceT {
							nc++
							r.Ok(ruleC, fmt.Sprintf("%s range slices.Backward(%s)", key, types.ExprString(c.Args[0])), p.Pos(s), "descending by construction")
						}
					}
				}
				if t := info.TypeOf(s.X); t != nil && types.TypeString(t, nil) == readerSliceT {
					// a range over the whole stack in ascending order: only fine when every element is visited
					// without early exit on a hit (e.g. ReferenceTime's min) — here: flag when the body returns/breaks on a hit
					exits := false
					ast.Inspect(s.Body, func(y ast.Node) bool {
						switch b := y.(type) {
						case *ast.ReturnStmt:
							exits = true
						case *ast.BranchStmt:
							if b.Tok == token.BREAK {
								exits = true
							}
						case *ast.FuncLit:
							return false
						}
						return true
					})
					// the superseding filter `for _, idx2 := range v.indexes[i:]` iterates newer readers only: a membership test
					// (map lookups on the element), order irrelevant. A first-hit traversal fetches stream data from the element.
					fetches := false
					ast.Inspect(s.Body, func(y ast.Node) bool {
						if c, ok := y.(*ast.CallExpr); ok {
							if fn := p.Callee(f.Pkg, c); fn != nil {
								switch fn.Name() {
								case "StreamByID", "streamByIndex", "AllStreams", "searchStreams", "Data", "DataForSearch":
									fetches = true
								}
							}
						}
						return true
					})
					if !fetches {
						return true
					}
					// `for n := range stack { i := len(stack)-1-n; r := stack[i] …`: the key counts the readers already
					// visited, the element is taken from the far end — a descending traversal written with range
					if s.Value == nil || types.ExprString(s.Value) == "_" {
						if kobj := identObj(info, s.Key); kobj != nil {
							reversed := func(e ast.Expr) bool {
								// len(S) - 1 - key
								b1, ok := ast.Unparen(e).(*ast.BinaryExpr)
								if !ok || b1.Op != token.SUB || identObj(info, b1.Y) != kobj {
									return false
								}
								b2, ok := ast.Unparen(b1.X).(*ast.BinaryExpr)
								if !ok || b2.Op != token.SUB {
									return false
								}
								c, ok := ast.Unparen(b2.X).(*ast.CallExpr)
								if !ok || !isBuiltin(info, c, "len") || len(c.Args) != 1 || types.ExprString(c.Args[0]) != types.ExprString(s.X) {
									return false
								}
								one, isC := constInt(info, b2.Y)
								return isC && one == 1
							}
							revVars := map[types.Object]bool{}
							ast.Inspect(s.Body, func(y ast.Node) bool {
								if as, ok := y.(*ast.AssignStmt); ok && len(as.Lhs) == len(as.Rhs) {
									for i, l := range as.Lhs {
										if o := identObj(info, l); o != nil && reversed(as.Rhs[i]) {
											revVars[o] = true
										}
									}
								}
								return true
							})
							usesKey, usesRev := false, false
							ast.Inspect(s.Body, func(y ast.Node) bool {
								if ix, ok := y.(*ast.IndexExpr); ok {
									if t := info.TypeOf(ix.X); t != nil && types.TypeString(t, nil) == readerSliceT {
										if o := identObj(info, ix.Index); o != nil && revVars[o] || reversed(ix.Index) {
											usesRev = true
										} else {
											ast.Inspect(ix.Index, func(z ast.Node) bool {
												if id, ok := z.(*ast.Ident); ok && info.ObjectOf(id) == kobj {
													usesKey = true
												}
												return true
											})
										}
									}
								}
								return true
							})
							if usesRev && !usesKey {
								nc++
								r.Ok(ruleC, fmt.Sprintf("%s range %s (index len-1-key)", key, types.ExprString(s.X)), p.Pos(s), "descending: the element is taken at len-1-key")
								return true
							}
						}
					}
					nc++
					k := fmt.Sprintf("%s range %s", key, types.ExprString(s.X))
					r.Check(!exits, ruleC, k, p.Pos(s), "ascending range without early exit (visits every reader)", "ascending range over the reader stack that stops at the first hit: an older version of a stream wins over the newest one")
				}
			case *ast.ForStmt:
				// for i := len(x)-1; i >= 0; i-- / for i := len(x); i > 0; i--
				uses := false
				var ivar types.Object
				if as, ok := s.Init.(*ast.AssignStmt); ok && len(as.Lhs) == 1 {
					ivar = identObj(info, as.Lhs[0])
				}
				if ivar == nil {
					return true
				}
				ast.Inspect(s.Body, func(y ast.Node) bool {
					if ix, ok := y.(*ast.IndexExpr); ok {
						if t := info.TypeOf(ix.X); t != nil && types.TypeString(t, nil) == readerSliceT {
							ast.Inspect(ix.Index, func(z ast.Node) bool {
								if id, ok := z.(*ast.Ident); ok && info.ObjectOf(id) == ivar {
									uses = true
								}
								return true
							})
						}
					}
					return true
				})
				if !uses {
					return true
				}
				nc++
				desc := false
				switch post := s.Post.(type) {
				case *ast.IncDecStmt:
					desc = post.Tok == token.DEC && sameObj(info, post.X, ivar)
				}
				// `for idxIdx := len(indexes); idxIdx > 0; { idxIdx-- …` (Merge) has no post: look for a decrement in the body
				if s.Post == nil {
					ast.Inspect(s.Body, func(y ast.Node) bool {
						if d, ok := y.(*ast.IncDecStmt); ok && d.Tok == token.DEC && sameObj(info, d.X, ivar) {
							desc = true
						}
						return true
					})
				}
				k := fmt.Sprintf("%s for %s", key, ivar.Name())
				r.Check(desc, ruleC, k, p.Pos(s), "descending index loop", "the reader stack is walked upwards: the first hit is the oldest stored version of a stream, not the newest")
			}
			return true
		})
	}
	r.Floor(ruleC, 4, nc)

	// (d) no change of Manager.indexes after a snapshot in the same closure
	const ruleD = "C10-d snapshot-after-change"
	r.Rule(ruleD + ": within one closure of the service goroutine Manager.indexes is not changed after getIndexesCopy")
	nd := 0
	// functions that take a snapshot themselves (start…IfNeeded): calling them is taking a snapshot
	snapFns := map[*types.Func]bool{copyM: true}
	for changed := true; changed; {
		changed = false
		for _, f := range p.FnList {
			if f.Short != "manager" || f.Lit != nil {
				continue
			}
			fo, _ := f.Pkg.TypesInfo.Defs[f.Decl.Name].(*types.Func)
			if fo == nil || snapFns[fo] {
				continue
			}
			for _, c := range callsIn(f.Body()) {
				if snapFns[p.Callee(f.Pkg, c)] {
					snapFns[fo] = true
					changed = true
				}
			}
		}
	}
	for _, f := range p.FnList {
		if f.Short != "manager" || !(ctx.Has(f, ctxLOOP) || ctx.Has(f, ctxINIT)) {
			continue
		}
		info := f.Pkg.TypesInfo
		fl := p.Flow(f)
		snaps := fl.Find(func(n ast.Node) bool {
			return fl.hasCall(n, func(c *ast.CallExpr) bool { return snapFns[p.Callee(f.Pkg, c)] })
		})
		if len(snaps) == 0 {
			continue
		}
		isChange := func(n ast.Node) bool {
			as, ok := n.(*ast.AssignStmt)
			if !ok {
				return false
			}
			for _, l := range as.Lhs {
				if isFieldOf(info, l, idxFld) {
					return true
				}
			}
			return false
		}
		for i, s := range snaps {
			nd++
			res := fl.Reach([]Pt{After(s)}, isChange, nil)
			k := fmt.Sprintf("%s snapshot#%d", f.Key(), i+1)
			r.Check(!res.Found, ruleD, k, p.Pos(fl.node(s)), "Manager.indexes is not assigned on any path after the snapshot", "Manager.indexes is changed after the snapshot handed to a job was taken ("+fl.traceString(res)+"): the job does not see the readers added here — an import started from it re-uses stream IDs and shadows streams")
		}
	}
	r.Floor(ruleD, 5, nd)
}

// calledOnlyFrom: f is an unexported declared function/method all of whose static call sites lie in functions accepted
// by ok — directly or, up to depth further levels, in unexported helpers that themselves are only called from such
// functions. A function without any call site is not accepted.
func calledOnlyFrom(p *Prog, f *Fn, ok func(*Fn) bool, depth int) bool {
	if f == nil || f.Lit != nil || f.Decl == nil || ast.IsExported(f.Decl.Name.Name) {
		return false
	}
	fobj, _ := f.Pkg.TypesInfo.Defs[f.Decl.Name].(*types.Func)
	if fobj == nil {
		return false
	}
	n := 0
	for _, g := range p.FnList {
		if g.Pkg != f.Pkg || g.Body() == nil {
			continue
		}
		bad := false
		inspectShallow(g.Body(), func(x ast.Node) bool {
			switch y := x.(type) {
			case *ast.CallExpr:
				if fn := p.Callee(g.Pkg, y); fn != nil && fn.Origin() == fobj {
					n++
					if !ok(g) && !(depth > 0 && g.Root() != f && calledOnlyFrom(p, g.Root(), ok, depth-1)) {
						bad = true
					}
				}
			case *ast.SelectorExpr:
				// a method value (r.helper passed around) could be called anywhere
				if sel, isSel := g.Pkg.TypesInfo.Selections[y]; isSel && sel.Kind() == types.MethodVal && sel.Obj() == types.Object(fobj) {
					// only fine as the Fun of a call, which the CallExpr case has counted
				}
			}
			return true
		})
		if bad {
			return false
		}
	}
	return n > 0
}
