package main

// exh.go: EXH — exhaustive dispatch on condition kinds, constant sets and tables.

import (
	"fmt"
	"go/ast"
	"go/constant"
	"go/token"
	"go/types"
	"sort"
	"strings"
)

// implementers returns the names of all concrete named types of the loaded root packages whose
// pointer or value type implements iface.
func (p *Prog) implementers(iface *types.Named) []string {
	it, ok := iface.Underlying().(*types.Interface)
	if !ok {
		return nil
	}
	var out []string
	for _, pk := range p.Pkgs {
		sc := pk.Types.Scope()
		for _, name := range sc.Names() {
			tn, ok := sc.Lookup(name).(*types.TypeName)
			if !ok || tn.IsAlias() {
				continue
			}
			n, ok := tn.Type().(*types.Named)
			if !ok || types.IsInterface(n) || n.TypeParams().Len() > 0 {
				continue
			}
			if types.Implements(n, it) || types.Implements(types.NewPointer(n), it) {
				out = append(out, tn.Name())
			}
		}
	}
	sort.Strings(out)
	return out
}

func namedOf(t types.Type) *types.Named {
	t = types.Unalias(t)
	if pt, ok := t.(*types.Pointer); ok {
		t = types.Unalias(pt.Elem())
	}
	n, _ := t.(*types.Named)
	return n
}

// failsLoudly reports whether a clause body ends by returning a non-nil error expression or panicking.
func failsLoudly(info *types.Info, body []ast.Stmt) bool {
	if len(body) == 0 {
		return false
	}
	switch s := body[len(body)-1].(type) {
	case *ast.ReturnStmt:
		if len(s.Results) == 0 {
			return false
		}
		last := s.Results[len(s.Results)-1]
		if id, ok := last.(*ast.Ident); ok && id.Name == "nil" {
			return false
		}
		t := info.TypeOf(last)
		return t != nil && types.Implements(t, errorIface())
	case *ast.ExprStmt:
		if c, ok := s.X.(*ast.CallExpr); ok && isBuiltin(info, c, "panic") {
			return true
		}
	}
	return false
}

func errorIface() *types.Interface {
	return types.Universe.Lookup("error").Type().Underlying().(*types.Interface)
}

// typeSwitchesOn returns all type switches (in fn and its nested literals) whose operand has static type iface.
func typeSwitchesOn(f *Fn, iface *types.Named) []*ast.TypeSwitchStmt {
	var out []*ast.TypeSwitchStmt
	ast.Inspect(f.Body(), func(x ast.Node) bool {
		ts, ok := x.(*ast.TypeSwitchStmt)
		if !ok {
			return true
		}
		var e ast.Expr
		switch a := ts.Assign.(type) {
		case *ast.AssignStmt:
			e = a.Rhs[0]
		case *ast.ExprStmt:
			e = a.X
		}
		if ta, ok := ast.Unparen(e).(*ast.TypeAssertExpr); ok {
			if t := f.Pkg.TypesInfo.TypeOf(ta.X); t != nil && types.Identical(types.Unalias(t), iface) {
				out = append(out, ts)
			}
		}
		return true
	})
	return out
}

// exhTypeSwitch checks that every type switch on iface in fn handles all implementers.
// exempt: type name -> reason. Returns number of switches found.
func exhTypeSwitch(p *Prog, r *Res, rule string, fkey string, iface *types.Named, exempt map[string]string) int {
	f := p.Fn(fkey)
	if f == nil || iface == nil {
		return 0
	}
	impl := p.implementers(iface)
	sw := typeSwitchesOn(f, iface)
	for i, ts := range sw {
		handled := map[string]bool{}
		loud := false
		for _, c := range ts.Body.List {
			cc := c.(*ast.CaseClause)
			if cc.List == nil {
				loud = failsLoudly(f.Pkg.TypesInfo, cc.Body)
				continue
			}
			for _, e := range cc.List {
				if n := namedOf(f.Pkg.TypesInfo.TypeOf(e)); n != nil {
					handled[n.Obj().Name()] = true
				}
			}
		}
		for _, name := range impl {
			key := fmt.Sprintf("%s#switch%d case %s", fkey, i+1, name)
			switch {
			case handled[name]:
				r.OkTrivial(rule, key, p.Pos(ts), "handled")
			case loud:
				r.OkTrivial(rule, key, p.Pos(ts), "default clause fails loudly")
			case exempt[name] != "":
				r.Exempt(rule, key, p.Pos(ts), exempt[name])
			default:
				r.Bad(rule, key, p.Pos(ts), fmt.Sprintf("type switch on %s in %s has no case for %s and no failing default: the kind is silently skipped", iface.Obj().Name(), fkey, name))
			}
		}
	}
	if len(sw) == 0 {
		r.Bad(rule, fkey+" type switch on "+iface.Obj().Name(), p.Pos(f.Node()), "expected dispatch switch not found")
	}
	return len(sw)
}

// constsOfType returns the names of all package-level constants of the named type declared in its package.
func constsOfType(n *types.Named) map[string]constant.Value {
	out := map[string]constant.Value{}
	sc := n.Obj().Pkg().Scope()
	for _, name := range sc.Names() {
		if c, ok := sc.Lookup(name).(*types.Const); ok && types.Identical(c.Type(), n) {
			out[name] = c.Val()
		}
	}
	return out
}

// valueSwitchesOn returns the switch statements in fn (and nested literals) whose tag has type n.
func valueSwitchesOn(f *Fn, n *types.Named) []*ast.SwitchStmt {
	var out []*ast.SwitchStmt
	ast.Inspect(f.Body(), func(x ast.Node) bool {
		if s, ok := x.(*ast.SwitchStmt); ok && s.Tag != nil {
			if t := f.Pkg.TypesInfo.TypeOf(s.Tag); t != nil && types.Identical(types.Unalias(t), n) {
				out = append(out, s)
			}
		}
		return true
	})
	return out
}

// switchClasses returns, for a value switch, for each constant value (by exact string) the index of the
// clause handling it, and whether a default exists / fails loudly.
func switchClasses(info *types.Info, s *ast.SwitchStmt) (byVal map[string]int, hasDefault, loud bool) {
	byVal = map[string]int{}
	for i, c := range s.Body.List {
		cc := c.(*ast.CaseClause)
		if cc.List == nil {
			hasDefault = true
			loud = failsLoudly(info, cc.Body)
			continue
		}
		for _, e := range cc.List {
			if tv, ok := info.Types[e]; ok && tv.Value != nil {
				byVal[tv.Value.ExactString()] = i
			}
		}
	}
	return
}

// exhConstSwitch checks that every switch on constant type n in fn covers all constants.
func exhConstSwitch(p *Prog, r *Res, rule, fkey string, n *types.Named, wantSwitches int) int {
	f := p.Fn(fkey)
	if f == nil || n == nil {
		return 0
	}
	consts := constsOfType(n)
	names := make([]string, 0, len(consts))
	for k := range consts {
		names = append(names, k)
	}
	sort.Strings(names)
	sw := valueSwitchesOn(f, n)
	for i, s := range sw {
		byVal, _, loud := switchClasses(f.Pkg.TypesInfo, s)
		for _, name := range names {
			key := fmt.Sprintf("%s#switch%d case %s", fkey, i+1, name)
			if _, ok := byVal[consts[name].ExactString()]; ok {
				r.OkTrivial(rule, key, p.Pos(s), "handled")
			} else if loud {
				r.OkTrivial(rule, key, p.Pos(s), "default fails loudly")
			} else {
				r.Bad(rule, key, p.Pos(s), fmt.Sprintf("switch on %s in %s does not handle %s", n.Obj().Name(), fkey, name))
			}
		}
	}
	if len(sw) < wantSwitches {
		r.Bad(rule, fmt.Sprintf("%s switches on %s", fkey, n.Obj().Name()), p.Pos(f.Node()), fmt.Sprintf("expected %d dispatch switches, found %d", wantSwitches, len(sw)))
	}
	return len(sw)
}

// pkgVarInit returns the initialiser expression of a package-level variable.
func (p *Prog) pkgVarInit(pkg, name string) (ast.Expr, *types.Info) {
	pk := p.By[pkg]
	if pk == nil {
		p.anchorFail("package %s", pkg)
		return nil, nil
	}
	for _, file := range pk.Syntax {
		for _, d := range file.Decls {
			gd, ok := d.(*ast.GenDecl)
			if !ok || gd.Tok != token.VAR {
				continue
			}
			for _, sp := range gd.Specs {
				vs := sp.(*ast.ValueSpec)
				for i, id := range vs.Names {
					if id.Name == name && i < len(vs.Values) {
						return vs.Values[i], pk.TypesInfo
					}
				}
			}
		}
	}
	p.anchorFail("package variable %s.%s with initialiser", pkg, name)
	return nil, nil
}

// mapLitKeys returns constant keys (exact strings) -> value expr of a map composite literal.
func mapLitEntries(info *types.Info, e ast.Expr) map[string]ast.Expr {
	out := map[string]ast.Expr{}
	cl, ok := ast.Unparen(e).(*ast.CompositeLit)
	if !ok {
		return out
	}
	for _, el := range cl.Elts {
		kv, ok := el.(*ast.KeyValueExpr)
		if !ok {
			continue
		}
		if tv, ok := info.Types[kv.Key]; ok && tv.Value != nil {
			out[tv.Value.ExactString()] = kv.Value
		}
	}
	return out
}

// fieldsReadVia returns the set of field names selected (directly) on identifiers bound to the given objects.
func fieldsReadVia(info *types.Info, body ast.Node, objs ...types.Object) map[string]bool {
	out := map[string]bool{}
	ast.Inspect(body, func(x ast.Node) bool {
		se, ok := x.(*ast.SelectorExpr)
		if !ok {
			return true
		}
		id, ok := ast.Unparen(se.X).(*ast.Ident)
		if !ok {
			return true
		}
		o := info.Uses[id]
		for _, want := range objs {
			if o == want {
				if _, isField := info.Uses[se.Sel].(*types.Var); isField {
					out[se.Sel.Name] = true
				}
			}
		}
		return true
	})
	return out
}

func setString(m map[string]bool) string {
	var s []string
	for k := range m {
		s = append(s, k)
	}
	sort.Strings(s)
	return "{" + strings.Join(s, ",") + "}"
}
