package main

// c10k.go: C10-k / C08-k the highest stream id is asked of every index file.
//
// New streams get ids above everything that exists. Which file holds the highest id is not a function of its position
// in the list: an import that only extends old streams writes a new, youngest file that holds just those low ids
// (C08-b, C10-i). builder.FromPcap therefore scans ALL existing indexes for their MaxStreamID. Seeded C10n "did not scan
// all indexes" (`existingIndexes[len-1].MaxStreamID()+1`, "ids ascend and indexes are ordered by age"): after such an
// import the next capture hands out ids that are taken, the new stream supersedes an unrelated old one in every view,
// and a merge drops the old one for good.
//
// Rule (typed AST): in packages builder and manager every call of (*index.Reader).MaxStreamID whose result is used to
// compute a stream id (not merely compared) has as its receiver the range variable of a loop over a whole []*index.Reader
// that has no break — never an indexed element of such a list.

import (
	"fmt"
	"go/ast"
	"go/token"
	"go/types"
)

func init() {
	const expl = "(typed AST): in packages builder and manager a call of (*index.Reader).MaxStreamID on an element picked from a []*index.Reader by index (the first, the last) is reported; the id above which new streams are numbered comes from a loop over the whole list that asks every reader and is not left early. Ids are not monotone in the position of a file: an import that only continues old streams produces a youngest file with low ids, and numbering from the youngest file alone hands out ids that are taken — the new stream then supersedes an unrelated old one in every view."
	register("C10", "C10-k "+expl, func(p *Prog, r *Res) { ruleMaxIDFromEveryReader(p, r, "C10-k max-id-asked-of-every-reader") })
	register("C08", "C08-k "+expl, func(p *Prog, r *Res) { ruleMaxIDFromEveryReader(p, r, "C08-k max-id-asked-of-every-reader") })
}

func ruleMaxIDFromEveryReader(p *Prog, r *Res, rule string) {
	r.Rule(rule + ": MaxStreamID is taken from every reader of the list, not from one picked by position")
	maxID := p.Method("index", "Reader", "MaxStreamID")
	if maxID == nil {
		p.anchorFail("index.Reader.MaxStreamID")
		return
	}
	readerSliceT := "[]*github.com/spq/pkappa2/internal/index.Reader"
	n := 0
	for _, f := range p.FnList {
		if (f.Short != "builder" && f.Short != "manager") || f.Body() == nil {
			continue
		}
		info := f.Pkg.TypesInfo
		inspectParents(f.Body(), func(x ast.Node, parents []ast.Node) bool {
			if _, isLit := x.(*ast.FuncLit); isLit && (f.Lit == nil || x != ast.Node(f.Lit)) {
				return false
			}
			c, ok := x.(*ast.CallExpr)
			if !ok {
				return true
			}
			fn := p.Callee(f.Pkg, c)
			if fn == nil || fn.Origin() != maxID {
				return true
			}
			// only where the answer is used to compute an id; a comparison (`if id > idx.MaxStreamID() { continue }`, a
			// shortcut that skips a reader which cannot hold the id) numbers nothing
			if len(parents) > 0 {
				if be, ok := parents[len(parents)-1].(*ast.BinaryExpr); ok {
					switch be.Op {
					case token.EQL, token.NEQ, token.LSS, token.LEQ, token.GTR, token.GEQ:
						return true
					}
				}
			}
			se := ast.Unparen(c.Fun).(*ast.SelectorExpr)
			recv := ast.Unparen(se.X)
			n++
			key := fmt.Sprintf("%s %s@%s", f.Key(), exprString(p.Fset, c), relLine(p, f, c))
			// `idx := list[i]` inside `for i := range list`: the element of the current iteration
			if id, ok := recv.(*ast.Ident); ok {
				if o := info.Uses[id]; o != nil {
					var def ast.Expr
					nDefs := 0
					ast.Inspect(f.Body(), func(y ast.Node) bool {
						if as, ok := y.(*ast.AssignStmt); ok && len(as.Lhs) == len(as.Rhs) {
							for i, l := range as.Lhs {
								if identObj(info, l) == o {
									nDefs++
									def = as.Rhs[i]
								}
							}
						}
						return true
					})
					if ix, ok := ast.Unparen(def).(*ast.IndexExpr); ok && nDefs == 1 {
						recv = ix
					}
				}
			}
			// an element picked by position
			if ix, ok := recv.(*ast.IndexExpr); ok {
				if t := info.TypeOf(ix.X); t != nil && types.TypeString(t, nil) == readerSliceT {
					// … unless the position is the key of a loop over that whole list, which is not left early
					if ko := identObj(info, ix.Index); ko != nil {
						okKey := false
						for i := len(parents) - 1; i >= 0; i-- {
							rs, ok := parents[i].(*ast.RangeStmt)
							if !ok || rs.Key == nil || rangeVarObj(info, rs.Key) != ko {
								continue
							}
							if exprString(p.Fset, ast.Unparen(rs.X)) == exprString(p.Fset, ast.Unparen(ix.X)) {
								leaves := false
								ast.Inspect(rs.Body, func(y ast.Node) bool {
									switch b := y.(type) {
									case *ast.FuncLit, *ast.ForStmt, *ast.RangeStmt, *ast.SwitchStmt, *ast.SelectStmt:
										return false
									case *ast.BranchStmt:
										if b.Tok == token.BREAK {
											leaves = true
										}
									case *ast.ReturnStmt:
										leaves = true
									}
									return true
								})
								okKey = !leaves
							}
							break
						}
						// … or the counter of `for i := 0; i < len(list); i++`, not left early
						for i := len(parents) - 1; i >= 0 && !okKey; i-- {
							fs, ok := parents[i].(*ast.ForStmt)
							if !ok {
								continue
							}
							lx := countedLoopOver(info, fs)
							init, _ := fs.Init.(*ast.AssignStmt)
							if lx == nil || init == nil || identObj(info, init.Lhs[0]) != ko || exprString(p.Fset, ast.Unparen(lx)) != exprString(p.Fset, ast.Unparen(ix.X)) {
								continue
							}
							leaves := false
							ast.Inspect(fs.Body, func(y ast.Node) bool {
								switch b := y.(type) {
								case *ast.FuncLit, *ast.ForStmt, *ast.RangeStmt, *ast.SwitchStmt, *ast.SelectStmt:
									return false
								case *ast.BranchStmt:
									if b.Tok == token.BREAK {
										leaves = true
									}
								case *ast.ReturnStmt:
									leaves = true
								}
								return true
							})
							okKey = !leaves
							break
						}
						if okKey {
							r.Ok(rule, key, p.Pos(c), "the element of the current iteration of a loop over the whole list")
							return true
						}
					}
					r.Bad(rule, key, p.Pos(c), "the highest id is taken from the reader at position "+exprString(p.Fset, ix.Index)+" of the list: which file holds the highest id does not follow from its position — an import that only extends old streams produces a youngest file with low ids, and the ids handed out next are taken already")
					return true
				}
			}
			// the range variable of a loop over the whole list, not left early
			okLoop, why := false, "the receiver is not the variable of a loop over the whole reader list"
			if id, ok := recv.(*ast.Ident); ok {
				o := info.Uses[id]
				for i := len(parents) - 1; i >= 0; i-- {
					rs, ok := parents[i].(*ast.RangeStmt)
					if !ok || rs.Value == nil || rangeVarObj(info, rs.Value) != o {
						continue
					}
					t := info.TypeOf(rs.X)
					if t == nil || types.TypeString(t, nil) != readerSliceT {
						why = "the loop ranges over " + exprString(p.Fset, rs.X) + ", not over the reader list"
						break
					}
					if _, isSlice := ast.Unparen(rs.X).(*ast.SliceExpr); isSlice {
						why = "the loop ranges over a part of the list (" + exprString(p.Fset, rs.X) + ")"
						break
					}
					leaves := false
					ast.Inspect(rs.Body, func(y ast.Node) bool {
						switch b := y.(type) {
						case *ast.FuncLit, *ast.ForStmt, *ast.RangeStmt, *ast.SwitchStmt, *ast.SelectStmt:
							return false
						case *ast.BranchStmt:
							if b.Tok == token.BREAK {
								leaves = true
							}
						case *ast.ReturnStmt:
							leaves = true
						}
						return true
					})
					if leaves {
						why = "the loop over the reader list can be left before every reader was asked"
						break
					}
					okLoop = true
					break
				}
			}
			// the loop that BUILDS the list: the reader was just opened in this iteration and is appended to the list
			if !okLoop {
				if id, ok := recv.(*ast.Ident); ok {
					o := info.Uses[id]
					for i := len(parents) - 1; i >= 0 && !okLoop; i-- {
						var body *ast.BlockStmt
						switch l := parents[i].(type) {
						case *ast.RangeStmt:
							body = l.Body
						case *ast.ForStmt:
							body = l.Body
						}
						if body == nil {
							continue
						}
						opened, appended := false, false
						ast.Inspect(body, func(y ast.Node) bool {
							as, ok := y.(*ast.AssignStmt)
							if !ok {
								return true
							}
							for li, l := range as.Lhs {
								if identObj(info, l) == o && len(as.Rhs) == 1 {
									if oc, ok := ast.Unparen(as.Rhs[0]).(*ast.CallExpr); ok {
										if ofn := p.Callee(f.Pkg, oc); ofn != nil && ofn.FullName() == "github.com/spq/pkappa2/internal/index.NewReader" && li == 0 {
											opened = true
										}
									}
								}
							}
							if len(as.Rhs) == 1 {
								if ac, ok := ast.Unparen(as.Rhs[0]).(*ast.CallExpr); ok && isBuiltin(info, ac, "append") && len(ac.Args) >= 2 {
									if t := info.TypeOf(ac.Args[0]); t != nil && types.TypeString(t, nil) == readerSliceT {
										for _, a := range ac.Args[1:] {
											if identObj(info, a) == o {
												appended = true
											}
										}
									}
								}
							}
							return true
						})
						if opened && appended {
							okLoop = true
						}
					}
				}
			}
			r.Check(okLoop, rule, key, p.Pos(c), "asked of every reader in a loop over the whole list", why+": the id above which new streams are numbered may miss the file that holds the highest id")
			return true
		})
	}
	r.Floor(rule, 1, n)
}

func rangeVarObj(info *types.Info, e ast.Expr) types.Object {
	id, ok := ast.Unparen(e).(*ast.Ident)
	if !ok {
		return nil
	}
	if o := info.Defs[id]; o != nil {
		return o
	}
	return info.Uses[id]
}
