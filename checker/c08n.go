package main

// c08n.go: C08-n the time bounds of a capture are running extrema over all of its packets.
//
// FromPcap replays known captures in time order: a known capture is loaded when the replay reaches its
// PacketTimestampMin, and it is skipped when its PacketTimestampMax lies before everything a snapshot needs. readPackets
// computes both bounds by comparing every packet's timestamp with the bound so far. Seeded C08p "simplified" that to
// the first and the last packet ("a capture file is in capture order") — multi-interface and merged captures are not:
// with a minimum that is too late the file was loaded after newer packets of other files had been reassembled, and the
// content of a stream depended on whether the unordered file was new or known at that import (`a x b c` vs `x ab c`).
//
// Rule (typed AST): in package builder an assignment to PcapInfo.PacketTimestampMin / PacketTimestampMax lies
// in an if whose condition reads the same field (the comparison with the bound so far).

import (
	"fmt"
	"go/ast"
	"go/types"
)

func init() {
	register("C08",
		"C08-n (typed AST): in package builder an assignment to PcapInfo.PacketTimestampMin / PacketTimestampMax lies in an if whose condition reads the same field — the bound is a running extremum over all packets, not the timestamp of the first or last one. The replay of known captures is scheduled by these bounds; captures from several interfaces or merged files are not in time order, and a minimum that is too late makes the result of an import depend on whether such a file is new or already known.",
		func(p *Prog, r *Res) {
			const rule = "C08-n capture-time-bounds-are-running-extrema"
			r.Rule(rule + ": PacketTimestampMin/Max are updated only after a comparison with themselves")
			n := 0
			for _, f := range p.FnList {
				if f.Short != "builder" || f.Body() == nil {
					continue
				}
				info := f.Pkg.TypesInfo
				inspectParents(f.Body(), func(x ast.Node, ps []ast.Node) bool {
					as, ok := x.(*ast.AssignStmt)
					if !ok {
						return true
					}
					for _, l := range as.Lhs {
						se, ok := ast.Unparen(l).(*ast.SelectorExpr)
						if !ok || (se.Sel.Name != "PacketTimestampMin" && se.Sel.Name != "PacketTimestampMax") {
							continue
						}
						fld, ok := info.Uses[se.Sel].(*types.Var)
						if !ok || !fld.IsField() {
							continue
						}
						inLoop := false
						compared := false
						for _, q := range ps {
							switch s := q.(type) {
							case *ast.ForStmt, *ast.RangeStmt:
								inLoop = true
							case *ast.IfStmt:
								ast.Inspect(s.Cond, func(y ast.Node) bool {
									if cs, ok := y.(*ast.SelectorExpr); ok && info.Uses[cs.Sel] == types.Object(fld) {
										compared = true
									}
									return true
								})
							}
						}
						_ = inLoop
						n++
						key := fmt.Sprintf("%s updates %s", f.Key(), fld.Name())
						r.Check(compared, rule, key, p.Pos(as), "assigned only after a comparison with the bound so far", fld.Name()+" is assigned without being compared with its value so far: it ends up as the timestamp of one particular packet (the first, the last), not the extremum — for a capture that is not in time order the replay loads the file too late or skips it although a stream still needs its packets")
					}
					return true
				})
			}
			r.Floor(rule, 2, n)
		})
}
