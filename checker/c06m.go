package main

// c06m.go: C06-m / C02-p what replaces a tag filter applies to the stream the filter applied to.
//
// A tag filter may stand in a sub-query: `@s:tag:a sport:@s:sport@` — streams that share the server port with a stream
// tagged a. While tag a is pending, inlineTagFilter replaces the filter by the tag's own conditions. Those are written
// for "the stream" (sub-query ""), so after the replacement they constrain the MAIN stream instead of the stream of
// sub-query s: with a = cport:2 the search returns [1] instead of [0 1 2 3] until the tagging job has decided the tag,
// and the right answer afterwards. The source has the TODO ("rename subqueries in tagConditionsSet to not collide with
// the normal query"); the repair is a renaming pass over all seven condition kinds and their sorted sub-query lists.
//
// Rule (typed AST, value flow): in query.Conditions.inlineTagFilter the sub-query of the replaced TagCondition
// (c.SubQuery) reaches the conditions that are inlined: some call receives both c.SubQuery (or a local holding it) and
// the inlined set (or is a method call on it). A use in the replacement TagCondition literal alone does not count.

import (
	"go/ast"
	"go/types"
)

func init() {
	const expl = "(typed AST, value flow): in query.Conditions.inlineTagFilter the sub-query the replaced tag filter applied to (c.SubQuery) is handed to the processing of the inlined conditions — a call that receives it together with the inlined set, or a method of the inlined set that receives it. The conditions of a tag are written for sub-query \"\"; inlined verbatim for a filter that stands in sub-query s they constrain the main stream: `@s:tag:a sport:@s:sport@` answers [1] while tag a is pending and [0 1 2 3] once it is decided."
	register("C06", "C06-m "+expl, func(p *Prog, r *Res) { ruleInlineKeepsSubQuery(p, r, "C06-m inlined-conditions-keep-the-sub-query") })
	register("C02", "C02-p "+expl, func(p *Prog, r *Res) { ruleInlineKeepsSubQuery(p, r, "C02-p inlined-conditions-keep-the-sub-query") })
}

func ruleInlineKeepsSubQuery(p *Prog, r *Res, rule string) {
	r.Rule(rule + ": the sub-query of a replaced tag filter reaches the conditions that replace it")
	f := p.Fn("query.Conditions.inlineTagFilter")
	sub := p.Field("query", "TagCondition", "SubQuery")
	inline := p.Method("query", "ConditionsSet", "InlineTagFilters")
	if f == nil || sub == nil || inline == nil {
		p.anchorFail("query.Conditions.inlineTagFilter / TagCondition.SubQuery / ConditionsSet.InlineTagFilters")
		return
	}
	info := f.Pkg.TypesInfo
	// the inlined set: locals assigned from an expression that contains the InlineTagFilters call
	inlined := map[types.Object]bool{}
	for changed := true; changed; {
		changed = false
		ast.Inspect(f.Body(), func(x ast.Node) bool {
			as, ok := x.(*ast.AssignStmt)
			if !ok || len(as.Lhs) != len(as.Rhs) {
				return true
			}
			for i, l := range as.Lhs {
				o := identObj(info, l)
				if o == nil || inlined[o] {
					continue
				}
				hit := false
				ast.Inspect(as.Rhs[i], func(y ast.Node) bool {
					switch z := y.(type) {
					case *ast.CallExpr:
						if fn := p.Callee(f.Pkg, z); fn != nil && fn.Origin() == inline {
							hit = true
						}
					case *ast.Ident:
						if inlined[info.Uses[z]] {
							hit = true
						}
					}
					return true
				})
				if hit {
					inlined[o] = true
					changed = true
				}
			}
			return true
		})
	}
	if len(inlined) == 0 {
		p.anchorFail("the inlined condition set in query.Conditions.inlineTagFilter")
		return
	}
	// locals holding c.SubQuery
	subVals := map[types.Object]bool{}
	isSub := func(e ast.Expr) bool {
		e = ast.Unparen(e)
		if se, ok := e.(*ast.SelectorExpr); ok && info.Uses[se.Sel] == types.Object(sub) {
			return true
		}
		return subVals[identObj(info, e)]
	}
	ast.Inspect(f.Body(), func(x ast.Node) bool {
		if as, ok := x.(*ast.AssignStmt); ok && len(as.Lhs) == len(as.Rhs) {
			for i, l := range as.Lhs {
				if o := identObj(info, l); o != nil && isSub(as.Rhs[i]) {
					subVals[o] = true
				}
			}
		}
		return true
	})
	mentionsInlined := func(e ast.Node) bool {
		hit := false
		ast.Inspect(e, func(y ast.Node) bool {
			if id, ok := y.(*ast.Ident); ok && inlined[info.Uses[id]] {
				hit = true
			}
			return !hit
		})
		return hit
	}
	ok := false
	ast.Inspect(f.Body(), func(x ast.Node) bool {
		c, isCall := x.(*ast.CallExpr)
		if !isCall {
			return true
		}
		hasSub, hasSet := false, false
		for _, a := range c.Args {
			if isSub(a) {
				hasSub = true
			}
			// a function value that is handed over and reads the sub-query: the renaming callback
			if lit, isLit := ast.Unparen(a).(*ast.FuncLit); isLit {
				ast.Inspect(lit.Body, func(y ast.Node) bool {
					if e, isExpr := y.(ast.Expr); isExpr && isSub(e) {
						hasSub = true
					}
					return !hasSub
				})
			}
			if mentionsInlined(a) {
				hasSet = true
			}
		}
		if se, isSel := ast.Unparen(c.Fun).(*ast.SelectorExpr); isSel && mentionsInlined(se.X) {
			hasSet = true
		}
		if hasSub && hasSet {
			ok = true
		}
		return true
	})
	r.Check(ok, rule, "query.Conditions.inlineTagFilter carries the filter's sub-query over to the inlined conditions", p.Pos(f.Node()), "a call receives the replaced filter's sub-query together with the inlined conditions", "the conditions of a pending tag are inlined as they are written — for sub-query \"\" — whatever sub-query the replaced filter stood in: a tag filter inside a sub-query constrains the main stream until the tag is decided, so the same search gives different answers for the newest traffic and for old traffic")
	r.Floor(rule, 1, 1)
}
