package main

// c04s.go: C04-s a placeholder that stands for "any value" matches any byte.
//
// A later element of a sequence may contain a variable bound by an earlier capture. Before the value is known the
// expression is compiled once with a placeholder in the variable's place, as a pre-check: only a stream on which the
// placeholder version matches is examined with the real value. The placeholder was `.*` — and `.` does not match a
// line break. A captured `hel\nlo` spliced in literally matched `got hel\nlo;`, but the pre-check `got .*;` did not, so
// the element counted as not matching: `cdata:"data=(?P<v>[^;]+);" then sdata:"got @v@;"` missed the stream, and the
// negated form selected it (#89, probes/c04_variable_value_with_line_break).
//
// Rule (typed AST): in package index a string constant that is spliced into an expression (assigned to the variable
// that is inserted at a variable's Position, or concatenated into a regex text) and contains an unescaped `.` followed
// by a quantifier stands under the flag `s` — `(?s:…)` or `(?s)`.

import (
	"go/ast"
	"go/constant"
	"go/token"
	"regexp"
	"strings"
)

func init() {
	register("C04",
		"C04-s (typed AST): in package index every string constant that contains an unescaped `.` followed by a quantifier (`.*`, `.+`, `.?`, `.{`) — a wildcard that becomes part of an expression — also sets the flag s (`(?s:` or `(?s)`): without it `.` does not match a line break. The placeholder compiled in the place of a variable whose value is not yet known must accept everything the value can be; `.*` rejected a captured value that contains \\n, the element counted as not matching, and a sequence missed (its negation selected) the stream.",
		func(p *Prog, r *Res) {
			const rule = "C04-s wildcard-placeholder-matches-line-breaks"
			r.Rule(rule + ": wildcards spliced into expressions are dot-all")
			wild := regexp.MustCompile(`(^|[^\\])\.[*+?{]`)
			n := 0
			for _, f := range p.FnList {
				if f.Short != "index" || f.Body() == nil {
					continue
				}
				info := f.Pkg.TypesInfo
				inspectShallow(f.Body(), func(x ast.Node) bool {
					bl, ok := x.(*ast.BasicLit)
					if !ok || bl.Kind != token.STRING {
						return true
					}
					tv, ok := info.Types[bl]
					if !ok || tv.Value == nil || tv.Value.Kind() != constant.String {
						return true
					}
					v := constant.StringVal(tv.Value)
					if !wild.MatchString(v) {
						return true
					}
					n++
					ok2 := strings.Contains(v, "(?s:") || strings.Contains(v, "(?s)") || strings.Contains(v, "(?ms") || strings.Contains(v, "(?sm") || strings.Contains(v, "(?is") || strings.Contains(v, "(?si")
					r.Check(ok2, rule, f.Key()+" wildcard "+bl.Value, p.Pos(bl), "dot-all", "the wildcard "+bl.Value+" becomes part of an expression without the flag s: `.` does not match a line break, so the placeholder that stands for a not yet known value rejects values that contain one — the pre-check fails, the element counts as not matching, and the sequence misses the stream (its negation selects it)")
					return true
				})
			}
			r.Floor(rule, 1, n)
		})
}
