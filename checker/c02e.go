package main

// c02e.go: C02-e dropped-streams-counted — the "more results" clause of C02.
//
// The flag returned by SearchStreams is `resultData.resultDropped != 0`. It is right exactly when every matching
// stream that is kept out of, or pushed off, the page bumps the counter. The rule decides the structural part:
// in the closure that owns resultData.streams
//   (1) every path through an eviction (a nil store into a slot of resultData.streams) passes an increment of
//       resultDropped, unless the path replaces the slot of the stream's own group (grouping is outside C02);
//   (2) every non-error return whose enclosing branch conditions depend on the page state (resultData.streams,
//       resultData.groups, or locals derived from them) is reached only through an increment, a group-slot
//       replacement, or a branch on which the counter is already known non-zero.

import (
	"fmt"
	"go/ast"
	"go/token"
	"go/types"

	"golang.org/x/tools/go/cfg"
)

func init() {
	register("C02",
		"C02-e (FLOW, path-pruned): the more-results flag is resultData.resultDropped != 0; in the closure owning resultData.streams every path through an eviction (nil store into a page slot) and every page-decided rejection (a non-error return nested in a condition that depends on resultData.streams/groups) passes an increment of resultDropped, except paths that replace the stream's own group slot or on which the counter is already known non-zero (branches on a boolean defined as `resultDropped != 0 && …`).",
		ruleC02Dropped)
}

func ruleC02Dropped(p *Prog, r *Res) {
	const rule = "C02-e dropped-streams-counted"
	r.Rule(rule + ": evictions and page-decided rejections in the result-owner closure bump resultData.resultDropped")
	outer := p.Fn("index.Reader.searchStreams")
	if outer == nil {
		return
	}
	info := outer.Pkg.TypesInfo
	var owner *ast.FuncLit
	inspectShallow(outer.Body(), func(x ast.Node) bool {
		if lit, ok := x.(*ast.FuncLit); ok && owner == nil {
			ast.Inspect(lit.Body, func(y ast.Node) bool {
				if as, ok := y.(*ast.AssignStmt); ok {
					for _, l := range as.Lhs {
						if ix, ok := ast.Unparen(l).(*ast.IndexExpr); ok && isFieldSel(info, ix.X, "resultData", "streams") {
							owner = lit
						}
					}
				}
				return true
			})
		}
		return true
	})
	if owner == nil {
		p.anchorFail("closure storing into resultData.streams[...] in index.Reader.searchStreams")
		return
	}
	f := p.FnOfLit(owner)
	if f == nil {
		p.anchorFail("Fn of result-owner closure")
		return
	}
	fl := p.Flow(f)

	isPageSel := func(e ast.Expr) bool {
		return isFieldSel(info, e, "resultData", "streams") || isFieldSel(info, e, "resultData", "groups")
	}
	mentions := func(n ast.Node, pred func(ast.Expr) bool) bool {
		found := false
		ast.Inspect(n, func(x ast.Node) bool {
			if _, ok := x.(*ast.FuncLit); ok {
				return false
			}
			if e, ok := x.(ast.Expr); ok && pred(e) {
				found = true
			}
			return !found
		})
		return found
	}
	isDroppedSel := func(e ast.Expr) bool { return isFieldSel(info, e, "resultData", "resultDropped") }

	// locals: group-slot variables, known-dropped booleans, page-derived locals, slot pointers
	groupLookup := map[types.Object]bool{} // pos in `pos, ok := result.groups[k]`
	groupVar := map[types.Object]bool{}    // groupPos (copies of pos)
	knownDropped := map[types.Object]bool{}
	pageDerived := map[types.Object]bool{}
	slotPtr := map[types.Object]bool{}
	var assigns []*ast.AssignStmt
	ast.Inspect(owner.Body, func(x ast.Node) bool {
		if as, ok := x.(*ast.AssignStmt); ok {
			assigns = append(assigns, as)
		}
		return true
	})
	objOf := func(e ast.Expr) types.Object {
		if id, ok := ast.Unparen(e).(*ast.Ident); ok {
			return info.ObjectOf(id)
		}
		return nil
	}
	for _, as := range assigns {
		if len(as.Rhs) == 1 {
			if ix, ok := ast.Unparen(as.Rhs[0]).(*ast.IndexExpr); ok && isFieldSel(info, ix.X, "resultData", "groups") {
				if o := objOf(as.Lhs[0]); o != nil {
					groupLookup[o] = true
				}
			}
			if ue, ok := ast.Unparen(as.Rhs[0]).(*ast.UnaryExpr); ok && ue.Op == token.AND {
				if ix, ok := ast.Unparen(ue.X).(*ast.IndexExpr); ok && isFieldSel(info, ix.X, "resultData", "streams") {
					if o := objOf(as.Lhs[0]); o != nil {
						slotPtr[o] = true
					}
				}
			}
			// v := … && resultDropped != 0 && …
			if o := objOf(as.Lhs[0]); o != nil && len(as.Lhs) == 1 {
				for _, c := range conjuncts(as.Rhs[0]) {
					if be, ok := ast.Unparen(c).(*ast.BinaryExpr); ok && (be.Op == token.NEQ || be.Op == token.GTR) && isDroppedSel(be.X) && isZeroLit(be.Y) {
						knownDropped[o] = true
					}
				}
			}
		}
	}
	for changed := true; changed; {
		changed = false
		for _, as := range assigns {
			for i, l := range as.Lhs {
				o := objOf(l)
				if o == nil {
					continue
				}
				var rhs ast.Expr
				if len(as.Rhs) == len(as.Lhs) {
					rhs = as.Rhs[i]
				} else if len(as.Rhs) == 1 {
					rhs = as.Rhs[0]
				}
				if rhs == nil {
					continue
				}
				if ro := objOf(rhs); ro != nil && groupLookup[ro] && !groupLookup[o] && !groupVar[o] {
					groupVar[o] = true
					changed = true
				}
				if !pageDerived[o] && mentions(rhs, func(e ast.Expr) bool {
					if isPageSel(e) {
						return true
					}
					ro := objOf(e)
					return ro != nil && pageDerived[ro]
				}) {
					pageDerived[o] = true
					changed = true
				}
			}
		}
	}
	// a group-slot variable holds either a looked-up slot or -1; any other assignment disqualifies it
	for _, as := range assigns {
		for i, l := range as.Lhs {
			if o := objOf(l); o != nil && groupVar[o] {
				ok := false
				if len(as.Rhs) == len(as.Lhs) {
					ro := objOf(as.Rhs[i])
					ok = isMinusOne(as.Rhs[i]) || (ro != nil && groupLookup[ro])
				}
				if !ok {
					delete(groupVar, o)
				}
			}
		}
	}
	// knownDropped reassigned anywhere else loses its meaning
	for _, as := range assigns {
		for i, l := range as.Lhs {
			if o := objOf(l); o != nil && knownDropped[o] {
				ok := false
				if len(as.Rhs) == len(as.Lhs) {
					for _, c := range conjuncts(as.Rhs[i]) {
						if be, isB := ast.Unparen(c).(*ast.BinaryExpr); isB && isDroppedSel(be.X) {
							ok = true
						}
					}
				}
				if !ok {
					delete(knownDropped, o)
				}
			}
		}
	}

	// closures defined in searchStreams and bound once to a local variable
	localLit := map[types.Object]*ast.FuncLit{}
	ast.Inspect(outer.Body(), func(x ast.Node) bool {
		if as, ok := x.(*ast.AssignStmt); ok && len(as.Lhs) == len(as.Rhs) {
			for i, rh := range as.Rhs {
				if lit, ok := rh.(*ast.FuncLit); ok {
					if o := objOf(as.Lhs[i]); o != nil {
						if _, dup := localLit[o]; dup {
							localLit[o] = nil
						} else {
							localLit[o] = lit
						}
					}
				}
			}
		}
		return true
	})
	var isInc func(n ast.Node) bool
	bumping := map[*Fn]int{} // 0 unknown, 1 in progress / no, 2 yes
	bumpsOnAllPaths := func(g *Fn) bool {
		if g == nil || g == f {
			return false
		}
		if v := bumping[g]; v != 0 {
			return v == 2
		}
		bumping[g] = 1
		if !p.Flow(g).MustPass(func(n ast.Node) bool { return isInc(n) }).Found {
			bumping[g] = 2
		}
		return bumping[g] == 2
	}
	isInc = func(n ast.Node) bool {
		if es, ok := n.(*ast.ExprStmt); ok {
			if c, ok := es.X.(*ast.CallExpr); ok {
				if lit, ok := ast.Unparen(c.Fun).(*ast.FuncLit); ok {
					return bumpsOnAllPaths(p.FnOfLit(lit))
				}
				if o := objOf(c.Fun); o != nil && localLit[o] != nil {
					return bumpsOnAllPaths(p.FnOfLit(localLit[o]))
				}
				if callee := p.Callee(outer.Pkg, c); callee != nil {
					return bumpsOnAllPaths(p.FnOfObj(callee))
				}
			}
			return false
		}
		switch s := n.(type) {
		case *ast.IncDecStmt:
			return s.Tok == token.INC && isDroppedSel(s.X)
		case *ast.AssignStmt:
			return len(s.Lhs) == 1 && isDroppedSel(s.Lhs[0]) && (s.Tok == token.ADD_ASSIGN || s.Tok == token.ASSIGN)
		}
		return false
	}
	isGroupAssign := func(n ast.Node) bool {
		as, ok := n.(*ast.AssignStmt)
		if !ok {
			return false
		}
		for i, l := range as.Lhs {
			if o := objOf(l); o != nil && groupVar[o] && len(as.Rhs) == len(as.Lhs) {
				if ro := objOf(as.Rhs[i]); ro != nil && groupLookup[ro] {
					return true
				}
			}
		}
		return false
	}
	pass := func(n ast.Node) bool { return isInc(n) || isGroupAssign(n) }
	// prune edges that imply "own group slot is replaced" or "counter already non-zero"
	// go/cfg keeps a whole condition as one node: the true edge makes every conjunct true, the false edge
	// makes every disjunct false.
	atomFacts := func(cond ast.Expr, succ int) (atoms []ast.Expr, truth bool) {
		if succ == 0 {
			return conjuncts(cond), true
		}
		return disjuncts(cond), false
	}
	fl.EdgeOK = func(b *cfg.Block, succ int) bool {
		if len(b.Succs) != 2 || len(b.Nodes) == 0 {
			return true
		}
		whole, ok := b.Nodes[len(b.Nodes)-1].(ast.Expr)
		if !ok {
			return true
		}
		atoms, truth := atomFacts(whole, succ)
		for _, cond := range atoms {
			cond = ast.Unparen(cond)
			val := truth
			if ue, ok := cond.(*ast.UnaryExpr); ok && ue.Op == token.NOT {
				val = !val
				cond = ast.Unparen(ue.X)
			}
			if o := objOf(cond); o != nil && knownDropped[o] && val {
				return false // counter already non-zero on this edge
			}
			// the same fact written out (or a named boolean expanded by the CFG builder): resultDropped != 0 holds
			if be, ok := cond.(*ast.BinaryExpr); ok && be.Op == token.NEQ && val && isFieldSel(info, be.X, "resultData", "resultDropped") {
				if k, isC := constInt(info, be.Y); isC && k == 0 {
					return false
				}
			}
			if be, ok := cond.(*ast.BinaryExpr); ok && (be.Op == token.EQL || be.Op == token.NEQ) {
				if o := objOf(be.X); o != nil && groupVar[o] && isMinusOne(be.Y) {
					if (be.Op == token.NEQ) == val {
						return false // own group slot is known on this edge
					}
				}
			}
		}
		return true
	}
	r.Note("%s: group-slot vars %d, already-counted booleans %d, page-derived locals %d", rule, len(groupVar), len(knownDropped), len(pageDerived))
	if len(knownDropped) == 0 {
		r.Note("%s: no boolean of the form `resultDropped != 0 && …` found; early-exit branches are judged without that fact", rule)
	}

	// (1) evictions
	// a function of the package that nil-stores into resultData.streams[…] evicts on behalf of its caller
	nilStoreIn := func(g *Fn) bool {
		if g == nil || g.Body() == nil {
			return false
		}
		ginfo := g.Pkg.TypesInfo
		hit := false
		inspectShallow(g.Body(), func(x ast.Node) bool {
			if as, ok := x.(*ast.AssignStmt); ok && len(as.Lhs) == 1 && len(as.Rhs) == 1 {
				if id, ok := ast.Unparen(as.Rhs[0]).(*ast.Ident); ok && id.Name == "nil" {
					if ix, ok := ast.Unparen(as.Lhs[0]).(*ast.IndexExpr); ok && isFieldSel(ginfo, ix.X, "resultData", "streams") {
						hit = true
					}
				}
			}
			return true
		})
		return hit
	}
	evictions := fl.Find(func(n ast.Node) bool {
		if es, ok := n.(*ast.ExprStmt); ok {
			if c, ok := es.X.(*ast.CallExpr); ok {
				if fn := p.Callee(f.Pkg, c); fn != nil {
					if g := p.FnOfObj(fn); g != nil && g.Pkg == f.Pkg && nilStoreIn(g) {
						return true
					}
				}
			}
		}
		as, ok := n.(*ast.AssignStmt)
		if !ok || len(as.Lhs) != 1 || len(as.Rhs) != 1 {
			return false
		}
		if id, ok := ast.Unparen(as.Rhs[0]).(*ast.Ident); !ok || id.Name != "nil" || info.ObjectOf(id) != types.Universe.Lookup("nil") {
			return false
		}
		switch l := ast.Unparen(as.Lhs[0]).(type) {
		case *ast.IndexExpr:
			return isFieldSel(info, l.X, "resultData", "streams")
		case *ast.StarExpr:
			o := objOf(l.X)
			return o != nil && slotPtr[o]
		}
		return false
	})
	for i, ev := range evictions {
		key := fmt.Sprintf("%s eviction#%d (nil store into a page slot)", f.Key(), i+1)
		n := fl.node(ev)
		before := fl.Reach([]Pt{fl.Entry()}, func(x ast.Node) bool { return x == n }, pass)
		if !before.Found {
			r.Ok(rule, key, p.Pos(n), "every path to the eviction has already bumped resultDropped or replaces the stream's own group slot")
			continue
		}
		after := fl.ExitAvoiding([]Pt{After(ev)}, func(x ast.Node) bool { return pass(x) || isErrReturn(info, x) })
		if after.Found {
			r.Bad(rule, key, p.Pos(n), "a stream is pushed off the page without resultDropped being bumped: "+fl.traceString(before)+" then "+fl.traceString(after)+" — the more-results flag stays false although a matching stream lies beyond the page")
		} else {
			r.Ok(rule, key, p.Pos(n), "all paths through the eviction bump resultDropped (group-slot replacement and error paths excepted)")
		}
	}
	r.Floor(rule+" evictions", 1, len(evictions))

	// (2) page-decided rejections
	nRej := 0
	inspectParents(owner.Body, func(x ast.Node, parents []ast.Node) bool {
		if _, ok := x.(*ast.FuncLit); ok {
			return false
		}
		ret, ok := x.(*ast.ReturnStmt)
		if !ok || isErrReturn(info, ret) {
			return true
		}
		// enclosing conditions
		decided := false
		for i, par := range parents {
			is, ok := par.(*ast.IfStmt)
			if !ok {
				continue
			}
			// only when the return is inside Body or Else (not Init/Cond)
			var child ast.Node = x
			if i+1 < len(parents) {
				child = parents[i+1]
			}
			if child != ast.Node(is.Body) && child != ast.Node(is.Else) {
				continue
			}
			if mentions(is.Cond, func(e ast.Expr) bool {
				if isPageSel(e) {
					return true
				}
				o := objOf(e)
				return o != nil && pageDerived[o]
			}) {
				decided = true
			}
		}
		if !decided {
			return true
		}
		nRej++
		key := fmt.Sprintf("%s page-decided return#%d", f.Key(), nRej)
		res := fl.Reach([]Pt{fl.Entry()}, func(n ast.Node) bool { return n == ast.Node(ret) }, pass)
		if res.Found {
			r.Bad(rule, key, p.Pos(ret), "a stream is rejected because of the page state without resultDropped being bumped: "+fl.traceString(res))
		} else {
			r.Ok(rule, key, p.Pos(ret), "reached only after resultDropped++, via the stream's own group slot, or with the counter already non-zero")
		}
		return true
	})
	r.Floor(rule+" page-decided returns", 4, nRej)
}

func disjuncts(e ast.Expr) []ast.Expr {
	e = ast.Unparen(e)
	if be, ok := e.(*ast.BinaryExpr); ok && be.Op == token.LOR {
		return append(disjuncts(be.X), disjuncts(be.Y)...)
	}
	return []ast.Expr{e}
}

func conjuncts(e ast.Expr) []ast.Expr {
	e = ast.Unparen(e)
	if be, ok := e.(*ast.BinaryExpr); ok && be.Op == token.LAND {
		return append(conjuncts(be.X), conjuncts(be.Y)...)
	}
	return []ast.Expr{e}
}

func isMinusOne(e ast.Expr) bool {
	ue, ok := ast.Unparen(e).(*ast.UnaryExpr)
	if !ok || ue.Op != token.SUB {
		return false
	}
	bl, ok := ast.Unparen(ue.X).(*ast.BasicLit)
	return ok && bl.Value == "1"
}

// isErrReturn: a return statement whose last result is of type error and not the nil identifier.
func isErrReturn(info *types.Info, n ast.Node) bool {
	ret, ok := n.(*ast.ReturnStmt)
	if !ok || len(ret.Results) == 0 {
		return false
	}
	last := ast.Unparen(ret.Results[len(ret.Results)-1])
	if id, ok := last.(*ast.Ident); ok && id.Name == "nil" {
		return false
	}
	t := info.TypeOf(last)
	return t != nil && types.Identical(t, types.Universe.Lookup("error").Type())
}
