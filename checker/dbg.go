package main

import (
	"fmt"
	"os"
)

func init() {
	if os.Getenv("PKCHECK_PROBE_STATIONARY") != "" {
		defer os.Exit(0)
		p, _ := Load("/repo", nil)
		r := &Res{}
		ruleStationary(p, r, "probe", []string{"manager", "index", "converters", "builder", "bitmask", "regexanalysis", "tools", "seekbufio", "streams", "udpreassembly", "main"}, 0)
		for _, o := range r.Obls {
			if o.Verdict != "discharged" {
				fmt.Println(o.Verdict, o.Key, o.Pos, o.Detail)
			}
		}
		fmt.Println(len(r.Obls), "loops")
	}
	if k := os.Getenv("PKCHECK_DUMPCFG"); k != "" {
		defer os.Exit(0)
		p, err := Load("/repo", nil)
		if err != nil {
			fmt.Println(err)
			return
		}
		f := p.Fns[k]
		if f == nil {
			fmt.Println("no such fn")
			return
		}
		fmt.Println(p.CFG(f).Format(p.Fset))
	}
}
