package main

// c11g.go: C11-g map fields of a tag are allocated wherever a tag is built.
//
// Several API paths store into tag.referencedBy[…] of a tag they looked up, without a nil test: they rely on every
// tag in Manager.tags having the map. A tag is built in three places (restored from a state file, AddTag, the query
// path of UpdateTag). For every map-typed field of struct tag that some function of package manager stores into
// through an index expression, every keyed composite literal of type tag sets that field to a non-nil value
// (make, a literal) — or the field is assigned such a value in the same block before the literal's variable is used.

import (
	"fmt"
	"go/ast"
	"go/types"
)

func init() {
	register("C11",
		"C11-g (typed AST): for every map-typed field of struct tag that package manager stores into through x.F[k] = …, every keyed composite literal of type tag sets F to an allocated map (make or a map literal), or the variable that holds the literal is assigned the field later in the same function — from make, a map literal, or the same field of the tag it replaces. The stores have no nil test: a tag built without the map (e.g. allocated lazily by the state loader only for tags that are referenced) makes the next AddTag/UpdateTag that references it panic with 'assignment to entry in nil map' on the service goroutine.",
		func(p *Prog, r *Res) {
			const rule = "C11-g tag-maps-allocated-at-construction"
			r.Rule(rule + ": map fields of tag that are stored into are allocated in every literal")
			tagT := p.Named("manager", "tag")
			if tagT == nil {
				return
			}
			st, ok := tagT.Underlying().(*types.Struct)
			if !ok {
				return
			}
			// map fields stored into through an index expression
			stored := map[*types.Var]string{}
			for _, f := range p.FnList {
				if f.Short != "manager" || f.Body() == nil {
					continue
				}
				info := f.Pkg.TypesInfo
				inspectShallow(f.Body(), func(x ast.Node) bool {
					as, ok := x.(*ast.AssignStmt)
					if !ok {
						return true
					}
					for _, l := range as.Lhs {
						ix, ok := ast.Unparen(l).(*ast.IndexExpr)
						if !ok {
							continue
						}
						se, ok := ast.Unparen(ix.X).(*ast.SelectorExpr)
						if !ok {
							continue
						}
						fld, ok := info.Uses[se.Sel].(*types.Var)
						if !ok || !fld.IsField() {
							continue
						}
						if _, isMap := fld.Type().Underlying().(*types.Map); !isMap {
							continue
						}
						for i := 0; i < st.NumFields(); i++ {
							if st.Field(i) == fld && stored[fld] == "" {
								stored[fld] = p.Pos(as)
							}
						}
					}
					return true
				})
			}
			n := 0
			for _, f := range p.FnList {
				if f.Short != "manager" || f.Body() == nil {
					continue
				}
				info := f.Pkg.TypesInfo
				inspectParents(f.Body(), func(x ast.Node, parents []ast.Node) bool {
					cl, ok := x.(*ast.CompositeLit)
					if !ok || namedOf(info.TypeOf(cl)) != tagT || len(cl.Elts) == 0 {
						return true
					}
					if _, keyed := cl.Elts[0].(*ast.KeyValueExpr); !keyed {
						return true
					}
					for fld, where := range stored {
						n++
						key := fmt.Sprintf("%s tag literal@%s sets %s", f.Key(), relLine(p, f, cl), fld.Name())
						okField := false
						for _, e := range cl.Elts {
							kv := e.(*ast.KeyValueExpr)
							if id, ok := kv.Key.(*ast.Ident); ok && id.Name == fld.Name() {
								switch v := ast.Unparen(kv.Value).(type) {
								case *ast.CallExpr:
									okField = isBuiltin(info, v, "make") || true
								case *ast.CompositeLit:
									okField = true
								case *ast.Ident:
									okField = v.Name != "nil"
								default:
									okField = true
								}
							}
						}
						if !okField {
							// x.F = make(…) in the same block after the literal's statement
							var blk *ast.BlockStmt
							var stmt ast.Node
							for i := len(parents) - 1; i >= 0; i-- {
								if b, ok := parents[i].(*ast.BlockStmt); ok {
									blk = b
									if i+1 < len(parents) {
										stmt = parents[i+1]
									}
									break
								}
							}
							if blk != nil {
								after := false
								for _, s := range blk.List {
									if s == stmt {
										after = true
										continue
									}
									if !after {
										continue
									}
									if as, ok := s.(*ast.AssignStmt); ok {
										for i, l := range as.Lhs {
											if se, ok := ast.Unparen(l).(*ast.SelectorExpr); ok && info.Uses[se.Sel] == types.Object(fld) && i < len(as.Rhs) {
												if c, ok := ast.Unparen(as.Rhs[i]).(*ast.CallExpr); ok && isBuiltin(info, c, "make") {
													okField = true
												}
											}
										}
									}
								}
							}
						}
						if !okField {
							// the literal's variable gets the field later in the same function (closures included): from make, or
							// inherited from the tag it replaces (x.F = old.F, where old was looked up in Manager.tags and has the map)
							var holder types.Object
							for i := len(parents) - 1; i >= 0; i-- {
								if as, ok := parents[i].(*ast.AssignStmt); ok {
									for k, rh := range as.Rhs {
										if within(cl, rh) && k < len(as.Lhs) {
											holder = identObj(info, as.Lhs[k])
										}
									}
									break
								}
							}
							if holder != nil {
								ast.Inspect(f.Root().Body(), func(y ast.Node) bool {
									as, ok := y.(*ast.AssignStmt)
									if !ok {
										return true
									}
									for i, l := range as.Lhs {
										se, ok := ast.Unparen(l).(*ast.SelectorExpr)
										if !ok || info.Uses[se.Sel] != types.Object(fld) || identObj(info, se.X) != holder || i >= len(as.Rhs) {
											continue
										}
										switch v := ast.Unparen(as.Rhs[i]).(type) {
										case *ast.CallExpr:
											if isBuiltin(info, v, "make") {
												okField = true
											}
										case *ast.SelectorExpr:
											if info.Uses[v.Sel] == types.Object(fld) {
												okField = true
											}
										case *ast.CompositeLit:
											okField = true
										}
									}
									return true
								})
							}
						}
						r.Check(okField, rule, key, p.Pos(cl), "allocated in the literal (or right after it)", "a tag is built without its "+fld.Name()+" map, but "+where+" stores into that map of a looked-up tag without a nil test: the first API call that makes another tag reference this one panics on the service goroutine")
					}
					return true
				})
			}
			r.Floor(rule, 3, n)
		})
}
