package main

// c11j.go: two rules about how the tag graph is rebuilt.
//
// C11-j / C12-m back references are registered from the full reference list. `referencedBy` of a tag has to name
// every tag whose definition mentions it — in the main query or in a sub-query: DelTag and the rename path refuse
// while it is non-empty, and that is all that protects the graph from dangling references. tag.referencedTags() is the
// one function that lists both kinds. Seeded C12l rebuilds referencedBy at start-up from features.MainTags only: after
// a restart a tag that is referenced from a sub-query can be deleted, and the dangling reference panics the service
// goroutine. Rule: every store `x.referencedBy[k] = …` and every delete(x.referencedBy, k) in package manager lies in a
// range over the result of tag.referencedTags() (directly or through a local).
//
// C11-k / C12-n the loader checks the tags it has loaded, not the ones installed. manager.New builds the tag map of a
// state file in a local and assigns Manager.tags only when everything was validated. Seeded C11l replaces the loader's
// own cycle check by mgr.referencesTag, which expands references through Manager.tags — still the previous content
// (empty on a fresh start), so every cycle is accepted and the first inheritTagUncertainty spins for ever. Rule: in
// manager.New no method of Manager that reads Manager.tags (depth 2) is called before the assignment of Manager.tags
// that installs a loaded state.

import (
	"fmt"
	"go/ast"
	"go/types"
)

func init() {
	const explJ = "(typed AST): in package manager every store into tag.referencedBy[…] and every delete from it lies inside a range over the result of tag.referencedTags() — the only function that lists the tags a definition mentions in its main query AND in its sub-queries (directly or through a local assigned from it). A registration from features.MainTags alone forgets sub-query references: the referenced tag can be deleted or renamed, and the dangling reference ends the service goroutine with a nil dereference."
	register("C11", "C11-j "+explJ, func(p *Prog, r *Res) { ruleBackRefsFromFullList(p, r, "C11-j back-references-from-the-full-list") })
	register("C12", "C12-m "+explJ, func(p *Prog, r *Res) { ruleBackRefsFromFullList(p, r, "C12-m back-references-from-the-full-list") })
	const explK = "(typed AST, callee effect summary): manager.New calls no method of Manager that reads Manager.tags (directly or through package callees, depth 2) in front of the assignment of Manager.tags that installs a loaded state file: until then the field holds the previous content, and a validation that goes through it — the cycle check — validates another graph than the one being loaded. A cyclic tag graph makes both fixed-point walks of package manager spin for ever (C11-d)."
	register("C11", "C11-k "+explK, func(p *Prog, r *Res) { ruleLoaderChecksLoaded(p, r, "C11-k loader-validates-what-it-loaded") })
	register("C12", "C12-n "+explK, func(p *Prog, r *Res) { ruleLoaderChecksLoaded(p, r, "C12-n loader-validates-what-it-loaded") })
}

func ruleBackRefsFromFullList(p *Prog, r *Res, rule string) {
	r.Rule(rule + ": referencedBy is only updated while ranging over referencedTags()")
	refBy := p.Field("manager", "tag", "referencedBy")
	refTags := p.Method("manager", "tag", "referencedTags")
	if refBy == nil || refTags == nil {
		p.anchorFail("manager.tag.referencedBy / tag.referencedTags")
		return
	}
	n := 0
	for _, f := range p.FnList {
		if f.Short != "manager" || f.Body() == nil {
			continue
		}
		info := f.Pkg.TypesInfo
		root := f.Root()
		var fromFullList func(e ast.Expr) bool
		// a local map that is filled only while ranging over a full list (the before/after difference of an update)
		mapFromFullList := func(o types.Object) bool {
			if _, isMap := o.Type().Underlying().(*types.Map); !isMap {
				return false
			}
			nStores, all := 0, true
			inspectParentsAll(root.Body(), func(x ast.Node, parents []ast.Node) {
				as, ok := x.(*ast.AssignStmt)
				if !ok {
					return
				}
				for _, l := range as.Lhs {
					ix, ok := ast.Unparen(l).(*ast.IndexExpr)
					if !ok || identObj(info, ix.X) != o {
						continue
					}
					nStores++
					inRange := false
					for _, par := range parents {
						if rs, isR := par.(*ast.RangeStmt); isR && identObj(info, rs.X) != o && fromFullList(rs.X) {
							inRange = true
						}
					}
					if !inRange {
						all = false
					}
				}
			})
			return nStores > 0 && all
		}
		fromFullList = func(e ast.Expr) bool {
			e = ast.Unparen(e)
			if c, ok := e.(*ast.CallExpr); ok {
				if fn := p.Callee(f.Pkg, c); fn != nil && fn.Origin() == refTags {
					return true
				}
			}
			o := identObj(info, e)
			if o == nil {
				return false
			}
			if mapFromFullList(o) {
				return true
			}
			// a local all of whose definitions are referencedTags() calls
			nDefs, all := 0, true
			ast.Inspect(root.Body(), func(x ast.Node) bool {
				if as, ok := x.(*ast.AssignStmt); ok && len(as.Lhs) == len(as.Rhs) {
					for i, l := range as.Lhs {
						if identObj(info, l) == o {
							nDefs++
							c, ok := ast.Unparen(as.Rhs[i]).(*ast.CallExpr)
							if !ok {
								all = false
								continue
							}
							if fn := p.Callee(f.Pkg, c); fn == nil || fn.Origin() != refTags {
								all = false
							}
						}
					}
				}
				return true
			})
			return nDefs > 0 && all
		}
		inspectParents(f.Body(), func(x ast.Node, parents []ast.Node) bool {
			var target ast.Expr
			what := ""
			switch s := x.(type) {
			case *ast.AssignStmt:
				for _, l := range s.Lhs {
					if ix, ok := ast.Unparen(l).(*ast.IndexExpr); ok && isFieldOf(info, ix.X, refBy) {
						target, what = ix, "store"
					}
				}
			case *ast.CallExpr:
				if isBuiltin(info, s, "delete") && len(s.Args) == 2 && isFieldOf(info, s.Args[0], refBy) {
					target, what = s, "delete"
				}
			}
			if target == nil {
				return true
			}
			n++
			key := fmt.Sprintf("%s %s@%s", f.Key(), what, relLine(p, f, x))
			ok := false
			for _, par := range parents {
				if rs, isR := par.(*ast.RangeStmt); isR && fromFullList(rs.X) {
					ok = true
				}
			}
			// renaming a tag moves its own entry in the lists of the tags IT references: still inside such a range;
			// a store keyed by something else outside any such range is what the rule is about
			r.Check(ok, rule, key, p.Pos(x), "inside a range over referencedTags()", "referencedBy is updated outside a range over tag.referencedTags(): the tags a definition mentions only in a sub-query are not covered — such a tag can be deleted or renamed while it is still referenced")
			return true
		})
	}
	r.Floor(rule, 6, n)
}

func ruleLoaderChecksLoaded(p *Prog, r *Res, rule string) {
	r.Rule(rule + ": manager.New does not consult Manager.tags before installing the loaded tags")
	f := p.Fn("manager.New")
	tagsFld := p.Field("manager", "Manager", "tags")
	if f == nil || tagsFld == nil {
		p.anchorFail("manager.New / Manager.tags")
		return
	}
	info := f.Pkg.TypesInfo
	// the installing assignments
	var installs []*ast.AssignStmt
	inspectShallow(f.Body(), func(x ast.Node) bool {
		if as, ok := x.(*ast.AssignStmt); ok {
			for _, l := range as.Lhs {
				if isFieldOf(info, l, tagsFld) {
					installs = append(installs, as)
				}
			}
		}
		return true
	})
	if len(installs) == 0 {
		p.anchorFail("the assignment of Manager.tags in manager.New")
		return
	}
	last := installs[len(installs)-1]
	reads := func(g *Fn) bool {
		seen := map[*Fn]bool{}
		var walk func(h *Fn, d int) bool
		walk = func(h *Fn, d int) bool {
			if h == nil || seen[h] || h.Body() == nil {
				return false
			}
			seen[h] = true
			hinfo := h.Pkg.TypesInfo
			hit := false
			ast.Inspect(h.Body(), func(x ast.Node) bool {
				if se, ok := x.(*ast.SelectorExpr); ok && hinfo.Uses[se.Sel] == types.Object(tagsFld) {
					hit = true
				}
				return !hit
			})
			if hit {
				return true
			}
			if d == 0 {
				return false
			}
			for _, c := range callsIn(h.Body()) {
				if fn := p.Callee(h.Pkg, c); fn != nil {
					if k := p.FnOfObj(fn); k != nil && k.Short == "manager" && walk(k, d-1) {
						return true
					}
				}
			}
			return false
		}
		return walk(g, 2)
	}
	n := 0
	mgrNamed := p.Named("manager", "Manager")
	inspectShallow(f.Body(), func(x ast.Node) bool {
		c, ok := x.(*ast.CallExpr)
		if !ok || c.Pos() >= last.Pos() {
			return true
		}
		fn := p.Callee(f.Pkg, c)
		if fn == nil {
			return true
		}
		sig, _ := fn.Type().(*types.Signature)
		if sig == nil || sig.Recv() == nil || mgrNamed == nil {
			return true
		}
		if nt := namedOf(derefType(sig.Recv().Type())); nt == nil || nt.Obj() != mgrNamed.Obj() {
			return true
		}
		g := p.FnOfObj(fn)
		if g == nil {
			return true
		}
		n++
		key := fmt.Sprintf("manager.New calls %s before the loaded tags are installed", g.Key())
		r.Check(!reads(g), rule, key, p.Pos(c), "the method does not read Manager.tags", g.Key()+" reads Manager.tags, which still holds the previous content at this point: what it validates is not the tag graph being loaded — a state file with a reference cycle is accepted, and the first propagation of uncertainty over the graph never ends")
		return true
	})
	r.Note("%s: %d Manager methods are called by New in front of the installation of the loaded tags", rule, n)
	r.Floor(rule+" installs", 1, len(installs))
}
