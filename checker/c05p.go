package main

// c05p.go: C05-p a batch that is split by a key consults its bookkeeping for the element at hand.
//
// Packets that arrive over PCAP-over-IP are written to capture files in batches; a pcapng file has one link type, so
// writePcaps makes one pass per link type: it writes the packets of the type of the first packet, remembers the type as
// handled, and continues at the first packet of a type that is not handled yet. The test for "not handled yet" asked
// the set about `lt` — the type of the pass that is running, which is never in the set at that point — instead of about
// the type of the packet it was looking at. With two endpoints of different link types delivering in turns (A B A B …)
// the second pass stopped at the first A packet again and a third file repeated every A packet behind the first B:
// 300 packets delivered, 434 imported, stream 0 read `<b000><b001><b001><b002><b002>…` (#86,
// probes/c05_two_link_types_in_one_batch). Found independently by two agents of the third hunt.
//
// Rule (typed AST): in package manager, inside the body of a range loop every read of a local map whose key type is
// layers.LinkType is keyed by an expression that depends on the loop's value variable (the variable itself, a field of
// it, or a local of the body defined from it).

import (
	"fmt"
	"go/ast"
	"go/types"
	"strings"
)

func init() {
	register("C05",
		"C05-p (typed AST): in package manager, inside the body of a range loop every read of a local map keyed by layers.LinkType is keyed by an expression that depends on the loop's value variable (itself, a field of it, or a local of the body defined from it): the bookkeeping of a batch that is split by link type is consulted for the packet at hand. Asked about the link type of the running pass — which is never in the set yet — the 'already handled' test is always false, and packets of a handled type are written to a further capture file a second time: every datagram behind the first packet of the other type is imported twice.",
		func(p *Prog, r *Res) {
			const rule = "C05-p split-batch-bookkeeping-asks-about-the-element"
			r.Rule(rule + ": a per-link-type set is read for the packet of the iteration")
			n := 0
			for _, f := range p.FnList {
				if f.Short != "manager" || f.Body() == nil {
					continue
				}
				info := f.Pkg.TypesInfo
				isLTMap := func(e ast.Expr) bool {
					o, ok := identObj(info, e).(*types.Var)
					if !ok || o.IsField() {
						return false
					}
					m, ok := o.Type().Underlying().(*types.Map)
					if !ok {
						return false
					}
					nt := namedOf(m.Key())
					return nt != nil && nt.Obj().Name() == "LinkType" && nt.Obj().Pkg() != nil && strings.HasSuffix(nt.Obj().Pkg().Path(), "layers")
				}
				inspectShallow(f.Body(), func(x ast.Node) bool {
					rs, ok := x.(*ast.RangeStmt)
					if !ok || rs.Value == nil {
						return true
					}
					v := identObj(info, rs.Value)
					if v == nil {
						return true
					}
					derived := map[types.Object]bool{v: true}
					for round := 0; round < 2; round++ {
						ast.Inspect(rs.Body, func(y ast.Node) bool {
							if as, ok := y.(*ast.AssignStmt); ok && len(as.Lhs) == len(as.Rhs) {
								for i, l := range as.Lhs {
									hit := false
									ast.Inspect(as.Rhs[i], func(z ast.Node) bool {
										if id, ok := z.(*ast.Ident); ok && derived[info.Uses[id]] {
											hit = true
										}
										return !hit
									})
									if o := identObj(info, l); o != nil && hit {
										derived[o] = true
									}
								}
							}
							return true
						})
					}
					inspectParents(rs.Body, func(y ast.Node, ps []ast.Node) bool {
						ix, ok := y.(*ast.IndexExpr)
						if !ok || !isLTMap(ix.X) {
							return true
						}
						// reads only: not the left side of an assignment
						if len(ps) > 0 {
							if as, ok := ps[len(ps)-1].(*ast.AssignStmt); ok {
								for _, l := range as.Lhs {
									if l == ast.Expr(ix) {
										return true
									}
								}
							}
						}
						n++
						dep := false
						ast.Inspect(ix.Index, func(z ast.Node) bool {
							if id, ok := z.(*ast.Ident); ok && derived[info.Uses[id]] {
								dep = true
							}
							return !dep
						})
						key := fmt.Sprintf("%s reads %s inside the loop over %s", f.Key(), types.ExprString(ix.X), types.ExprString(rs.X))
						r.Check(dep, rule, key, p.Pos(ix), "keyed by the element of the iteration", "the set is asked about "+types.ExprString(ix.Index)+", which does not depend on the element the loop is looking at ("+v.Name()+"): the answer is the same for every packet — 'not handled' for the type of the running pass — so a packet of a type that WAS handled makes the batch restart there, and its type is written to another file a second time")
						return true
					})
					return true
				})
			}
			r.Floor(rule, 1, n)
		})
}
