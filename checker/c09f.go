package main

// c09f.go: C09-f / C16-i reserved-process-is-released (acquire/release pairing of converter process slots).
//
// Converter.reserveProcess hands out one of at most MAX_PROCESS_COUNT process slots and blocks when none is free;
// the slot comes back only through releaseProcess. A path through a holder that returns without releasing leaks the
// slot; after MAX_PROCESS_COUNT leaks the next conversion blocks for ever, the converter job never posts its completion
// and converterJobRunning stays set. FLOW over every function of package converters that calls reserveProcess: from
// the acquisition every path to a return passes releaseProcess — directly, or by taking the failure edge of
// `if err := helper(...); err != nil` where helper is a local closure that releases on each of its failing returns
// and on none of its successful ones.

import (
	"fmt"
	"go/ast"
	"go/token"
	"go/types"

	"golang.org/x/tools/go/cfg"
)

func init() {
	const expl = "(FLOW, acquire/release pairing with closure summaries): in package converters every function that obtains a process slot with Converter.reserveProcess passes Converter.releaseProcess on every path from the acquisition to a return — directly, or over the failure edge of `if err := h(…); err != nil` where h is a local closure all of whose failing returns, and none of whose successful returns, are preceded by the release. A leaked slot is never handed out again; after MAX_PROCESS_COUNT leaks reserveProcess blocks for ever and the converter job never completes."
	register("C09", "C09-f "+expl, func(p *Prog, r *Res) { ruleProcessReleased(p, r, "C09-f reserved-process-is-released") })
	register("C16", "C16-i "+expl, func(p *Prog, r *Res) { ruleProcessReleased(p, r, "C16-i reserved-process-is-released") })
}

func ruleProcessReleased(p *Prog, r *Res, rule string) {
	r.Rule(rule + ": every path from reserveProcess to a return passes releaseProcess")
	res := p.Method("converters", "Converter", "reserveProcess")
	rel := p.Method("converters", "Converter", "releaseProcess")
	if res == nil || rel == nil {
		return
	}
	n := 0
	for _, f := range p.FnList {
		if f.Short != "converters" || f.Body() == nil {
			continue
		}
		info := f.Pkg.TypesInfo
		fl := p.Flow(f)
		acqs := fl.Find(func(nd ast.Node) bool {
			if _, isAs := nd.(*ast.AssignStmt); !isAs {
				return false
			}
			return fl.hasCall(nd, func(c *ast.CallExpr) bool { return p.Callee(f.Pkg, c) == res })
		})
		if len(acqs) == 0 {
			continue
		}
		isRelease := func(g *Fn, gfl *Flow) func(ast.Node) bool {
			return func(nd ast.Node) bool {
				return gfl.hasCall(nd, func(c *ast.CallExpr) bool { return p.Callee(g.Pkg, c) == rel })
			}
		}
		// closures that release exactly on their failing returns
		releasesOnFailure := map[types.Object]bool{}
		inspectShallow(f.Body(), func(x ast.Node) bool {
			as, ok := x.(*ast.AssignStmt)
			if !ok || len(as.Lhs) != 1 || len(as.Rhs) != 1 {
				return true
			}
			lit, ok := as.Rhs[0].(*ast.FuncLit)
			if !ok {
				return true
			}
			g := p.FnOfLit(lit)
			if g == nil {
				return true
			}
			gfl := p.Flow(g)
			relG := isRelease(g, gfl)
			okFail, okSucc, nFail := true, true, 0
			for _, pt := range gfl.Find(isReturn) {
				ret := gfl.node(pt)
				reach := gfl.Reach([]Pt{gfl.Entry()}, func(nd ast.Node) bool { return nd == ret }, relG)
				if isErrReturn(g.Pkg.TypesInfo, ret) {
					nFail++
					if reach.Found {
						okFail = false // a failing return reachable without the release
					}
				} else if !reach.Found {
					okSucc = false // a successful return that can only be reached through a release
				}
			}
			if nFail > 0 && okFail && okSucc {
				releasesOnFailure[identObj(info, as.Lhs[0])] = true
			}
			return true
		})
		relF := isRelease(f, fl)
		// failure edge of `err := h(…)` + `err != nil`
		fl.EdgeOK = func(b *cfg.Block, succ int) bool {
			if len(b.Succs) != 2 || len(b.Nodes) < 2 || succ != 0 {
				return true
			}
			cond, ok := b.Nodes[len(b.Nodes)-1].(*ast.BinaryExpr)
			if !ok || cond.Op != token.NEQ || exprString(p.Fset, cond.Y) != "nil" {
				return true
			}
			eo := identObj(info, cond.X)
			as, ok := b.Nodes[len(b.Nodes)-2].(*ast.AssignStmt)
			if !ok || eo == nil || len(as.Rhs) != 1 {
				return true
			}
			assigns := false
			for _, l := range as.Lhs {
				if identObj(info, l) == eo {
					assigns = true
				}
			}
			c, ok := ast.Unparen(as.Rhs[0]).(*ast.CallExpr)
			if !ok || !assigns {
				return true
			}
			if releasesOnFailure[identObj(info, c.Fun)] {
				return false // the helper has released the slot on this edge
			}
			return true
		}
		for _, ap := range acqs {
			n++
			key := fmt.Sprintf("%s reserveProcess@%s", f.Key(), relLine(p, f, fl.node(ap)))
			found := fl.ExitAvoiding([]Pt{After(ap)}, relF)
			// a bare `return` / falling off the end with named results
			miss := found.Found || fallsOffEndAvoiding(fl, After(ap), relF)
			if !found.Found && !miss {
				// returns without results are not seen by ExitAvoiding when they carry the release themselves
			}
			// ExitAvoiding only treats statements with results specially? make sure bare returns are covered
			if !miss {
				bare := fl.Reach([]Pt{After(ap)}, func(nd ast.Node) bool {
					ret, ok := nd.(*ast.ReturnStmt)
					return ok && len(ret.Results) == 0
				}, relF)
				if bare.Found {
					miss, found = true, bare
				}
			}
			r.Check(!miss, rule, key, p.Pos(fl.node(ap)), "every path to a return passes releaseProcess (helper failure edges included)", "a return is reachable without giving the process slot back ("+fl.traceString(found)+"): the slot is lost; after MAX_PROCESS_COUNT such returns reserveProcess blocks for ever and the converter job never completes")
		}
		fl.EdgeOK = nil
	}
	r.Floor(rule, 1, n)
}
