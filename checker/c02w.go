package main

// c02w.go: C02-w / C03-m reference times carry no monotonic clock reading.
//
// query.Parse stamps a query with the moment it was parsed; absolute time filters are stored relative to it, and a
// pending tag that is inlined into a later search is shifted by the difference of the two reference times
// (withReferenceTime). time.Now() carries a monotonic reading and Time.Sub uses it when both operands have one: the
// shift is then the monotonic difference, while the filters were built from wall-clock times — off by nanoseconds
// normally, by the whole pause when the machine was suspended or the clock stepped. `tag/hour :=
// ftime:"… 130000:… 140000"`, streams exactly on the bounds: the tag's query returned [0 1], `tag:hour` (pending)
// returned [1] or [0] in 37 of 40 attempts (#84, probes/c02_pending_tag_absolute_time).
//
// Rule (typed AST): in package query every call of time.Now is the receiver of Round or Truncate (which strip the
// monotonic reading) or of a method that leaves the Time domain (Unix, UnixNano, UnixMilli, UnixMicro, Format).

import (
	"go/ast"
)

func ruleWallClockReference(id string) func(p *Prog, r *Res) {
	return func(p *Prog, r *Res) {
		rule := id + " reference-time-is-wall-clock"
		r.Rule(rule + ": time.Now() in package query is stripped of its monotonic reading")
		n := 0
		for _, f := range p.FnList {
			if f.Short != "query" || f.Lit != nil || f.Body() == nil {
				continue
			}
			inspectParents(f.Body(), func(x ast.Node, ps []ast.Node) bool {
				c, ok := x.(*ast.CallExpr)
				if !ok {
					return true
				}
				fn := p.Callee(f.Pkg, c)
				if fn == nil || fn.FullName() != "time.Now" {
					return true
				}
				n++
				stripped := false
				if len(ps) >= 2 {
					if se, ok := ps[len(ps)-1].(*ast.SelectorExpr); ok && se.X == ast.Expr(c) {
						if outer, ok := ps[len(ps)-2].(*ast.CallExpr); ok && outer.Fun == ast.Expr(se) {
							switch se.Sel.Name {
							case "Round", "Truncate", "Unix", "UnixNano", "UnixMilli", "UnixMicro", "Format":
								stripped = true
							}
						}
					}
				}
				r.Check(stripped, rule, f.Key()+" reads the clock", p.Pos(c), "time.Now() is rounded (no monotonic reading is kept)", "time.Now() is kept with its monotonic reading: the difference of two such times (Time.Sub in withReferenceTime) is the monotonic one, the time filters were built from wall-clock times — a pending tag with an absolute time filter is searched with bounds that are off by nanoseconds (streams exactly on a bound fall out) or, after a suspend or a clock step, by the whole pause")
				return true
			})
		}
		r.Floor(rule, 1, n)
	}
}

func init() {
	const expl = " (typed AST): in package query every call of time.Now is the receiver of Round or Truncate (they strip the monotonic clock reading) or of a method that leaves the Time domain (Unix…, Format). A query's reference time is the moment it was parsed; a pending tag inlined into a later search is shifted by the difference of two reference times, and Time.Sub takes the monotonic difference when both carry a reading — while the filters were built from wall-clock times. Streams exactly on a bound of an absolute time filter then fall out of `tag:X` although X's own query returns them."
	register("C02", "C02-w"+expl, ruleWallClockReference("C02-w"))
	register("C03", "C03-m"+expl, ruleWallClockReference("C03-m"))
}
