package main

// c11o.go: C11-o a field of a freshly built tag is not read before the statement that fills it in.
//
// UpdateTag builds the tag object for a new definition with a composite literal (conditions, definition, features) and
// fills in what the old tag hands down — colour, converters, the referencedBy set — inside the service closure, after the
// validations. A validation that reads one of those fields of the NEW object runs on its zero value: seeded C11n folded
// the cycle check into closesCycle(name, newTag) with a fast path "no other tag references it: nothing to walk" —
// newTag.referencedBy is still nil there, the fast path always fires, a cycle a → c → b → a is accepted and
// inheritTagUncertainty never returns.
//
// Rule (FLOW + callee summaries): in package manager, for a variable X of pointer-to-struct type all of whose non-nil
// definitions are composite literals that do not set field F, and for which a statement `X.F = …` exists: no read of
// X.F — a selector, or X handed to a function or method of the package whose body reads that field of the parameter
// (depth 2) — lies on a path from the entry of the function to that statement (reads on paths that never fill the field
// in see the zero value on purpose, as does the guard `if X.F == 0 { X.F = … }`).

import (
	"fmt"
	"go/ast"
	"go/token"
	"go/types"
)

func init() {
	register("C11",
		"C11-o (FLOW + callee summaries): in package manager a field F of an object X that was built by a composite literal without F and receives F later by an assignment `X.F = …` is not read before that assignment: neither by a selector X.F nor by handing X to a function or method of the package whose body reads field F of that parameter (depth 2). The query-update path builds the new tag first and hands the old tag's colour, converters and referencedBy set over after the validations; a validation that consults such a field of the new object sees its zero value — a cycle check with a fast path on an empty referencedBy set accepts every cycle.",
		func(p *Prog, r *Res) {
			const rule = "C11-o no-read-before-late-initialisation"
			r.Rule(rule + ": fields of a fresh object that are filled in later are not read earlier")
			// summary: function → parameter index (−1 receiver) → fields of the parameter's struct it reads
			type rkey struct {
				fn  *types.Func
				idx int
			}
			reads := map[rkey]map[string]bool{}
			var mgrFns []*Fn
			for _, g := range p.FnList {
				if g.Short == "manager" && g.Lit == nil && g.Decl != nil && g.Body() != nil {
					mgrFns = append(mgrFns, g)
				}
			}
			paramObjs := func(g *Fn) map[types.Object]int {
				out := map[types.Object]int{}
				info := g.Pkg.TypesInfo
				if g.Decl.Recv != nil && len(g.Decl.Recv.List) == 1 && len(g.Decl.Recv.List[0].Names) == 1 {
					if o := info.Defs[g.Decl.Recv.List[0].Names[0]]; o != nil {
						out[o] = -1
					}
				}
				i := 0
				for _, fld := range g.Decl.Type.Params.List {
					for _, nm := range fld.Names {
						if o := info.Defs[nm]; o != nil {
							out[o] = i
						}
						i++
					}
					if len(fld.Names) == 0 {
						i++
					}
				}
				return out
			}
			for pass := 0; pass < 2; pass++ {
				for _, g := range mgrFns {
					info := g.Pkg.TypesInfo
					fo, _ := info.Defs[g.Decl.Name].(*types.Func)
					if fo == nil {
						continue
					}
					po := paramObjs(g)
					add := func(idx int, f string) {
						k := rkey{fo, idx}
						if reads[k] == nil {
							reads[k] = map[string]bool{}
						}
						reads[k][f] = true
					}
					inspectParents(g.Body(), func(x ast.Node, parents []ast.Node) bool {
						switch s := x.(type) {
						case *ast.SelectorExpr:
							if idx, ok := po[identObj(info, s.X)]; ok {
								if v, isVar := info.Uses[s.Sel].(*types.Var); isVar && v.IsField() {
									// not the target of a plain assignment
									if len(parents) > 0 {
										if as, isAs := parents[len(parents)-1].(*ast.AssignStmt); isAs && as.Tok == token.ASSIGN {
											for _, l := range as.Lhs {
												if l == ast.Expr(s) {
													return true
												}
											}
										}
									}
									add(idx, v.Name())
								}
							}
						case *ast.CallExpr:
							if pass == 0 {
								return true
							}
							fn := p.Callee(g.Pkg, s)
							if fn == nil {
								return true
							}
							if se, ok := ast.Unparen(s.Fun).(*ast.SelectorExpr); ok {
								if idx, ok := po[identObj(info, se.X)]; ok {
									for f := range reads[rkey{fn.Origin(), -1}] {
										add(idx, f)
									}
								}
							}
							for ai, a := range s.Args {
								if idx, ok := po[identObj(info, a)]; ok {
									for f := range reads[rkey{fn.Origin(), ai}] {
										add(idx, f)
									}
								}
							}
						}
						return true
					})
				}
			}
			n := 0
			for _, f := range p.FnList {
				if f.Short != "manager" || f.Body() == nil {
					continue
				}
				info := f.Pkg.TypesInfo
				// late initialisations in this function: X.F = …
				type late struct {
					x    types.Object
					fld  *types.Var
					stmt ast.Node
				}
				var lates []late
				inspectShallow(f.Body(), func(y ast.Node) bool {
					as, ok := y.(*ast.AssignStmt)
					if !ok || as.Tok != token.ASSIGN {
						return true
					}
					for _, l := range as.Lhs {
						se, ok := ast.Unparen(l).(*ast.SelectorExpr)
						if !ok {
							continue
						}
						v, isVar := info.Uses[se.Sel].(*types.Var)
						o := identObj(info, se.X)
						if !isVar || !v.IsField() || o == nil {
							continue
						}
						lates = append(lates, late{o, v, as})
					}
					return true
				})
				if len(lates) == 0 {
					continue
				}
				// is X fresh (all non-nil definitions are composite literals) and does no literal set F?
				root := f.Root()
				freshWithout := func(x types.Object, fld *types.Var) bool {
					if _, isPtr := x.Type().Underlying().(*types.Pointer); !isPtr {
						return false
					}
					lits, other := 0, 0
					setsF := false
					visit := func(rhs ast.Expr) {
						e := ast.Unparen(rhs)
						if id, ok := e.(*ast.Ident); ok && id.Name == "nil" {
							return
						}
						if u, ok := e.(*ast.UnaryExpr); ok && u.Op == token.AND {
							e = ast.Unparen(u.X)
						}
						cl, ok := e.(*ast.CompositeLit)
						if !ok {
							other++
							return
						}
						lits++
						for _, el := range cl.Elts {
							if kv, ok := el.(*ast.KeyValueExpr); ok {
								if id, ok := kv.Key.(*ast.Ident); ok && id.Name == fld.Name() {
									setsF = true
								}
							}
						}
					}
					ast.Inspect(root.Body(), func(y ast.Node) bool {
						switch s := y.(type) {
						case *ast.AssignStmt:
							if len(s.Lhs) == len(s.Rhs) {
								for i, l := range s.Lhs {
									if id, ok := l.(*ast.Ident); ok && root.Pkg.TypesInfo.ObjectOf(id) == x {
										visit(s.Rhs[i])
									}
								}
							} else {
								for _, l := range s.Lhs {
									if id, ok := l.(*ast.Ident); ok && root.Pkg.TypesInfo.ObjectOf(id) == x {
										other++
									}
								}
							}
						case *ast.ValueSpec:
							for i, nm := range s.Names {
								if root.Pkg.TypesInfo.Defs[nm] == x && i < len(s.Values) {
									visit(s.Values[i])
								}
							}
						}
						return true
					})
					return lits > 0 && other == 0 && !setsF
				}
				fl := p.Flow(f)
				done := map[string]bool{}
				for _, lt := range lates {
					k := lt.x.Name() + "." + lt.fld.Name()
					if done[k] || !freshWithout(lt.x, lt.fld) {
						continue
					}
					done[k] = true
					n++
					key := fmt.Sprintf("%s fills in %s.%s", f.Key(), lt.x.Name(), lt.fld.Name())
					isInit := func(nd ast.Node) bool {
						for _, o := range lates {
							if o.x == lt.x && o.fld == lt.fld && o.stmt == nd {
								return true
							}
						}
						return false
					}
					readsIt := func(nd ast.Node) (bool, string) {
						hit, what := false, ""
						if isInit(nd) {
							return false, ""
						}
						inspectShallow(nd, func(y ast.Node) bool {
							if hit {
								return false
							}
							switch s := y.(type) {
							case *ast.SelectorExpr:
								if identObj(info, s.X) == lt.x && info.Uses[s.Sel] == types.Object(lt.fld) {
									hit, what = true, "read of "+lt.x.Name()+"."+lt.fld.Name()
								}
							case *ast.CallExpr:
								fn := p.Callee(f.Pkg, s)
								if fn == nil {
									return true
								}
								if se, ok := ast.Unparen(s.Fun).(*ast.SelectorExpr); ok && identObj(info, se.X) == lt.x && reads[rkey{fn.Origin(), -1}][lt.fld.Name()] {
									hit, what = true, "call of "+fn.Name()+", which reads the field of its receiver"
								}
								for ai, a := range s.Args {
									if identObj(info, a) == lt.x && reads[rkey{fn.Origin(), ai}][lt.fld.Name()] {
										hit, what = true, "call of "+fn.Name()+", which reads the field of the object it is given"
									}
								}
							}
							return true
						})
						return hit, what
					}
					// a (re)definition of X: another object from there on
					isRedef := func(nd ast.Node) bool {
						as, ok := nd.(*ast.AssignStmt)
						if !ok {
							return false
						}
						for _, l := range as.Lhs {
							if id, ok := l.(*ast.Ident); ok && info.ObjectOf(id) == lt.x {
								return true
							}
						}
						return false
					}
					// conditions of the if statements around a filling statement: `if X.F == 0 { X.F = … }` tests the
					// zero value on purpose
					guardOfInit := map[ast.Node]bool{}
					inspectParents(f.Body(), func(y ast.Node, parents []ast.Node) bool {
						if isInit(y) {
							for _, par := range parents {
								if ifs, ok := par.(*ast.IfStmt); ok {
									guardOfInit[ifs.Cond] = true
								}
							}
						}
						return true
					})
					var what string
					res := fl.Reach([]Pt{fl.Entry()}, func(nd ast.Node) bool {
						h, w := readsIt(nd)
						if !h || guardOfInit[nd] {
							return false
						}
						// the zero value is what a path sees that never fills the field in; only a read that the filling
						// statement FOLLOWS (for the same object) reads too early
						pt, ok := fl.PointOf(nd)
						if !ok {
							return false
						}
						if later := fl.Reach([]Pt{After(pt)}, isInit, isRedef); !later.Found {
							return false
						}
						what = w
						return true
					}, isInit)
					r.Check(!res.Found, rule, key, p.Pos(lt.stmt), "no read of the field before it is filled in", fmt.Sprintf("%s.%s is read (%s, line %d) before the statement that fills it in (path %s): the object was built without that field, the read sees the zero value — a check that relies on it decides on nothing", lt.x.Name(), lt.fld.Name(), what, func() int {
						if res.End != nil {
							return lineOf(p.Fset, res.End)
						}
						return 0
					}(), fl.traceString(res)))
				}
			}
			r.Floor(rule, 2, n)
		})
}
