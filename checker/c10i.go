package main

// c10i.go: C10-i / C07-l a lookup by id asks every reader until one has the stream.
//
// A stream id is looked up newest reader first (C10-c); the first reader that has the stream wins. Which readers can
// hold an id is not a function of their position: an import that only continues existing streams produces a newer file
// whose highest id is LOWER than ids in older files (C08-b, C12-k). The loop may therefore skip a reader (continue),
// but it may leave — break, return without an error, goto — only after it has asked the reader of the current
// iteration. Seeded C07l: `if streamID > idx.MaxStreamID() { break }` in front of the lookup ("older indexes only have
// lower ids"): higher ids are "not found" until a merge folds that file away.
//
// Rule (AST within the loop, typed): in every loop over a []*index.Reader whose body calls (*index.Reader).StreamByID,
// no break of that loop, goto, or return other than a failing one precedes the lookup call in the body.

import (
	"fmt"
	"go/ast"
	"go/token"
	"go/types"
)

func init() {
	const expl = "(typed AST): in every loop over a []*index.Reader whose body looks a stream up by id ((*index.Reader).StreamByID) or tests its id table for one (containedStreamIds[id], StreamIDs()[id] — the filter that hides superseded versions), no break of that loop, goto or non-failing return stands in front of the lookup: a reader may be skipped (continue) but the search may only end after the reader of the current iteration was asked. Ids are not monotone in the position of a file — an import that only continues old streams creates a newer file with a lower highest id — so `if id > idx.MaxStreamID() { break }` makes streams unreachable until the next merge, and the same id is found again afterwards: the answer of a lookup depends on whether a merge has happened."
	register("C10", "C10-i "+expl, func(p *Prog, r *Res) { ruleLookupAsksEveryReader(p, r, "C10-i lookup-asks-every-reader") })
	register("C07", "C07-l "+expl, func(p *Prog, r *Res) { ruleLookupAsksEveryReader(p, r, "C07-l lookup-asks-every-reader") })
	register("C02", "C02-t "+expl, func(p *Prog, r *Res) { ruleLookupAsksEveryReader(p, r, "C02-t lookup-asks-every-reader") })
}

func ruleLookupAsksEveryReader(p *Prog, r *Res, rule string) {
	r.Rule(rule + ": a newest-first lookup leaves its loop only after asking the current reader")
	lookup := p.Method("index", "Reader", "StreamByID")
	if lookup == nil {
		p.anchorFail("index.Reader.StreamByID")
		return
	}
	readerSliceT := "[]*github.com/spq/pkappa2/internal/index.Reader"
	// the id table of a reader and the methods that hand it out
	idTable := p.Field("index", "Reader", "containedStreamIds")
	idAccessors := map[*types.Func]bool{}
	if idTable != nil {
		for _, g := range p.FnList {
			if g.Short != "index" || g.Decl == nil || g.Decl.Recv == nil || g.Body() == nil || len(g.Body().List) != 1 {
				continue
			}
			if ret, ok := g.Body().List[0].(*ast.ReturnStmt); ok && len(ret.Results) == 1 {
				if se, ok := ast.Unparen(ret.Results[0]).(*ast.SelectorExpr); ok && g.Pkg.TypesInfo.Uses[se.Sel] == types.Object(idTable) {
					if fo, ok := g.Pkg.TypesInfo.Defs[g.Decl.Name].(*types.Func); ok {
						idAccessors[fo] = true
					}
				}
			}
		}
	}
	n := 0
	for _, f := range p.FnList {
		if f.Body() == nil || (f.Short != "manager" && f.Short != "index" && f.Short != "builder") {
			continue
		}
		info := f.Pkg.TypesInfo
		inspectShallow(f.Body(), func(x ast.Node) bool {
			var body *ast.BlockStmt
			var label string
			switch s := x.(type) {
			case *ast.RangeStmt:
				t := info.TypeOf(s.X)
				if c, ok := ast.Unparen(s.X).(*ast.CallExpr); ok && len(c.Args) == 1 {
					t = info.TypeOf(c.Args[0]) // slices.Backward(indexes)
				}
				if t != nil && types.TypeString(t, nil) == readerSliceT {
					body = s.Body
				}
			case *ast.ForStmt:
				uses := false
				inspectShallow(s.Body, func(y ast.Node) bool {
					if ix, ok := y.(*ast.IndexExpr); ok {
						if t := info.TypeOf(ix.X); t != nil && types.TypeString(t, nil) == readerSliceT {
							uses = true
						}
					}
					return true
				})
				if uses {
					body = s.Body
				}
			}
			if body == nil {
				return true
			}
			_ = label
			// asking a reader: the lookup call, or the membership test on its id table (containedStreamIds[id] directly
			// or through the accessor StreamIDs()) — the filter that hides superseded versions asks every newer reader
			var first ast.Expr
			inspectShallow(body, func(y ast.Node) bool {
				if first != nil {
					return false
				}
				switch c := y.(type) {
				case *ast.CallExpr:
					if fn := p.Callee(f.Pkg, c); fn != nil && fn.Origin() == lookup {
						first = c
					}
				case *ast.IndexExpr:
					if idTable != nil {
						switch b := ast.Unparen(c.X).(type) {
						case *ast.SelectorExpr:
							if info.Uses[b.Sel] == types.Object(idTable) {
								first = c
							}
						case *ast.CallExpr:
							if fn := p.Callee(f.Pkg, b); fn != nil && idAccessors[fn.Origin()] {
								first = c
							}
						}
					}
				}
				return true
			})
			if first == nil {
				return true
			}
			n++
			key := fmt.Sprintf("%s lookup loop@%s", f.Key(), relLine(p, f, x))
			var bad ast.Node
			depthLoops := 0
			var walk func(nd ast.Node)
			walk = func(nd ast.Node) {
				ast.Inspect(nd, func(y ast.Node) bool {
					if y == nil || bad != nil {
						return false
					}
					if y.Pos() >= first.Pos() {
						return false
					}
					switch s := y.(type) {
					case *ast.FuncLit:
						return false
					case *ast.ForStmt, *ast.RangeStmt, *ast.SwitchStmt, *ast.TypeSwitchStmt, *ast.SelectStmt:
						if y != nd {
							// an unlabelled break inside leaves that statement, not the lookup loop
							depthLoops++
							walk2 := y
							ast.Inspect(walk2, func(z ast.Node) bool {
								if z == nil || bad != nil {
									return false
								}
								if z.Pos() >= first.Pos() {
									return false
								}
								switch t := z.(type) {
								case *ast.FuncLit:
									return false
								case *ast.ReturnStmt:
									if !isErrReturn(info, t) {
										bad = t
									}
								case *ast.BranchStmt:
									if t.Tok == token.GOTO || (t.Tok == token.BREAK && t.Label != nil) {
										bad = t
									}
								}
								return true
							})
							depthLoops--
							return false
						}
					case *ast.ReturnStmt:
						if !isErrReturn(info, s) {
							bad = s
						}
					case *ast.BranchStmt:
						if s.Tok == token.BREAK || s.Tok == token.GOTO {
							bad = s
						}
					}
					return true
				})
			}
			walk(body)
			if bad != nil {
				r.Bad(rule, key, p.Pos(bad), "the loop is left in front of the lookup of the current reader ("+leaveText(bad)+"): which readers can hold an id does not follow from their position — a file written by an import that only continued old streams has a lower highest id than older files — so the stream is reported missing although an older reader has it, until a merge folds the files together")
			} else {
				r.Ok(rule, key, p.Pos(first), "no break, goto or non-failing return stands in front of the lookup")
			}
			return true
		})
	}
	r.Floor(rule, 2, n)
}

func leaveText(n ast.Node) string {
	switch s := n.(type) {
	case *ast.BranchStmt:
		if s.Label != nil {
			return s.Tok.String() + " " + s.Label.Name
		}
		return s.Tok.String()
	case *ast.ReturnStmt:
		return "return without an error"
	}
	return "exit"
}
