package main

// selftest.go (thorough tier): run the property's rules on in-memory variants of /repo —
// hand-written mutants (/verif/mutants/<id>.json) and independently seeded breaking changes
// (/verif/seeded/<id>*/patch.diff) — and check that the rule fires and names the construct.
// Variants are handed to the loader through packages.Config.Overlay; nothing is written into /repo
// and pkappa2 is never executed.

import (
	"encoding/json"
	"fmt"
	"hash/fnv"
	"os"
	"os/exec"
	"path/filepath"
	"runtime"
	"sort"
	"strconv"
	"strings"
	"sync"
)

type Mutant struct {
	Name       string `json:"name"`
	File       string `json:"file"`
	Old        string `json:"old"`
	New        string `json:"new"`
	ExpectRule string `json:"expect_rule"`
	ExpectKey  string `json:"expect_key,omitempty"`
	Note       string `json:"note,omitempty"`
	Nth        int    `json:"nth,omitempty"`          // replace the nth occurrence (1-based); 0 = the fragment must be unique
	Append     string `json:"extra_append,omitempty"` // text appended to the file (helper functions of a variant)
}

// replaceNth replaces the nth (1-based) occurrence of old in s.
func replaceNth(s, old, new string, n int) (string, bool) {
	idx := 0
	for i := 1; ; i++ {
		j := strings.Index(s[idx:], old)
		if j < 0 {
			return s, false
		}
		if i == n {
			return s[:idx+j] + new + s[idx+j+len(old):], true
		}
		idx += j + len(old)
	}
}

type SeededMeta struct {
	Property     string   `json:"property"`
	Summary      string   `json:"summary"`
	ExpectRule   string   `json:"expect_rule"`
	ExpectKey    string   `json:"expect_key"`
	Undetectable string   `json:"statically_undetectable_because"`
	AlsoProps    []string `json:"also_checked_by"`
}

type SelftestResult struct {
	Applied        int              `json:"applied"`
	Detected       int              `json:"detected"`
	Negative       int              `json:"negative_controls"`
	NegativeSilent int              `json:"negative_controls_silent"`
	Missed         []string         `json:"missed"`
	Stale          []string         `json:"stale"`
	Undetectable   []string         `json:"documented_not_statically_detectable"`
	Details        []map[string]any `json:"details"`
	Workers        int              `json:"parallel_workers,omitempty"`
}

func violKeys(r *Res, kf *KFFile) map[string]Obl {
	// copy so that finish() on the real run is unaffected
	c := &Res{Prop: r.Prop, Obls: append([]Obl(nil), r.Obls...), Floors: r.Floors}
	o := c.finish(kf)
	m := map[string]Obl{}
	for _, v := range o.Violations {
		m[v.Rule+"|"+v.Key] = v
	}
	return m
}

func runVariant(repo string, overlay map[string][]byte, def *PropDef, kf *KFFile, base map[string]Obl, expectRule, expectKey string) (detected bool, fired []string, err error) {
	p, err := Load(repo, overlay)
	if err != nil {
		return false, nil, err
	}
	r := runProp(p, def)
	vk := violKeys(r, kf)
	var keys []string
	for k := range vk {
		if _, ok := base[k]; ok {
			continue
		}
		keys = append(keys, k)
	}
	sort.Strings(keys)
	for _, k := range keys {
		v := vk[k]
		fired = append(fired, fmt.Sprintf("%s | %s | %s", v.Rule, v.Key, v.Pos))
		if strings.Contains(v.Rule, expectRule) && strings.Contains(v.Key, expectKey) && v.Rule != "floor" && v.Rule != "analyzer" {
			detected = true
		}
	}
	return detected, fired, nil
}

// variantRunner analyses one variant of the tree (an overlay) and reports what fired.
type variantRunner func(overlay map[string][]byte, expectRule, expectKey string) (detected bool, fired []string, err error)

// runSelftest runs every stored variant of the tree through the rules of one property. The variants are independent
// of each other (each is a fresh load of /repo with an overlay), so they are analysed in parallel: a first pass over
// the variant lists only records the jobs, the jobs are run by a pool of workers, and a second, identical pass
// consumes the results in the same order and does the bookkeeping.
func runSelftest(repo, verif string, def *PropDef, kf *KFFile) SelftestResult {
	// baseline violations on the unmodified tree (normally none)
	bp, err := Load(repo, nil)
	if err != nil {
		var st SelftestResult
		st.Missed, st.Stale, st.Undetectable = []string{"baseline load failed: " + err.Error()}, []string{}, []string{}
		return st
	}
	base := violKeys(runProp(bp, def), kf)
	type job struct {
		overlay map[string][]byte
		er, ek  string
		det     bool
		fired   []string
		err     error
	}
	var jobs []*job
	// the second pass finds its results by what the variant IS (expectation and contents of the overlay), not by its
	// position: the directories of variants may gain entries while a run is under way
	jobKey := func(overlay map[string][]byte, er, ek string) string {
		names := make([]string, 0, len(overlay))
		for n := range overlay {
			names = append(names, n)
		}
		sort.Strings(names)
		h := fnv.New64a()
		for _, n := range names {
			h.Write([]byte(n))
			h.Write([]byte{0})
			h.Write(overlay[n])
			h.Write([]byte{0})
		}
		return fmt.Sprintf("%s|%s|%x", er, ek, h.Sum64())
	}
	byKey := map[string][]*job{}
	selftestPass(repo, verif, def, kf, bp, func(overlay map[string][]byte, er, ek string) (bool, []string, error) {
		j := &job{overlay: overlay, er: er, ek: ek}
		jobs = append(jobs, j)
		k := jobKey(overlay, er, ek)
		byKey[k] = append(byKey[k], j)
		return false, nil, nil
	})
	workers := runtime.NumCPU() / 2
	if workers > 8 {
		workers = 8
	}
	if workers < 1 {
		workers = 1
	}
	if v := os.Getenv("PKCHECK_SELFTEST_WORKERS"); v != "" {
		if n, err := strconv.Atoi(v); err == nil && n > 0 {
			workers = n
		}
	}
	var wg sync.WaitGroup
	next := make(chan *job)
	for w := 0; w < workers; w++ {
		wg.Add(1)
		go func() {
			defer wg.Done()
			for j := range next {
				j.det, j.fired, j.err = runVariant(repo, j.overlay, def, kf, base, j.er, j.ek)
				j.overlay = nil
			}
		}()
	}
	for _, j := range jobs {
		next <- j
	}
	close(next)
	wg.Wait()
	st := selftestPass(repo, verif, def, kf, bp, func(overlay map[string][]byte, er, ek string) (bool, []string, error) {
		k := jobKey(overlay, er, ek)
		if q := byKey[k]; len(q) > 0 {
			j := q[0]
			byKey[k] = q[1:]
			return j.det, j.fired, j.err
		}
		// a variant that appeared after the first pass: analysed here
		return runVariant(repo, overlay, def, kf, base, er, ek)
	})
	st.Workers = workers
	return st
}

func selftestPass(repo, verif string, def *PropDef, kf *KFFile, bp *Prog, run variantRunner) SelftestResult {
	var st SelftestResult
	st.Missed, st.Stale, st.Undetectable = []string{}, []string{}, []string{}

	// 1. hand-written mutants
	var muts []Mutant
	if b, err := os.ReadFile(filepath.Join(verif, "mutants", def.ID+".json")); err == nil {
		if err := json.Unmarshal(b, &muts); err != nil {
			st.Missed = append(st.Missed, "mutants file unreadable: "+err.Error())
		}
	}
	for _, m := range muts {
		abs := filepath.Join(repo, m.File)
		src, err := os.ReadFile(abs)
		mutated, okN := "", false
		if err == nil && m.Nth > 0 {
			mutated, okN = replaceNth(string(src), m.Old, m.New, m.Nth)
		} else if err == nil && strings.Count(string(src), m.Old) == 1 {
			mutated, okN = strings.Replace(string(src), m.Old, m.New, 1), true
		}
		if err != nil || !okN {
			st.Stale = append(st.Stale, "mutant:"+m.Name)
			st.Details = append(st.Details, map[string]any{"variant": "mutant:" + m.Name, "status": "stale (fragment not found exactly once in " + m.File + ")"})
			continue
		}
		ov := map[string][]byte{abs: []byte(mutated + m.Append)}
		det, fired, err := run(ov, m.ExpectRule, m.ExpectKey)
		d := map[string]any{"variant": "mutant:" + m.Name, "file": m.File, "expect_rule": m.ExpectRule, "expect_key": m.ExpectKey, "fired": fired}
		if err != nil {
			// a mutant that does not type-check is a bad mutant, not a missed detection
			st.Stale = append(st.Stale, "mutant:"+m.Name+" (does not type-check)")
			d["status"] = "invalid: " + err.Error()
			st.Details = append(st.Details, d)
			continue
		}
		st.Applied++
		if m.ExpectRule == "NEGATIVE" {
			// behaviour-preserving variant: the rules must stay silent
			st.Negative++
			if len(fired) == 0 {
				st.NegativeSilent++
				d["status"] = "silent (negative control ok)"
			} else {
				st.Missed = append(st.Missed, "negative-control:"+m.Name+" FALSE ALARM")
				d["status"] = "FALSE ALARM on behaviour-preserving variant"
			}
			st.Details = append(st.Details, d)
			continue
		}
		if det {
			st.Detected++
			d["status"] = "detected"
		} else {
			st.Missed = append(st.Missed, "mutant:"+m.Name)
			d["status"] = "MISSED"
		}
		st.Details = append(st.Details, d)
	}

	// 2. seeded changes written by independent sub-agents
	dirs, _ := filepath.Glob(filepath.Join(verif, "seeded", "*"))
	sort.Strings(dirs)
	for _, dir := range dirs {
		mb, err := os.ReadFile(filepath.Join(dir, "meta.json"))
		if err != nil {
			continue
		}
		var meta SeededMeta
		if err := json.Unmarshal(mb, &meta); err != nil {
			continue
		}
		applies := meta.Property == def.ID
		for _, a := range meta.AlsoProps {
			if a == def.ID {
				applies = true
			}
		}
		if !applies {
			continue
		}
		name := "seeded:" + filepath.Base(dir)
		// a seed aimed at this property whose change is caught by a rule that belongs to another property only
		// (expect_rule names that rule, also_checked_by lists the property): judged there, not here
		if meta.Property == def.ID && len(meta.ExpectRule) > 3 && meta.ExpectRule[0] == 'C' && meta.ExpectRule[:3] != def.ID {
			other := meta.ExpectRule[:3]
			listed := false
			for _, a := range meta.AlsoProps {
				if a == other {
					listed = true
				}
			}
			hasRuleHere := false
			for _, ru := range runProp(bp, def).Obls {
				if strings.Contains(ru.Rule, meta.ExpectRule) {
					hasRuleHere = true
				}
			}
			if listed && !hasRuleHere {
				st.Details = append(st.Details, map[string]any{"variant": name, "status": "detected by " + meta.ExpectRule + ", a rule of " + other + " (judged in that property's selftest)"})
				continue
			}
		}
		if meta.Undetectable != "" && meta.Property == def.ID {
			st.Undetectable = append(st.Undetectable, name+": "+meta.Undetectable)
			st.Details = append(st.Details, map[string]any{"variant": name, "status": "documented as not statically detectable", "reason": meta.Undetectable})
			continue
		}
		ov, err := overlayFromPatch(repo, filepath.Join(dir, "patch.diff"))
		if err != nil {
			st.Stale = append(st.Stale, name+" (patch does not apply: "+err.Error()+")")
			st.Details = append(st.Details, map[string]any{"variant": name, "status": "stale: " + err.Error()})
			continue
		}
		er, ek := meta.ExpectRule, meta.ExpectKey
		if meta.Property != def.ID {
			// listed under another property through also_checked_by: that property's own rules have other names;
			// any new violation counts as detection there
			er, ek = "", ""
		}
		det, fired, err := run(ov, er, ek)
		d := map[string]any{"variant": name, "summary": meta.Summary, "expect_rule": er, "fired": fired}
		if err != nil {
			st.Stale = append(st.Stale, name+" (does not type-check)")
			d["status"] = "invalid: " + err.Error()
			st.Details = append(st.Details, d)
			continue
		}
		st.Applied++
		if det {
			st.Detected++
			d["status"] = "detected"
		} else {
			st.Missed = append(st.Missed, name)
			d["status"] = "MISSED"
		}
		st.Details = append(st.Details, d)
	}
	// 3. behaviour-preserving refactorings written by independent sub-agents: every rule must stay silent
	rdirs, _ := filepath.Glob(filepath.Join(verif, "refactors", "*"))
	sort.Strings(rdirs)
	for _, dir := range rdirs {
		name := "refactor:" + filepath.Base(dir)
		ov, err := overlayFromPatch(repo, filepath.Join(dir, "patch.diff"))
		if err != nil {
			st.Stale = append(st.Stale, name+" (patch does not apply: "+err.Error()+")")
			continue
		}
		_, fired, err := run(ov, "\x00none", "")
		if err != nil {
			st.Stale = append(st.Stale, name+" (does not type-check)")
			continue
		}
		st.Applied++
		st.Negative++
		if len(fired) == 0 {
			st.NegativeSilent++
		} else {
			st.Missed = append(st.Missed, "negative-control:"+name+" FALSE ALARM")
			st.Details = append(st.Details, map[string]any{"variant": name, "status": "FALSE ALARM on behaviour-preserving refactoring", "fired": fired})
		}
	}
	return st
}

// overlayFromPatch applies a unified diff to copies of the touched files in a temp dir and
// returns the patched contents keyed by their absolute path under repo.
func overlayFromPatch(repo, patch string) (map[string][]byte, error) {
	pb, err := os.ReadFile(patch)
	if err != nil {
		return nil, err
	}
	var files []string
	for _, line := range strings.Split(string(pb), "\n") {
		if strings.HasPrefix(line, "+++ b/") {
			files = append(files, strings.TrimSpace(strings.TrimPrefix(line, "+++ b/")))
		}
	}
	if len(files) == 0 {
		return nil, fmt.Errorf("no files in patch")
	}
	tmp, err := os.MkdirTemp("", "pkcheck-variant-")
	if err != nil {
		return nil, err
	}
	defer os.RemoveAll(tmp)
	for _, f := range files {
		src, err := os.ReadFile(filepath.Join(repo, f))
		if err != nil {
			if os.IsNotExist(err) {
				continue // file created by the patch
			}
			return nil, err
		}
		dst := filepath.Join(tmp, f)
		os.MkdirAll(filepath.Dir(dst), 0o755)
		if err := os.WriteFile(dst, src, 0o644); err != nil {
			return nil, err
		}
	}
	cmd := exec.Command("patch", "-p1", "-s", "-f", "--no-backup-if-mismatch", "-d", tmp, "-i", patch)
	if outp, err := cmd.CombinedOutput(); err != nil {
		return nil, fmt.Errorf("patch failed: %s", strings.TrimSpace(string(outp)))
	}
	ov := map[string][]byte{}
	for _, f := range files {
		b, err := os.ReadFile(filepath.Join(tmp, f))
		if err != nil {
			return nil, err
		}
		ov[filepath.Join(repo, f)] = b
	}
	return ov, nil
}
