package main

// c04e.go: C04-e splice-by-stored-position descends.
//
// A data filter's regex text carries variable references as (name, byte position) pairs, recorded by the parser
// in ascending position order. Code that substitutes the variables splices text INTO the expression at the stored
// positions; every splice shifts all later positions, so the substitution is only right when it proceeds from the
// last variable to the first. The rule finds every assignment that rebuilds a string from `s[:v.Position]` and
// `s[v.Position:]` (v a variable reference) and requires the loop that supplies v to walk Variables downwards.

import (
	"fmt"
	"go/ast"
	"go/token"
	"go/types"
)

func init() {
	register("C04",
		"C04-e (AST, typed): every statement that splices text into a regex at a stored variable position (s = s[:v.Position] + … + s[v.Position:], v a DataConditionElementVariable) sits in a loop that visits the element's Variables from the last to the first (descending index loop or slices.Backward); an ascending walk shifts the positions of the variables still to be substituted, so a filter with two variables in one expression is compiled to a different regex than the query denotes.",
		ruleC04Splice)
}

func ruleC04Splice(p *Prog, r *Res) {
	const rule = "C04-e splice-descends"
	r.Rule(rule + ": substitutions at stored byte positions run from the last variable to the first")
	posField := p.Field("query", "DataConditionElementVariable", "Position")
	varsField := p.Field("query", "DataConditionElement", "Variables")
	if posField == nil || varsField == nil {
		p.anchorFail("query.DataConditionElementVariable.Position / query.DataConditionElement.Variables")
		return
	}
	n := 0
	for _, f := range p.FnList {
		if f.Short != "index" && f.Short != "query" {
			continue
		}
		info := f.Pkg.TypesInfo
		usesPos := func(e ast.Expr) bool {
			found := false
			ast.Inspect(e, func(x ast.Node) bool {
				if se, ok := x.(*ast.SelectorExpr); ok && info.Uses[se.Sel] == types.Object(posField) {
					found = true
				}
				return !found
			})
			return found
		}
		isVarsSel := func(e ast.Expr) bool {
			se, ok := ast.Unparen(e).(*ast.SelectorExpr)
			return ok && info.Uses[se.Sel] == types.Object(varsField)
		}
		inspectParents(f.Body(), func(x ast.Node, parents []ast.Node) bool {
			as, ok := x.(*ast.AssignStmt)
			if !ok || len(as.Lhs) != 1 || len(as.Rhs) != 1 {
				return true
			}
			target := identObj(info, as.Lhs[0])
			if target == nil {
				return true
			}
			// RHS contains target[:P] and target[P:] with P using .Position
			lo, hi := false, false
			ast.Inspect(as.Rhs[0], func(y ast.Node) bool {
				if se, ok := y.(*ast.SliceExpr); ok && sameObj(info, se.X, target) {
					if se.Low == nil && se.High != nil && usesPos(se.High) {
						lo = true
					}
					if se.High == nil && se.Low != nil && usesPos(se.Low) {
						hi = true
					}
				}
				return true
			})
			if !lo || !hi {
				// a splice helper: T = H(T, <v.Position>, …) where H slices its parameter at its position parameter
				if c, ok := ast.Unparen(as.Rhs[0]).(*ast.CallExpr); ok {
					ti, pi := -1, -1
					for i, a := range c.Args {
						if sameObj(info, a, target) {
							ti = i
						} else if usesPos(a) {
							pi = i
						}
					}
					if fn := p.Callee(f.Pkg, c); fn != nil && ti >= 0 && pi >= 0 {
						if h := p.FnOfObj(fn); h != nil && h.Body() != nil && isSpliceHelper(h, ti, pi) {
							lo, hi = true, true
						}
					}
				}
			}
			if !lo || !hi {
				return true
			}
			n++
			key := fmt.Sprintf("%s splice into %s", f.Key(), target.Name())
			// nearest enclosing loop over .Variables
			for i := len(parents) - 1; i >= 0; i-- {
				switch s := parents[i].(type) {
				case *ast.RangeStmt:
					if isVarsSel(s.X) {
						r.Bad(rule, key, p.Pos(as), "the enclosing loop ranges over Variables in ascending order: after the first substitution the stored positions of the remaining variables are stale, text is spliced into the middle of the previously inserted group")
						return true
					}
					if c, ok := ast.Unparen(s.X).(*ast.CallExpr); ok && len(c.Args) == 1 && isVarsSel(c.Args[0]) {
						if fn := p.Callee(f.Pkg, c); fn != nil && fn.FullName() == "slices.Backward" {
							r.Ok(rule, key, p.Pos(as), "range slices.Backward(Variables): last variable first")
							return true
						}
						r.Undecided(rule, key, p.Pos(as), "Variables are passed through "+types.ExprString(c.Fun)+" before ranging: order unknown")
						return true
					}
				case *ast.ForStmt:
					var ivar types.Object
					if ia, ok := s.Init.(*ast.AssignStmt); ok && len(ia.Lhs) == 1 {
						ivar = identObj(info, ia.Lhs[0])
					}
					if ivar == nil {
						continue
					}
					indexes := false
					ast.Inspect(s.Body, func(y ast.Node) bool {
						if ix, ok := y.(*ast.IndexExpr); ok && isVarsSel(ix.X) && sameObj(info, ix.Index, ivar) {
							indexes = true
						}
						return true
					})
					if !indexes {
						continue
					}
					desc := false
					if post, ok := s.Post.(*ast.IncDecStmt); ok {
						desc = post.Tok == token.DEC && sameObj(info, post.X, ivar)
					}
					if s.Post == nil {
						ast.Inspect(s.Body, func(y ast.Node) bool {
							if d, ok := y.(*ast.IncDecStmt); ok && d.Tok == token.DEC && sameObj(info, d.X, ivar) {
								desc = true
							}
							return true
						})
					}
					r.Check(desc, rule, key, p.Pos(as), "descending index loop over Variables", "the loop over Variables counts upwards: stored positions of later variables are stale after the first substitution")
					return true
				}
			}
			r.Undecided(rule, key, p.Pos(as), "no enclosing loop over DataConditionElement.Variables found for this splice")
			return true
		})
	}
	r.Floor(rule, 2, n)
	r.Assume("C04-e: the parser records DataConditionElement.Variables in ascending Position order (query/conditions.go, query/parser.go append while the expression text grows)")
}

// isSpliceHelper: h cuts its parameter #ti at its parameter #pi (both param[:pos] and param[pos:] occur).
func isSpliceHelper(h *Fn, ti, pi int) bool {
	info := h.Pkg.TypesInfo
	t, pos := paramObj(h, ti), paramObj(h, pi)
	if t == nil || pos == nil {
		return false
	}
	mentions := func(e ast.Expr) bool {
		found := false
		ast.Inspect(e, func(x ast.Node) bool {
			if id, ok := x.(*ast.Ident); ok && info.Uses[id] == pos {
				found = true
			}
			return !found
		})
		return found
	}
	lo, hi := false, false
	ast.Inspect(h.Body(), func(x ast.Node) bool {
		if se, ok := x.(*ast.SliceExpr); ok && sameObj(info, se.X, t) {
			if se.Low == nil && se.High != nil && mentions(se.High) {
				lo = true
			}
			if se.High == nil && se.Low != nil && mentions(se.Low) {
				hi = true
			}
		}
		return true
	})
	return lo && hi
}
