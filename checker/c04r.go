package main

// c04r.go: C04-r / C02-v a captured value is used only for its own variable and its own alternative.
//
// A sub-query result carries the values its captures matched as (name, value, queryParts) triples: which variable, what
// text, and for which alternatives of the query (OR-branches) the value was captured. finalize builds, per variable and
// alternative, the expression that stands for `@sub:var@`. Its filter read
//     if d.queryParts.IsSet(part) && d.name != v { continue }
// — a De Morgan slip: it skips only values of OTHER variables captured for THIS alternative and keeps every value captured
// for other alternatives. `(A) or (B)` with a capture in each returned a stream neither alternative returns alone: A's
// filter was compiled as (?:A1|B2) (#83, probes/c04_captured_value_leaks_between_alternatives).
//
// Rule (typed AST, truth table): in package index, where variableDataValue.value is passed on (argument, operand of +,
// right side of an assignment), the conditions between the enclosing loop head and the use — enclosing ifs by branch,
// preceding `if C { continue }` — are evaluated for every assignment of their atoms; every assignment that reaches the
// use must make an atom on queryParts true and an atom that compares the element's name say "equal". (Functions that build or compare the triples
// themselves — they read or write all three fields of an element — are not selections.)

import (
	"fmt"
	"go/ast"
	"go/token"
	"go/types"
)

func ruleCapturedValueSelection(id string) func(p *Prog, r *Res) {
	return func(p *Prog, r *Res) {
		rule := id + " captured-value-selected-by-name-and-alternative"
		r.Rule(rule + ": a captured value is spliced only after its name and its query parts were tested")
		val := p.Field("index", "variableDataValue", "value")
		name := p.Field("index", "variableDataValue", "name")
		parts := p.Field("index", "variableDataValue", "queryParts")
		if val == nil || name == nil || parts == nil {
			p.anchorFail("index.variableDataValue.{name,value,queryParts}")
			return
		}
		n := 0
		for _, f := range p.FnList {
			if f.Short != "index" || f.Body() == nil {
				continue
			}
			info := f.Pkg.TypesInfo
			mentions := func(nd ast.Node, fld *types.Var) bool {
				hit := false
				inspectShallow(nd, func(x ast.Node) bool {
					if se, ok := x.(*ast.SelectorExpr); ok && info.Uses[se.Sel] == types.Object(fld) {
						hit = true
					}
					return !hit
				})
				return hit
			}
			// a selection passes the value on (argument of a call, operand of +, right side of an assignment);
			// comparisons of two values are bookkeeping
			type useSite struct {
				sel     *ast.SelectorExpr
				parents []ast.Node
			}
			var uses []useSite
			inspectParents(f.Body(), func(x ast.Node, ps []ast.Node) bool {
				se, ok := x.(*ast.SelectorExpr)
				if !ok || info.Uses[se.Sel] != types.Object(val) || len(ps) == 0 {
					return true
				}
				hit := false
				switch par := ps[len(ps)-1].(type) {
				case *ast.CallExpr:
					for _, a := range par.Args {
						if a == ast.Expr(se) {
							hit = true
						}
					}
				case *ast.BinaryExpr:
					if par.Op == token.ADD {
						hit = true
					}
				case *ast.AssignStmt:
					for _, rh := range par.Rhs {
						if rh == ast.Expr(se) {
							hit = true
						}
					}
				}
				if hit {
					uses = append(uses, useSite{se, append([]ast.Node(nil), ps...)})
				}
				return true
			})
			for _, u := range uses {
				n++
				key := fmt.Sprintf("%s uses a captured value@%s", f.Key(), relLine(p, f, u.sel))
				// constraints under which the use is reached, up to the enclosing loop: enclosing ifs (by branch) and
				// preceding siblings of the form `if C { … continue/break/return }` (C is false)
				type constraint struct {
					cond ast.Expr
					want bool
				}
				var cons []constraint
				terminates := func(b *ast.BlockStmt) bool {
					if len(b.List) == 0 {
						return false
					}
					switch st := b.List[len(b.List)-1].(type) {
					case *ast.BranchStmt:
						return st.Tok == token.CONTINUE || st.Tok == token.BREAK || st.Tok == token.GOTO
					case *ast.ReturnStmt:
						return true
					}
					return false
				}
				var child ast.Node = u.sel
			up:
				for i := len(u.parents) - 1; i >= 0; i-- {
					switch par := u.parents[i].(type) {
					case *ast.RangeStmt, *ast.ForStmt, *ast.FuncLit:
						break up
					case *ast.IfStmt:
						if child == ast.Node(par.Body) {
							cons = append(cons, constraint{par.Cond, true})
						} else if par.Else != nil && child == par.Else {
							cons = append(cons, constraint{par.Cond, false})
						}
					case *ast.BlockStmt:
						for _, st := range par.List {
							if st == child {
								break
							}
							if ifs, ok := st.(*ast.IfStmt); ok && ifs.Else == nil && ifs.Init == nil && terminates(ifs.Body) {
								cons = append(cons, constraint{ifs.Cond, false})
							}
						}
					}
					child = u.parents[i]
				}
				// atoms
				atomText := map[string]int{}
				var atoms []ast.Expr
				var collect func(e ast.Expr)
				collect = func(e ast.Expr) {
					switch x := ast.Unparen(e).(type) {
					case *ast.UnaryExpr:
						if x.Op == token.NOT {
							collect(x.X)
							return
						}
					case *ast.BinaryExpr:
						if x.Op == token.LAND || x.Op == token.LOR {
							collect(x.X)
							collect(x.Y)
							return
						}
					}
					t := types.ExprString(ast.Unparen(e))
					if _, ok := atomText[t]; !ok {
						atomText[t] = len(atoms)
						atoms = append(atoms, ast.Unparen(e))
					}
				}
				for _, c := range cons {
					collect(c.cond)
				}
				var eval func(e ast.Expr, as uint) bool
				eval = func(e ast.Expr, as uint) bool {
					switch x := ast.Unparen(e).(type) {
					case *ast.UnaryExpr:
						if x.Op == token.NOT {
							return !eval(x.X, as)
						}
					case *ast.BinaryExpr:
						if x.Op == token.LAND {
							return eval(x.X, as) && eval(x.Y, as)
						}
						if x.Op == token.LOR {
							return eval(x.X, as) || eval(x.Y, as)
						}
					}
					return as&(1<<uint(atomText[types.ExprString(ast.Unparen(e))])) != 0
				}
				// what an atom says: about the alternative (mentions queryParts; true = captured for it) or about the name
				// (== / != with the element's name; true = the variable's own / another one)
				partAtoms, nameAtoms := []int{}, []int{}
				nameNeg := map[int]bool{}
				for i, a := range atoms {
					if mentions(a, parts) {
						partAtoms = append(partAtoms, i)
					}
					if be, ok := a.(*ast.BinaryExpr); ok && (be.Op == token.EQL || be.Op == token.NEQ) && mentions(a, name) {
						nameAtoms = append(nameAtoms, i)
						nameNeg[i] = be.Op == token.NEQ
					}
				}
				badPart, badName := len(partAtoms) == 0, len(nameAtoms) == 0
				if len(atoms) <= 10 {
					for as := uint(0); as < 1<<uint(len(atoms)); as++ {
						reached := true
						for _, c := range cons {
							if eval(c.cond, as) != c.want {
								reached = false
							}
						}
						if !reached {
							continue
						}
						okP := false
						for _, i := range partAtoms {
							if as&(1<<uint(i)) != 0 {
								okP = true
							}
						}
						okN := false
						for _, i := range nameAtoms {
							if (as&(1<<uint(i)) != 0) != nameNeg[i] {
								okN = true
							}
						}
						if !okP {
							badPart = true
						}
						if !okN {
							badName = true
						}
					}
				} else {
					badPart, badName = true, true
				}
				r.Check(!badName, rule, key+" only for its own variable", p.Pos(u.sel), "the conditions in front of the use admit only elements whose name is the variable's", "the conditions between the loop head and this use let an element through whose name was not compared with the variable's (or compares unequal): values captured for another variable are spliced into this variable's expression")
				r.Check(!badPart, rule, key+" only in its own alternative", p.Pos(u.sel), "the conditions in front of the use admit only elements captured for this alternative", "the conditions between the loop head and this use let an element through that was not captured for this alternative of the query (queryParts not set, or never asked): `(A) or (B)` with a capture in each alternative compiles A's filter as (?:A1|B2) and returns streams neither A nor B returns")
			}
		}
		r.Floor(rule, 1, n)
	}
}

func init() {
	const expl = " (typed AST, truth table over the guarding conditions): in package index, where variableDataValue.value is passed on (argument, operand of +, right side of an assignment), the conditions between the enclosing loop head and the use — enclosing ifs by branch, preceding `if C { continue }` — are evaluated for every assignment of their atoms, and every assignment that reaches the use makes an atom on queryParts true and an atom comparing the element's name say equal: a captured value is spliced into an expression only for its own variable and only in the alternatives (OR-branches) it was captured for. A conjunction written the wrong way round (`inPart && name != v` as the skip test) skips almost nothing: the filter of one alternative then also accepts what the other alternative captured."
	register("C04", "C04-r"+expl, ruleCapturedValueSelection("C04-r"))
	register("C02", "C02-v"+expl, ruleCapturedValueSelection("C02-v"))
}
