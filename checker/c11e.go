package main

// c11e.go: C11-e job-write-back-refreshes.
//
// updateTagJob works on a by-value copy of the tag taken when the job was started and installs that copy when it
// completes. Everything an API call may have changed on the stored tag in the meantime must either make the
// completion discard its result (the guard compares it) or be carried over from the stored tag before the copy is
// installed. A field that is neither guarded nor refreshed is silently rolled back to its value at job start.

import (
	"fmt"
	"go/ast"
	"go/token"
	"go/types"
	"golang.org/x/tools/go/cfg"
)

func init() {
	register("C11",
		"C11-e (FLOW, sibling agreement over the fields of manager.tag): in the completion closure of updateTagJob, which installs the job's by-value copy t of the tag (mgr.tags[name] = &t), every direct field of struct tag is either compared with the stored tag in the guard (ot.F == t.F), assigned from the stored tag (t.F = ot.F) on every path to the store, or listed with a reason as a function of guarded fields (features: parsed from definition). A field that is neither — e.g. referencedBy — is rolled back to its value at job start: tags added meanwhile that reference this tag are forgotten, DelTag succeeds and leaves a dangling reference.",
		ruleC11WriteBack)
}

func ruleC11WriteBack(p *Prog, r *Res) {
	const rule = "C11-e job-write-back-refreshes"
	r.Rule(rule + ": the tagging job's completion guards or refreshes every field of the tag copy it installs")
	derivedOK := map[string]string{
		"features": "computed from definition by query.Parse; the guard compares definition",
	}
	tagT := p.Named("manager", "tag")
	tagsFld := p.Field("manager", "Manager", "tags")
	outer := p.Fn("manager.Manager.updateTagJob")
	if tagT == nil || tagsFld == nil || outer == nil {
		p.anchorFail("manager.tag / Manager.tags / Manager.updateTagJob")
		return
	}
	st := tagT.Underlying().(*types.Struct)
	n := 0
	ctx := p.Contexts()
	for _, f := range ctx.completionsIn(outer) {
		info := f.Pkg.TypesInfo
		fl := p.Flow(f)
		// the install: mgr.tags[k] = &t (t a by-value copy declared outside the closure) or, when the closure
		// delegates to a method, mgr.tags[k] = t with t a *tag parameter of that method
		stale := func(e ast.Expr) types.Object {
			e = ast.Unparen(e)
			if ue, ok := e.(*ast.UnaryExpr); ok && ue.Op == token.AND {
				o := identObj(info, ue.X)
				if o != nil && f.Lit != nil && o.Pos() < f.Lit.Pos() {
					return o
				}
				if o != nil && f.Lit == nil && paramIndex(f, o) >= 0 {
					return o
				}
				return nil
			}
			if o := identObj(info, e); o != nil && f.Lit == nil && paramIndex(f, o) >= 0 {
				return o
			}
			return nil
		}
		for _, ipt := range fl.Find(func(x ast.Node) bool {
			as, ok := x.(*ast.AssignStmt)
			if !ok || len(as.Lhs) != 1 || len(as.Rhs) != 1 {
				return false
			}
			ix, ok := ast.Unparen(as.Lhs[0]).(*ast.IndexExpr)
			if !ok {
				return false
			}
			se, ok := ast.Unparen(ix.X).(*ast.SelectorExpr)
			if !ok || info.Uses[se.Sel] != types.Object(tagsFld) {
				return false
			}
			return stale(as.Rhs[0]) != nil
		}) {
			inst := fl.node(ipt).(*ast.AssignStmt)
			tobj := stale(inst.Rhs[0])
			// the stored tag: a variable assigned from mgr.tags[...] in this literal
			var ot types.Object
			inspectShallow(f.Body(), func(x ast.Node) bool {
				if as, ok := x.(*ast.AssignStmt); ok && len(as.Rhs) == 1 {
					if ix, ok := ast.Unparen(as.Rhs[0]).(*ast.IndexExpr); ok {
						if se, ok := ast.Unparen(ix.X).(*ast.SelectorExpr); ok && info.Uses[se.Sel] == types.Object(tagsFld) {
							ot = identObj(info, as.Lhs[0])
						}
					}
				}
				return true
			})
			if ot == nil {
				r.Undecided(rule, f.Key()+" stored tag variable", p.Pos(inst), "the closure installs a job copy but never reads the stored tag")
				continue
			}
			fieldOf := func(e ast.Expr, base types.Object) string {
				se, ok := ast.Unparen(e).(*ast.SelectorExpr)
				if !ok || !sameObj(info, se.X, base) {
					return ""
				}
				return se.Sel.Name
			}
			// guarded fields: the equality ot.F == t.F is established on every path to the install — by the true edge of
			// a condition with that conjunct (`if ok && ot.F == t.F { … install … }`) or by the false edge of a
			// condition with the disjunct ot.F != t.F (`if !ok || ot.F != t.F { return }`)
			guarded := map[string]bool{}
			eqField := func(c ast.Expr, op token.Token) string {
				be, ok := ast.Unparen(c).(*ast.BinaryExpr)
				if !ok || be.Op != op {
					return ""
				}
				a, b := fieldOf(be.X, ot), fieldOf(be.Y, tobj)
				if a == "" {
					a, b = fieldOf(be.Y, ot), fieldOf(be.X, tobj)
				}
				if a != "" && a == b {
					return a
				}
				return ""
			}
			for i := 0; i < st.NumFields(); i++ {
				name := st.Field(i).Name()
				gfl := p.Flow(f)
				establishes := false
				gfl.EdgeOK = func(b *cfg.Block, succ int) bool {
					if len(b.Succs) != 2 || len(b.Nodes) == 0 {
						return true
					}
					cond, ok := b.Nodes[len(b.Nodes)-1].(ast.Expr)
					if !ok {
						return true
					}
					if succ == 0 {
						for _, c := range conjuncts(cond) {
							if eqField(c, token.EQL) == name {
								establishes = true
								return false
							}
						}
					} else {
						for _, c := range disjuncts(cond) {
							if eqField(c, token.NEQ) == name {
								establishes = true
								return false
							}
						}
					}
					return true
				}
				res := gfl.Reach([]Pt{gfl.Entry()}, func(x ast.Node) bool { return x == ast.Node(inst) }, nil)
				if !res.Found && establishes {
					guarded[name] = true
				}
			}
			for i := 0; i < st.NumFields(); i++ {
				fld := st.Field(i)
				if fld.Embedded() {
					continue // TagDetails: the job's result
				}
				n++
				key := fmt.Sprintf("%s installs %s: field %s", f.Key(), tobj.Name(), fld.Name())
				if guarded[fld.Name()] {
					r.Ok(rule, key, p.Pos(inst), "compared with the stored tag in the guard")
					continue
				}
				if why, ok := derivedOK[fld.Name()]; ok {
					r.Exempt(rule, key, p.Pos(inst), why)
					continue
				}
				isRefresh := func(x ast.Node) bool {
					as, ok := x.(*ast.AssignStmt)
					if !ok || len(as.Lhs) != len(as.Rhs) {
						return false
					}
					for j, l := range as.Lhs {
						if fieldOf(l, tobj) == fld.Name() && fieldOf(as.Rhs[j], ot) == fld.Name() {
							return true
						}
					}
					return false
				}
				res := fl.Reach([]Pt{fl.Entry()}, func(x ast.Node) bool { return x == ast.Node(inst) }, isRefresh)
				r.Check(!res.Found, rule, key, p.Pos(inst), "refreshed from the stored tag on every path to the install", fmt.Sprintf("the copy taken at job start is installed with its old %s: a change made to the stored tag while the job ran (%s) is rolled back", fld.Name(), fl.traceString(res)))
			}
		}
	}
	r.Floor(rule, 5, n)
}

// ---- C11-f: reference lists handed out by a tag are copies ----

func init() {
	register("C11",
		"C11-f (FRESH-slices): tag.referencedTags() returns memory the caller owns — the cycle walk (referencesTag) uses the list it is given as a work list, popping from and appending to it; a list that aliases features.MainTags of a stored tag would be rewritten by the walk, leaving the tag with a definition that names one set of tags and a reference list that names another (referencedBy mirrors go wrong: a referenced tag can be deleted, an unreferenced one is pinned).",
		func(p *Prog, r *Res) {
			const rule = "C11-f reference-list-is-a-copy"
			r.Rule(rule + ": every result of tag.referencedTags is an owned slice")
			f := p.Fn("manager.tag.referencedTags")
			if f == nil {
				p.anchorFail("manager.tag.referencedTags")
				return
			}
			oc := newOwnCtx(p)
			oc.strict = true
			n := 0
			inspectShallow(f.Body(), func(x ast.Node) bool {
				if rs, ok := x.(*ast.ReturnStmt); ok && len(rs.Results) == 1 {
					n++
					okO, why := oc.owned(f, rs.Results[0])
					r.Check(okO, rule, fmt.Sprintf("manager.tag.referencedTags return#%d is an owned slice", n), p.Pos(rs), why, "the reference list handed out aliases the tag's own feature lists ("+why+"): callers that use it as a work list rewrite the stored tag's references")
				}
				return true
			})
			r.Floor(rule, 1, n)
		})
}
