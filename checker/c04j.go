package main

// c04j.go: C04-j no literal-prefix scan for expressions with assertions (the sibling of C04-i for the prefix).
//
// progressVariant.find looks for the literal prefix of the expression with bytes.Index, cuts the data in front of it
// (and, when the prefix is the complete expression, behind it) and runs the expression on the cut. That is sound only
// when the expression does not look beyond its match. binaryregexp.(*Regexp).LiteralPrefix reports "abc", complete, for
// ^abc$ (one-pass programs): cdata:"^abc$" selected xxabcxx (#47, probes/c04_anchored_literal).
//
// Rule (FLOW): in package index every call of (*binaryregexp.Regexp).LiteralPrefix is reached only over an edge on which
// a test for assertions has answered "none": the false edge of a condition one of whose disjuncts is a boolean that was
// assigned from a function answering by the `Op == syntax.InstEmptyWidth` test (or the true edge of its negation).

import (
	"fmt"
	"go/ast"
	"go/token"
	"go/types"

	"golang.org/x/tools/go/cfg"
)

func init() {
	register("C04",
		"C04-j (FLOW, callee summary): in package index every call of (*binaryregexp.Regexp).LiteralPrefix — whose result becomes the prefix progressVariant.find scans for, cutting the payload in front of it and, for a 'complete' prefix, behind it — is reached only over an edge on which a test for empty-width assertions has answered 'none': a boolean assigned from a function that answers true exactly under `Op == syntax.InstEmptyWidth` is false on that edge. binaryregexp reports \"abc\" as the complete prefix of ^abc$, and cdata:\"^abc$\" selected xxabcxx, abcxx and xxabc (#47).",
		func(p *Prog, r *Res) {
			const rule = "C04-j no-prefix-scan-for-assertions"
			r.Rule(rule + ": LiteralPrefix is only asked for expressions without empty-width assertions")
			n := 0
			oi := newOpTestInfo(p)
			answers := oi.answers
			for _, f := range p.FnList {
				if f.Short != "index" || f.Body() == nil {
					continue
				}
				info := f.Pkg.TypesInfo
				var calls []*ast.CallExpr
				inspectShallow(f.Body(), func(x ast.Node) bool {
					if c, ok := x.(*ast.CallExpr); ok {
						if fn := p.Callee(f.Pkg, c); fn != nil && fn.Name() == "LiteralPrefix" && fn.Pkg() != nil && fn.Pkg().Path() == "rsc.io/binaryregexp" {
							calls = append(calls, c)
						}
					}
					return true
				})
				if len(calls) == 0 {
					continue
				}
				// booleans assigned from an answering function
				flags := map[types.Object]bool{}
				inspectShallow(f.Body(), func(x ast.Node) bool {
					as, ok := x.(*ast.AssignStmt)
					if !ok || len(as.Rhs) != 1 {
						return true
					}
					c, ok := ast.Unparen(as.Rhs[0]).(*ast.CallExpr)
					if !ok {
						return true
					}
					fn := p.Callee(f.Pkg, c)
					if fn == nil || !answers[p.FnOfObj(fn)] {
						return true
					}
					if o := identObj(info, as.Lhs[0]); o != nil {
						flags[o] = true
					}
					return true
				})
				fl := p.Flow(f)
				fl.EdgeOK = func(b *cfg.Block, succ int) bool {
					if len(b.Succs) != 2 || len(b.Nodes) == 0 {
						return true
					}
					cond, ok := b.Nodes[len(b.Nodes)-1].(ast.Expr)
					if !ok {
						return true
					}
					isFlag := func(e ast.Expr) bool { o := identObj(info, e); return o != nil && flags[o] }
					if succ == 1 {
						// false edge: every disjunct is false
						for _, d := range disjuncts(cond) {
							if isFlag(d) {
								return false
							}
						}
					} else {
						for _, c := range conjuncts(cond) {
							if u, ok := ast.Unparen(c).(*ast.UnaryExpr); ok && u.Op == token.NOT && isFlag(u.X) {
								return false
							}
						}
					}
					return true
				}
				for _, c := range calls {
					n++
					pt, ok := fl.PointOf(c)
					key := fmt.Sprintf("%s asks for the literal prefix@%s", f.Key(), relLine(p, f, c))
					if !ok {
						r.Undecided(rule, key, p.Pos(c), "call not found in the CFG")
						continue
					}
					target := fl.node(pt)
					res := fl.Reach([]Pt{fl.Entry()}, func(nd ast.Node) bool { return nd == target }, nil)
					r.Check(!res.Found, rule, key, p.Pos(c), "the call is reached only where the assertion test has answered 'none'", "LiteralPrefix is asked without the expression having been tested for assertions ("+fl.traceString(res)+"): the prefix scan cuts the payload in front of the prefix (and behind a complete one), and ^, $, \\b are then evaluated at the cut — cdata:\"^abc$\" selects xxabcxx")
				}
				fl.EdgeOK = nil
			}
			r.Floor(rule, 1, n)
		})
}
