package main

// c11m.go: C11-m / C12-o converters are attached only to definitions that allow it.
//
// A converter may be attached to a tag only if the tag's query has no data filter and references no other tag
// (tag.canAttachConverter): attachConverterToTag tests it, and the loader in manager.New applies the same test when it
// restores the attachments of a state file. The query-update path of UpdateTag builds a new tag object from the new
// definition and carries the attachments over — without the test (#48): `data:xyz` was accepted for a tag with a
// converter, and after a restart the attachment was gone.
//
// Rule (FLOW): every store into tag.converters that can give a tag object attachments —
//
//	X.converters = append(X.converters, …)      or      X.converters = Y.converters   (another tag object)
//
// is reached only over an edge on which X.canAttachConverter() holds, or Y has no converters (len(Y.converters) == 0),
// or X and Y have the same definition (X.definition == Y.definition: the object is a re-evaluated copy of the same tag).

import (
	"fmt"
	"go/ast"
	"go/token"
	"go/types"

	"golang.org/x/tools/go/cfg"
)

func init() {
	const expl = "(FLOW): in package manager every store into tag.converters that can give a tag object attachments — an append to its own list, or the list of another tag object — is reached only over an edge on which canAttachConverter() of the receiving object holds, the source has no converters, or both objects have the same definition. The attach path and the loader of manager.New test the definition; a path that carries attachments over to a new definition without the test accepts what a restart then drops ('query is too complex'), and lets a converter's output re-trigger the tag that feeds it."
	register("C11", "C11-m "+expl, func(p *Prog, r *Res) {
		ruleAttachOnlyIfAllowed(p, r, "C11-m attachments-only-on-attachable-definitions")
	})
	register("C12", "C12-o "+expl, func(p *Prog, r *Res) {
		ruleAttachOnlyIfAllowed(p, r, "C12-o attachments-only-on-attachable-definitions")
	})
}

func ruleAttachOnlyIfAllowed(p *Prog, r *Res, rule string) {
	r.Rule(rule + ": attachments reach a tag object only behind canAttachConverter, an empty source, or an equal definition")
	conv := p.Field("manager", "tag", "converters")
	defn := p.Field("manager", "tag", "definition")
	can := p.Method("manager", "tag", "canAttachConverter")
	if conv == nil || defn == nil || can == nil {
		p.anchorFail("manager.tag.converters / tag.definition / tag.canAttachConverter")
		return
	}
	n := 0
	for _, f := range p.FnList {
		if f.Short != "manager" || f.Body() == nil {
			continue
		}
		info := f.Pkg.TypesInfo
		fl := p.Flow(f)
		for _, pt := range fl.Find(func(nd ast.Node) bool {
			as, ok := nd.(*ast.AssignStmt)
			if !ok {
				return false
			}
			for _, l := range as.Lhs {
				if isFieldOf(info, l, conv) {
					return true
				}
			}
			return false
		}) {
			as := fl.node(pt).(*ast.AssignStmt)
			for i, l := range as.Lhs {
				if !isFieldOf(info, l, conv) || i >= len(as.Rhs) || len(as.Lhs) != len(as.Rhs) {
					continue
				}
				X := ast.Unparen(l).(*ast.SelectorExpr).X
				xo := rootObj(info, X)
				rhs := ast.Unparen(as.Rhs[i])
				var Y ast.Expr
				kind := ""
				if c, ok := rhs.(*ast.CallExpr); ok && isBuiltin(info, c, "append") && len(c.Args) >= 2 {
					if a0, ok := ast.Unparen(c.Args[0]).(*ast.SelectorExpr); ok && isFieldOf(info, a0, conv) && rootObj(info, a0.X) == xo {
						kind = "append"
					}
				}
				if se, ok := rhs.(*ast.SelectorExpr); ok && isFieldOf(info, se, conv) && rootObj(info, se.X) != xo {
					kind, Y = "copy", se.X
				}
				if kind == "" {
					continue // shrinking (detach) or a fresh empty list
				}
				n++
				key := fmt.Sprintf("%s %s = %s@%s", f.Key(), exprString(p.Fset, l), firstLine(exprString(p.Fset, as.Rhs[i])), relLine(p, f, as))
				sameRoot := func(e ast.Expr, o types.Object) bool { return o != nil && rootObj(info, e) == o }
				var yo types.Object
				if Y != nil {
					yo = rootObj(info, Y)
				}
				establishes := func(c ast.Expr, trueEdge bool) bool {
					c = ast.Unparen(c)
					neg := false
					if u, ok := c.(*ast.UnaryExpr); ok && u.Op == token.NOT {
						c, neg = ast.Unparen(u.X), true
					}
					// X.canAttachConverter()
					if call, ok := c.(*ast.CallExpr); ok {
						if fn := p.Callee(f.Pkg, call); fn != nil && fn.Origin() == can {
							if se, ok := ast.Unparen(call.Fun).(*ast.SelectorExpr); ok && sameRoot(se.X, xo) {
								return trueEdge != neg
							}
						}
					}
					be, ok := c.(*ast.BinaryExpr)
					if !ok || neg {
						return false
					}
					// len(Y.converters) == 0 / != 0
					for _, pair := range [][2]ast.Expr{{be.X, be.Y}, {be.Y, be.X}} {
						if lc, ok := ast.Unparen(pair[0]).(*ast.CallExpr); ok && isBuiltin(info, lc, "len") && len(lc.Args) == 1 {
							if se, ok := ast.Unparen(lc.Args[0]).(*ast.SelectorExpr); ok && isFieldOf(info, se, conv) && yo != nil && sameRoot(se.X, yo) {
								if k, isC := constInt(info, pair[1]); isC && k == 0 {
									return (be.Op == token.EQL && trueEdge) || (be.Op == token.NEQ && !trueEdge)
								}
							}
						}
					}
					// X.definition == Y.definition
					if be.Op == token.EQL || be.Op == token.NEQ {
						sx, ok1 := ast.Unparen(be.X).(*ast.SelectorExpr)
						sy, ok2 := ast.Unparen(be.Y).(*ast.SelectorExpr)
						if ok1 && ok2 && isFieldOf(info, sx, defn) && isFieldOf(info, sy, defn) && yo != nil {
							a, b := rootObj(info, sx.X), rootObj(info, sy.X)
							if (a == xo && b == yo) || (a == yo && b == xo) {
								return (be.Op == token.EQL) == trueEdge
							}
						}
					}
					return false
				}
				g := p.Flow(f)
				g.EdgeOK = func(b *cfg.Block, succ int) bool {
					if len(b.Succs) != 2 || len(b.Nodes) == 0 {
						return true
					}
					cond, ok := b.Nodes[len(b.Nodes)-1].(ast.Expr)
					if !ok {
						return true
					}
					if succ == 0 {
						for _, c := range conjuncts(cond) {
							if establishes(c, true) {
								return false
							}
						}
					} else {
						for _, c := range disjuncts(cond) {
							if establishes(c, false) {
								return false
							}
						}
						// the false edge of a conjunction: some conjunct is false — fine when each of them being
						// false establishes the fact (len(Y.converters) != 0 && !X.canAttachConverter())
						if cs := conjuncts(cond); len(cs) > 1 {
							all := true
							for _, c := range cs {
								if !establishes(c, false) {
									all = false
								}
							}
							if all {
								return false
							}
						}
					}
					return true
				}
				res := g.Reach([]Pt{g.Entry()}, func(nd ast.Node) bool { return nd == ast.Node(as) }, nil)
				r.Check(!res.Found, rule, key, p.Pos(as), "reached only where the receiving definition allows attachments (or there are none, or it is the same definition)", "a tag object receives converter attachments without its definition having been tested with canAttachConverter ("+g.traceString(res)+"): a query with a data filter or a tag reference keeps its converters until the next restart, whose loader drops them — and a converter whose output the tag searches re-triggers the tag")
			}
		}
	}
	r.Floor(rule, 3, n)
}

// rootObj: the variable at the root of a selector/index/star chain
func rootObj(info *types.Info, e ast.Expr) types.Object {
	id := rootIdentOf(e)
	if id == nil {
		return nil
	}
	if o := info.Uses[id]; o != nil {
		return o
	}
	return info.Defs[id]
}
