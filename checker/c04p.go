package main

// c04p.go: two rules about what happens to an expression before any stream is read.
//
// C04-p a walk that forks at every alternative is bounded.
//
// The shortcut facts of an expression (accepted lengths, constant suffix) are computed by closures that walk the
// compiled program and call themselves for both successors of every InstAlt. Without a memo or a budget each call runs on
// to InstMatch: the cost doubles with every alternative or optional part in sequence. AcceptedLength got a memo for
// upstream bug 252; ConstantSuffix did not. `(?:a|bb){64}` or the project's own `RABA_([A-Za-z0-9+/]|%[0-9a-fA-F]{2}){32}`
// never came back from building the filter — outside any ctx check, so the search could not even be cancelled; a
// query-string expression with three `[a-z]{1,20}=[a-z0-9]{1,20}` pairs took 14 s (#73, probes/c04_suffix_walk_bounded).
// A filter that does not answer selects nothing: the shortcut changed the outcome.
//
// Rule (typed AST): in package regexanalysis a function literal that is assigned to a variable and calls that variable
// at two or more places of one case clause (a fork) contains a bound: (a) a memo — an `if v, ok := M[k]; ok { return }`
// on a map M declared outside the literal, and a store M[k] = … —, or (b) a budget — an integer variable declared
// outside the literal is increased in the literal and compared with a constant in a condition whose branch returns.
//
// C04-q a captured value is spliced into an expression byte for byte.
//
// `@var@` in a data filter stands for the bytes a capture matched. They are put into the expression of the later filter
// quoted with binaryregexp.QuoteMeta — which escapes the ASCII metacharacters only. The parser reads an expression as
// UTF-8 and lets a character up to U+00FF stand for that single byte: a captured "é" (c3 a9) became the one byte e9 — the
// filter selected the stream with e9 e9 and not the one that contains the value —, and a captured ff fe 01 made the
// whole search fail with "invalid UTF-8", for every stream (#74, probes/c04_variable_value_high_bytes).
//
// Rule (typed AST): a call of binaryregexp.QuoteMeta in the repository lies in a function that also rewrites the bytes
// QuoteMeta leaves alone: it compares a byte with the constant 0x80 (or 0x7f).

import (
	"fmt"
	"go/ast"
	"go/constant"
	"go/token"
	"go/types"
	"strings"
)

func init() {
	register("C04",
		"C04-p (typed AST): in package regexanalysis a function literal that is assigned to a variable and calls that variable at two or more places of one case clause — it forks at every alternative of the compiled expression — contains a bound: a memo (a comma-ok lookup in a map declared outside the literal whose branch returns, and a store into that map) or a budget (an integer declared outside the literal is increased and compared with a constant in a condition whose branch returns). Without one the cost doubles with every alternative in sequence and building the filter for `(?:a|bb){64}` does not return: the filter selects nothing, and the search cannot be cancelled. That the analysis is fast for every expression is NOT decided.",
		func(p *Prog, r *Res) {
			const rule = "C04-p forking-walk-is-bounded"
			r.Rule(rule + ": self-recursive walks over the compiled expression carry a memo or a budget")
			n := 0
			for _, f := range p.FnList {
				if f.Short != "regexanalysis" || f.Lit == nil || f.Parent == nil {
					continue
				}
				info := f.Pkg.TypesInfo
				// the variable the literal is assigned to
				var self types.Object
				inspectShallow(f.Parent.Body(), func(x ast.Node) bool {
					if as, ok := x.(*ast.AssignStmt); ok && len(as.Lhs) == len(as.Rhs) {
						for i, rh := range as.Rhs {
							if ast.Unparen(rh) == ast.Expr(f.Lit) {
								self = identObj(info, as.Lhs[i])
							}
						}
					}
					return true
				})
				if self == nil {
					continue
				}
				forks := false
				ast.Inspect(f.Lit.Body, func(x ast.Node) bool {
					cc, ok := x.(*ast.CaseClause)
					if !ok {
						return true
					}
					calls := 0
					for _, st := range cc.Body {
						ast.Inspect(st, func(y ast.Node) bool {
							if c, ok := y.(*ast.CallExpr); ok && identObj(info, c.Fun) == self {
								calls++
							}
							return true
						})
					}
					if calls >= 2 {
						forks = true
					}
					return true
				})
				if !forks {
					continue
				}
				n++
				outside := func(o types.Object) bool {
					return o != nil && (o.Pos() < f.Lit.Pos() || o.Pos() > f.Lit.End())
				}
				returns := func(b *ast.BlockStmt) bool {
					for _, st := range b.List {
						if _, ok := st.(*ast.ReturnStmt); ok {
							return true
						}
					}
					return false
				}
				memoLookup, memoStore, budgetInc, budgetTest := false, false, map[types.Object]bool{}, map[types.Object]bool{}
				ast.Inspect(f.Lit.Body, func(x ast.Node) bool {
					switch s := x.(type) {
					case *ast.IfStmt:
						if as, ok := s.Init.(*ast.AssignStmt); ok && len(as.Lhs) == 2 && len(as.Rhs) == 1 {
							if ix, ok := ast.Unparen(as.Rhs[0]).(*ast.IndexExpr); ok {
								if _, isMap := typeUnder(info.TypeOf(ix.X)).(*types.Map); isMap && outside(identObj(info, ix.X)) && returns(s.Body) {
									if identObj(info, s.Cond) != nil && identObj(info, s.Cond) == identObj(info, as.Lhs[1]) {
										memoLookup = true
									}
								}
							}
						}
						// budget: condition (or its init) compares an outside integer with a constant, the branch returns
						if returns(s.Body) {
							ast.Inspect(s.Cond, func(y ast.Node) bool {
								be, ok := y.(*ast.BinaryExpr)
								if !ok {
									return true
								}
								switch be.Op {
								case token.GTR, token.GEQ, token.LSS, token.LEQ, token.EQL:
								default:
									return true
								}
								for _, pair := range [][2]ast.Expr{{be.X, be.Y}, {be.Y, be.X}} {
									o := identObj(info, pair[0])
									tv, isC := info.Types[pair[1]]
									if o != nil && outside(o) && isC && tv.Value != nil && tv.Value.Kind() == constant.Int {
										budgetTest[o] = true
									}
								}
								return true
							})
						}
					case *ast.AssignStmt:
						for _, l := range s.Lhs {
							if ix, ok := ast.Unparen(l).(*ast.IndexExpr); ok {
								if _, isMap := typeUnder(info.TypeOf(ix.X)).(*types.Map); isMap && outside(identObj(info, ix.X)) {
									memoStore = true
								}
							}
						}
						if (s.Tok == token.ADD_ASSIGN || s.Tok == token.SUB_ASSIGN) && len(s.Lhs) == 1 {
							if o := identObj(info, s.Lhs[0]); outside(o) {
								budgetInc[o] = true
							}
						}
					case *ast.IncDecStmt:
						if o := identObj(info, s.X); outside(o) {
							budgetInc[o] = true
						}
					}
					return true
				})
				budget := false
				for o := range budgetInc {
					if budgetTest[o] {
						budget = true
					}
				}
				key := fmt.Sprintf("%s forks at alternatives", f.Key())
				r.Check((memoLookup && memoStore) || budget, rule, key, p.Pos(f.Lit), "memo or budget present", "the literal calls itself for both successors of an alternative and has neither a memo (comma-ok lookup in an outer map with a return, and a store) nor a budget (outer counter increased and compared with a constant before a return): the number of walks doubles with every alternative or optional part in sequence, building the filter for `(?:a|bb){64}` does not return and the search cannot be cancelled")
			}
			r.Floor(rule, 2, n)
		})

	register("C04",
		"C04-q (typed AST): every call of binaryregexp.QuoteMeta lies in a function that also rewrites the bytes QuoteMeta leaves alone — it compares a byte of the quoted text or of the value with the constant 0x80 (or 0x7f). QuoteMeta escapes ASCII metacharacters only; the parser reads an expression as UTF-8 and a character up to U+00FF stands for one byte, so a captured value with bytes from 0x80 spliced in as it is matches other bytes (\"é\" = c3 a9 becomes e9) or makes the whole search fail with \"invalid UTF-8\". That the rewritten expression matches exactly the value is NOT decided.",
		func(p *Prog, r *Res) {
			const rule = "C04-q captured-value-quoted-bytewise"
			r.Rule(rule + ": QuoteMeta is used only where bytes from 0x80 are escaped too")
			n := 0
			for _, f := range p.FnList {
				if f.Body() == nil {
					continue
				}
				info := f.Pkg.TypesInfo
				for _, c := range callsIn(f.Body()) {
					fn := p.Callee(f.Pkg, c)
					if fn == nil || fn.Name() != "QuoteMeta" || fn.Pkg() == nil || !strings.HasSuffix(fn.Pkg().Path(), "binaryregexp") {
						continue
					}
					n++
					// the function compares a byte OF THE VALUE (of the quoted result, or of the argument) with 0x80 / 0x7f
					root := f.Root()
					S := map[types.Object]bool{}
					ast.Inspect(c.Args[0], func(x ast.Node) bool {
						if id, ok := x.(*ast.Ident); ok {
							if v, ok := info.Uses[id].(*types.Var); ok && !v.IsField() {
								S[v] = true
							}
						}
						return true
					})
					contains := func(n ast.Node, target ast.Node) bool {
						hit := false
						ast.Inspect(n, func(x ast.Node) bool {
							if x == target {
								hit = true
							}
							return !hit
						})
						return hit
					}
					mentionsS := func(n ast.Node) bool {
						hit := false
						ast.Inspect(n, func(x ast.Node) bool {
							if id, ok := x.(*ast.Ident); ok {
								if o := info.Uses[id]; o != nil && S[o] {
									hit = true
								}
								if o := info.Defs[id]; o != nil && S[o] {
									hit = true
								}
							}
							return !hit
						})
						return hit
					}
					for round := 0; round < 3; round++ {
						inspectShallow(f.Body(), func(x ast.Node) bool {
							switch st := x.(type) {
							case *ast.AssignStmt:
								for i, rh := range st.Rhs {
									if (contains(rh, c) || mentionsS(rh)) && i < len(st.Lhs) {
										if o := identObj(info, st.Lhs[i]); o != nil {
											S[o] = true
										}
									}
								}
							case *ast.RangeStmt:
								if mentionsS(st.X) && st.Value != nil {
									if o := identObj(info, st.Value); o != nil {
										S[o] = true
									}
								}
							}
							return true
						})
					}
					knows := false
					inspectShallow(f.Body(), func(x ast.Node) bool {
						be, ok := x.(*ast.BinaryExpr)
						if !ok || knows {
							return !knows
						}
						switch be.Op {
						case token.GTR, token.GEQ, token.LSS, token.LEQ:
						default:
							return true
						}
						for _, pair := range [][2]ast.Expr{{be.X, be.Y}, {be.Y, be.X}} {
							tv, isC := info.Types[pair[1]]
							if !isC || tv.Value == nil || tv.Value.Kind() != constant.Int {
								continue
							}
							v, exact := constant.Int64Val(tv.Value)
							if !exact || (v != 0x80 && v != 0x7f) {
								continue
							}
							if b, ok := typeUnder(info.TypeOf(pair[0])).(*types.Basic); ok && (b.Kind() == types.Byte || b.Kind() == types.Uint8 || b.Kind() == types.Int32 || b.Kind() == types.UntypedRune) && mentionsS(pair[0]) {
								knows = true
							}
						}
						return true
					})
					key := fmt.Sprintf("%s quotes a value for an expression", root.Key())
					r.Check(knows, rule, key, p.Pos(c), "the function escapes bytes from 0x80 as well", "the value is quoted with QuoteMeta alone, which leaves bytes from 0x80 as they are: the parser reads the expression as UTF-8, a two-byte character up to U+00FF then stands for ONE other byte (the filter selects streams that do not contain the value and misses those that do) and a byte sequence that is not UTF-8 makes the whole search fail")
				}
			}
			r.Floor(rule, 1, n)
		})
}

func typeUnder(t types.Type) types.Type {
	if t == nil {
		return nil
	}
	return t.Underlying()
}
