package main

// c03h.go: C03-h every conjunction goes through every per-kind cleaner.
//
// Conditions.clean sorts the conditions of a conjunct by kind and hands each list to its cleaner
// (cleanTagConditions … cleanDataConditions: merge, detect contradictions, cancel a term against itself). The search
// code relies on the normal form: a condition that compares an attribute with itself (-chost:@chost@, id:@id@+1:) is
// only recognised as impossible by its cleaner, and buildSearchObjects ignores conditions that do not mention the
// stream — so an uncleaned single condition matches everything instead of nothing (seeded C03k: `if len(c) <= 1
// { return c }` "nothing to merge").
//
// Rule (FLOW): in query.Conditions.clean every return that does not return the impossible conjunct is reached only
// through the call of every cleaner — the functions of package query that take a pointer to a slice of a condition
// type, return bool, and are called from clean. An early return on an edge that establishes len(c) == 0 is fine.

import (
	"fmt"
	"go/ast"
	"go/token"
	"go/types"
	"strings"

	"golang.org/x/tools/go/cfg"
)

func init() {
	register("C03",
		"C03-h (FLOW): in query.Conditions.clean every return of a conjunct other than the impossible one is reached only through the call of every per-kind cleaner (the package functions func(*[]XCondition) bool that clean calls), except over an edge that establishes len(c) == 0. The normal form is what the search code relies on: a filter that compares an attribute with itself is recognised as unsatisfiable only by its cleaner, and an uncleaned single condition `-chost:@chost@` matches every stream instead of none.",
		func(p *Prog, r *Res) {
			const rule = "C03-h every-conjunct-is-cleaned-per-kind"
			r.Rule(rule + ": no return of Conditions.clean bypasses a per-kind cleaner")
			f := p.Fn("query.Conditions.clean")
			if f == nil {
				p.anchorFail("query.Conditions.clean")
				return
			}
			info := f.Pkg.TypesInfo
			// cleaners: called from clean, declared in the package, func(*[]T) bool with T a condition type
			cleaners := map[*types.Func]bool{}
			for _, c := range callsIn(f.Body()) {
				fn := p.Callee(f.Pkg, c)
				if fn == nil || fn.Pkg() != f.Pkg.Types {
					continue
				}
				sig, _ := fn.Type().(*types.Signature)
				if sig == nil || sig.Recv() != nil || sig.Params().Len() != 1 || sig.Results().Len() != 1 {
					continue
				}
				if b, ok := sig.Results().At(0).Type().Underlying().(*types.Basic); !ok || b.Kind() != types.Bool {
					continue
				}
				pt, ok := sig.Params().At(0).Type().(*types.Pointer)
				if !ok {
					continue
				}
				sl, ok := pt.Elem().Underlying().(*types.Slice)
				if !ok {
					continue
				}
				if nt := namedOf(sl.Elem()); nt != nil && strings.HasSuffix(nt.Obj().Name(), "Condition") {
					cleaners[fn] = true
				}
			}
			var recv types.Object
			if f.Decl.Recv != nil && len(f.Decl.Recv.List[0].Names) == 1 {
				recv = info.Defs[f.Decl.Recv.List[0].Names[0]]
			}
			isImpossibleReturn := func(nd ast.Node) bool {
				rs, ok := nd.(*ast.ReturnStmt)
				if !ok || len(rs.Results) != 1 {
					return false
				}
				hit := false
				ast.Inspect(rs.Results[0], func(x ast.Node) bool {
					if id, ok := x.(*ast.Ident); ok && strings.Contains(strings.ToLower(id.Name), "impossible") {
						hit = true
					}
					return true
				})
				return hit
			}
			fl := p.Flow(f)
			// edges that establish an empty conjunct
			fl.EdgeOK = func(b *cfg.Block, succ int) bool {
				if len(b.Succs) != 2 || len(b.Nodes) == 0 || recv == nil {
					return true
				}
				cond, ok := b.Nodes[len(b.Nodes)-1].(ast.Expr)
				if !ok {
					return true
				}
				lenIsZero := func(e ast.Expr, truth bool) bool {
					be, ok := ast.Unparen(e).(*ast.BinaryExpr)
					if !ok {
						return false
					}
					c, ok := ast.Unparen(be.X).(*ast.CallExpr)
					if !ok || !isBuiltin(info, c, "len") || len(c.Args) != 1 || identObj(info, c.Args[0]) != recv {
						return false
					}
					k, ok := constInt(info, be.Y)
					if !ok {
						return false
					}
					if truth {
						return (be.Op == token.EQL && k == 0) || (be.Op == token.LSS && k == 1) || (be.Op == token.LEQ && k == 0)
					}
					return (be.Op == token.NEQ && k == 0) || (be.Op == token.GTR && k == 0) || (be.Op == token.GEQ && k == 1)
				}
				if succ == 0 {
					for _, c := range conjuncts(cond) {
						if lenIsZero(c, true) {
							return false
						}
					}
				} else {
					ds := disjuncts(cond)
					all := len(ds) > 0
					for _, d := range ds {
						if !lenIsZero(d, false) {
							all = false
						}
					}
					if all {
						return false
					}
				}
				return true
			}
			n := 0
			for fn := range cleaners {
				n++
				key := fmt.Sprintf("%s passes %s on every path to a cleaned result", f.Key(), fn.Name())
				res := fl.Reach([]Pt{fl.Entry()}, func(nd ast.Node) bool { return isReturn(nd) && !isImpossibleReturn(nd) }, func(nd ast.Node) bool {
					return fl.hasCall(nd, func(c *ast.CallExpr) bool { return p.Callee(f.Pkg, c) == fn }) || isImpossibleReturn(nd)
				})
				r.Check(!res.Found, rule, key, p.Pos(f.Node()), "every return of a conjunct other than the impossible one lies behind the call", "a conjunct is returned without having gone through "+fn.Name()+" ("+fl.traceString(res)+"): the search code relies on the cleaned form — a filter that compares an attribute with itself is unsatisfiable, but only its cleaner says so; uncleaned it matches every stream")
			}
			fl.EdgeOK = nil
			r.Floor(rule, 6, n)
		})
}
