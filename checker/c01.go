package main

func init() {
	register("C01",
		"C01-a (UNITS, a dimension check specialised to the host tables): every slice/index bound applied to a host table is a byte offset built from hosts×stride or a table length, popN/get receive host counts/ids, hostGroupEntry.Start is stored as an unbiased host count and Count as hosts−1, the running offsets feeding Start are advanced by the group's host count, and the reader undoes the −1 of Count. Found the two defects repaired in 7ec70fa and 755ca1b.",
		func(p *Prog, r *Res) { ruleUnits(p, r, "C01-a units") })
	register("C07",
		"C07-b (UNITS on the merge path): the same dimension rules over Writer.AddIndex (popN(nAdded), host remapping through get/add).",
		func(p *Prog, r *Res) { ruleUnits(p, r, "C07-b units") })
}

func init() {
	register("C01",
		"C01-b (section-table agreement): each of the section constants of format.go is written by exactly one writeSection/writeLookup call in Finalize (sectionData: begin in NewWriter, end in Finalize), the writeSection helper begins the section, runs the body, ends the section and pads in that order on every successful path, and the Go type written into a section equals the type the reader decodes from it (readObjects target element type, sizeof argument of calculateOffset/objectCount; lookup sections are []uint32 on both sides). C01-c (lookup-key agreement): for each lookup section the stream fields read by the writer's comparator equal the fields the reader's consumers of that section read (StreamID; PacketInfoStart; FirstPacketTimeNS; LastPacketTimeNS), and the writer's comparators compare a's value against b's. The round-trip equality of payload, segmentation varints, time wrap and skip counters is value-level and NOT decided.",
		ruleC01Sections)
}
