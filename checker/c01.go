package main

func init() {
	register("C01",
		"C01-a (UNITS, a dimension check specialised to the host tables): every slice/index bound applied to a host table is a byte offset built from hosts×stride or a table length, popN/get receive host counts/ids, hostGroupEntry.Start is stored as an unbiased host count and Count as hosts−1, the running offsets feeding Start are advanced by the group's host count, and the reader undoes the −1 of Count. Found the two defects repaired in 7ec70fa and 755ca1b.",
		func(p *Prog, r *Res) { ruleUnits(p, r, "C01-a units") })
	register("C07",
		"C07-b (UNITS on the merge path): the same dimension rules over Writer.AddIndex (popN(nAdded), host remapping through get/add).",
		func(p *Prog, r *Res) { ruleUnits(p, r, "C07-b units") })
}
