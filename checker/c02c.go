package main

import (
	"fmt"
	"go/ast"
	"go/types"
)

// C02-c / C03-b: no in-place append on shared conjuncts (FRESH for slices in package query).

func init() {
	const expl = "C02-c/C03-b (FRESH, ownership of append targets): in package query every append (and in-place compaction) must write into a backing array the function owns — created there (nil, literal, make, T(nil) conversion, result of a function that returns owned memory) and only ever assigned owned values; the check is flow-insensitive per variable and follows pointer parameters to all call sites, range variables, struct copies and element-wise appends on slices of slices (where inserting a spread of existing elements duplicates headers — the inlineTagFilter defect repaired in 4517932). A shared array that is appended to makes two normal-form conjuncts overwrite each other."
	register("C02", expl, func(p *Prog, r *Res) { ruleAppendOwned(p, r, "C02-c fresh-conditions", []string{"query"}, 60) })
	register("C03", expl, func(p *Prog, r *Res) { ruleAppendOwned(p, r, "C03-b fresh-conditions", []string{"query"}, 60) })
	register("C04", "C04-l = C03-b restricted to payload sequences: every append whose target is a []DataConditionElement (the steps of a `then` sequence) writes into a backing array the function owns. Conditions.then builds one follower per alternative of its right-hand side from the same left-hand prefix; appended in place, followers share one array and the last overwrites the others: `cdata:a then sdata:b then cdata:c then (cdata:d or sdata:d)` keeps only the last alternative.",
		func(p *Prog, r *Res) {
			ruleAppendOwnedFiltered(p, r, "C04-l sequence-elements-owned", []string{"query"}, 2, func(t types.Type) bool {
				sl, ok := t.Underlying().(*types.Slice)
				if !ok {
					return false
				}
				nt := namedOf(sl.Elem())
				return nt != nil && nt.Obj().Name() == "DataConditionElement"
			})
		})
}

func ruleAppendOwned(p *Prog, r *Res, rule string, pkgs []string, floor int) {
	ruleAppendOwnedFiltered(p, r, rule, pkgs, floor, nil)
}

// ruleAppendOwnedFiltered: like ruleAppendOwned, restricted to appends whose first argument has a type accepted by filter.
func ruleAppendOwnedFiltered(p *Prog, r *Res, rule string, pkgs []string, floor int, filter func(types.Type) bool) {
	r.Rule(rule + ": first argument of every append in the packages " + fmt.Sprint(pkgs) + " is owned by the function")
	want := map[string]bool{}
	for _, s := range pkgs {
		want[s] = true
	}
	oc := newOwnCtx(p)
	n := 0
	for _, f := range p.FnList {
		if !want[f.Short] {
			continue
		}
		info := f.Pkg.TypesInfo
		idx := 0
		inspectShallow(f.Body(), func(x ast.Node) bool {
			c, ok := x.(*ast.CallExpr)
			if !ok || !isBuiltin(info, c, "append") {
				return true
			}
			idx++
			if filter != nil && !filter(info.TypeOf(c.Args[0])) {
				return true
			}
			n++
			key := fmt.Sprintf("%s append#%d(%s, …)", f.Key(), idx, types.ExprString(c.Args[0]))
			oc.use = c
			okO, why := oc.owned(f, c.Args[0])
			oc.use = nil
			compaction := false
			if sl, isSl := ast.Unparen(c.Args[0]).(*ast.SliceExpr); isSl && sl.High != nil {
				compaction = true
			}
			switch {
			case okO:
				r.Ok(rule, key, p.Pos(c), why)
			case serviceListSplice(p, f, c):
				r.Exempt(rule, key, p.Pos(c), "in-place change of Manager.indexes, the service goroutine's own list, assigned back to it: holders outside the loop only ever get copies (C10-b index-list-ownership, C13-f), and the splice itself is judged by C13-b/C07-d")
			case !compaction && accumulatorHelper(p, oc, f, c):
				r.Ok(rule, key, p.Pos(c), "append to the receiver/parameter of a helper that returns the result, and every call has the form x = x.helper(…) with x owned by the caller: the helper extends its caller's own slice")
			case !compaction && selfAppendThroughPointer(f, c):
				r.Ok(rule, key, p.Pos(c), "self-append to a field of the object behind a pointer (x.f = append(x.f, …)): an extension never overwrites elements other holders of the old header can see, and no value copy of the struct is appended to (those sites are judged separately)")
			case compaction && appendExempt[f.Key()] != "":
				r.Exempt(rule, key, p.Pos(c), appendExempt[f.Key()])
			default:
				r.Bad(rule, key, p.Pos(c), "append writes into memory this function does not own: "+why)
			}
			return true
		})
	}
	r.Floor(rule, floor, n)
}

// in-place compaction of inner slices on struct copies of conditions: one line of reason per function
var appendExempt = map[string]string{
	"query.cleanFlagConditions": "compacts fc.SubQueries of a value copy made by Conditions.clean; the removal only fires for duplicate sub-query names inside one FlagCondition, which queryTerm.QueryConditions never produces (one entry per variable); the preceding sort is idempotent, so a second normalisation of the shared array is a no-op (confirmed by reading and by scratch runs on 14 queries; not a checked invariant)",
	"query.cleanHostConditions": "compacts HostConditionSources of &(*hcs)[i], a value copy made by Conditions.clean; fires only for duplicate (sub-query, side) sources in one HostCondition, which the term builder never produces; sort and masking are idempotent",
	"query.cleanTimeConditions": "merges/compacts tc.Summands of &(*tcs)[i], a value copy made by Conditions.clean; the term builder accumulates factors per sub-query before creating the condition, so no two summands of one TimeCondition share a sub-query and the merge never fires on a shared array; the sort is idempotent",
}

// selfAppendThroughPointer: the call is the RHS of `x.f = append(x.f, …)` with x a pointer-typed variable.
func selfAppendThroughPointer(f *Fn, c *ast.CallExpr) bool {
	info := f.Pkg.TypesInfo
	se, ok := ast.Unparen(c.Args[0]).(*ast.SelectorExpr)
	if !ok {
		return false
	}
	id, ok := ast.Unparen(se.X).(*ast.Ident)
	if !ok {
		return false
	}
	v, ok := info.ObjectOf(id).(*types.Var)
	if !ok {
		return false
	}
	if _, isPtr := v.Type().Underlying().(*types.Pointer); !isPtr {
		return false
	}
	found := false
	inspectShallow(f.Body(), func(n ast.Node) bool {
		as, isAs := n.(*ast.AssignStmt)
		if !isAs {
			return true
		}
		for i, rhs := range as.Rhs {
			if ast.Unparen(rhs) == ast.Expr(c) && i < len(as.Lhs) && types.ExprString(as.Lhs[i]) == types.ExprString(se) {
				found = true
			}
		}
		return true
	})
	return found
}

// serviceListSplice: append(mgr.indexes[:a], …) / append(mgr.indexes, …) whose result is assigned back to Manager.indexes.
func serviceListSplice(p *Prog, f *Fn, c *ast.CallExpr) bool {
	fld := p.Field("manager", "Manager", "indexes")
	if fld == nil {
		return false
	}
	info := f.Pkg.TypesInfo
	base := ast.Unparen(c.Args[0])
	if sl, ok := base.(*ast.SliceExpr); ok {
		base = ast.Unparen(sl.X)
	}
	se, ok := base.(*ast.SelectorExpr)
	if !ok || info.Uses[se.Sel] != types.Object(fld) {
		return false
	}
	assignedBack := false
	inspectShallow(f.Body(), func(x ast.Node) bool {
		if as, ok := x.(*ast.AssignStmt); ok && len(as.Lhs) == 1 && len(as.Rhs) == 1 && ast.Unparen(as.Rhs[0]) == ast.Expr(c) {
			if ls, ok := ast.Unparen(as.Lhs[0]).(*ast.SelectorExpr); ok && info.Uses[ls.Sel] == types.Object(fld) {
				assignedBack = true
			}
		}
		return true
	})
	return assignedBack
}

// ---- C03-c: two conditions never share a backing array ----

func init() {
	const expl = "C03-c (AST, typed): in package query no assignment copies a slice header from one value to the same field of another value of the same type (`b.Summands = a.Summands`, a ≠ b): lower and upper bound of a single value, alternatives of a disjunction and the like are separate conditions that are normalised in place (factors negated, summands merged); sharing one backing array applies such a step twice. A copy (make+copy, append to nil, slices.Clone) is required; copying from a value of another type (the parser's own structs) is not affected."
	rule := func(name string) func(*Prog, *Res) {
		return func(p *Prog, r *Res) {
			r.Rule(name + ": no slice header is copied between two values of one condition type")
			n, nAssign, nMoves := 0, 0, 0
			for _, f := range p.FnList {
				if f.Short != "query" || f.Body() == nil {
					continue
				}
				info := f.Pkg.TypesInfo
				inspectShallow(f.Body(), func(x ast.Node) bool {
					as, ok := x.(*ast.AssignStmt)
					if !ok || len(as.Lhs) != len(as.Rhs) {
						return true
					}
					for i, l := range as.Lhs {
						ls, ok1 := ast.Unparen(l).(*ast.SelectorExpr)
						if !ok1 {
							continue
						}
						if _, isSl := info.TypeOf(l).Underlying().(*types.Slice); !isSl {
							continue
						}
						nAssign++
						rhs := ast.Unparen(as.Rhs[i])
						for {
							// a re-slice of the field (x.F[:n], x.F[:n:n]) still is the same backing array
							if sl, ok := rhs.(*ast.SliceExpr); ok {
								rhs = ast.Unparen(sl.X)
								continue
							}
							break
						}
						rs, ok2 := rhs.(*ast.SelectorExpr)
						if !ok2 || info.Uses[ls.Sel] != info.Uses[rs.Sel] {
							continue
						}
						if types.ExprString(ls.X) == types.ExprString(rs.X) {
							continue
						}
						// a move out of a value that is dead afterwards (a local of this function that is not mentioned again and
						// does not survive into another loop iteration) shares nothing
						if src := rootIdentOf(rs.X); src != nil {
							if so, ok := info.Uses[src].(*types.Var); ok && rootIdentOf(ls.X) != nil && info.Uses[rootIdentOf(ls.X)] != types.Object(so) &&
								so.Pos() > f.Body().Pos() && so.Pos() < f.Body().End() {
								usedLater := false
								ast.Inspect(f.Body(), func(y ast.Node) bool {
									if id, ok := y.(*ast.Ident); ok && info.Uses[id] == types.Object(so) && id.Pos() > as.End() {
										usedLater = true
									}
									return !usedLater
								})
								survivesLoop := false
								inspectParents(f.Body(), func(y ast.Node, parents []ast.Node) bool {
									if y == ast.Node(as) {
										for _, par := range parents {
											switch par.(type) {
											case *ast.ForStmt, *ast.RangeStmt:
												if so.Pos() < par.Pos() {
													survivesLoop = true
												}
											}
										}
									}
									return true
								})
								if !usedLater && !survivesLoop {
									nMoves++
									continue
								}
							}
						}
						n++
						key := fmt.Sprintf("%s %s = %s", f.Key(), types.ExprString(l), types.ExprString(as.Rhs[i]))
						r.Bad(name, key, p.Pos(as), "two values of type "+types.TypeString(info.TypeOf(ls.X), nil)+" now share the backing array of "+ls.Sel.Name+": an in-place normalisation step on one of them (negation of factors, merging of summands) is applied to the other as well")
					}
					return true
				})
			}
			r.Note("%s: %d assignments to slice-typed fields in package query examined, %d copy a header between sibling values, %d moves out of a dead local", name, nAssign, n, nMoves)
			r.Floor(name+" slice-field assignments examined", 10, nAssign)
		}
	}
	register("C03", expl, rule("C03-c no-shared-backing-between-conditions"))
}

// rootIdentOf returns the identifier at the root of a selector/index/star/paren chain (nil if the root is a call etc.).
func rootIdentOf(e ast.Expr) *ast.Ident {
	for {
		switch x := ast.Unparen(e).(type) {
		case *ast.Ident:
			return x
		case *ast.SelectorExpr:
			e = x.X
		case *ast.IndexExpr:
			e = x.X
		case *ast.StarExpr:
			e = x.X
		case *ast.UnaryExpr:
			e = x.X
		default:
			return nil
		}
	}
}

// accumulatorHelper: `return append(P, …)` where P is the receiver or a parameter of f (a declared function of the
// package), and every call of f in the program is the right side of `x = <call>` with x passed as that receiver or
// parameter and owned by the calling function at that point.
func accumulatorHelper(p *Prog, oc *ownCtx, f *Fn, c *ast.CallExpr) bool {
	if f.Lit != nil || f.Decl == nil {
		return false
	}
	info := f.Pkg.TypesInfo
	po := identObj(info, c.Args[0])
	if po == nil {
		return false
	}
	// position of P: -1 receiver, k parameter index
	pos, found := 0, false
	if f.Decl.Recv != nil && len(f.Decl.Recv.List) == 1 && len(f.Decl.Recv.List[0].Names) == 1 && info.Defs[f.Decl.Recv.List[0].Names[0]] == po {
		pos, found = -1, true
	}
	k := 0
	if f.Decl.Type.Params != nil {
		for _, fld := range f.Decl.Type.Params.List {
			for _, nm := range fld.Names {
				if info.Defs[nm] == po {
					pos, found = k, true
				}
				k++
			}
		}
	}
	if !found {
		return false
	}
	// the append is returned as it is
	returned := false
	inspectShallow(f.Body(), func(x ast.Node) bool {
		if ret, ok := x.(*ast.ReturnStmt); ok {
			for _, res := range ret.Results {
				if ast.Unparen(res) == ast.Expr(c) {
					returned = true
				}
			}
		}
		return true
	})
	if !returned {
		return false
	}
	fobj, _ := info.Defs[f.Decl.Name].(*types.Func)
	if fobj == nil {
		return false
	}
	sites, okSites := 0, 0
	for _, g := range p.FnList {
		if g.Body() == nil {
			continue
		}
		ginfo := g.Pkg.TypesInfo
		inspectShallow(g.Body(), func(x ast.Node) bool {
			as, ok := x.(*ast.AssignStmt)
			call, isCall := x.(*ast.CallExpr)
			if isCall {
				if fn := p.Callee(g.Pkg, call); fn != nil && fn.Origin() == fobj.Origin() {
					sites++
				}
				return true
			}
			if !ok || len(as.Lhs) != 1 || len(as.Rhs) != 1 {
				return true
			}
			cc, ok := ast.Unparen(as.Rhs[0]).(*ast.CallExpr)
			if !ok {
				return true
			}
			fn := p.Callee(g.Pkg, cc)
			if fn == nil || fn.Origin() != fobj.Origin() {
				return true
			}
			var passed ast.Expr
			if pos == -1 {
				if se, ok := ast.Unparen(cc.Fun).(*ast.SelectorExpr); ok {
					passed = se.X
				}
			} else if pos < len(cc.Args) {
				passed = cc.Args[pos]
			}
			if passed == nil || identObj(ginfo, passed) == nil || identObj(ginfo, passed) != identObj(ginfo, as.Lhs[0]) {
				return true
			}
			save := oc.use
			oc.use = cc
			owned, _ := oc.owned(g, passed)
			oc.use = save
			if owned {
				okSites++
			}
			return true
		})
	}
	return sites > 0 && sites == okSites
}
