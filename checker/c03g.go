package main

// c03g.go: C03-g every element of a value list contributes an alternative.
//
// `key:a,b,c` means a OR b OR c. queryTerm.QueryConditions builds the disjunction by appending, for every element of
// the parsed list, one or more alternatives to `conds`. An element that is skipped silently (a `continue` before the
// append) narrows the disjunction: `protocol:tcp,@protocol@` — "tcp, or whatever protocol the stream has" — was
// normalised to "tcp" because the always-true element was skipped instead of being added as an empty conjunction.
// FLOW: in every range loop over a parsed value list (a field named List) in QueryConditions, every path from the
// start of an iteration to the next one (or out of the loop other than by a return) passes an append to the
// alternatives slice the function returns.

import (
	"fmt"
	"go/ast"
	"go/types"

	"golang.org/x/tools/go/cfg"
)

func init() {
	register("C03",
		"C03-g (FLOW): in queryTerm.QueryConditions every iteration of a range loop over the elements of a parsed value list (the List field of the value parsers' results) passes, on every path that does not return, an append to the slice of alternatives the function returns (directly, or an inner loop over the same list that does): a list element that is skipped silently drops an alternative of the disjunction `key:a,b,c` and narrows the query.",
		func(p *Prog, r *Res) {
			const rule = "C03-g list-element-contributes-an-alternative"
			r.Rule(rule + ": no element of a value list is skipped without adding an alternative")
			f := p.Fn("query.queryTerm.QueryConditions")
			if f == nil {
				return
			}
			info := f.Pkg.TypesInfo
			// the alternatives slice: the local of type ConditionsSet that is returned
			var conds types.Object
			inspectShallow(f.Body(), func(x ast.Node) bool {
				if ret, ok := x.(*ast.ReturnStmt); ok && len(ret.Results) == 2 {
					if o := identObj(info, ret.Results[0]); o != nil {
						if nt := namedOf(o.Type()); nt != nil && nt.Obj().Name() == "ConditionsSet" {
							conds = o
						}
					}
				}
				return true
			})
			if conds == nil {
				p.anchorFail("returned ConditionsSet local of query.queryTerm.QueryConditions")
				return
			}
			fl := p.Flow(f)
			appends := func(nd ast.Node) bool {
				as, ok := nd.(*ast.AssignStmt)
				if !ok {
					return false
				}
				for _, l := range as.Lhs {
					if identObj(info, l) == conds {
						return true
					}
				}
				return false
			}
			n := 0
			var loops []*ast.RangeStmt
			inspectShallow(f.Body(), func(x ast.Node) bool {
				if rs, ok := x.(*ast.RangeStmt); ok {
					if se, ok := ast.Unparen(rs.X).(*ast.SelectorExpr); ok && se.Sel.Name == "List" {
						loops = append(loops, rs)
					}
				}
				return true
			})
			for _, rs := range loops {
				// an outer loop (e.g. over filter types) around a loop over the list: judge the innermost list loop only
				if len(rs.Body.List) == 0 {
					continue
				}
				n++
				key := fmt.Sprintf("%s list loop@%s", f.Key(), relLine(p, f, rs))
				var starts []Pt
				for _, b := range fl.G.Blocks {
					if b.Kind == cfg.KindRangeBody && b.Stmt == ast.Stmt(rs) {
						starts = append(starts, Pt{b, 0})
					}
				}
				if len(starts) == 0 {
					r.Undecided(rule, key, p.Pos(rs), "loop body not found in the CFG")
					continue
				}
				// an inner loop that runs at least once by construction (it ranges over an element of a map literal all of
				// whose values are non-empty literals) and appends on every path of its body counts as an append
				var mustAppend func(body *ast.RangeStmt, depth int) bool
				nonEmpty := func(l *ast.RangeStmt) bool {
					o := identObj(info, l.X)
					if o == nil {
						return false
					}
					ok := false
					inspectShallow(f.Body(), func(y ast.Node) bool {
						as, isAs := y.(*ast.AssignStmt)
						if !isAs || len(as.Lhs) != 1 || len(as.Rhs) != 1 || identObj(info, as.Lhs[0]) != o {
							return true
						}
						ix, isIx := ast.Unparen(as.Rhs[0]).(*ast.IndexExpr)
						if !isIx {
							return true
						}
						cl, isCl := ast.Unparen(ix.X).(*ast.CompositeLit)
						if !isCl || len(cl.Elts) == 0 {
							return true
						}
						all := true
						for _, e := range cl.Elts {
							kv, isKv := e.(*ast.KeyValueExpr)
							if !isKv {
								all = false
								continue
							}
							v, isV := kv.Value.(*ast.CompositeLit)
							if !isV || len(v.Elts) == 0 {
								all = false
							}
						}
						ok = all
						return true
					})
					return ok
				}
				reachesNextWithoutAppend := func(loop *ast.RangeStmt, depth int) bool {
					var st []Pt
					for _, b := range fl.G.Blocks {
						if b.Kind == cfg.KindRangeBody && b.Stmt == ast.Stmt(loop) {
							st = append(st, Pt{b, 0})
						}
					}
					seen := map[Pt]bool{}
					work := append([]Pt(nil), st...)
					for len(work) > 0 {
						pt := work[0]
						work = work[1:]
						if seen[pt] {
							continue
						}
						seen[pt] = true
						if pt.I < len(pt.B.Nodes) {
							nd := pt.B.Nodes[pt.I]
							if appends(nd) || isReturn(nd) {
								continue
							}
							work = append(work, Pt{pt.B, pt.I + 1})
							continue
						}
						for _, sc := range pt.B.Succs {
							if sc.Kind == cfg.KindRangeLoop {
								if sc.Stmt == ast.Stmt(loop) {
									return true
								}
								if inner, ok := sc.Stmt.(*ast.RangeStmt); ok && depth > 0 && within(inner, loop.Body) && nonEmpty(inner) && mustAppend(inner, depth-1) {
									continue // this inner loop appends at least once
								}
							}
							work = append(work, Pt{sc, 0})
						}
					}
					return false
				}
				mustAppend = func(l *ast.RangeStmt, depth int) bool { return !reachesNextWithoutAppend(l, depth) }
				leak := reachesNextWithoutAppend(rs, 2)
				var at ast.Node
				where := ""
				if at != nil {
					where = fmt.Sprintf(" (last statement passed: line %d)", lineOf(p.Fset, at))
				}
				r.Check(!leak, rule, key, p.Pos(rs), "every iteration appends to "+conds.Name()+" or returns", "an iteration can end without adding an alternative to "+conds.Name()+where+": that element of the value list is dropped from the disjunction, the query matches fewer streams than written")
			}
			r.Floor(rule, 4, n)
		})
}
