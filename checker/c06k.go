package main

// c06k.go: C06-k a synchronous tag update does not declare pending streams decided.
//
// Uncertain is the set of streams a tag has not been evaluated for since they (or the tag) changed; only an evaluation
// may take a stream out of it: the tagging job for the set it searched, a view for the set it prefetched, and the
// loader for mark tags whose matches it computes from the id list. The mark-add/-del path of UpdateTag raises the
// changed streams only to push them to the referencing tags (inheritTagUncertainty) and then wiped the WHOLE mask:
// streams an import had made pending while no tagging job could run were declared decided without an evaluation (#51,
// probes/c06_mark_clears_pending: mark/m = id:1: never gets stream 2).
//
// Rule (CTX, typed AST): in a closure posted to the service goroutine no statement assigns an empty bitmask literal to
// the Uncertain field of a tag. (The tagging job clears its by-value copy in the job function, the loader clears in New.)

import (
	"fmt"
	"go/ast"
)

func init() {
	register("C06",
		"C06-k (CTX, typed AST): no closure posted to Manager.jobs assigns an empty bitmask literal to a tag's Uncertain mask. Only an evaluation takes streams out of that set; an API path that raises streams to push them to the referencing tags restores the mask it found (found #51: the mark path of UpdateTag cleared the whole mask, so streams that had become pending through an import while no tagging job could run stayed unevaluated for ever).",
		func(p *Prog, r *Res) {
			const rule = "C06-k pending-streams-stay-pending"
			r.Rule(rule + ": posted closures never wipe a tag's Uncertain mask")
			unc := p.Field("query", "TagDetails", "Uncertain")
			if unc == nil {
				p.anchorFail("query.TagDetails.Uncertain")
				return
			}
			ctx := p.Contexts()
			n, nPosted := 0, 0
			for _, l := range ctx.Posted {
				if l.Short != "manager" || l.Body() == nil {
					continue
				}
				nPosted++
				info := l.Pkg.TypesInfo
				ast.Inspect(l.Body(), func(x ast.Node) bool {
					as, ok := x.(*ast.AssignStmt)
					if !ok || len(as.Lhs) != len(as.Rhs) {
						return true
					}
					for i, lh := range as.Lhs {
						if !isFieldOf(info, lh, unc) {
							continue
						}
						n++
						cl, isLit := ast.Unparen(as.Rhs[i]).(*ast.CompositeLit)
						key := fmt.Sprintf("%s %s = %s", l.Key(), exprString(p.Fset, lh), firstLine(exprString(p.Fset, as.Rhs[i])))
						r.Check(!(isLit && len(cl.Elts) == 0), rule, key, p.Pos(as), "assigns a computed set", "the whole Uncertain mask of a tag is wiped on the service goroutine without an evaluation: streams that were pending for another reason (an import while no tagging job could run) are declared decided with whatever matches they had")
					}
					return true
				})
			}
			r.Note("%s: %d closures posted in package manager, %d assignments to Uncertain in them", rule, nPosted, n)
			r.Floor(rule, 4, n)
		})
}
