package main

import (
	"fmt"
	"go/ast"
	"go/types"
	"sort"
	"strings"
)

func elemTypeName(t types.Type) string {
	for {
		switch u := types.Unalias(t).(type) {
		case *types.Pointer:
			t = u.Elem()
			continue
		case *types.Slice:
			t = u.Elem()
			continue
		case *types.Array:
			t = u.Elem()
			continue
		}
		break
	}
	return types.TypeString(t, func(p *types.Package) string { return "" })
}

// sectionMarkOf: does the call record the current file position as the begin or the end of a section — through the
// helpers setSectionBegin / setSectionEnd, or by handing &….Sections[S].Begin / .End to a function (the helpers inlined)?
// Returns "begin" / "end" and the section expression S.
func sectionMarkOf(p *Prog, owner *Fn, c *ast.CallExpr) (string, ast.Expr) {
	if fn := p.Callee(owner.Pkg, c); fn != nil && len(c.Args) == 1 {
		switch fn.Name() {
		case "setSectionBegin":
			return "begin", c.Args[0]
		case "setSectionEnd":
			return "end", c.Args[0]
		}
	}
	for _, a := range c.Args {
		u, ok := ast.Unparen(a).(*ast.UnaryExpr)
		if !ok || u.Op.String() != "&" {
			continue
		}
		se, ok := ast.Unparen(u.X).(*ast.SelectorExpr)
		if !ok || (se.Sel.Name != "Begin" && se.Sel.Name != "End") {
			continue
		}
		ix, ok := ast.Unparen(se.X).(*ast.IndexExpr)
		if !ok {
			continue
		}
		if base, ok := ast.Unparen(ix.X).(*ast.SelectorExpr); ok && base.Sel.Name == "Sections" {
			if se.Sel.Name == "Begin" {
				return "begin", ix.Index
			}
			return "end", ix.Index
		}
	}
	return "", nil
}

func ruleC01Sections(p *Prog, r *Res) {
	const ruleB = "C01-b section-agreement"
	r.Rule(ruleB + ": every section is written once, in begin/body/end order, with the record type the reader decodes")
	sect := p.Named("index", "section")
	fin := p.Fn("index.Writer.Finalize")
	if sect == nil || fin == nil {
		return
	}
	consts := constsOfType(sect)
	info := fin.Pkg.TypesInfo
	constName := func(e ast.Expr) string {
		if tv, ok := info.Types[e]; ok && tv.Value != nil && types.Identical(types.Unalias(tv.Type), sect) {
			for n, v := range consts {
				if v.ExactString() == tv.Value.ExactString() {
					return n
				}
			}
		}
		return ""
	}
	// writer side: calls of the section helper / lookup helper with a constant section. The helpers are identified by
	// role, not by name: a section helper is a function (local closure or method) that calls setSectionBegin on its own
	// first parameter; a lookup helper is a function that calls a section helper with its own first parameter.
	localLit := map[types.Object]*ast.FuncLit{}
	ast.Inspect(fin.Body(), func(x ast.Node) bool {
		if as, ok := x.(*ast.AssignStmt); ok && len(as.Lhs) == len(as.Rhs) {
			for i, rh := range as.Rhs {
				if lit, ok := rh.(*ast.FuncLit); ok {
					if o := identObj(info, as.Lhs[i]); o != nil {
						localLit[o] = lit
					}
				}
			}
		}
		return true
	})
	resolve := func(owner *Fn, c *ast.CallExpr) *Fn {
		if id, ok := ast.Unparen(c.Fun).(*ast.Ident); ok {
			if lit := localLit[owner.Pkg.TypesInfo.ObjectOf(id)]; lit != nil {
				return p.FnOfLit(lit)
			}
		}
		if fn := p.Callee(owner.Pkg, c); fn != nil {
			return p.FnOfObj(fn)
		}
		return nil
	}
	firstParamPassed := func(h *Fn, c *ast.CallExpr) bool {
		po := paramObj(h, 0)
		return po != nil && len(c.Args) >= 1 && sameObj(h.Pkg.TypesInfo, c.Args[0], po)
	}
	isSectionHelper := func(h *Fn) bool {
		if h == nil || h.Body() == nil {
			return false
		}
		for _, c := range callsIn(h.Body()) {
			if kind, sec := sectionMarkOf(p, h, c); kind == "begin" {
				if po := paramObj(h, 0); po != nil && sameObj(h.Pkg.TypesInfo, sec, po) {
					return true
				}
			}
		}
		return false
	}
	isLookupHelper := func(h *Fn) bool {
		if h == nil || h.Body() == nil || isSectionHelper(h) {
			return false
		}
		for _, c := range callsIn(h.Body()) {
			if g := resolve(h, c); g != nil && g != h && isSectionHelper(g) && firstParamPassed(h, c) {
				return true
			}
		}
		return false
	}
	writerType := map[string]string{}
	writes := map[string]int{}
	var lookupLess = map[string]*ast.FuncLit{}
	sectionHelpers := map[*Fn]bool{}
	inspectShallow(fin.Body(), func(x ast.Node) bool {
		c, ok := x.(*ast.CallExpr)
		if !ok || len(c.Args) < 2 {
			return true
		}
		name := constName(c.Args[0])
		if name == "" {
			return true
		}
		h := resolve(fin, c)
		switch {
		case isSectionHelper(h):
			sectionHelpers[h] = true
			writes[name]++
			if lit, ok := c.Args[1].(*ast.FuncLit); ok {
				// the type written: argument of w.write(...) inside the body
				ast.Inspect(lit.Body, func(y ast.Node) bool {
					if wc, ok := y.(*ast.CallExpr); ok {
						if fn := p.Callee(fin.Pkg, wc); fn != nil && fn.Name() == "write" && len(wc.Args) == 1 {
							writerType[name] = elemTypeName(info.TypeOf(wc.Args[0]))
						}
					}
					return true
				})
			}
		case isLookupHelper(h):
			for _, hc := range callsIn(h.Body()) {
				if g := resolve(h, hc); g != nil && isSectionHelper(g) {
					sectionHelpers[g] = true
				}
			}
			writes[name]++
			writerType[name] = "uint32"
			if lit, ok := c.Args[1].(*ast.FuncLit); ok {
				lookupLess[name] = lit
			}
		}
		return true
	})
	// sectionData: begin in NewWriter, end in Finalize
	dataBegin, dataEnd := 0, 0
	for _, fk := range []string{"index.NewWriter", "index.Writer.Finalize"} {
		if f := p.Fn(fk); f != nil {
			for _, c := range callsIn(f.Body()) {
				if kind, sec := sectionMarkOf(p, f, c); kind != "" {
					if tv, ok := f.Pkg.TypesInfo.Types[sec]; ok && tv.Value != nil && tv.Value.ExactString() == consts["sectionData"].ExactString() && types.Identical(types.Unalias(tv.Type), sect) {
						if kind == "begin" {
							dataBegin++
						}
						if kind == "end" {
							dataEnd++
						}
					}
				}
			}
		}
	}
	var names []string
	for n := range consts {
		names = append(names, n)
	}
	sort.Strings(names)
	for _, n := range names {
		if n == "sectionData" {
			r.Check(dataBegin == 1 && dataEnd == 1, ruleB, "sectionData begun in NewWriter and ended in Finalize once", p.Pos(fin.Node()), "1 begin, 1 end", fmt.Sprintf("sectionData has %d begin and %d end calls", dataBegin, dataEnd))
			continue
		}
		r.Check(writes[n] == 1, ruleB, n+" written exactly once by Finalize", p.Pos(fin.Node()), "one writeSection/writeLookup call", fmt.Sprintf("%d writes of this section: the reader computes every offset from a section table entry that is missing or overwritten", writes[n]))
	}
	r.Floor(ruleB+" sections", 12, len(names))
	// section helper order: begin → f() → end → pad
	var helperList []*Fn
	for h := range sectionHelpers {
		helperList = append(helperList, h)
	}
	sort.Slice(helperList, func(i, j int) bool { return helperList[i].Key() < helperList[j].Key() })
	if len(helperList) == 0 {
		r.Bad(ruleB, "section helper: begin → body → end → pad", p.Pos(fin.Node()), "no function that brackets a section body with setSectionBegin/End was found in Finalize's call sites")
	}
	for _, l := range helperList {
		bodyParam := paramObj(l, 1)
		fl := p.Flow(l)
		step := func(name string) func(ast.Node) bool {
			return func(n ast.Node) bool {
				return fl.hasCall(n, func(c *ast.CallExpr) bool {
					if kind, _ := sectionMarkOf(p, l, c); (kind == "begin" && name == "setSectionBegin") || (kind == "end" && name == "setSectionEnd") {
						return true
					}
					if fn := p.Callee(l.Pkg, c); fn != nil && fn.Name() == name {
						return true
					}
					if id, ok := c.Fun.(*ast.Ident); ok && name == "f" && bodyParam != nil && l.Pkg.TypesInfo.Uses[id] == bodyParam {
						return true
					}
					return false
				})
			}
		}
		order := []string{"setSectionBegin", "f", "setSectionEnd", "pad"}
		okOrder := true
		why := ""
		// each step lies on every successful path, and each precedes the next
		for i, s := range order {
			res := fl.search([]Pt{fl.Entry()}, func(n ast.Node) bool { return isReturn(n) && !isFailingReturn(l.Pkg.TypesInfo, n) }, step(s))
			if res.Found {
				okOrder, why = false, s+" can be skipped on a successful path"
			}
			if i+1 < len(order) {
				res2 := fl.Reach([]Pt{fl.Entry()}, step(order[i+1]), step(s))
				if res2.Found {
					okOrder, why = false, order[i+1]+" can run before "+s
				}
			}
		}
		r.Check(okOrder, ruleB, "writeSection helper: begin → body → end → pad", p.Pos(l.Node()), "order holds on every successful path", "the section helper is out of order ("+why+"): Begin/End of the section do not bracket its content")
	}
	// reader side types
	readerTypes := map[string]map[string]string{}
	addR := func(sec, typ, where string) {
		if sec == "" || typ == "" {
			return
		}
		if readerTypes[sec] == nil {
			readerTypes[sec] = map[string]string{}
		}
		readerTypes[sec][typ] = where
	}
	for _, f := range p.FnList {
		if f.Short != "index" {
			continue
		}
		finfo := f.Pkg.TypesInfo
		cn := func(e ast.Expr) string {
			if tv, ok := finfo.Types[e]; ok && tv.Value != nil && types.Identical(types.Unalias(tv.Type), sect) {
				for n, v := range consts {
					if v.ExactString() == tv.Value.ExactString() {
						return n
					}
				}
			}
			return ""
		}
		sizeofType := func(e ast.Expr) string {
			// int(unsafe.Sizeof(X)) or a literal 4
			t := ""
			ast.Inspect(e, func(y ast.Node) bool {
				if c, ok := y.(*ast.CallExpr); ok {
					if se, ok := c.Fun.(*ast.SelectorExpr); ok && se.Sel.Name == "Sizeof" && len(c.Args) == 1 {
						t = elemTypeName(finfo.TypeOf(c.Args[0]))
					}
				}
				return true
			})
			if t == "" {
				if tv, ok := finfo.Types[e]; ok && tv.Value != nil && tv.Value.ExactString() == "4" {
					t = "uint32"
				}
			}
			return t
		}
		for _, c := range callsIn(f.Body()) {
			fn := p.Callee(f.Pkg, c)
			if fn == nil {
				continue
			}
			switch fn.Name() {
			case "readObjects":
				if len(c.Args) == 2 {
					addR(cn(c.Args[0]), elemTypeName(finfo.TypeOf(c.Args[1])), f.Key())
				}
			case "calculateOffset":
				if len(c.Args) == 3 {
					addR(cn(c.Args[0]), sizeofType(c.Args[1]), f.Key())
				}
			case "objectCount":
				if len(c.Args) == 2 {
					addR(cn(c.Args[0]), sizeofType(c.Args[1]), f.Key())
				}
			}
		}
	}
	nT := 0
	for _, n := range names {
		wt := writerType[n]
		if wt == "" {
			continue
		}
		for rt, where := range readerTypes[n] {
			nT++
			// byte slices are read as []byte / uint8
			a, b := strings.Replace(wt, "uint8", "byte", 1), strings.Replace(rt, "uint8", "byte", 1)
			r.Check(a == b, ruleB, fmt.Sprintf("%s record type: writer %s = reader %s", n, wt, rt), "", "same Go type on both sides ("+where+")", fmt.Sprintf("section %s is written as %s but %s decodes it as %s: every record after the first is read at the wrong offset", n, wt, where, rt))
		}
	}
	// lookup sections are read as uint32 through readLookup: its element size must be 4 and its target uint32
	if f := p.Fn("index.Reader.readLookup"); f != nil {
		ok := false
		for _, c := range callsIn(f.Body()) {
			if fn := p.Callee(f.Pkg, c); fn != nil && fn.Name() == "calculateOffset" && len(c.Args) == 3 {
				if tv, has := f.Pkg.TypesInfo.Types[c.Args[1]]; has && tv.Value != nil && tv.Value.ExactString() == "4" {
					ok = true
				}
			}
		}
		nT++
		r.Check(ok, ruleB, "lookup sections are read with 4-byte records", p.Pos(f.Node()), "readLookup uses record size 4 (uint32), as writeLookup writes []uint32", "readLookup no longer reads 4-byte records although writeLookup writes []uint32")
	}
	r.Floor(ruleB+" typed reader uses", 7, nT)

	// ---------- C01-c lookup keys ----------
	const ruleC = "C01-c lookup-key-agreement"
	r.Rule(ruleC + ": writer comparators and reader consumers of a lookup section use the same stream fields")
	// frozen from reading: the key field(s) of each lookup section
	wantKey := map[string]string{
		"sectionStreamsByStreamID":          "StreamID",
		"sectionStreamsByFirstPacketSource": "PacketInfoStart",
		"sectionStreamsByFirstPacketTime":   "FirstPacketTimeNS",
		"sectionStreamsByLastPacketTime":    "LastPacketTimeNS",
	}
	nC := 0
	for _, n := range names {
		lit := lookupLess[n]
		if lit == nil {
			continue
		}
		nC++
		var params []types.Object
		for _, fld := range lit.Type.Params.List {
			for _, id := range fld.Names {
				params = append(params, info.Defs[id])
			}
		}
		if len(params) != 2 {
			r.Undecided(ruleC, n+" writer comparator", p.Pos(lit), "comparator does not have two parameters")
			continue
		}
		fa, fb := fieldsReadVia(info, lit.Body, params[0]), fieldsReadVia(info, lit.Body, params[1])
		w := wantKey[n]
		okF := w != "" && fa[w] && fb[w] && len(fa) == 1 && len(fb) == 1
		r.Check(okF, ruleC, n+" writer comparator reads "+w, p.Pos(lit), "a:"+setString(fa)+" b:"+setString(fb), fmt.Sprintf("the lookup for %s is sorted by a:%s b:%s, expected the single key field %s on both operands: binary searches and sorted scans over this section assume that order", n, setString(fa), setString(fb), w))
		if ok, why := comparatorOrientation(p, info, lit, params[0], params[1]); !ok {
			r.Bad(ruleC, n+" writer comparator orientation", p.Pos(lit), why)
		} else {
			r.OkTrivial(ruleC, n+" writer comparator orientation", p.Pos(lit), why)
		}
	}
	r.Floor(ruleC+" writer comparators", 4, nC)
	// reader consumers
	if f := p.Fn("index.NewReader"); f != nil {
		finfo := f.Pkg.TypesInfo
		ast.Inspect(f.Body(), func(x ast.Node) bool {
			ifs, ok := x.(*ast.IfStmt)
			if !ok || ifs.Init == nil {
				return true
			}
			as, ok := ifs.Init.(*ast.AssignStmt)
			if !ok || len(as.Rhs) != 1 {
				return true
			}
			c, ok := as.Rhs[0].(*ast.CallExpr)
			if !ok || len(c.Args) != 1 {
				return true
			}
			fn := p.Callee(f.Pkg, c)
			if fn == nil || (fn.Name() != "minStream" && fn.Name() != "maxStream") {
				return true
			}
			sec := ""
			if tv, ok := finfo.Types[c.Args[0]]; ok && tv.Value != nil {
				for n, v := range consts {
					if v.ExactString() == tv.Value.ExactString() {
						sec = n
					}
				}
			}
			sobj := identObj(finfo, as.Lhs[0])
			used := fieldsReadVia(finfo, ifs, sobj)
			nC++
			w := wantKey[sec]
			r.Check(used[w] && len(used) == 1, ruleC, fmt.Sprintf("NewReader %s(%s) reads %s", fn.Name(), sec, w), p.Pos(c), "reads "+setString(used), fmt.Sprintf("the extreme element of %s is used for %s, but that section is sorted by %s", sec, setString(used), w))
			return true
		})
	}
	if f := p.Fn("index.Reader.StreamByFirstPacketSource"); f != nil {
		// the predicate passed to streamIndexByLookup(sectionStreamsByFirstPacketSource, …) reads PacketInfoStart (through firstPacketSource)
		okS := false
		for _, c := range callsIn(f.Body()) {
			if fn := p.Callee(f.Pkg, c); fn != nil && fn.Name() == "streamIndexByLookup" && len(c.Args) == 2 {
				if tv, ok := f.Pkg.TypesInfo.Types[c.Args[0]]; ok && tv.Value != nil && tv.Value.ExactString() == consts["sectionStreamsByFirstPacketSource"].ExactString() {
					okS = true
				}
			}
		}
		reads := false
		bodies := []ast.Node{f.Body()}
		for _, hc := range callsIn(f.Body()) {
			if fn := p.Callee(f.Pkg, hc); fn != nil {
				if h := p.FnOfObj(fn); h != nil && h.Pkg == f.Pkg && h != f && h.Body() != nil {
					bodies = append(bodies, h.Body())
				}
			}
		}
		for _, bd := range bodies {
			ast.Inspect(bd, func(x ast.Node) bool {
				if se, ok := x.(*ast.SelectorExpr); ok && se.Sel.Name == "PacketInfoStart" {
					reads = true
				}
				return true
			})
		}
		nC++
		r.Check(okS && reads, ruleC, "StreamByFirstPacketSource searches sectionStreamsByFirstPacketSource by first packet", p.Pos(f.Node()), "binary search over the matching section, keyed by the first packet's source", "the first-packet lookup searches another section or another key than the writer sorted by")
	}
	// deep key of the first-packet lookup: the writer sorts by, and the reader searches by, the same components of
	// the first packet's source (capture file name; packet-index offset of the import record + 32-bit packet index)
	canon := map[string]string{
		"stream.PacketInfoStart":              "first packet",
		"packet.ImportID":                     "import record",
		"packet.PacketIndex":                  "32-bit packet index",
		"writerImportEntry.filename":          "capture file name",
		"readerImportEntry.filename":          "capture file name",
		"writerImportEntry.offset":            "packet-index offset",
		"readerImportEntry.packetIndexOffset": "packet-index offset",
	}
	if lit, f := lookupLess["sectionStreamsByFirstPacketSource"], p.Fn("index.Reader.StreamByFirstPacketSource"); lit != nil && f != nil {
		var wp []types.Object
		for _, fld := range lit.Type.Params.List {
			for _, id := range fld.Names {
				wp = append(wp, info.Defs[id])
			}
		}
		var rp []types.Object
		ast.Inspect(f.Body(), func(x ast.Node) bool {
			if l, ok := x.(*ast.FuncLit); ok {
				for _, fld := range l.Type.Params.List {
					if types.TypeString(f.Pkg.TypesInfo.TypeOf(fld.Type), nil) == "*github.com/spq/pkappa2/internal/index.stream" {
						for _, id := range fld.Names {
							rp = append(rp, f.Pkg.TypesInfo.Defs[id])
						}
					}
				}
			}
			return true
		})
		canonSet := func(m map[string]bool) (map[string]bool, []string) {
			out := map[string]bool{}
			var unknown []string
			for k := range m {
				if c, ok := canon[k]; ok {
					out[c] = true
				} else {
					unknown = append(unknown, k)
				}
			}
			sort.Strings(unknown)
			return out, unknown
		}
		if len(wp) == 2 {
			wa, ua := canonSet(deepFieldsVia(info, lit.Body, wp[0]))
			wb, ub := canonSet(deepFieldsVia(info, lit.Body, wp[1]))
			rfields := deepFieldsVia(f.Pkg.TypesInfo, f.Body(), rp...)
			// the key may be computed by a method or function of the package that is handed the stream
			// (firstPacketSource as a closure or as a *Reader method): one level of callees with a *stream parameter
			for _, hc := range callsIn(f.Body()) {
				if fn := p.Callee(f.Pkg, hc); fn != nil {
					if h := p.FnOfObj(fn); h != nil && h.Pkg == f.Pkg && h != f && h.Lit == nil && h.Body() != nil {
						var hp []types.Object
						for i := 0; ; i++ {
							o := paramObj(h, i)
							if o == nil {
								break
							}
							if types.TypeString(o.Type(), nil) == "*github.com/spq/pkappa2/internal/index.stream" {
								hp = append(hp, o)
							}
						}
						if len(hp) > 0 {
							for k := range deepFieldsVia(h.Pkg.TypesInfo, h.Body(), hp...) {
								rfields[k] = true
							}
						}
					}
				}
			}
			rk, ur := canonSet(rfields)
			key := "sectionStreamsByFirstPacketSource key components: writer comparator vs StreamByFirstPacketSource"
			switch {
			case len(ua)+len(ub)+len(ur) > 0:
				r.Undecided(ruleC, key, p.Pos(lit), fmt.Sprintf("fields outside the frozen correspondence table are part of a key: writer %v %v reader %v", ua, ub, ur))
			case setString(wa) != setString(wb):
				r.Bad(ruleC, key, p.Pos(lit), fmt.Sprintf("the comparator orders its two operands by different components: a:%s b:%s", setString(wa), setString(wb)))
			case setString(wa) != setString(rk):
				r.Bad(ruleC, key, p.Pos(lit), fmt.Sprintf("the writer sorts the section by %s but the reader binary-searches it by %s: streams whose order differs under the two keys are not found", setString(wa), setString(rk)))
			default:
				r.Ok(ruleC, key, p.Pos(lit), "both sides use "+setString(wa))
			}
		} else {
			r.Undecided(ruleC, "sectionStreamsByFirstPacketSource key components", p.Pos(lit), "could not locate comparator operands / reader key functions")
		}
	}
	r.Floor(ruleC, 9, r.CountRule(ruleC))
}

// deepFieldsVia returns "Type.field" for every field read through a value derived from one of the seed objects:
// a local defined from an expression that mentions a derived value is derived too (calls and index expressions
// included), and a selector counts when its operand mentions a derived value.
func deepFieldsVia(info *types.Info, body ast.Node, seeds ...types.Object) map[string]bool {
	derived := map[types.Object]bool{}
	for _, s := range seeds {
		if s != nil {
			derived[s] = true
		}
	}
	mentions := func(e ast.Node) bool {
		found := false
		ast.Inspect(e, func(x ast.Node) bool {
			if id, ok := x.(*ast.Ident); ok && derived[info.ObjectOf(id)] {
				found = true
			}
			return !found
		})
		return found
	}
	for changed := true; changed; {
		changed = false
		ast.Inspect(body, func(x ast.Node) bool {
			as, ok := x.(*ast.AssignStmt)
			if !ok {
				return true
			}
			for i, l := range as.Lhs {
				id, ok := l.(*ast.Ident)
				if !ok || id.Name == "_" {
					continue
				}
				o := info.ObjectOf(id)
				if o == nil || derived[o] {
					continue
				}
				if _, isErr := o.Type().Underlying().(*types.Interface); isErr {
					continue
				}
				rhs := as.Rhs[0]
				if len(as.Rhs) == len(as.Lhs) {
					rhs = as.Rhs[i]
				}
				if mentions(rhs) {
					derived[o] = true
					changed = true
				}
			}
			return true
		})
	}
	out := map[string]bool{}
	ast.Inspect(body, func(x ast.Node) bool {
		se, ok := x.(*ast.SelectorExpr)
		if !ok {
			return true
		}
		v, ok := info.Uses[se.Sel].(*types.Var)
		if !ok || !v.IsField() || !mentions(se.X) {
			return true
		}
		if n := namedOf(info.TypeOf(se.X)); n != nil {
			out[n.Obj().Name()+"."+se.Sel.Name] = true
		}
		return true
	})
	return out
}
