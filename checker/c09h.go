package main

// c09h.go: C09-h every worker answers.
//
// A function that starts worker goroutines and collects their answers from a channel it created counts on one answer
// per worker (the converter job frees a process slot and a global slot per answer and ends when all slots are free
// again). A worker that can finish without sending — its loop over the indexes ends without having found the stream —
// leaves the collector blocked for ever: the job never posts its completion, converterJobRunning stays set, the holds
// on the index files are never released. FLOW: in every function literal started with `go` in package manager that
// sends on a channel created by the enclosing function, every path from the entry to the end of the literal (returns
// and falling off the end) passes a send on that channel.

import (
	"fmt"
	"go/ast"
	"go/types"
)

func init() {
	const expl = "(FLOW): in package manager every function literal started with `go` that sends on a channel created (make) in the enclosing function sends on it on every path from its entry to its end — returns and falling off the end of the body alike: the spawner collects one answer per worker. A worker that can end silently (the stream is in none of the indexes it was given) blocks the collector for ever: the job never completes, its running flag stays set and its holds on index files are never released."
	register("C09", "C09-h "+expl, func(p *Prog, r *Res) { ruleWorkerAnswers(p, r, "C09-h every-worker-answers") })
	register("C13", "C13-j "+expl, func(p *Prog, r *Res) { ruleWorkerAnswers(p, r, "C13-j every-worker-answers") })
}

func ruleWorkerAnswers(p *Prog, r *Res, rule string) {
	r.Rule(rule + ": a worker goroutine sends its answer on every path")
	n := 0
	for _, f := range p.FnList {
		if f.Short != "manager" || f.Body() == nil {
			continue
		}
		info := f.Pkg.TypesInfo
		// channels created in this function (root, any nesting level)
		made := map[types.Object]bool{}
		inspectShallow(f.Body(), func(x ast.Node) bool {
			if as, ok := x.(*ast.AssignStmt); ok && len(as.Lhs) == len(as.Rhs) {
				for i, rh := range as.Rhs {
					if c, ok := ast.Unparen(rh).(*ast.CallExpr); ok && isBuiltin(info, c, "make") {
						if o := identObj(info, as.Lhs[i]); o != nil {
							if _, isChan := o.Type().Underlying().(*types.Chan); isChan {
								made[o] = true
							}
						}
					}
				}
			}
			return true
		})
		if len(made) == 0 {
			continue
		}
		inspectShallow(f.Body(), func(x ast.Node) bool {
			gs, ok := x.(*ast.GoStmt)
			if !ok {
				return true
			}
			lit, ok := gs.Call.Fun.(*ast.FuncLit)
			if !ok {
				return true
			}
			g := p.FnOfLit(lit)
			if g == nil {
				return true
			}
			// which of the made channels does the worker send on (shallow: its own body)
			var ch types.Object
			inspectShallow(lit.Body, func(y ast.Node) bool {
				if s, ok := y.(*ast.SendStmt); ok {
					if o := identObj(info, s.Chan); o != nil && made[o] {
						ch = o
					}
				}
				return true
			})
			if ch == nil {
				return true
			}
			// the spawner must receive from it (otherwise it is a fire-and-forget notification)
			receives := false
			ast.Inspect(f.Body(), func(y ast.Node) bool {
				if ue, ok := y.(*ast.UnaryExpr); ok && ue.Op.String() == "<-" && identObj(info, ue.X) == ch {
					if !within(ue, lit) {
						receives = true
					}
				}
				return true
			})
			if !receives {
				return true
			}
			n++
			gfl := p.Flow(g)
			sends := func(nd ast.Node) bool {
				s, ok := nd.(*ast.SendStmt)
				return ok && identObj(info, s.Chan) == ch
			}
			// a send in a deferred function literal at the top level of the worker runs on every way out
			deferred := false
			for _, st := range lit.Body.List {
				ds, ok := st.(*ast.DeferStmt)
				if !ok {
					continue
				}
				if dl, ok := ds.Call.Fun.(*ast.FuncLit); ok {
					if dg := p.FnOfLit(dl); dg != nil {
						dfl := p.Flow(dg)
						if !dfl.MustPass(sends).Found && !fallsOffEndAvoiding(dfl, dfl.Entry(), sends) {
							deferred = true
						}
					}
				}
			}
			if deferred {
				r.Ok(rule, fmt.Sprintf("%s worker@%s answers on %s", f.Key(), relLine(p, f, gs), ch.Name()), p.Pos(gs), "a deferred function sends on "+ch.Name()+" on every way out of the worker")
				return true
			}
			res := gfl.MustPass(sends)
			// bare returns
			bare := gfl.Reach([]Pt{gfl.Entry()}, func(nd ast.Node) bool {
				ret, ok := nd.(*ast.ReturnStmt)
				return ok && len(ret.Results) == 0
			}, sends)
			falls := fallsOffEndAvoiding(gfl, gfl.Entry(), sends)
			key := fmt.Sprintf("%s worker@%s answers on %s", f.Key(), relLine(p, f, gs), ch.Name())
			why := ""
			switch {
			case res.Found:
				why = "a return is reachable without a send (" + gfl.traceString(res) + ")"
			case bare.Found:
				why = "a return is reachable without a send (" + gfl.traceString(bare) + ")"
			case falls:
				why = "the end of the worker's body is reachable without a send (a loop that ends without a hit)"
			}
			r.Check(why == "", rule, key, p.Pos(gs), "every path through the worker sends on "+ch.Name(), "the worker can end without answering: "+why+". The collector waits for one answer per worker; it blocks for ever, the job's completion is never posted, its running flag stays set and its index holds are never released")
			return true
		})
	}
	r.Floor(rule, 1, n)
}
