package main

// c14g.go: C14-g the nesting depth is bounded before anything recurses.
//
// The participle parser is recursive descent and the normaliser (QueryConditions, invert, …) recurses over the syntax
// tree: both use one stack frame chain per level of negation / bracket. Go cannot recover from a stack overflow — it is
// a fatal error that ends the process — so "returns a query or an error" needs a bound on the nesting depth that is
// checked on the raw text before the parser is entered. Rule (FLOW + callee summary): in query.Parse the call of the
// participle parser is reachable from the entry only through the failure-checked call of a package function that
// (a) does not call the parser's Parse* methods itself and (b) returns a non-nil error under a comparison with a
// constant (the bound).

import (
	"go/ast"
	"go/token"
	"go/types"
	"strings"

	"golang.org/x/tools/go/cfg"
)

func init() {
	register("C14",
		"C14-g (FLOW + callee summary): in query.Parse the call of the participle parser (Parse*/ParseString on the package's parser value) is reachable from the entry only over the success edge of `if err := g(q); err != nil { return … }`, where g is a function of package query that does not enter the parser and returns a non-nil error under a comparison against a constant: the bound on the nesting of negations and brackets. Without it a request with 10^6 nested operators overflows the stack, which is a fatal error that no recover() catches.",
		func(p *Prog, r *Res) {
			const rule = "C14-g nesting-bounded-before-recursion"
			r.Rule(rule + ": Parse checks a depth bound before it enters the recursive-descent parser")
			f := p.Fn("query.Parse")
			if f == nil {
				return
			}
			info := f.Pkg.TypesInfo
			isParserCall := func(pk *Fn, c *ast.CallExpr) bool {
				se, ok := ast.Unparen(c.Fun).(*ast.SelectorExpr)
				if !ok || !strings.HasPrefix(se.Sel.Name, "Parse") {
					return false
				}
				t := pk.Pkg.TypesInfo.TypeOf(se.X)
				return t != nil && strings.Contains(types.TypeString(t, nil), "participle")
			}
			// guards: package functions with an error result that return an error under a comparison with a constant
			isGuard := func(fn *types.Func) bool {
				h := p.FnOfObj(fn)
				if h == nil || h.Body() == nil || h.Pkg != f.Pkg {
					return false
				}
				hinfo := h.Pkg.TypesInfo
				entersParser, bounded := false, false
				ast.Inspect(h.Body(), func(x ast.Node) bool {
					if c, ok := x.(*ast.CallExpr); ok && isParserCall(h, c) {
						entersParser = true
					}
					ifs, ok := x.(*ast.IfStmt)
					if !ok {
						return true
					}
					cmpConst := false
					for _, cj := range conjuncts(ifs.Cond) {
						if be, ok := ast.Unparen(cj).(*ast.BinaryExpr); ok {
							switch be.Op {
							case token.GTR, token.GEQ, token.LSS, token.LEQ:
								for _, side := range []ast.Expr{be.X, be.Y} {
									if tv, ok := hinfo.Types[side]; ok && tv.Value != nil {
										cmpConst = true
									}
								}
							}
						}
					}
					if cmpConst && len(ifs.Body.List) > 0 && isErrReturn(hinfo, ifs.Body.List[len(ifs.Body.List)-1]) {
						bounded = true
					}
					return true
				})
				return bounded && !entersParser
			}
			fl := p.Flow(f)
			// success edges of checked guard calls
			passedGuard := false
			fl.EdgeOK = func(b *cfg.Block, succ int) bool {
				if len(b.Succs) != 2 || len(b.Nodes) < 2 {
					return true
				}
				cond, ok := b.Nodes[len(b.Nodes)-1].(*ast.BinaryExpr)
				if !ok || cond.Op != token.NEQ || exprString(p.Fset, cond.Y) != "nil" {
					return true
				}
				as, ok := b.Nodes[len(b.Nodes)-2].(*ast.AssignStmt)
				if !ok || len(as.Rhs) != 1 {
					return true
				}
				c, ok := ast.Unparen(as.Rhs[0]).(*ast.CallExpr)
				if !ok {
					return true
				}
				fn := p.Callee(f.Pkg, c)
				if fn == nil || !isGuard(fn) || identObj(info, cond.X) == nil {
					return true
				}
				if succ == 1 {
					passedGuard = true
					return false // the success edge: the depth is known to be bounded from here on
				}
				return true
			}
			n := 0
			for _, pt := range fl.Find(func(nd ast.Node) bool {
				return fl.hasCall(nd, func(c *ast.CallExpr) bool { return isParserCall(f, c) })
			}) {
				n++
				node := fl.node(pt)
				res := fl.Reach([]Pt{fl.Entry()}, func(nd ast.Node) bool { return nd == node }, nil)
				r.Check(!res.Found && passedGuard, rule, f.Key()+" enters the parser@"+relLine(p, f, node), p.Pos(node), "only after a checked depth bound", "the recursive-descent parser is entered on a path on which no bound on the nesting of negations and brackets was checked ("+fl.traceString(res)+"): the parser and the normaliser recurse once per level, and a stack overflow is a fatal error that ends the process — a single request can do that")
			}
			fl.EdgeOK = nil
			r.Floor(rule, 1, n)
		})
}
