package main

// c19g.go: C19-g the importer's count is the length of a prefix of the batch.
//
// Builder.FromPcap walks the batch of capture files in order and returns how many of them it has dealt with; the
// manager drops that many entries from the head of its queue (C19-f) and starts the next job with what is left. The
// count describes the queue only if it is the length of a PREFIX: every file the loop passes over is counted, and a
// file that cannot be handled ends the loop. Seeded C19k (`continue` instead of `break` for an unreadable file in the
// middle) and C19l (the increment moved behind the `no packets → continue` test) both let an iteration finish without
// counting: a later file stays queued and is imported a second time, or a header-only capture is re-imported for ever.
//
// Rule (FLOW, block level): in the loop of FromPcap over its []string parameter, no path leads from the start of an
// iteration to the loop head without passing the increment of the counter the function returns as its first result.

import (
	"fmt"
	"go/ast"
	"go/token"
	"go/types"

	"golang.org/x/tools/go/cfg"
)

func init() {
	const expl = "(FLOW, block level): in builder.FromPcap's loop over the batch of file names every path from the start of an iteration to the next iteration passes the increment of the counter that is returned as the first result; an iteration can only end uncounted by leaving the loop. The manager cuts that many entries from the head of the queue, so the count must be the length of a prefix of the batch: an uncounted file that is passed over makes a later capture be imported twice, or the same capture for ever (the import queue never drains: seeded C09m, a header-only capture)."
	register("C19", "C19-g "+expl, func(p *Prog, r *Res) { ruleCountIsPrefixLength(p, r, "C19-g count-is-a-prefix-length") })
	register("C09", "C09-i "+expl, func(p *Prog, r *Res) { ruleCountIsPrefixLength(p, r, "C09-i count-is-a-prefix-length") })
}

func ruleCountIsPrefixLength(p *Prog, r *Res, rule string) {
	{
		{
			r.Rule(rule + ": no iteration over the batch completes without counting the file")
			f := p.Fn("builder.Builder.FromPcap")
			if f == nil {
				p.anchorFail("builder.Builder.FromPcap")
				return
			}
			info := f.Pkg.TypesInfo
			// the []string parameter
			var batch types.Object
			for _, fld := range f.Decl.Type.Params.List {
				for _, nm := range fld.Names {
					if o := info.Defs[nm]; o != nil && types.TypeString(o.Type(), nil) == "[]string" {
						batch = o
					}
				}
			}
			// the counter: first result of the returns that is a local int variable
			var counter types.Object
			inspectShallow(f.Body(), func(x ast.Node) bool {
				if rs, ok := x.(*ast.ReturnStmt); ok && len(rs.Results) > 0 {
					if o := identObj(info, rs.Results[0]); o != nil {
						if _, isVar := o.(*types.Var); isVar {
							counter = o
						}
					}
				}
				return true
			})
			if batch == nil || counter == nil {
				p.anchorFail("the file-name batch parameter / the returned counter of builder.Builder.FromPcap")
				return
			}
			fl := p.Flow(f)
			n := 0
			inspectShallow(f.Body(), func(x ast.Node) bool {
				rs, ok := x.(*ast.RangeStmt)
				if !ok || identObj(info, rs.X) != batch {
					return true
				}
				n++
				key := fmt.Sprintf("%s loop over %s counts every file in %s", f.Key(), batch.Name(), counter.Name())
				var body, head *cfg.Block
				for _, b := range fl.G.Blocks {
					if b.Stmt == ast.Stmt(rs) {
						switch b.Kind {
						case cfg.KindRangeBody:
							body = b
						case cfg.KindRangeLoop:
							head = b
						}
					}
				}
				if body == nil || head == nil {
					r.Undecided(rule, key, p.Pos(rs), "loop blocks not found in the CFG")
					return true
				}
				counts := func(nd ast.Node) bool {
					switch s := nd.(type) {
					case *ast.IncDecStmt:
						return s.Tok == token.INC && identObj(info, s.X) == counter
					case *ast.AssignStmt:
						return s.Tok == token.ADD_ASSIGN && len(s.Lhs) == 1 && identObj(info, s.Lhs[0]) == counter
					}
					return false
				}
				type st struct {
					b *cfg.Block
					i int
				}
				seen := map[st]bool{}
				work := []st{{body, 0}}
				var via ast.Node
				found := false
				for len(work) > 0 && !found {
					s := work[0]
					work = work[1:]
					if seen[s] {
						continue
					}
					seen[s] = true
					if s.b == head {
						found = true
						break
					}
					if s.i < len(s.b.Nodes) {
						nd := s.b.Nodes[s.i]
						if counts(nd) || isReturn(nd) {
							continue
						}
						via = nd
						work = append(work, st{s.b, s.i + 1})
						continue
					}
					for _, nb := range s.b.Succs {
						// leaving the loop is fine
						if nb.Kind == cfg.KindRangeDone && nb.Stmt == ast.Stmt(rs) {
							continue
						}
						work = append(work, st{nb, 0})
					}
				}
				_ = via
				r.Check(!found, rule, key, p.Pos(rs), "every path to the next iteration passes the increment", "an iteration can end without "+counter.Name()+"++ and the loop goes on: the returned count is then not the length of a prefix of the batch — the manager cuts the wrong files from its queue, a capture behind the uncounted one is imported twice (or the uncounted one for ever)")
				return true
			})
			r.Floor(rule, 1, n)
		}
	}
}
