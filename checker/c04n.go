package main

// c04n.go: C04-n the outcome table of a sequence in one data source (exhaustive evaluation over a finite domain).
//
// A DataCondition is a sequence of elements; Inverted means "all elements but the last, and then NOT the last". A data
// filter is evaluated in every data source of the stream (the raw payload and each cached converter output), and
// makeDataConditionFilter classifies what a source says by the number U of elements that were not found in it:
//
//	not inverted   U = 0 → the source proves the condition            U ≥ 1 → it does not
//	inverted       U = 0 → the whole sequence is there: a veto        U = 1 → beginning found, last element absent: proof
//	               U ≥ 2 → the beginning is not in this source: NEITHER — the sequence may be in another source
//
// Counting U ≥ 2 of an inverted sequence as a failure made `-(cdata:"login" then sdata:"ok")` — normalised to
// (-login) | (login then -ok) — reject a stream whose raw payload has login without ok and whose converter output has
// neither: the stream was selected neither by the sequence nor by its negation (#63,
// probes/c04_negated_sequence_sources). With no data source at all an inverted SEQUENCE was treated like an inverted
// single filter and accepted although its beginning cannot have been found.
//
// Rule: (1) the statement that increments progressGroup.fails / .successes is evaluated for Inverted ∈ {false, true},
// len(Elements) ∈ {1, 2, 3}, nSuccessful ∈ [0, len]: the table above must come out (for U ≥ 2 of an inverted sequence:
// neither counter). (2) In the `evaluatedDataSources == 0` shortcut the test that rejects is true for every condition
// that is not an inverted single element.

import (
	"fmt"
	"go/ast"
	"go/constant"
	"go/token"
	"go/types"
)

type seqEnv struct {
	info     *types.Info
	inverted bool
	l, s     int64
	invFld   *types.Var
	elemsFld *types.Var
	nsFld    *types.Var
	body     ast.Node // where single definitions of locals are looked up
	depth    int
	// the aggregate step: counts over all data sources
	agg            bool
	nSucc, nFail   int64
	nNeutral       int64
	succF, failF   *types.Var
	evaluatedLocal types.Object
}

type seqVal struct {
	isBool bool
	b      bool
	i      int64
}

func (e *seqEnv) eval(x ast.Expr) (seqVal, error) {
	x = ast.Unparen(x)
	if tv, ok := e.info.Types[x]; ok && tv.Value != nil {
		switch tv.Value.Kind() {
		case constant.Bool:
			return seqVal{isBool: true, b: constant.BoolVal(tv.Value)}, nil
		case constant.Int:
			if v, exact := constant.Int64Val(tv.Value); exact {
				return seqVal{i: v}, nil
			}
		}
	}
	switch x := x.(type) {
	case *ast.SelectorExpr:
		switch e.info.Uses[x.Sel] {
		case types.Object(e.invFld):
			return seqVal{isBool: true, b: e.inverted}, nil
		case types.Object(e.nsFld):
			return seqVal{i: e.s}, nil
		}
		if e.agg {
			if v, ok := e.info.Uses[x.Sel].(*types.Var); ok && v.IsField() {
				switch {
				case v == e.succF:
					return seqVal{i: e.nSucc}, nil
				case v == e.failF:
					return seqVal{i: e.nFail}, nil
				case v.Pkg() == e.succF.Pkg() && isCounterSibling(e.succF, v):
					// any further counter of the same struct: the sources that are neither
					return seqVal{i: e.nNeutral}, nil
				}
			}
		}
	case *ast.CallExpr:
		if isBuiltin(e.info, x, "len") && len(x.Args) == 1 {
			if se, ok := ast.Unparen(x.Args[0]).(*ast.SelectorExpr); ok && e.info.Uses[se.Sel] == types.Object(e.elemsFld) {
				return seqVal{i: e.l}, nil
			}
		}
		// conversions int(…), uint(…)
		if tv, ok := e.info.Types[x.Fun]; ok && tv.IsType() && len(x.Args) == 1 {
			return e.eval(x.Args[0])
		}
	case *ast.Ident:
		o := e.info.Uses[x]
		if o == nil || e.depth > 8 {
			break
		}
		if e.agg && o == e.evaluatedLocal {
			return seqVal{i: e.nSucc + e.nFail + e.nNeutral}, nil
		}
		var defs []ast.Expr
		ast.Inspect(e.body, func(n ast.Node) bool {
			switch s := n.(type) {
			case *ast.AssignStmt:
				if len(s.Lhs) == len(s.Rhs) {
					for i, l := range s.Lhs {
						if identObj(e.info, l) == o {
							defs = append(defs, s.Rhs[i])
						}
					}
				} else {
					for _, l := range s.Lhs {
						if identObj(e.info, l) == o {
							defs = append(defs, nil)
						}
					}
				}
			case *ast.IncDecStmt:
				if identObj(e.info, s.X) == o {
					defs = append(defs, nil)
				}
			}
			return true
		})
		if len(defs) == 1 && defs[0] != nil {
			e.depth++
			v, err := e.eval(defs[0])
			e.depth--
			return v, err
		}
	case *ast.UnaryExpr:
		v, err := e.eval(x.X)
		if err != nil {
			return v, err
		}
		switch {
		case x.Op == token.NOT && v.isBool:
			return seqVal{isBool: true, b: !v.b}, nil
		case x.Op == token.SUB && !v.isBool:
			return seqVal{i: -v.i}, nil
		}
	case *ast.BinaryExpr:
		a, err := e.eval(x.X)
		if err != nil {
			return a, err
		}
		if a.isBool && (x.Op == token.LAND && !a.b || x.Op == token.LOR && a.b) {
			return a, nil
		}
		b, err := e.eval(x.Y)
		if err != nil {
			return b, err
		}
		if a.isBool != b.isBool {
			break
		}
		bv := func(v bool) (seqVal, error) { return seqVal{isBool: true, b: v}, nil }
		if a.isBool {
			switch x.Op {
			case token.LAND:
				return bv(a.b && b.b)
			case token.LOR:
				return bv(a.b || b.b)
			case token.EQL:
				return bv(a.b == b.b)
			case token.NEQ:
				return bv(a.b != b.b)
			}
			break
		}
		switch x.Op {
		case token.ADD:
			return seqVal{i: a.i + b.i}, nil
		case token.SUB:
			return seqVal{i: a.i - b.i}, nil
		case token.EQL:
			return bv(a.i == b.i)
		case token.NEQ:
			return bv(a.i != b.i)
		case token.LSS:
			return bv(a.i < b.i)
		case token.LEQ:
			return bv(a.i <= b.i)
		case token.GTR:
			return bv(a.i > b.i)
		case token.GEQ:
			return bv(a.i >= b.i)
		}
	}
	return seqVal{}, fmt.Errorf("cannot evaluate %s", types.ExprString(x))
}

// exec runs a statement and records the counters (fields of progressGroup) it increments.
func (e *seqEnv) exec(s ast.Stmt, counters map[*types.Var]bool, hit map[string]bool) error {
	switch s := s.(type) {
	case *ast.BlockStmt:
		for _, t := range s.List {
			if err := e.exec(t, counters, hit); err != nil {
				return err
			}
		}
	case *ast.IfStmt:
		if s.Init != nil {
			if err := e.exec(s.Init, counters, hit); err != nil {
				return err
			}
		}
		// only branches that touch a counter matter
		touches := false
		ast.Inspect(s, func(n ast.Node) bool {
			if id, ok := n.(*ast.IncDecStmt); ok {
				if se, ok := ast.Unparen(id.X).(*ast.SelectorExpr); ok {
					if v, ok := e.info.Uses[se.Sel].(*types.Var); ok && counters[v] {
						touches = true
					}
				}
			}
			return !touches
		})
		if !touches {
			return nil
		}
		v, err := e.eval(s.Cond)
		if err != nil {
			return err
		}
		if !v.isBool {
			return fmt.Errorf("condition %s is not boolean", types.ExprString(s.Cond))
		}
		if v.b {
			return e.exec(s.Body, counters, hit)
		}
		if s.Else != nil {
			return e.exec(s.Else, counters, hit)
		}
	case *ast.SwitchStmt:
		if s.Tag != nil || s.Init != nil {
			return fmt.Errorf("switch with a tag")
		}
		var def *ast.CaseClause
		for _, c := range s.Body.List {
			cc := c.(*ast.CaseClause)
			if cc.List == nil {
				def = cc
				continue
			}
			for _, x := range cc.List {
				v, err := e.eval(x)
				if err != nil {
					return err
				}
				if v.isBool && v.b {
					return e.exec(&ast.BlockStmt{List: cc.Body}, counters, hit)
				}
			}
		}
		if def != nil {
			return e.exec(&ast.BlockStmt{List: def.Body}, counters, hit)
		}
	case *ast.IncDecStmt:
		if se, ok := ast.Unparen(s.X).(*ast.SelectorExpr); ok && s.Tok == token.INC {
			if v, ok := e.info.Uses[se.Sel].(*types.Var); ok && counters[v] {
				hit[v.Name()] = true
			}
		}
	}
	return nil
}

// isCounterSibling reports whether v is declared as an int field in the struct that declares ref (progressGroup).
func isCounterSibling(ref, v *types.Var) bool {
	if b, ok := v.Type().Underlying().(*types.Basic); !ok || b.Kind() != types.Int {
		return false
	}
	named, _ := ref.Pkg().Scope().Lookup("progressGroup").(*types.TypeName)
	if named == nil {
		return false
	}
	st, ok := named.Type().Underlying().(*types.Struct)
	if !ok {
		return false
	}
	for i := 0; i < st.NumFields(); i++ {
		if st.Field(i) == v {
			return true
		}
	}
	return false
}

// aggregate outcome of one iteration of the loop over the conditions
const (
	aggFall = iota
	aggContinue
	aggReject
	aggAccept
	aggVariants // the code for conditions with sub-query variants was entered
)

func (e *seqEnv) execAgg(s ast.Stmt) (int, error) {
	switch s := s.(type) {
	case *ast.BlockStmt:
		for _, t := range s.List {
			o, err := e.execAgg(t)
			if err != nil || o != aggFall {
				return o, err
			}
		}
	case *ast.IfStmt:
		if s.Init != nil {
			return aggFall, fmt.Errorf("if with an init statement")
		}
		v, err := e.eval(s.Cond)
		if err != nil {
			return aggFall, err
		}
		if v.b {
			return e.execAgg(s.Body)
		}
		if s.Else != nil {
			return e.execAgg(s.Else)
		}
	case *ast.BranchStmt:
		if s.Tok == token.CONTINUE && s.Label == nil {
			return aggContinue, nil
		}
		return aggFall, fmt.Errorf("branch %s", s.Tok)
	case *ast.ReturnStmt:
		if len(s.Results) >= 1 {
			if tv, ok := e.info.Types[s.Results[0]]; ok && tv.Value != nil && tv.Value.Kind() == constant.Bool {
				if constant.BoolVal(tv.Value) {
					return aggAccept, nil
				}
				return aggReject, nil
			}
		}
		return aggFall, fmt.Errorf("return of a non-constant")
	case *ast.ForStmt, *ast.RangeStmt:
		return aggVariants, nil
	case *ast.AssignStmt, *ast.DeclStmt, *ast.ExprStmt, *ast.EmptyStmt:
	default:
		return aggFall, fmt.Errorf("statement %T", s)
	}
	return aggFall, nil
}

func init() {
	register("C04",
		"C04-n (exhaustive evaluation, 2 × 9): in makeDataConditionFilter the statement that counts what one data source says about a sequence — it increments progressGroup.fails or .successes — is executed for Inverted ∈ {false, true}, len(Elements) ∈ {1, 2, 3} and nSuccessful ∈ [0, len]. With U = len − nSuccessful the outcome must be: not inverted, U = 0 → successes, U ≥ 1 → fails; inverted, U = 0 → fails (the whole sequence is there), U = 1 → successes, U ≥ 2 → NEITHER (the beginning is not in this source; another source may hold the sequence). And in the shortcut for 'no data source had data' the rejecting test is true for every condition that is not an inverted single element. A source without the beginning counted as failure makes a stream fall out of both a sequence and its negation as soon as a converter output exists.",
		func(p *Prog, r *Res) {
			const rule = "C04-n sequence-outcome-per-source"
			r.Rule(rule + ": the per-source classification of a (possibly inverted) sequence, evaluated for all cases")
			f := p.Fn("index.makeDataConditionFilter")
			failsF := p.Field("index", "progressGroup", "fails")
			succF := p.Field("index", "progressGroup", "successes")
			env := &seqEnv{
				invFld:   p.Field("query", "DataCondition", "Inverted"),
				elemsFld: p.Field("query", "DataCondition", "Elements"),
				nsFld:    p.Field("index", "progressVariant", "nSuccessful"),
			}
			if f == nil || failsF == nil || succF == nil || env.invFld == nil || env.elemsFld == nil || env.nsFld == nil {
				p.anchorFail("index.makeDataConditionFilter / progressGroup.{fails,successes} / DataCondition.{Inverted,Elements} / progressVariant.nSuccessful")
				return
			}
			counters := map[*types.Var]bool{failsF: true, succF: true}
			n := 0
			for _, l := range append([]*Fn{f}, f.Lits...) {
				if l.Body() == nil {
					continue
				}
				env.info = l.Pkg.TypesInfo
				env.body = l.Body()
				// (1) the classifying statement: the outermost if/switch around `X.fails++`
				var top ast.Stmt
				inspectParents(l.Body(), func(x ast.Node, parents []ast.Node) bool {
					id, ok := x.(*ast.IncDecStmt)
					if !ok || top != nil {
						return true
					}
					se, ok := ast.Unparen(id.X).(*ast.SelectorExpr)
					if !ok || l.Pkg.TypesInfo.Uses[se.Sel] != types.Object(failsF) {
						return true
					}
					for i := len(parents) - 1; i >= 0; i-- {
						switch pn := parents[i].(type) {
						case *ast.FuncLit:
							if pn != l.Lit {
								return true // reported with the inner literal
							}
						case *ast.IfStmt:
							top = pn
							continue
						case *ast.SwitchStmt:
							top = pn
							continue
						case *ast.BlockStmt, *ast.CaseClause:
							continue
						}
						break
					}
					return true
				})
				if top != nil {
					n++
					key := fmt.Sprintf("%s classifies what a data source says", l.Key())
					var bad []string
					undecided := ""
					for _, inv := range []bool{false, true} {
						for L := int64(1); L <= 3 && undecided == ""; L++ {
							for S := int64(0); S <= L; S++ {
								env.inverted, env.l, env.s = inv, L, S
								hit := map[string]bool{}
								if err := env.exec(top, counters, hit); err != nil {
									undecided = err.Error()
									break
								}
								u := L - S
								want := "fails"
								switch {
								case !inv && u == 0, inv && u == 1:
									want = "successes"
								case inv && u >= 2:
									want = "neither"
								}
								got := "neither"
								switch {
								case hit["fails"] && hit["successes"]:
									got = "both"
								case hit["fails"]:
									got = "fails"
								case hit["successes"]:
									got = "successes"
								}
								if got != want {
									bad = append(bad, fmt.Sprintf("Inverted=%v, %d of %d elements found: counted as %s, must be %s", inv, S, L, got, want))
								}
							}
						}
					}
					switch {
					case undecided != "":
						r.Undecided(rule, key, p.Pos(top), "the classification could not be evaluated: "+undecided)
					case len(bad) != 0:
						r.Bad(rule, key, p.Pos(top), fmt.Sprintf("%d of 18 cases are classified wrongly — %s: a data source in which the beginning of an inverted sequence does not occur says nothing about the sequence; counted as a failure it makes the stream fall out of `a then -b` (and so out of -(a then b)) although another source has a without b", len(bad), bad[0]))
					default:
						r.Ok(rule, key, p.Pos(top), "18 cases evaluated, all as in the table")
					}
				}
				// (2) the shortcut for "no data source had data"
				inspectShallow(l.Body(), func(x ast.Node) bool {
					ifs, ok := x.(*ast.IfStmt)
					if !ok {
						return true
					}
					be, ok := ast.Unparen(ifs.Cond).(*ast.BinaryExpr)
					if !ok || be.Op != token.EQL {
						return true
					}
					if k, isC := constInt(l.Pkg.TypesInfo, be.Y); !isC || k != 0 {
						return true
					}
					// a counter of evaluated sources: a local that is incremented in a loop
					o := identObj(l.Pkg.TypesInfo, be.X)
					if o == nil {
						return true
					}
					counted := false
					ast.Inspect(l.Body(), func(y ast.Node) bool {
						if id, ok := y.(*ast.IncDecStmt); ok && identObj(l.Pkg.TypesInfo, id.X) == o {
							counted = true
						}
						return true
					})
					if !counted {
						return true
					}
					// inside: for … range conditions { if COND { return false } }
					ast.Inspect(ifs.Body, func(y ast.Node) bool {
						rs, ok := y.(*ast.RangeStmt)
						if !ok {
							return true
						}
						for _, st := range rs.Body.List {
							inner, ok := st.(*ast.IfStmt)
							if !ok || len(inner.Body.List) == 0 {
								continue
							}
							ret, ok := inner.Body.List[len(inner.Body.List)-1].(*ast.ReturnStmt)
							if !ok || len(ret.Results) == 0 {
								continue
							}
							if tv, ok := l.Pkg.TypesInfo.Types[ret.Results[0]]; !ok || tv.Value == nil || tv.Value.Kind() != constant.Bool || constant.BoolVal(tv.Value) {
								continue
							}
							n++
							key := fmt.Sprintf("%s without any data source only inverted single filters hold", l.Key())
							var bad []string
							undecided := ""
							for _, inv := range []bool{false, true} {
								for L := int64(1); L <= 3; L++ {
									env.inverted, env.l, env.s = inv, L, 0
									v, err := env.eval(inner.Cond)
									if err != nil || !v.isBool {
										undecided = fmt.Sprint(err)
										continue
									}
									mustReject := !(inv && L == 1)
									if mustReject && !v.b {
										bad = append(bad, fmt.Sprintf("Inverted=%v with %d elements is accepted", inv, L))
									}
								}
							}
							switch {
							case undecided != "":
								r.Undecided(rule, key, p.Pos(inner), "the rejecting test could not be evaluated: "+undecided)
							case len(bad) != 0:
								r.Bad(rule, key, p.Pos(inner), "with no data source to search, "+bad[0]+": the beginning of the sequence cannot have been found, yet `cdata.conv:\"login\" then -sdata.conv:\"ok\"` selects every stream without output of conv")
							default:
								r.Ok(rule, key, p.Pos(inner), "6 cases evaluated")
							}
						}
						return true
					})
					return true
				})
			}
			// (3) the verdict over all data sources, for conditions without sub-query variants
			for _, l := range append([]*Fn{f}, f.Lits...) {
				if l.Body() == nil {
					continue
				}
				info := l.Pkg.TypesInfo
				pgT := p.Named("index", "progressGroup")
				inspectShallow(l.Body(), func(x ast.Node) bool {
					rs, ok := x.(*ast.RangeStmt)
					if !ok || rs.Value == nil || pgT == nil {
						return true
					}
					// for …, pg := range progressGroups, with a `return false` on pg.successes
					vo := identObj(info, rs.Value)
					if vo == nil {
						return true
					}
					if nt := namedOf(vo.Type()); nt == nil || nt.Obj() != pgT.Obj() {
						return true
					}
					readsSucc := false
					ast.Inspect(rs.Body, func(y ast.Node) bool {
						if se, ok := y.(*ast.SelectorExpr); ok && info.Uses[se.Sel] == types.Object(succF) {
							readsSucc = true
						}
						return true
					})
					if !readsSucc {
						return true
					}
					// the local that counts the evaluated data sources: compared with a sum of counters
					var evaluated types.Object
					ast.Inspect(rs.Body, func(y ast.Node) bool {
						be, ok := y.(*ast.BinaryExpr)
						if !ok || (be.Op != token.EQL && be.Op != token.NEQ) {
							return true
						}
						if o := identObj(info, be.Y); o != nil {
							if _, isVar := o.(*types.Var); isVar && !o.(*types.Var).IsField() {
								mentions := false
								ast.Inspect(be.X, func(z ast.Node) bool {
									if se, ok := z.(*ast.SelectorExpr); ok && info.Uses[se.Sel] == types.Object(succF) {
										mentions = true
									}
									return true
								})
								if mentions && evaluated == nil {
									evaluated = o
								}
							}
						}
						return true
					})
					n++
					key := fmt.Sprintf("%s verdict over all data sources", l.Key())
					env.info, env.body, env.agg = info, l.Body(), true
					env.succF, env.failF, env.evaluatedLocal = succF, failsF, evaluated
					var bad []string
					undecided := ""
					cases := 0
					for _, inv := range []bool{false, true} {
						for sN := int64(0); sN <= 2; sN++ {
							for fN := int64(0); fN <= 2; fN++ {
								for nN := int64(0); nN <= 2; nN++ {
									if sN+fN+nN == 0 || (!inv && nN != 0) {
										continue
									}
									cases++
									env.inverted, env.nSucc, env.nFail, env.nNeutral = inv, sN, fN, nN
									o, err := env.execAgg(rs.Body)
									if err != nil {
										undecided = err.Error()
										continue
									}
									if o == aggVariants {
										undecided = fmt.Sprintf("Inverted=%v successes=%d fails=%d neither=%d enters the code for sub-query variants although every source gave one answer", inv, sN, fN, nN)
										continue
									}
									holds := sN > 0
									if inv {
										holds = sN > 0 && fN == 0
									}
									got := o != aggReject
									if got != holds {
										bad = append(bad, fmt.Sprintf("Inverted=%v with %d sources proving, %d vetoing/failing, %d without the beginning: condition %s, must %s", inv, sN, fN, nN, map[bool]string{true: "holds", false: "is rejected"}[got], map[bool]string{true: "hold", false: "be rejected"}[holds]))
									}
								}
							}
						}
					}
					env.agg = false
					switch {
					case undecided != "":
						r.Undecided(rule, key, p.Pos(rs), "the verdict could not be evaluated: "+undecided)
					case len(bad) != 0:
						r.Bad(rule, key, p.Pos(rs), fmt.Sprintf("%d of %d cases decided wrongly — %s. A plain filter holds when one representation of the stream proves it; an inverted one when none contains the whole sequence and one contains its beginning without the last element", len(bad), cases, bad[0]))
					default:
						r.Ok(rule, key, p.Pos(rs), fmt.Sprintf("%d combinations of per-source answers evaluated", cases))
					}
					return true
				})
			}
			r.Floor(rule, 3, n)
		})
}
