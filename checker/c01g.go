package main

// c01g.go: C01-g / C07-m stored time offsets are re-based by whole seconds.
//
// An index file stores the reference time of its streams as whole seconds (header.FirstPacketTime) and every stream's
// first/last packet time as a nanosecond offset from it. When the reference moves — a stream that starts earlier is
// added, or a file with an earlier reference is merged in — the offsets of the records collected so far are shifted by
// old reference − new reference. Both are whole seconds, so the shift is a whole number of seconds; a shift computed
// from a raw packet timestamp (seeded C01k: oldReferenceTime.Sub(firstPacketTs)) moves every stored stream by the
// sub-second part of that timestamp.
//
// Rule (closed-form evaluation, unit "whole seconds"): in package index every `x.FirstPacketTimeNS += E` /
// `x.LastPacketTimeNS += E` (and -=) has an E that is a whole number of seconds by construction:
//
//	whole(E)   E = k·10⁹ (constant), T(E'), E'·c or c·E' with one factor whole, E' ± E'' both whole,
//	           D.Nanoseconds() with wholeDur(D), a local all of whose definitions are whole
//	wholeDur   X.Sub(Y) with secTime(X) and secTime(Y), n·time.Second, a local …
//	secTime    time.Unix(s, 0), X.Truncate(time.Second), a local …

import (
	"fmt"
	"go/ast"
	"go/token"
	"go/types"
)

func init() {
	const expl = "(closed-form evaluation of a unit): in package index every `+=`/`-=` on a stored FirstPacketTimeNS/LastPacketTimeNS adds a whole number of seconds by construction — k·10⁹, a product with such a factor, sums of such values, Nanoseconds() of the difference of two time.Unix(s, 0) values, locals defined only by such expressions. The reference time of a file is stored in whole seconds, so re-basing the offsets collected so far by anything else (a raw packet timestamp) shifts every stored stream by a sub-second amount: what is read back is not what was written."
	register("C01", "C01-g "+expl, func(p *Prog, r *Res) { ruleRebaseWholeSeconds(p, r, "C01-g rebase-by-whole-seconds") })
	register("C07", "C07-m "+expl, func(p *Prog, r *Res) { ruleRebaseWholeSeconds(p, r, "C07-m rebase-by-whole-seconds") })
}

func ruleRebaseWholeSeconds(p *Prog, r *Res, rule string) {
	r.Rule(rule + ": stored time offsets are shifted by whole seconds only")
	first := p.Field("index", "stream", "FirstPacketTimeNS")
	last := p.Field("index", "stream", "LastPacketTimeNS")
	if first == nil || last == nil {
		p.anchorFail("index.stream.FirstPacketTimeNS / LastPacketTimeNS")
		return
	}
	n := 0
	for _, f := range p.FnList {
		if f.Short != "index" || f.Body() == nil || f.Lit != nil {
			continue
		}
		info := f.Pkg.TypesInfo
		whole := wholeSecondsEval(p, f, 3)
		inspectShallow(f.Body(), func(x ast.Node) bool {
			as, ok := x.(*ast.AssignStmt)
			if !ok || (as.Tok != token.ADD_ASSIGN && as.Tok != token.SUB_ASSIGN) || len(as.Lhs) != 1 || len(as.Rhs) != 1 {
				return true
			}
			if !isFieldOf(info, as.Lhs[0], first) && !isFieldOf(info, as.Lhs[0], last) {
				return true
			}
			n++
			key := fmt.Sprintf("%s %s %s %s", f.Key(), exprString(p.Fset, as.Lhs[0]), as.Tok, exprString(p.Fset, as.Rhs[0]))
			r.Check(whole(as.Rhs[0], 5), rule, key, p.Pos(as), "the shift is a whole number of seconds by construction", "the shift "+exprString(p.Fset, as.Rhs[0])+" is not a whole number of seconds by construction (a difference of two time.Unix(s, 0) reference times, or seconds times 10⁹): the file's reference time is stored in whole seconds, so every stream collected so far is read back shifted by the sub-second remainder")
			return true
		})
	}
	r.Floor(rule, 4, n)
}

// wholeSecondsEval returns the predicate "e is a whole number of seconds by construction" for expressions of f.
// A parameter of f is whole when every static call site in the package passes a whole argument (callDepth levels).
func wholeSecondsEval(p *Prog, f *Fn, callDepth int) func(e ast.Expr, depth int) bool {
	info := f.Pkg.TypesInfo
	defsOf := func(o types.Object) []ast.Expr {
		var out []ast.Expr
		bad := false
		ast.Inspect(f.Body(), func(x ast.Node) bool {
			switch s := x.(type) {
			case *ast.AssignStmt:
				for i, l := range s.Lhs {
					if identObj(info, l) != o {
						continue
					}
					if (s.Tok == token.DEFINE || s.Tok == token.ASSIGN) && len(s.Lhs) == len(s.Rhs) {
						out = append(out, s.Rhs[i])
					} else {
						bad = true
					}
				}
			case *ast.IncDecStmt:
				if identObj(info, s.X) == o {
					bad = true
				}
			case *ast.ValueSpec:
				for i, nm := range s.Names {
					if info.Defs[nm] == o {
						if i < len(s.Values) {
							out = append(out, s.Values[i])
						} else {
							bad = true
						}
					}
				}
			}
			return true
		})
		if bad {
			return nil
		}
		return out
	}
	const second = int64(1000000000)
	var whole, wholeDur, secTime func(e ast.Expr, depth int) bool
	localAll := func(e ast.Expr, pred func(ast.Expr, int) bool, depth int) bool {
		o := identObj(info, e)
		if o == nil || depth <= 0 {
			return false
		}
		if v, ok := o.(*types.Var); !ok || v.IsField() || v.Pkg() != f.Pkg.Types || !(f.Body().Pos() <= v.Pos() && v.Pos() < f.Body().End()) {
			return false
		}
		ds := defsOf(o)
		if len(ds) == 0 {
			return false
		}
		for _, d := range ds {
			if !pred(d, depth-1) {
				return false
			}
		}
		return true
	}
	whole = func(e ast.Expr, depth int) bool {
		if k, ok := constInt(info, e); ok {
			return k%second == 0
		}
		e = stripConv(info, e)
		if k, ok := constInt(info, e); ok {
			return k%second == 0
		}
		switch x := e.(type) {
		case *ast.BinaryExpr:
			switch x.Op {
			case token.MUL:
				return whole(x.X, depth) || whole(x.Y, depth)
			case token.ADD, token.SUB:
				return whole(x.X, depth) && whole(x.Y, depth)
			}
		case *ast.CallExpr:
			if se, ok := ast.Unparen(x.Fun).(*ast.SelectorExpr); ok && se.Sel.Name == "Nanoseconds" && len(x.Args) == 0 {
				return wholeDur(se.X, depth)
			}
		case *ast.Ident:
			if localAll(x, whole, depth) {
				return true
			}
			// a parameter: whole when every call site passes a whole value
			if o := info.Uses[x]; o != nil && callDepth > 0 && f.Decl != nil {
				if pi := paramIndex(f, o); pi >= 0 {
					fobj, _ := info.Defs[f.Decl.Name].(*types.Func)
					sites, all := 0, true
					for _, g := range p.FnList {
						if g.Pkg != f.Pkg || g.Body() == nil || g.Lit != nil {
							continue
						}
						var ev func(ast.Expr, int) bool
						inspectShallow(g.Body(), func(y ast.Node) bool {
							c, ok := y.(*ast.CallExpr)
							if !ok || fobj == nil || p.Callee(g.Pkg, c) != fobj || pi >= len(c.Args) {
								return true
							}
							sites++
							if ev == nil {
								ev = wholeSecondsEval(p, g, callDepth-1)
							}
							if !ev(c.Args[pi], 5) {
								all = false
							}
							return true
						})
					}
					return sites > 0 && all
				}
			}
			return false
		}
		return false
	}
	wholeDur = func(e ast.Expr, depth int) bool {
		e = ast.Unparen(e)
		if t := info.TypeOf(e); t == nil || types.TypeString(t, nil) != "time.Duration" {
			return false
		}
		if k, ok := constInt(info, e); ok {
			return k%second == 0
		}
		switch x := e.(type) {
		case *ast.CallExpr:
			if se, ok := ast.Unparen(x.Fun).(*ast.SelectorExpr); ok && se.Sel.Name == "Sub" && len(x.Args) == 1 {
				return secTime(se.X, depth) && secTime(x.Args[0], depth)
			}
		case *ast.BinaryExpr:
			if x.Op == token.MUL {
				return wholeDur(x.X, depth) || wholeDur(x.Y, depth)
			}
			if x.Op == token.ADD || x.Op == token.SUB {
				return wholeDur(x.X, depth) && wholeDur(x.Y, depth)
			}
		case *ast.Ident:
			return localAll(x, wholeDur, depth)
		}
		return false
	}
	secTime = func(e ast.Expr, depth int) bool {
		e = ast.Unparen(e)
		switch x := e.(type) {
		case *ast.CallExpr:
			if fn := p.Callee(f.Pkg, x); fn != nil {
				if fn.FullName() == "time.Unix" && len(x.Args) == 2 {
					k, ok := constInt(info, x.Args[1])
					return ok && k%second == 0
				}
				if fn.FullName() == "(time.Time).Truncate" && len(x.Args) == 1 {
					k, ok := constInt(info, x.Args[0])
					return ok && k != 0 && k%second == 0
				}
			}
		case *ast.Ident:
			return localAll(x, secTime, depth)
		}
		return false
	}
	return whole
}
