package main

// c05.go: structural necessary conditions of C05 (indexed payload equals what the endpoints exchanged).
//
// The body of C05 — byte-exact payload for every segmentation, reordering and file cut — is decided by
// gopacket/reassembly at run time and is NOT decided here. Decided are five disciplines the bookkeeping around the
// reassembler rests on:
//
//   C05-a rollback-on-refusal    once Writer.AddStream has registered an undo action or changed writer state, every
//                                refusing return (`return false, …`) is preceded by a call of the undo closure
//   C05-b parallel-lists         Stream.Packets and Stream.PacketDirections are appended pairwise on every path
//   C05-c endpoint-roles         both stream factories derive client from Src and server from Dst, addresses from the
//                                network flow and ports from the transport flow, and set the same fields
//   C05-d attribution-siblings   the TCP and the UDP path attribute bytes to a packet with the same key and record the
//                                index of the packet that was found
//   C05-e dispatch-exhaustive    every switch over the packet direction / the stream protocol in Writer.AddStream has a
//                                case for both values

import (
	"fmt"
	"go/ast"
	"go/token"
	"go/types"
	"sort"
	"strings"
)

func init() {
	register("C05",
		"C05 (structural necessary conditions only; byte-exact payload under every segmentation, reordering, retransmission and file cut is the work of gopacket/reassembly on runtime values and is NOT decided). C05-a (FLOW): in (*index.Writer).AddStream and AddIndex every refusing return (`return false, nil`: the caller keeps using the writer; a return with an error aborts the import or merge and discards every writer), reachable from a point after writer state was changed or an undo action was registered, passes a call of the undo closure — a refused stream that leaves packets, hosts or data behind shifts the records of every later stream of that file. C05-b (FLOW): in package streams every append to Stream.Packets is followed on every path to the end of the function by an append to Stream.PacketDirections before the next append to Packets, and vice versa: payload chunks name their packet by index, and the direction of a chunk is PacketDirections[index]. C05-c (sibling agreement): StreamFactory.New and NewUDP set the same endpoint fields, client from Src() and server from Dst(), addresses from the network flow (first parameter) and ports from the transport flow (second). C05-d (sibling agreement): Stream.ReassembledSG and Stream.AddUDPPacket look the packet up with the same key fields and store the index the search stopped at. C05-e (EXH): switches over the packet direction and the stream protocol in AddStream cover both constants. C05-f (FLOW): every path through udpreassembly.Assembler.AssembleWithContext passes a call of Stream.AddUDPPacket, and every path through Stream.Accept / AddUDPPacket passes the append to Stream.Packets: a datagram or segment that is not recorded is invisible — also when it carries no payload (it still opens the flow, fixes who is the client, and keeps the flow alive). C05-g (typed AST): outside the composite literals of the factories the flag word Stream.Flags is only changed by read-modify-write (|=, &^=, ^=, or an expression that reads the field): it holds the protocol bit and the completion bit side by side.",
		ruleC05Rollback, ruleC05Parallel, ruleC05Factories, ruleC05Attribution, ruleC05Dispatch, ruleC05EveryDatagram, ruleC05FlagWord)
}

func ruleC05Rollback(p *Prog, r *Res) {
	const rule = "C05-a rollback-on-refusal"
	r.Rule(rule + ": a refusal after a change of writer state passes the undo closure")
	total := 0
	for _, name := range []string{"index.Writer.AddStream", "index.Writer.AddIndex"} {
		f := p.Fn(name)
		if f == nil {
			continue
		}
		total += rollbackIn(p, r, rule, f)
	}
	r.Floor(rule, 3, total)
}

// rollbackIn checks the rollback discipline in one method of Writer and returns the number of refusing returns.
func rollbackIn(p *Prog, r *Res, rule string, f *Fn) int {
	info := f.Pkg.TypesInfo
	recv := f.Decl.Recv
	var w types.Object
	if recv != nil && len(recv.List) == 1 && len(recv.List[0].Names) == 1 {
		w = info.Defs[recv.List[0].Names[0]]
	}
	if w == nil {
		p.anchorFail("receiver of %s", f.Key())
		return 0
	}
	isUndoFuncSlice := func(t types.Type) bool {
		sl, ok := t.Underlying().(*types.Slice)
		if !ok {
			return false
		}
		sig, ok := sl.Elem().Underlying().(*types.Signature)
		return ok && sig.Params().Len() == 0 && sig.Results().Len() == 0
	}
	// the undo list: a local whose type is a slice of func()
	var undoList types.Object
	inspectShallow(f.Body(), func(x ast.Node) bool {
		if as, ok := x.(*ast.AssignStmt); ok && as.Tok == token.DEFINE && undoList == nil {
			for _, l := range as.Lhs {
				if o := identObj(info, l); o != nil && isUndoFuncSlice(o.Type()) {
					undoList = o
				}
			}
		}
		if vs, ok := x.(*ast.ValueSpec); ok && undoList == nil {
			for _, id := range vs.Names {
				if o := info.Defs[id]; o != nil && isUndoFuncSlice(o.Type()) {
					undoList = o
				}
			}
		}
		return true
	})
	if undoList == nil {
		p.anchorFail("undo list (a local []func()) in %s", f.Key())
		return 0
	}
	// what a function body does with the list: runs every element / appends to it
	classifyBody := func(body *ast.BlockStmt, binfo *types.Info, isList func(ast.Expr) bool) string {
		kind := ""
		ast.Inspect(body, func(y ast.Node) bool {
			switch s := y.(type) {
			case *ast.RangeStmt:
				x := ast.Unparen(s.X)
				if st, ok := x.(*ast.StarExpr); ok {
					x = ast.Unparen(st.X)
				}
				if isList(x) {
					if v := identObj(binfo, s.Value); v != nil {
						for _, c := range callsIn(s.Body) {
							if identObj(binfo, c.Fun) == v {
								kind = "run"
							}
						}
					}
				}
			case *ast.CallExpr:
				if isBuiltin(binfo, s, "append") && len(s.Args) >= 1 {
					x := ast.Unparen(s.Args[0])
					if st, ok := x.(*ast.StarExpr); ok {
						x = ast.Unparen(st.X)
					}
					if isList(x) && kind == "" {
						kind = "add"
					}
				}
			}
			return true
		})
		return kind
	}
	methodKind := func(sel *ast.SelectorExpr) string {
		if identObj(info, sel.X) != undoList {
			return ""
		}
		fn, ok := info.Uses[sel.Sel].(*types.Func)
		if !ok {
			return ""
		}
		mf := p.FnOfObj(fn)
		if mf == nil || mf.Body() == nil || mf.Decl.Recv == nil || len(mf.Decl.Recv.List[0].Names) != 1 {
			return ""
		}
		ro := mf.Pkg.TypesInfo.Defs[mf.Decl.Recv.List[0].Names[0]]
		return classifyBody(mf.Body(), mf.Pkg.TypesInfo, func(e ast.Expr) bool { return identObj(mf.Pkg.TypesInfo, e) == ro })
	}
	// locals bound to the runner / the registrar
	localKind := map[types.Object]string{}
	inspectShallow(f.Body(), func(x ast.Node) bool {
		as, ok := x.(*ast.AssignStmt)
		if !ok || len(as.Lhs) != len(as.Rhs) {
			return true
		}
		for i, rh := range as.Rhs {
			o := identObj(info, as.Lhs[i])
			if o == nil {
				continue
			}
			switch v := ast.Unparen(rh).(type) {
			case *ast.FuncLit:
				if k := classifyBody(v.Body, info, func(e ast.Expr) bool { return identObj(info, e) == undoList }); k != "" {
					localKind[o] = k
				}
			case *ast.SelectorExpr:
				if k := methodKind(v); k != "" {
					localKind[o] = k
				}
			}
		}
		return true
	})
	callKind := func(c *ast.CallExpr) string {
		if o := identObj(info, c.Fun); o != nil {
			return localKind[o]
		}
		if sel, ok := ast.Unparen(c.Fun).(*ast.SelectorExpr); ok {
			return methodKind(sel)
		}
		return ""
	}
	fl := p.Flow(f)
	hasKind := func(nd ast.Node, k string) bool {
		return fl.hasCall(nd, func(c *ast.CallExpr) bool { return callKind(c) == k })
	}
	anyRun, anyAdd := false, false
	for _, c := range callsIn(f.Body()) {
		switch callKind(c) {
		case "run":
			anyRun = true
		case "add":
			anyAdd = true
		}
	}
	if !anyRun || !anyAdd {
		p.anchorFail("undo closure / registrar in %s", f.Key())
		return 0
	}
	isUndo := func(nd ast.Node) bool { return hasKind(nd, "run") }
	// state changes: registrations, stores into / through the receiver
	changes := func(nd ast.Node) bool {
		if hasKind(nd, "add") {
			return true
		}
		if as, ok := nd.(*ast.AssignStmt); ok {
			for _, l := range as.Lhs {
				if ri := rootIdentOf(l); ri != nil && info.Uses[ri] == w {
					if _, plain := ast.Unparen(l).(*ast.Ident); !plain {
						return true
					}
				}
			}
		}
		return false
	}
	refuses := func(nd ast.Node) bool {
		ret, ok := nd.(*ast.ReturnStmt)
		if !ok || len(ret.Results) == 0 {
			return false
		}
		id, ok := ast.Unparen(ret.Results[0]).(*ast.Ident)
		if !ok || id.Name != "false" {
			return false
		}
		// a return with an error aborts the whole import / merge: every writer is closed and its file removed, so only the
		// plain refusal (nil error) — after which the caller keeps using this writer — has to restore it
		last, ok := ast.Unparen(ret.Results[len(ret.Results)-1]).(*ast.Ident)
		return ok && last.Name == "nil"
	}
	var starts []Pt
	nChanges := 0
	for _, pt := range fl.Find(changes) {
		starts = append(starts, After(pt))
		nChanges++
	}
	nRef := 0
	for _, pt := range fl.Find(refuses) {
		ret := fl.node(pt)
		nRef++
		key := fmt.Sprintf("%s refusal@%s", f.Key(), relLine(p, f, ret))
		res := fl.Reach(starts, func(nd ast.Node) bool { return nd == ret }, isUndo)
		r.Check(!res.Found, rule, key, p.Pos(ret), "not reachable from a change of writer state without running the undo list", "the input is refused after the writer was changed ("+fl.traceString(res)+") and the undo list is not run: what was written for the refused stream or file stays in this index file and shifts the packets, hosts or data of everything added later")
	}
	r.Note("%s: %s: %d state changes / registrations, %d refusing returns", rule, f.Key(), nChanges, nRef)
	return nRef
}

func ruleC05Parallel(p *Prog, r *Res) {
	const rule = "C05-b parallel-lists-appended-pairwise"
	r.Rule(rule + ": Stream.Packets and Stream.PacketDirections grow together")
	pk, pd := p.Field("streams", "Stream", "Packets"), p.Field("streams", "Stream", "PacketDirections")
	if pk == nil || pd == nil {
		p.anchorFail("streams.Stream.Packets / PacketDirections")
		return
	}
	n := 0
	for _, f := range p.FnList {
		if f.Body() == nil {
			continue
		}
		info := f.Pkg.TypesInfo
		appendsTo := func(nd ast.Node, fld *types.Var) bool {
			as, ok := nd.(*ast.AssignStmt)
			if !ok {
				return false
			}
			for i, l := range as.Lhs {
				if isFieldOf(info, l, fld) && i < len(as.Rhs) {
					if c, ok := ast.Unparen(as.Rhs[i]).(*ast.CallExpr); ok && isBuiltin(info, c, "append") {
						return true
					}
					return true // any other assignment changes the length as well
				}
			}
			return false
		}
		has := false
		inspectShallow(f.Body(), func(x ast.Node) bool {
			if appendsTo(x, pk) || appendsTo(x, pd) {
				has = true
			}
			return !has
		})
		if !has {
			continue
		}
		fl := p.Flow(f)
		for _, pair := range [][2]*types.Var{{pk, pd}, {pd, pk}} {
			a, b := pair[0], pair[1]
			for _, pt := range fl.Find(func(nd ast.Node) bool { return appendsTo(nd, a) }) {
				n++
				key := fmt.Sprintf("%s append to %s@%s", f.Key(), a.Name(), relLine(p, f, fl.node(pt)))
				// the partner: either it directly precedes in the same straight-line code, or it follows on every path
				precedes := false
				for i := 0; i < pt.I; i++ {
					if appendsTo(pt.B.Nodes[i], b) {
						precedes = true
					}
					if appendsTo(pt.B.Nodes[i], a) {
						precedes = false
					}
				}
				if precedes {
					r.Ok(rule, key, p.Pos(fl.node(pt)), "paired with the append to "+b.Name()+" directly before it")
					continue
				}
				isB := func(nd ast.Node) bool { return appendsTo(nd, b) }
				res := fl.ExitAvoiding([]Pt{After(pt)}, isB)
				miss := res.Found || fallsOffEndAvoiding(fl, After(pt), isB)
				r.Check(!miss, rule, key, p.Pos(fl.node(pt)), "followed on every path by the append to "+b.Name(), a.Name()+" grows without "+b.Name()+" ("+fl.traceString(res)+"): payload chunks name their packet by index and take their direction from PacketDirections[index], so every later chunk of the stream is attributed to the wrong side")
			}
		}
	}
	r.Floor(rule, 4, n)
}

func ruleC05Factories(p *Prog, r *Res) {
	const rule = "C05-c endpoint-roles-agree"
	r.Rule(rule + ": both stream factories derive client/server, address/port the same way")
	fns := []*Fn{p.Fn("streams.StreamFactory.New"), p.Fn("streams.StreamFactory.NewUDP")}
	if fns[0] == nil || fns[1] == nil {
		return
	}
	type role struct{ side, flow string }
	want := map[string]role{"ClientAddr": {"Src", "0"}, "ServerAddr": {"Dst", "0"}, "ClientPort": {"Src", "1"}, "ServerPort": {"Dst", "1"}}
	sets := make([]map[string]bool, 2)
	for k, f := range fns {
		info := f.Pkg.TypesInfo
		sets[k] = map[string]bool{}
		var lit *ast.CompositeLit
		inspectShallow(f.Body(), func(x ast.Node) bool {
			if cl, ok := x.(*ast.CompositeLit); ok && lit == nil {
				if nt := namedOf(info.TypeOf(cl)); nt != nil && nt.Obj().Name() == "Stream" {
					lit = cl
				}
			}
			return true
		})
		if lit == nil {
			p.anchorFail("Stream literal in %s", f.Key())
			continue
		}
		for _, e := range lit.Elts {
			kv, ok := e.(*ast.KeyValueExpr)
			if !ok {
				continue
			}
			name := kv.Key.(*ast.Ident).Name
			if ast.IsExported(name) {
				sets[k][name] = true
			}
			w, isRole := want[name]
			if !isRole {
				continue
			}
			sides := map[string]bool{}
			flows := map[string]bool{}
			// locals with a single definition stand for their defining expression (src := netFlow.Src())
			var exprs []ast.Node
			exprs = append(exprs, kv.Value)
			for depth := 0; depth < 3; depth++ {
				var more []ast.Node
				for _, ex := range exprs {
					ast.Inspect(ex, func(y ast.Node) bool {
						id, ok := y.(*ast.Ident)
						if !ok {
							return true
						}
						o := info.Uses[id]
						if o == nil || paramObj(f, 0) == o || paramObj(f, 1) == o {
							return true
						}
						var def ast.Expr
						nDef := 0
						inspectShallow(f.Body(), func(z ast.Node) bool {
							if as, ok := z.(*ast.AssignStmt); ok {
								for i, l := range as.Lhs {
									if identObj(info, l) == o {
										nDef++
										if len(as.Lhs) == len(as.Rhs) {
											def = as.Rhs[i]
										} else if len(as.Rhs) == 1 {
											def = as.Rhs[0]
										}
									}
								}
							}
							return true
						})
						if nDef == 1 && def != nil {
							if _, isLit := def.(*ast.FuncLit); !isLit {
								more = append(more, def)
							}
						}
						return true
					})
				}
				if len(more) == 0 {
					break
				}
				exprs = append(exprs, more...)
			}
			root := &ast.BlockStmt{}
			for _, ex := range exprs {
				if e, ok := ex.(ast.Expr); ok {
					root.List = append(root.List, &ast.ExprStmt{X: e})
				}
			}
			ast.Inspect(root, func(y ast.Node) bool {
				if c, ok := y.(*ast.CallExpr); ok {
					if se, ok := ast.Unparen(c.Fun).(*ast.SelectorExpr); ok && (se.Sel.Name == "Src" || se.Sel.Name == "Dst") {
						sides[se.Sel.Name] = true
						if o := identObj(info, se.X); o != nil {
							for i := 0; i < 2; i++ {
								if paramObj(f, i) == o {
									flows[fmt.Sprint(i)] = true
								}
							}
						}
					}
				}
				return true
			})
			key := fmt.Sprintf("%s %s", f.Key(), name)
			ok2 := len(sides) == 1 && sides[w.side] && len(flows) == 1 && flows[w.flow]
			r.Check(ok2, rule, key, p.Pos(kv), fmt.Sprintf("from %s() of parameter %s", w.side, w.flow), fmt.Sprintf("%s is taken from %v of parameter(s) %v, expected %s() of the %s flow: client and server (or address and port) of every stream of this protocol are swapped", name, keysOf(sides), keysOf(flows), w.side, map[string]string{"0": "network", "1": "transport"}[w.flow]))
		}
	}
	var diff []string
	for k := range sets[0] {
		if !sets[1][k] {
			diff = append(diff, k+" (only New)")
		}
	}
	for k := range sets[1] {
		if !sets[0][k] {
			diff = append(diff, k+" (only NewUDP)")
		}
	}
	sort.Strings(diff)
	r.Check(len(diff) == 0, rule, "streams.StreamFactory.New / NewUDP set the same exported fields", p.Pos(fns[0].Node()), "same exported fields: "+strings.Join(keysOf(sets[0]), ", "), "the factories differ in "+strings.Join(diff, ", ")+": streams of one protocol lack an endpoint field the other sets")
}

func keysOf(m map[string]bool) []string {
	var l []string
	for k := range m {
		l = append(l, k)
	}
	sort.Strings(l)
	return l
}

func ruleC05Attribution(p *Prog, r *Res) {
	const rule = "C05-d attribution-siblings-agree"
	r.Rule(rule + ": TCP and UDP attribute payload to packets by the same key and record the found index")
	fns := []*Fn{p.Fn("streams.Stream.ReassembledSG"), p.Fn("streams.Stream.AddUDPPacket")}
	if fns[0] == nil || fns[1] == nil {
		return
	}
	// keys compared by a search loop: `x.F != y.F` / `x.F == y.F` between two different values
	loopKeys := func(loop *ast.ForStmt) map[string]bool {
		m := map[string]bool{}
		ast.Inspect(loop.Body, func(y ast.Node) bool {
			if be, ok := y.(*ast.BinaryExpr); ok && (be.Op == token.NEQ || be.Op == token.EQL) {
				sx, okx := ast.Unparen(be.X).(*ast.SelectorExpr)
				sy, oky := ast.Unparen(be.Y).(*ast.SelectorExpr)
				if okx && oky && sx.Sel.Name == sy.Sel.Name {
					m[sx.Sel.Name] = true
				}
			}
			return true
		})
		return m
	}
	loopVar := func(info *types.Info, loop *ast.ForStmt) types.Object {
		if as, ok := loop.Init.(*ast.AssignStmt); ok && len(as.Lhs) == 1 {
			return identObj(info, as.Lhs[0])
		}
		return nil
	}
	mentions := func(info *types.Info, e ast.Node, o types.Object) bool {
		hit := false
		ast.Inspect(e, func(z ast.Node) bool {
			if id, ok := z.(*ast.Ident); ok && o != nil && info.Uses[id] == o {
				hit = true
			}
			return !hit
		})
		return hit
	}
	// searchOf: the search loop that produces the value of expr in f — an enclosing loop of the literal, or the loop of a
	// package helper whose result expr is (a return inside the loop that mentions the loop variable)
	var searchOf func(f *Fn, lit ast.Node, expr ast.Expr, depth int) (map[string]bool, string)
	searchOf = func(f *Fn, lit ast.Node, expr ast.Expr, depth int) (map[string]bool, string) {
		info := f.Pkg.TypesInfo
		var found map[string]bool
		where := ""
		// enclosing loops of the literal
		inspectParents(f.Body(), func(x ast.Node, parents []ast.Node) bool {
			if x != lit {
				return true
			}
			for _, par := range parents {
				if fs, ok := par.(*ast.ForStmt); ok {
					if iv := loopVar(info, fs); iv != nil && mentions(info, expr, iv) {
						found, where = loopKeys(fs), f.Key()
					}
				}
			}
			return true
		})
		// a loop in front of the literal that steps a variable of the expression and is left by `break`:
		// `i := len(s.Packets); for { i--; … break }; … PacketIndex: uint64(i)`
		if found == nil {
			inspectShallow(f.Body(), func(x ast.Node) bool {
				fs, ok := x.(*ast.ForStmt)
				if !ok || fs.End() > lit.Pos() {
					return true
				}
				steps := false
				check := func(e ast.Expr) {
					if o := identObj(info, e); o != nil && mentions(info, expr, o) {
						steps = true
					}
				}
				visit := func(y ast.Node) bool {
					switch st := y.(type) {
					case *ast.IncDecStmt:
						check(st.X)
					case *ast.AssignStmt:
						for _, l := range st.Lhs {
							check(l)
						}
					}
					return true
				}
				ast.Inspect(fs.Body, visit)
				if fs.Post != nil {
					ast.Inspect(fs.Post, visit)
				}
				hasBreak := false
				ast.Inspect(fs.Body, func(y ast.Node) bool {
					if br, ok := y.(*ast.BranchStmt); ok && br.Tok == token.BREAK {
						hasBreak = true
					}
					return true
				})
				if steps && hasBreak {
					found, where = loopKeys(fs), f.Key()
				}
				return true
			})
		}
		if found != nil || depth > 3 {
			return found, where
		}
		// through a single-definition local
		if id, ok := ast.Unparen(expr).(*ast.Ident); ok {
			o := info.Uses[id]
			var def ast.Expr
			var defStmt ast.Node
			nDef := 0
			inspectShallow(f.Body(), func(x ast.Node) bool {
				if as, ok := x.(*ast.AssignStmt); ok && len(as.Lhs) == len(as.Rhs) {
					for i, l := range as.Lhs {
						if identObj(info, l) == o {
							nDef++
							def, defStmt = as.Rhs[i], as
						}
					}
				}
				return true
			})
			if nDef == 1 {
				return searchOf(f, defStmt, def, depth+1)
			}
			return nil, ""
		}
		// through a helper call (possibly wrapped in a conversion)
		var call *ast.CallExpr
		ast.Inspect(expr, func(z ast.Node) bool {
			if c, ok := z.(*ast.CallExpr); ok && call == nil {
				if fn := p.Callee(f.Pkg, c); fn != nil && p.FnOfObj(fn) != nil {
					call = c
				}
			}
			return call == nil
		})
		if call == nil {
			return nil, ""
		}
		h := p.FnOfObj(p.Callee(f.Pkg, call))
		if h == nil || h.Body() == nil {
			return nil, ""
		}
		hinfo := h.Pkg.TypesInfo
		inspectShallow(h.Body(), func(x ast.Node) bool {
			fs, ok := x.(*ast.ForStmt)
			if !ok {
				return true
			}
			iv := loopVar(hinfo, fs)
			ast.Inspect(fs.Body, func(y ast.Node) bool {
				if ret, ok := y.(*ast.ReturnStmt); ok {
					for _, res := range ret.Results {
						if mentions(hinfo, res, iv) {
							found, where = loopKeys(fs), h.Key()
						}
					}
				}
				return true
			})
			return true
		})
		return found, where
	}
	keys := make([]map[string]bool, 2)
	wheres := make([]string, 2)
	for k, f := range fns {
		info := f.Pkg.TypesInfo
		nLit := 0
		inspectShallow(f.Body(), func(y ast.Node) bool {
			cl, ok := y.(*ast.CompositeLit)
			if !ok {
				return true
			}
			if nt := namedOf(info.TypeOf(cl)); nt == nil || nt.Obj().Name() != "StreamData" {
				return true
			}
			nLit++
			for _, e := range cl.Elts {
				kv, ok := e.(*ast.KeyValueExpr)
				if !ok || kv.Key.(*ast.Ident).Name != "PacketIndex" {
					continue
				}
				ks, where := searchOf(f, cl, kv.Value, 0)
				r.Check(ks != nil, rule, f.Key()+" PacketIndex is the index the search stopped at", p.Pos(kv), "PacketIndex is the loop variable of the packet search in "+where, "the chunk is attributed to "+types.ExprString(kv.Value)+", which is not the position the packet search stopped at: its direction and its place in the conversation are those of another packet")
				if ks != nil {
					keys[k], wheres[k] = ks, where
				}
			}
			return true
		})
		if nLit == 0 {
			p.anchorFail("StreamData literal in %s", f.Key())
		}
	}
	if keys[0] == nil || keys[1] == nil {
		return
	}
	same := len(keys[0]) == len(keys[1]) && len(keys[0]) >= 2
	for k := range keys[0] {
		if !keys[1][k] {
			same = false
		}
	}
	r.Check(same, rule, "streams.Stream.ReassembledSG / AddUDPPacket compare the same packet key", p.Pos(fns[0].Node()), "both compare {"+strings.Join(keysOf(keys[0]), ", ")+"} ("+wheres[0]+" / "+wheres[1]+")", "the TCP path identifies the packet by {"+strings.Join(keysOf(keys[0]), ", ")+"}, the UDP path by {"+strings.Join(keysOf(keys[1]), ", ")+"}: with the weaker key two packets of one stream are confused and a chunk gets the wrong direction")
}

func ruleC05Dispatch(p *Prog, r *Res) {
	const rule = "C05-e dispatch-exhaustive"
	r.Rule(rule + ": direction and protocol switches in AddStream cover both constants")
	f := p.Fn("index.Writer.AddStream")
	if f == nil {
		return
	}
	info := f.Pkg.TypesInfo
	n := 0
	inspectShallow(f.Body(), func(x ast.Node) bool {
		sw, ok := x.(*ast.SwitchStmt)
		if !ok || sw.Tag == nil {
			return true
		}
		t := info.TypeOf(sw.Tag)
		nt := namedOf(t)
		if nt == nil {
			return true
		}
		var want []string
		switch nt.Obj().Name() {
		case "TCPFlowDirection":
			want = []string{"TCPDirClientToServer", "TCPDirServerToClient"}
		case "StreamFlags":
			want = []string{"StreamFlagsProtocolTCP", "StreamFlagsProtocolUDP"}
		default:
			return true
		}
		n++
		have := map[string]bool{}
		for _, cc := range sw.Body.List {
			for _, e := range cc.(*ast.CaseClause).List {
				if se, ok := ast.Unparen(e).(*ast.SelectorExpr); ok {
					have[se.Sel.Name] = true
				}
				if id, ok := ast.Unparen(e).(*ast.Ident); ok {
					have[id.Name] = true
				}
			}
		}
		var missing []string
		for _, wnt := range want {
			if !have[wnt] {
				missing = append(missing, wnt)
			}
		}
		key := fmt.Sprintf("%s switch %s@%s", f.Key(), types.ExprString(sw.Tag), relLine(p, f, sw))
		r.Check(len(missing) == 0, rule, key, p.Pos(sw), "covers "+strings.Join(want, ", "), "no case for "+strings.Join(missing, ", ")+": packets or bytes of that side (streams of that protocol) are written without their flag / not counted")
		return true
	})
	r.Floor(rule, 3, n)
}

func ruleC05EveryDatagram(p *Prog, r *Res) {
	const rule = "C05-f every-packet-recorded"
	r.Rule(rule + ": no path through the UDP assembler or the stream's packet hooks skips the recording of the packet")
	addUDP := p.Method("streams", "Stream", "AddUDPPacket")
	pk := p.Field("streams", "Stream", "Packets")
	if addUDP == nil || pk == nil {
		return
	}
	n := 0
	if f := p.Fn("udpreassembly.Assembler.AssembleWithContext"); f != nil {
		n++
		fl := p.Flow(f)
		isAdd := func(nd ast.Node) bool {
			return fl.hasCall(nd, func(c *ast.CallExpr) bool { return p.Callee(f.Pkg, c) == addUDP })
		}
		res := fl.MustPass(isAdd)
		miss := res.Found || fallsOffEndAvoiding(fl, fl.Entry(), isAdd)
		r.Check(!miss, rule, f.Key()+" reaches Stream.AddUDPPacket on every path", p.Pos(f.Node()), "every path passes AddUDPPacket", "a datagram can leave the assembler without being handed to its stream ("+fl.traceString(res)+"): it is missing from the stream's packets; if it was the first of its flow the flow starts with the answer and client and server are swapped, if it was a keep-alive the flow times out and is split")
	}
	for _, name := range []string{"streams.Stream.Accept", "streams.Stream.AddUDPPacket"} {
		f := p.Fn(name)
		if f == nil {
			continue
		}
		n++
		info := f.Pkg.TypesInfo
		fl := p.Flow(f)
		isRec := func(nd ast.Node) bool {
			as, ok := nd.(*ast.AssignStmt)
			if !ok {
				return false
			}
			for _, l := range as.Lhs {
				if isFieldOf(info, l, pk) {
					return true
				}
			}
			return false
		}
		res := fl.MustPass(isRec)
		miss := res.Found || fallsOffEndAvoiding(fl, fl.Entry(), isRec)
		r.Check(!miss, rule, f.Key()+" records the packet on every path", p.Pos(f.Node()), "every path passes the append to Stream.Packets", "a packet can pass this hook without being recorded in Stream.Packets ("+fl.traceString(res)+"): it is missing from the stream (pcap export, packet count, first/last packet time)")
	}
	r.Floor(rule, 3, n)
}

func ruleC05FlagWord(p *Prog, r *Res) {
	const rule = "C05-g flag-word-read-modify-write"
	r.Rule(rule + ": Stream.Flags is changed only by read-modify-write outside the factories")
	fld := p.Field("streams", "Stream", "Flags")
	if fld == nil {
		return
	}
	n := 0
	for _, f := range p.FnList {
		if f.Body() == nil {
			continue
		}
		info := f.Pkg.TypesInfo
		inspectShallow(f.Body(), func(x ast.Node) bool {
			as, ok := x.(*ast.AssignStmt)
			if !ok {
				return true
			}
			for i, l := range as.Lhs {
				if !isFieldOf(info, l, fld) {
					continue
				}
				n++
				key := fmt.Sprintf("%s %s %s …", f.Key(), exprString(p.Fset, l), as.Tok)
				okRMW := as.Tok == token.OR_ASSIGN || as.Tok == token.AND_NOT_ASSIGN || as.Tok == token.XOR_ASSIGN || as.Tok == token.AND_ASSIGN
				if !okRMW && as.Tok == token.ASSIGN && i < len(as.Rhs) {
					ast.Inspect(as.Rhs[i], func(y ast.Node) bool {
						if se, ok := y.(*ast.SelectorExpr); ok && info.Uses[se.Sel] == types.Object(fld) {
							okRMW = true
						}
						return true
					})
				}
				r.Check(okRMW, rule, key, p.Pos(as), "read-modify-write", "the flag word is overwritten as a whole: the protocol bit set by the factory is lost (a UDP flow is written as TCP) or the completion bit is")
			}
			return true
		})
	}
	r.Floor(rule, 1, n)
}
