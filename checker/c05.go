package main

// c05.go: structural necessary conditions of C05 (indexed payload equals what the endpoints exchanged).
//
// The body of C05 — byte-exact payload for every segmentation, reordering and file cut — is decided by
// gopacket/reassembly at run time and is NOT decided here. Decided are five disciplines the bookkeeping around the
// reassembler rests on:
//
//   C05-a rollback-on-refusal    once Writer.AddStream has registered an undo action or changed writer state, every
//                                refusing return (`return false, …`) is preceded by a call of the undo closure
//   C05-b parallel-lists         Stream.Packets and Stream.PacketDirections are appended pairwise on every path
//   C05-c endpoint-roles         both stream factories derive client from Src and server from Dst, addresses from the
//                                network flow and ports from the transport flow, and set the same fields
//   C05-d attribution-siblings   the TCP and the UDP path attribute bytes to a packet with the same key and record the
//                                index of the packet that was found
//   C05-e dispatch-exhaustive    every switch over the packet direction / the stream protocol in Writer.AddStream has a
//                                case for both values

import (
	"fmt"
	"go/ast"
	"go/token"
	"go/types"
	"sort"
	"strings"
)

func init() {
	register("C05",
		"C05 (structural necessary conditions only; byte-exact payload under every segmentation, reordering, retransmission and file cut is the work of gopacket/reassembly on runtime values and is NOT decided). C05-a (FLOW): in (*index.Writer).AddStream every return whose first result is `false`, reachable from a point after writer state was changed or an undo action was registered, passes a call of the undo closure — a refused stream that leaves packets, hosts or data behind shifts the records of every later stream of that file. C05-b (FLOW): in package streams every append to Stream.Packets is followed on every path to the end of the function by an append to Stream.PacketDirections before the next append to Packets, and vice versa: payload chunks name their packet by index, and the direction of a chunk is PacketDirections[index]. C05-c (sibling agreement): StreamFactory.New and NewUDP set the same endpoint fields, client from Src() and server from Dst(), addresses from the network flow (first parameter) and ports from the transport flow (second). C05-d (sibling agreement): Stream.ReassembledSG and Stream.AddUDPPacket look the packet up with the same key fields and store the index the search stopped at. C05-e (EXH): switches over the packet direction and the stream protocol in AddStream cover both constants.",
		ruleC05Rollback, ruleC05Parallel, ruleC05Factories, ruleC05Attribution, ruleC05Dispatch)
}

func ruleC05Rollback(p *Prog, r *Res) {
	const rule = "C05-a rollback-on-refusal"
	r.Rule(rule + ": a refusal after a change of writer state passes the undo closure")
	f := p.Fn("index.Writer.AddStream")
	if f == nil {
		return
	}
	info := f.Pkg.TypesInfo
	recv := f.Decl.Recv
	var w types.Object
	if recv != nil && len(recv.List) == 1 && len(recv.List[0].Names) == 1 {
		w = info.Defs[recv.List[0].Names[0]]
	}
	if w == nil {
		p.anchorFail("receiver of index.Writer.AddStream")
		return
	}
	// the undo closure: a local func() whose body ranges over a local slice of func() and calls each; the registrar
	// appends to that slice
	var undoList, undoFn, registrar types.Object
	inspectShallow(f.Body(), func(x ast.Node) bool {
		as, ok := x.(*ast.AssignStmt)
		if !ok || len(as.Lhs) != 1 || len(as.Rhs) != 1 {
			return true
		}
		if cl, ok := as.Rhs[0].(*ast.CompositeLit); ok {
			if sl, ok := info.TypeOf(cl).Underlying().(*types.Slice); ok {
				if sig, ok := sl.Elem().Underlying().(*types.Signature); ok && sig.Params().Len() == 0 && sig.Results().Len() == 0 {
					undoList = identObj(info, as.Lhs[0])
				}
			}
		}
		if lit, ok := as.Rhs[0].(*ast.FuncLit); ok && undoList != nil {
			ranges, appends := false, false
			ast.Inspect(lit.Body, func(y ast.Node) bool {
				if rs, ok := y.(*ast.RangeStmt); ok && identObj(info, rs.X) == undoList {
					ranges = true
				}
				if c, ok := y.(*ast.CallExpr); ok && isBuiltin(info, c, "append") && len(c.Args) >= 1 && identObj(info, c.Args[0]) == undoList {
					appends = true
				}
				return true
			})
			if ranges {
				undoFn = identObj(info, as.Lhs[0])
			}
			if appends {
				registrar = identObj(info, as.Lhs[0])
			}
		}
		return true
	})
	if undoFn == nil || registrar == nil {
		p.anchorFail("undo closure / registrar in index.Writer.AddStream")
		return
	}
	fl := p.Flow(f)
	callsObj := func(nd ast.Node, o types.Object) bool {
		return fl.hasCall(nd, func(c *ast.CallExpr) bool { return identObj(info, c.Fun) == o })
	}
	isUndo := func(nd ast.Node) bool { return callsObj(nd, undoFn) }
	// state changes: registrations, stores into / through the receiver, calls of the receiver's mutating helpers
	changes := func(nd ast.Node) bool {
		if callsObj(nd, registrar) {
			return true
		}
		if as, ok := nd.(*ast.AssignStmt); ok {
			for _, l := range as.Lhs {
				if ri := rootIdentOf(l); ri != nil && info.Uses[ri] == w {
					if _, plain := ast.Unparen(l).(*ast.Ident); !plain {
						return true
					}
				}
			}
		}
		return false
	}
	refuses := func(nd ast.Node) bool {
		ret, ok := nd.(*ast.ReturnStmt)
		if !ok || len(ret.Results) == 0 {
			return false
		}
		id, ok := ast.Unparen(ret.Results[0]).(*ast.Ident)
		return ok && id.Name == "false"
	}
	var starts []Pt
	nChanges := 0
	for _, pt := range fl.Find(changes) {
		starts = append(starts, After(pt))
		nChanges++
	}
	nRef := 0
	for _, pt := range fl.Find(refuses) {
		ret := fl.node(pt)
		nRef++
		key := fmt.Sprintf("%s refusal@%s", f.Key(), relLine(p, f, ret))
		res := fl.Reach(starts, func(nd ast.Node) bool { return nd == ret }, isUndo)
		r.Check(!res.Found, rule, key, p.Pos(ret), "not reachable from a change of writer state without passing "+undoFn.Name()+"()", "the stream is refused after the writer was changed ("+fl.traceString(res)+") and "+undoFn.Name()+"() is not called: what was written for the refused stream stays in this index file and shifts the packets, hosts or data of every later stream")
	}
	r.Note("%s: %d state changes / registrations, %d refusing returns in AddStream", rule, nChanges, nRef)
	r.Floor(rule, 4, nRef)
}

func ruleC05Parallel(p *Prog, r *Res) {
	const rule = "C05-b parallel-lists-appended-pairwise"
	r.Rule(rule + ": Stream.Packets and Stream.PacketDirections grow together")
	pk, pd := p.Field("streams", "Stream", "Packets"), p.Field("streams", "Stream", "PacketDirections")
	if pk == nil || pd == nil {
		p.anchorFail("streams.Stream.Packets / PacketDirections")
		return
	}
	n := 0
	for _, f := range p.FnList {
		if f.Body() == nil {
			continue
		}
		info := f.Pkg.TypesInfo
		appendsTo := func(nd ast.Node, fld *types.Var) bool {
			as, ok := nd.(*ast.AssignStmt)
			if !ok {
				return false
			}
			for i, l := range as.Lhs {
				if isFieldOf(info, l, fld) && i < len(as.Rhs) {
					if c, ok := ast.Unparen(as.Rhs[i]).(*ast.CallExpr); ok && isBuiltin(info, c, "append") {
						return true
					}
					return true // any other assignment changes the length as well
				}
			}
			return false
		}
		has := false
		inspectShallow(f.Body(), func(x ast.Node) bool {
			if appendsTo(x, pk) || appendsTo(x, pd) {
				has = true
			}
			return !has
		})
		if !has {
			continue
		}
		fl := p.Flow(f)
		for _, pair := range [][2]*types.Var{{pk, pd}, {pd, pk}} {
			a, b := pair[0], pair[1]
			for _, pt := range fl.Find(func(nd ast.Node) bool { return appendsTo(nd, a) }) {
				n++
				key := fmt.Sprintf("%s append to %s@%s", f.Key(), a.Name(), relLine(p, f, fl.node(pt)))
				// the partner: either it directly precedes in the same straight-line code, or it follows on every path
				precedes := false
				for i := 0; i < pt.I; i++ {
					if appendsTo(pt.B.Nodes[i], b) {
						precedes = true
					}
					if appendsTo(pt.B.Nodes[i], a) {
						precedes = false
					}
				}
				if precedes {
					r.Ok(rule, key, p.Pos(fl.node(pt)), "paired with the append to "+b.Name()+" directly before it")
					continue
				}
				isB := func(nd ast.Node) bool { return appendsTo(nd, b) }
				res := fl.ExitAvoiding([]Pt{After(pt)}, isB)
				miss := res.Found || fallsOffEndAvoiding(fl, After(pt), isB)
				r.Check(!miss, rule, key, p.Pos(fl.node(pt)), "followed on every path by the append to "+b.Name(), a.Name()+" grows without "+b.Name()+" ("+fl.traceString(res)+"): payload chunks name their packet by index and take their direction from PacketDirections[index], so every later chunk of the stream is attributed to the wrong side")
			}
		}
	}
	r.Floor(rule, 4, n)
}

func ruleC05Factories(p *Prog, r *Res) {
	const rule = "C05-c endpoint-roles-agree"
	r.Rule(rule + ": both stream factories derive client/server, address/port the same way")
	fns := []*Fn{p.Fn("streams.StreamFactory.New"), p.Fn("streams.StreamFactory.NewUDP")}
	if fns[0] == nil || fns[1] == nil {
		return
	}
	type role struct{ side, flow string }
	want := map[string]role{"ClientAddr": {"Src", "0"}, "ServerAddr": {"Dst", "0"}, "ClientPort": {"Src", "1"}, "ServerPort": {"Dst", "1"}}
	sets := make([]map[string]bool, 2)
	for k, f := range fns {
		info := f.Pkg.TypesInfo
		sets[k] = map[string]bool{}
		var lit *ast.CompositeLit
		inspectShallow(f.Body(), func(x ast.Node) bool {
			if cl, ok := x.(*ast.CompositeLit); ok && lit == nil {
				if nt := namedOf(info.TypeOf(cl)); nt != nil && nt.Obj().Name() == "Stream" {
					lit = cl
				}
			}
			return true
		})
		if lit == nil {
			p.anchorFail("Stream literal in %s", f.Key())
			continue
		}
		for _, e := range lit.Elts {
			kv, ok := e.(*ast.KeyValueExpr)
			if !ok {
				continue
			}
			name := kv.Key.(*ast.Ident).Name
			if ast.IsExported(name) {
				sets[k][name] = true
			}
			w, isRole := want[name]
			if !isRole {
				continue
			}
			sides := map[string]bool{}
			flows := map[string]bool{}
			// locals with a single definition stand for their defining expression (src := netFlow.Src())
			var exprs []ast.Node
			exprs = append(exprs, kv.Value)
			for depth := 0; depth < 3; depth++ {
				var more []ast.Node
				for _, ex := range exprs {
					ast.Inspect(ex, func(y ast.Node) bool {
						id, ok := y.(*ast.Ident)
						if !ok {
							return true
						}
						o := info.Uses[id]
						if o == nil || paramObj(f, 0) == o || paramObj(f, 1) == o {
							return true
						}
						var def ast.Expr
						nDef := 0
						inspectShallow(f.Body(), func(z ast.Node) bool {
							if as, ok := z.(*ast.AssignStmt); ok {
								for i, l := range as.Lhs {
									if identObj(info, l) == o {
										nDef++
										if len(as.Lhs) == len(as.Rhs) {
											def = as.Rhs[i]
										} else if len(as.Rhs) == 1 {
											def = as.Rhs[0]
										}
									}
								}
							}
							return true
						})
						if nDef == 1 && def != nil {
							if _, isLit := def.(*ast.FuncLit); !isLit {
								more = append(more, def)
							}
						}
						return true
					})
				}
				if len(more) == 0 {
					break
				}
				exprs = append(exprs, more...)
			}
			root := &ast.BlockStmt{}
			for _, ex := range exprs {
				if e, ok := ex.(ast.Expr); ok {
					root.List = append(root.List, &ast.ExprStmt{X: e})
				}
			}
			ast.Inspect(root, func(y ast.Node) bool {
				if c, ok := y.(*ast.CallExpr); ok {
					if se, ok := ast.Unparen(c.Fun).(*ast.SelectorExpr); ok && (se.Sel.Name == "Src" || se.Sel.Name == "Dst") {
						sides[se.Sel.Name] = true
						if o := identObj(info, se.X); o != nil {
							for i := 0; i < 2; i++ {
								if paramObj(f, i) == o {
									flows[fmt.Sprint(i)] = true
								}
							}
						}
					}
				}
				return true
			})
			key := fmt.Sprintf("%s %s", f.Key(), name)
			ok2 := len(sides) == 1 && sides[w.side] && len(flows) == 1 && flows[w.flow]
			r.Check(ok2, rule, key, p.Pos(kv), fmt.Sprintf("from %s() of parameter %s", w.side, w.flow), fmt.Sprintf("%s is taken from %v of parameter(s) %v, expected %s() of the %s flow: client and server (or address and port) of every stream of this protocol are swapped", name, keysOf(sides), keysOf(flows), w.side, map[string]string{"0": "network", "1": "transport"}[w.flow]))
		}
	}
	var diff []string
	for k := range sets[0] {
		if !sets[1][k] {
			diff = append(diff, k+" (only New)")
		}
	}
	for k := range sets[1] {
		if !sets[0][k] {
			diff = append(diff, k+" (only NewUDP)")
		}
	}
	sort.Strings(diff)
	r.Check(len(diff) == 0, rule, "streams.StreamFactory.New / NewUDP set the same exported fields", p.Pos(fns[0].Node()), "same exported fields: "+strings.Join(keysOf(sets[0]), ", "), "the factories differ in "+strings.Join(diff, ", ")+": streams of one protocol lack an endpoint field the other sets")
}

func keysOf(m map[string]bool) []string {
	var l []string
	for k := range m {
		l = append(l, k)
	}
	sort.Strings(l)
	return l
}

func ruleC05Attribution(p *Prog, r *Res) {
	const rule = "C05-d attribution-siblings-agree"
	r.Rule(rule + ": TCP and UDP attribute payload to packets by the same key and record the found index")
	fns := []*Fn{p.Fn("streams.Stream.ReassembledSG"), p.Fn("streams.Stream.AddUDPPacket")}
	if fns[0] == nil || fns[1] == nil {
		return
	}
	keys := make([]map[string]bool, 2)
	for k, f := range fns {
		info := f.Pkg.TypesInfo
		keys[k] = map[string]bool{}
		// the search loop: a for statement whose body appends to Stream.Data
		var loop *ast.ForStmt
		inspectShallow(f.Body(), func(x ast.Node) bool {
			if fs, ok := x.(*ast.ForStmt); ok {
				ast.Inspect(fs.Body, func(y ast.Node) bool {
					if cl, ok := y.(*ast.CompositeLit); ok {
						if nt := namedOf(info.TypeOf(cl)); nt != nil && nt.Obj().Name() == "StreamData" {
							loop = fs
						}
					}
					return true
				})
			}
			return true
		})
		if loop == nil {
			p.anchorFail("search loop in %s", f.Key())
			continue
		}
		var iv types.Object
		if as, ok := loop.Init.(*ast.AssignStmt); ok && len(as.Lhs) == 1 {
			iv = identObj(info, as.Lhs[0])
		}
		ast.Inspect(loop.Body, func(y ast.Node) bool {
			if be, ok := y.(*ast.BinaryExpr); ok && (be.Op == token.NEQ || be.Op == token.EQL) {
				sx, okx := ast.Unparen(be.X).(*ast.SelectorExpr)
				sy, oky := ast.Unparen(be.Y).(*ast.SelectorExpr)
				if okx && oky && sx.Sel.Name == sy.Sel.Name {
					keys[k][sx.Sel.Name] = true
				}
			}
			if cl, ok := y.(*ast.CompositeLit); ok {
				if nt := namedOf(info.TypeOf(cl)); nt != nil && nt.Obj().Name() == "StreamData" {
					for _, e := range cl.Elts {
						kv, ok := e.(*ast.KeyValueExpr)
						if !ok || kv.Key.(*ast.Ident).Name != "PacketIndex" {
							continue
						}
						uses := false
						ast.Inspect(kv.Value, func(z ast.Node) bool {
							if id, ok := z.(*ast.Ident); ok && iv != nil && info.Uses[id] == iv {
								uses = true
							}
							return true
						})
						r.Check(uses, rule, f.Key()+" PacketIndex is the index the search stopped at", p.Pos(kv), "PacketIndex derives from the loop variable", "the chunk is attributed to "+types.ExprString(kv.Value)+", not to the packet the search found: its direction and its place in the conversation are those of another packet")
					}
				}
			}
			return true
		})
	}
	same := len(keys[0]) == len(keys[1]) && len(keys[0]) >= 2
	for k := range keys[0] {
		if !keys[1][k] {
			same = false
		}
	}
	r.Check(same, rule, "streams.Stream.ReassembledSG / AddUDPPacket compare the same packet key", p.Pos(fns[0].Node()), "both compare {"+strings.Join(keysOf(keys[0]), ", ")+"}", "the TCP path identifies the packet by {"+strings.Join(keysOf(keys[0]), ", ")+"}, the UDP path by {"+strings.Join(keysOf(keys[1]), ", ")+"}: with the weaker key two packets of one stream are confused and a chunk gets the wrong direction")
}

func ruleC05Dispatch(p *Prog, r *Res) {
	const rule = "C05-e dispatch-exhaustive"
	r.Rule(rule + ": direction and protocol switches in AddStream cover both constants")
	f := p.Fn("index.Writer.AddStream")
	if f == nil {
		return
	}
	info := f.Pkg.TypesInfo
	n := 0
	inspectShallow(f.Body(), func(x ast.Node) bool {
		sw, ok := x.(*ast.SwitchStmt)
		if !ok || sw.Tag == nil {
			return true
		}
		t := info.TypeOf(sw.Tag)
		nt := namedOf(t)
		if nt == nil {
			return true
		}
		var want []string
		switch nt.Obj().Name() {
		case "TCPFlowDirection":
			want = []string{"TCPDirClientToServer", "TCPDirServerToClient"}
		case "StreamFlags":
			want = []string{"StreamFlagsProtocolTCP", "StreamFlagsProtocolUDP"}
		default:
			return true
		}
		n++
		have := map[string]bool{}
		for _, cc := range sw.Body.List {
			for _, e := range cc.(*ast.CaseClause).List {
				if se, ok := ast.Unparen(e).(*ast.SelectorExpr); ok {
					have[se.Sel.Name] = true
				}
				if id, ok := ast.Unparen(e).(*ast.Ident); ok {
					have[id.Name] = true
				}
			}
		}
		var missing []string
		for _, wnt := range want {
			if !have[wnt] {
				missing = append(missing, wnt)
			}
		}
		key := fmt.Sprintf("%s switch %s@%s", f.Key(), types.ExprString(sw.Tag), relLine(p, f, sw))
		r.Check(len(missing) == 0, rule, key, p.Pos(sw), "covers "+strings.Join(want, ", "), "no case for "+strings.Join(missing, ", ")+": packets or bytes of that side (streams of that protocol) are written without their flag / not counted")
		return true
	})
	r.Floor(rule, 3, n)
}
