package main

// c14c.go: C14-c map-order-erased — the determinism clause of C14 ("parsing the same text twice gives equivalent
// queries"). Go randomises map iteration. Whenever package query builds a slice while ranging over a map, the slice
// must afterwards be sorted by an order that is total on the elements: the comparator has to read every field that
// was filled from the map KEY (keys are unique, so an order over all key-derived fields is total), or the whole
// element must be ordered (sort.Strings, slices.Sort, sort.Ints …).

import (
	"fmt"
	"go/ast"
	"go/token"
	"go/types"
)

func init() {
	register("C14",
		"C14-c (AST, typed): wherever package query appends to a slice while ranging over a map, the slice is sorted later in the same function, and the sort's comparator reads every element field that was filled from the map key (or orders whole elements): otherwise the randomised iteration order of Go maps shows in the normal form, and the same text parses to differently ordered — for tie-breaking consumers, non-equivalent — queries from one call to the next.",
		ruleC14MapOrder)
}

func ruleC14MapOrder(p *Prog, r *Res) {
	const rule = "C14-c map-order-erased"
	r.Rule(rule + ": slices built from map iteration are sorted by a total order over the key-derived fields")
	n := 0
	for _, f := range p.FnList {
		if f.Short != "query" || f.Body() == nil {
			continue
		}
		info := f.Pkg.TypesInfo
		inspectShallow(f.Body(), func(x ast.Node) bool {
			rs, ok := x.(*ast.RangeStmt)
			if !ok {
				return true
			}
			if _, isMap := info.TypeOf(rs.X).Underlying().(*types.Map); !isMap {
				return true
			}
			kobj := identObj(info, rs.Key)
			mentionsKey := func(e ast.Node) bool {
				if kobj == nil {
					return false
				}
				found := false
				ast.Inspect(e, func(y ast.Node) bool {
					if id, ok := y.(*ast.Ident); ok && info.Uses[id] == kobj {
						found = true
					}
					return !found
				})
				return found
			}
			// appends in the body (not nested loops over other things are fine too)
			ast.Inspect(rs.Body, func(y ast.Node) bool {
				as, ok := y.(*ast.AssignStmt)
				if !ok || len(as.Lhs) != 1 || len(as.Rhs) != 1 {
					return true
				}
				c, ok := as.Rhs[0].(*ast.CallExpr)
				if !ok || !isBuiltin(info, c, "append") || len(c.Args) < 2 {
					return true
				}
				target := exprString(p.Fset, as.Lhs[0])
				if exprString(p.Fset, c.Args[0]) != target {
					return true
				}
				// a slice that is itself stored per map key (m2[k] = append(m2[k], …)) does not expose order
				if ix, ok := ast.Unparen(as.Lhs[0]).(*ast.IndexExpr); ok {
					if _, isMap := info.TypeOf(ix.X).Underlying().(*types.Map); isMap {
						return true
					}
				}
				n++
				key := fmt.Sprintf("%s %s built from range over map %s", f.Key(), target, exprString(p.Fset, rs.X))
				// key-derived fields of the appended element
				keyFields := map[string]bool{}
				whole := false
				for _, a := range c.Args[1:] {
					a = ast.Unparen(a)
					if ue, ok := a.(*ast.UnaryExpr); ok {
						a = ast.Unparen(ue.X)
					}
					if cl, ok := a.(*ast.CompositeLit); ok {
						for _, el := range cl.Elts {
							if kv, ok := el.(*ast.KeyValueExpr); ok && mentionsKey(kv.Value) {
								if id, ok := kv.Key.(*ast.Ident); ok {
									keyFields[id.Name] = true
								}
							}
						}
					} else if mentionsKey(a) {
						whole = true
					}
				}
				// the sort after the loop
				sorted, how := false, ""
				var cmp *ast.FuncLit
				inspectShallow(f.Body(), func(z ast.Node) bool {
					sc, ok := z.(*ast.CallExpr)
					if !ok || sc.Pos() < rs.End() || len(sc.Args) == 0 {
						return true
					}
					fn := p.Callee(f.Pkg, sc)
					if fn == nil || fn.Pkg() == nil || (fn.Pkg().Path() != "sort" && fn.Pkg().Path() != "slices") {
						return true
					}
					if exprString(p.Fset, sc.Args[0]) != target {
						return true
					}
					switch fn.Name() {
					case "Strings", "Ints", "Float64s", "Sort":
						sorted, how = true, fn.FullName()+" (whole elements)"
					case "Slice", "SliceStable", "SortFunc", "SortStableFunc":
						if len(sc.Args) == 2 {
							if l, ok := sc.Args[1].(*ast.FuncLit); ok {
								sorted, how, cmp = true, fn.FullName(), l
							}
						}
					}
					return true
				})
				if !sorted {
					r.Bad(rule, key, p.Pos(as), "the slice is filled in map iteration order and not sorted afterwards in this function: the order of the conditions differs from one Parse of the same text to the next")
					return true
				}
				if cmp == nil {
					r.Ok(rule, key, p.Pos(as), "sorted by "+how)
					return true
				}
				read := map[string]bool{}
				ast.Inspect(cmp.Body, func(z ast.Node) bool {
					if se, ok := z.(*ast.SelectorExpr); ok {
						if v, ok := info.Uses[se.Sel].(*types.Var); ok && v.IsField() {
							read[se.Sel.Name] = true
						}
					}
					return true
				})
				var missing []string
				for fld := range keyFields {
					if !read[fld] {
						missing = append(missing, fld)
					}
				}
				if whole && len(read) != 0 {
					// elements are the keys themselves but the comparator looks at some fields only: require all fields of the key type
					if st, ok := info.TypeOf(rs.Key).Underlying().(*types.Struct); ok {
						for i := 0; i < st.NumFields(); i++ {
							if !read[st.Field(i).Name()] {
								missing = append(missing, st.Field(i).Name())
							}
						}
					}
				}
				if len(missing) > 0 {
					r.Bad(rule, key, p.Pos(cmp), fmt.Sprintf("the comparator does not look at %v, which come(s) from the map key: elements that differ only there keep their (random) map iteration order", missing))
				} else {
					r.Ok(rule, key, p.Pos(cmp), fmt.Sprintf("%s comparator reads all key-derived fields %s", how, setString(keyFields)))
				}
				return true
			})
			return true
		})
	}
	r.Floor(rule, 1, n)
}

// ---- C14-d: Parse is re-entrant ----

func init() {
	register("C14",
		"C14-d (AST, typed): query.Parse is called concurrently — from every request goroutine and from the service goroutine — and has no lock. Package query therefore keeps no mutable package-level state: no function body assigns a package-level variable of the package, stores into a package-level map or slice, deletes from one, or takes its address for a call; a memo added at package level makes two overlapping parses abort the process (`concurrent map read and map write`), which is a crash of a total function.",
		func(p *Prog, r *Res) {
			const rule = "C14-d parse-is-reentrant"
			r.Rule(rule + ": package query has no package-level state that function bodies write")
			pk := p.By["query"]
			if pk == nil {
				p.anchorFail("package query")
				return
			}
			scope := pk.Types.Scope()
			isPkgVar := func(o types.Object) bool {
				v, ok := o.(*types.Var)
				return ok && !v.IsField() && v.Parent() == scope
			}
			nVars := 0
			for _, name := range scope.Names() {
				if isPkgVar(scope.Lookup(name)) {
					nVars++
				}
			}
			writes := map[string]string{}
			for _, f := range p.FnList {
				if f.Short != "query" || f.Body() == nil {
					continue
				}
				info := f.Pkg.TypesInfo
				root := func(e ast.Expr) types.Object {
					for {
						switch x := ast.Unparen(e).(type) {
						case *ast.IndexExpr:
							e = x.X
						case *ast.SelectorExpr:
							if _, isPkg := info.Uses[identOf(x.X)].(*types.PkgName); isPkg {
								return info.Uses[x.Sel]
							}
							e = x.X
						case *ast.StarExpr:
							e = x.X
						case *ast.Ident:
							return info.Uses[x]
						default:
							return nil
						}
					}
				}
				note := func(e ast.Expr, what string, n ast.Node) {
					if o := root(e); o != nil && isPkgVar(o) {
						writes[o.Name()] = what + " in " + f.Key() + " at " + p.Pos(n)
					}
				}
				ast.Inspect(f.Body(), func(x ast.Node) bool {
					switch s := x.(type) {
					case *ast.AssignStmt:
						if s.Tok != token.DEFINE {
							for _, l := range s.Lhs {
								note(l, "assigned", s)
							}
						}
					case *ast.IncDecStmt:
						note(s.X, "modified", s)
					case *ast.CallExpr:
						if isBuiltin(info, s, "delete") && len(s.Args) == 2 {
							note(s.Args[0], "deleted from", s)
						}
						if isBuiltin(info, s, "clear") && len(s.Args) == 1 {
							note(s.Args[0], "cleared", s)
						}
					case *ast.UnaryExpr:
						if s.Op == token.AND {
							if o := root(s.X); o != nil && isPkgVar(o) {
								if _, isStruct := o.Type().Underlying().(*types.Struct); !isStruct || len(writes) < 0 {
									writes[o.Name()] = "address taken in " + f.Key() + " at " + p.Pos(s)
								}
							}
						}
					}
					return true
				})
			}
			for _, name := range scope.Names() {
				o := scope.Lookup(name)
				if !isPkgVar(o) {
					continue
				}
				key := "package variable query." + name + " is not written by function bodies"
				// the address of a zero-size sentinel (impossibleCondition) may be taken: it has no state
				if w, bad := writes[name]; bad {
					if st, isStruct := o.Type().Underlying().(*types.Struct); isStruct && st.NumFields() == 0 {
						r.Ok(rule, key, p.PosOf(o.Pos()), "stateless sentinel (empty struct); "+w)
						continue
					}
					r.Bad(rule, key, p.PosOf(o.Pos()), "query."+name+" is "+w+": Parse runs concurrently on request goroutines and the service goroutine without a lock, two overlapping parses race on it (a map write during a read aborts the process)")
				} else {
					r.Ok(rule, key, p.PosOf(o.Pos()), "only read")
				}
			}
			r.Floor(rule, 1, nVars)
		})
}

func identOf(e ast.Expr) *ast.Ident {
	id, _ := ast.Unparen(e).(*ast.Ident)
	return id
}
