package main

// c14c.go: C14-c map-order-erased — the determinism clause of C14 ("parsing the same text twice gives equivalent
// queries"). Go randomises map iteration. Whenever package query builds a slice while ranging over a map, the slice
// must afterwards be sorted by an order that is total on the elements: the comparator has to read every field that
// was filled from the map KEY (keys are unique, so an order over all key-derived fields is total), or the whole
// element must be ordered (sort.Strings, slices.Sort, sort.Ints …).

import (
	"fmt"
	"go/ast"
	"go/types"
)

func init() {
	register("C14",
		"C14-c (AST, typed): wherever package query appends to a slice while ranging over a map, the slice is sorted later in the same function, and the sort's comparator reads every element field that was filled from the map key (or orders whole elements): otherwise the randomised iteration order of Go maps shows in the normal form, and the same text parses to differently ordered — for tie-breaking consumers, non-equivalent — queries from one call to the next.",
		ruleC14MapOrder)
}

func ruleC14MapOrder(p *Prog, r *Res) {
	const rule = "C14-c map-order-erased"
	r.Rule(rule + ": slices built from map iteration are sorted by a total order over the key-derived fields")
	n := 0
	for _, f := range p.FnList {
		if f.Short != "query" || f.Body() == nil {
			continue
		}
		info := f.Pkg.TypesInfo
		inspectShallow(f.Body(), func(x ast.Node) bool {
			rs, ok := x.(*ast.RangeStmt)
			if !ok {
				return true
			}
			if _, isMap := info.TypeOf(rs.X).Underlying().(*types.Map); !isMap {
				return true
			}
			kobj := identObj(info, rs.Key)
			mentionsKey := func(e ast.Node) bool {
				if kobj == nil {
					return false
				}
				found := false
				ast.Inspect(e, func(y ast.Node) bool {
					if id, ok := y.(*ast.Ident); ok && info.Uses[id] == kobj {
						found = true
					}
					return !found
				})
				return found
			}
			// appends in the body (not nested loops over other things are fine too)
			ast.Inspect(rs.Body, func(y ast.Node) bool {
				as, ok := y.(*ast.AssignStmt)
				if !ok || len(as.Lhs) != 1 || len(as.Rhs) != 1 {
					return true
				}
				c, ok := as.Rhs[0].(*ast.CallExpr)
				if !ok || !isBuiltin(info, c, "append") || len(c.Args) < 2 {
					return true
				}
				target := exprString(p.Fset, as.Lhs[0])
				if exprString(p.Fset, c.Args[0]) != target {
					return true
				}
				// a slice that is itself stored per map key (m2[k] = append(m2[k], …)) does not expose order
				if ix, ok := ast.Unparen(as.Lhs[0]).(*ast.IndexExpr); ok {
					if _, isMap := info.TypeOf(ix.X).Underlying().(*types.Map); isMap {
						return true
					}
				}
				n++
				key := fmt.Sprintf("%s %s built from range over map %s", f.Key(), target, exprString(p.Fset, rs.X))
				// key-derived fields of the appended element
				keyFields := map[string]bool{}
				whole := false
				for _, a := range c.Args[1:] {
					a = ast.Unparen(a)
					if ue, ok := a.(*ast.UnaryExpr); ok {
						a = ast.Unparen(ue.X)
					}
					if cl, ok := a.(*ast.CompositeLit); ok {
						for _, el := range cl.Elts {
							if kv, ok := el.(*ast.KeyValueExpr); ok && mentionsKey(kv.Value) {
								if id, ok := kv.Key.(*ast.Ident); ok {
									keyFields[id.Name] = true
								}
							}
						}
					} else if mentionsKey(a) {
						whole = true
					}
				}
				// the sort after the loop
				sorted, how := false, ""
				var cmp *ast.FuncLit
				inspectShallow(f.Body(), func(z ast.Node) bool {
					sc, ok := z.(*ast.CallExpr)
					if !ok || sc.Pos() < rs.End() || len(sc.Args) == 0 {
						return true
					}
					fn := p.Callee(f.Pkg, sc)
					if fn == nil || fn.Pkg() == nil || (fn.Pkg().Path() != "sort" && fn.Pkg().Path() != "slices") {
						return true
					}
					if exprString(p.Fset, sc.Args[0]) != target {
						return true
					}
					switch fn.Name() {
					case "Strings", "Ints", "Float64s", "Sort":
						sorted, how = true, fn.FullName()+" (whole elements)"
					case "Slice", "SliceStable", "SortFunc", "SortStableFunc":
						if len(sc.Args) == 2 {
							if l, ok := sc.Args[1].(*ast.FuncLit); ok {
								sorted, how, cmp = true, fn.FullName(), l
							}
						}
					}
					return true
				})
				if !sorted {
					r.Bad(rule, key, p.Pos(as), "the slice is filled in map iteration order and not sorted afterwards in this function: the order of the conditions differs from one Parse of the same text to the next")
					return true
				}
				if cmp == nil {
					r.Ok(rule, key, p.Pos(as), "sorted by "+how)
					return true
				}
				read := map[string]bool{}
				ast.Inspect(cmp.Body, func(z ast.Node) bool {
					if se, ok := z.(*ast.SelectorExpr); ok {
						if v, ok := info.Uses[se.Sel].(*types.Var); ok && v.IsField() {
							read[se.Sel.Name] = true
						}
					}
					return true
				})
				var missing []string
				for fld := range keyFields {
					if !read[fld] {
						missing = append(missing, fld)
					}
				}
				if whole && len(read) != 0 {
					// elements are the keys themselves but the comparator looks at some fields only: require all fields of the key type
					if st, ok := info.TypeOf(rs.Key).Underlying().(*types.Struct); ok {
						for i := 0; i < st.NumFields(); i++ {
							if !read[st.Field(i).Name()] {
								missing = append(missing, st.Field(i).Name())
							}
						}
					}
				}
				if len(missing) > 0 {
					r.Bad(rule, key, p.Pos(cmp), fmt.Sprintf("the comparator does not look at %v, which come(s) from the map key: elements that differ only there keep their (random) map iteration order", missing))
				} else {
					r.Ok(rule, key, p.Pos(cmp), fmt.Sprintf("%s comparator reads all key-derived fields %s", how, setString(keyFields)))
				}
				return true
			})
			return true
		})
	}
	r.Floor(rule, 1, n)
}
