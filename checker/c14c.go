package main

// c14c.go: C14-c map-order-erased — the determinism clause of C14 ("parsing the same text twice gives equivalent
// queries"). Go randomises map iteration. Whenever package query builds a slice while ranging over a map, the slice
// must afterwards be sorted by an order that is total on the elements: the comparator has to read every field that
// was filled from the map KEY (keys are unique, so an order over all key-derived fields is total), or the whole
// element must be ordered (sort.Strings, slices.Sort, sort.Ints …).

import (
	"fmt"
	"go/ast"
	"go/token"
	"go/types"

	"golang.org/x/tools/go/cfg"
)

func init() {
	register("C14",
		"C14-c (AST, typed): wherever package query appends to a slice while ranging over a map, the slice is sorted later in the same function, and the sort's comparator reads every element field that was filled from the map key (or orders whole elements): otherwise the randomised iteration order of Go maps shows in the normal form, and the same text parses to differently ordered — for tie-breaking consumers, non-equivalent — queries from one call to the next.",
		ruleC14MapOrder)
}

func ruleC14MapOrder(p *Prog, r *Res) {
	const rule = "C14-c map-order-erased"
	r.Rule(rule + ": slices built from map iteration are sorted by a total order over the key-derived fields")
	n := 0
	for _, f := range p.FnList {
		if f.Short != "query" || f.Body() == nil {
			continue
		}
		info := f.Pkg.TypesInfo
		inspectShallow(f.Body(), func(x ast.Node) bool {
			rs, ok := x.(*ast.RangeStmt)
			if !ok {
				return true
			}
			if _, isMap := info.TypeOf(rs.X).Underlying().(*types.Map); !isMap {
				return true
			}
			kobj := identObj(info, rs.Key)
			mentionsKey := func(e ast.Node) bool {
				if kobj == nil {
					return false
				}
				found := false
				ast.Inspect(e, func(y ast.Node) bool {
					if id, ok := y.(*ast.Ident); ok && info.Uses[id] == kobj {
						found = true
					}
					return !found
				})
				return found
			}
			// appends in the body (not nested loops over other things are fine too)
			ast.Inspect(rs.Body, func(y ast.Node) bool {
				as, ok := y.(*ast.AssignStmt)
				if !ok || len(as.Lhs) != 1 || len(as.Rhs) != 1 {
					return true
				}
				c, ok := as.Rhs[0].(*ast.CallExpr)
				if !ok || !isBuiltin(info, c, "append") || len(c.Args) < 2 {
					return true
				}
				target := exprString(p.Fset, as.Lhs[0])
				if exprString(p.Fset, c.Args[0]) != target {
					return true
				}
				// a slice that is itself stored per map key (m2[k] = append(m2[k], …)) does not expose order
				if ix, ok := ast.Unparen(as.Lhs[0]).(*ast.IndexExpr); ok {
					if _, isMap := info.TypeOf(ix.X).Underlying().(*types.Map); isMap {
						return true
					}
				}
				n++
				key := fmt.Sprintf("%s %s built from range over map %s", f.Key(), target, exprString(p.Fset, rs.X))
				// key-derived fields of the appended element
				keyFields := map[string]bool{}
				whole := false
				for _, a := range c.Args[1:] {
					a = ast.Unparen(a)
					if ue, ok := a.(*ast.UnaryExpr); ok {
						a = ast.Unparen(ue.X)
					}
					if cl, ok := a.(*ast.CompositeLit); ok {
						for _, el := range cl.Elts {
							if kv, ok := el.(*ast.KeyValueExpr); ok && mentionsKey(kv.Value) {
								if id, ok := kv.Key.(*ast.Ident); ok {
									keyFields[id.Name] = true
								}
							}
						}
					} else if mentionsKey(a) {
						whole = true
					}
				}
				// the sort after the loop
				sorted, how := false, ""
				var cmp *ast.FuncLit
				inspectShallow(f.Body(), func(z ast.Node) bool {
					sc, ok := z.(*ast.CallExpr)
					if !ok || sc.Pos() < rs.End() || len(sc.Args) == 0 {
						return true
					}
					fn := p.Callee(f.Pkg, sc)
					if fn == nil || fn.Pkg() == nil || (fn.Pkg().Path() != "sort" && fn.Pkg().Path() != "slices") {
						return true
					}
					if exprString(p.Fset, sc.Args[0]) != target {
						return true
					}
					switch fn.Name() {
					case "Strings", "Ints", "Float64s", "Sort":
						sorted, how = true, fn.FullName()+" (whole elements)"
					case "Slice", "SliceStable", "SortFunc", "SortStableFunc":
						if len(sc.Args) == 2 {
							if l, ok := sc.Args[1].(*ast.FuncLit); ok {
								sorted, how, cmp = true, fn.FullName(), l
							}
						}
					}
					return true
				})
				if !sorted {
					r.Bad(rule, key, p.Pos(as), "the slice is filled in map iteration order and not sorted afterwards in this function: the order of the conditions differs from one Parse of the same text to the next")
					return true
				}
				if cmp == nil {
					r.Ok(rule, key, p.Pos(as), "sorted by "+how)
					return true
				}
				read := map[string]bool{}
				ast.Inspect(cmp.Body, func(z ast.Node) bool {
					if se, ok := z.(*ast.SelectorExpr); ok {
						if v, ok := info.Uses[se.Sel].(*types.Var); ok && v.IsField() {
							read[se.Sel.Name] = true
						}
					}
					return true
				})
				var missing []string
				for fld := range keyFields {
					if !read[fld] {
						missing = append(missing, fld)
					}
				}
				if whole && len(read) != 0 {
					// elements are the keys themselves but the comparator looks at some fields only: require all fields of the key type
					if st, ok := info.TypeOf(rs.Key).Underlying().(*types.Struct); ok {
						for i := 0; i < st.NumFields(); i++ {
							if !read[st.Field(i).Name()] {
								missing = append(missing, st.Field(i).Name())
							}
						}
					}
				}
				if len(missing) > 0 {
					r.Bad(rule, key, p.Pos(cmp), fmt.Sprintf("the comparator does not look at %v, which come(s) from the map key: elements that differ only there keep their (random) map iteration order", missing))
				} else {
					r.Ok(rule, key, p.Pos(cmp), fmt.Sprintf("%s comparator reads all key-derived fields %s", how, setString(keyFields)))
				}
				return true
			})
			return true
		})
	}
	r.Floor(rule, 1, n)
}

// ---- C14-d: Parse is re-entrant ----

func init() {
	register("C14",
		"C14-d (AST, typed): query.Parse is called concurrently — from every request goroutine and from the service goroutine — and has no lock. Package query therefore keeps no mutable package-level state: no function body assigns a package-level variable of the package, stores into a package-level map or slice, deletes from one, or takes its address for a call; a memo added at package level makes two overlapping parses abort the process (`concurrent map read and map write`), which is a crash of a total function.",
		func(p *Prog, r *Res) {
			const rule = "C14-d parse-is-reentrant"
			r.Rule(rule + ": package query has no package-level state that function bodies write")
			pk := p.By["query"]
			if pk == nil {
				p.anchorFail("package query")
				return
			}
			scope := pk.Types.Scope()
			isPkgVar := func(o types.Object) bool {
				v, ok := o.(*types.Var)
				return ok && !v.IsField() && v.Parent() == scope
			}
			nVars := 0
			for _, name := range scope.Names() {
				if isPkgVar(scope.Lookup(name)) {
					nVars++
				}
			}
			writes := map[string]string{}
			for _, f := range p.FnList {
				if f.Short != "query" || f.Body() == nil {
					continue
				}
				info := f.Pkg.TypesInfo
				root := func(e ast.Expr) types.Object {
					for {
						switch x := ast.Unparen(e).(type) {
						case *ast.IndexExpr:
							e = x.X
						case *ast.SelectorExpr:
							if _, isPkg := info.Uses[identOf(x.X)].(*types.PkgName); isPkg {
								return info.Uses[x.Sel]
							}
							e = x.X
						case *ast.StarExpr:
							e = x.X
						case *ast.Ident:
							return info.Uses[x]
						default:
							return nil
						}
					}
				}
				note := func(e ast.Expr, what string, n ast.Node) {
					if o := root(e); o != nil && isPkgVar(o) {
						writes[o.Name()] = what + " in " + f.Key() + " at " + p.Pos(n)
					}
				}
				ast.Inspect(f.Body(), func(x ast.Node) bool {
					switch s := x.(type) {
					case *ast.AssignStmt:
						if s.Tok != token.DEFINE {
							for _, l := range s.Lhs {
								note(l, "assigned", s)
							}
						}
					case *ast.IncDecStmt:
						note(s.X, "modified", s)
					case *ast.CallExpr:
						if isBuiltin(info, s, "delete") && len(s.Args) == 2 {
							note(s.Args[0], "deleted from", s)
						}
						if isBuiltin(info, s, "clear") && len(s.Args) == 1 {
							note(s.Args[0], "cleared", s)
						}
					case *ast.UnaryExpr:
						if s.Op == token.AND {
							if o := root(s.X); o != nil && isPkgVar(o) {
								if _, isStruct := o.Type().Underlying().(*types.Struct); !isStruct || len(writes) < 0 {
									writes[o.Name()] = "address taken in " + f.Key() + " at " + p.Pos(s)
								}
							}
						}
					}
					return true
				})
			}
			for _, name := range scope.Names() {
				o := scope.Lookup(name)
				if !isPkgVar(o) {
					continue
				}
				key := "package variable query." + name + " is not written by function bodies"
				// the address of a zero-size sentinel (impossibleCondition) may be taken: it has no state
				if w, bad := writes[name]; bad {
					if st, isStruct := o.Type().Underlying().(*types.Struct); isStruct && st.NumFields() == 0 {
						r.Ok(rule, key, p.PosOf(o.Pos()), "stateless sentinel (empty struct); "+w)
						continue
					}
					r.Bad(rule, key, p.PosOf(o.Pos()), "query."+name+" is "+w+": Parse runs concurrently on request goroutines and the service goroutine without a lock, two overlapping parses race on it (a map write during a read aborts the process)")
				} else {
					r.Ok(rule, key, p.PosOf(o.Pos()), "only read")
				}
			}
			r.Floor(rule, 1, nVars)
		})
}

func identOf(e ast.Expr) *ast.Ident {
	id, _ := ast.Unparen(e).(*ast.Ident)
	return id
}

// ---- C14-e: parallel indexing is length-guarded ----

func init() {
	register("C14",
		"C14-e (FLOW): in package query, inside `for i := range A` (or a counted loop bounded by len(A)) every index expression B[i] on a different slice B is reached only over an edge that establishes len(A) <= len(B) — the true edge of a conjunct `len(A) == len(B)` / `<=` / `<`, the false edge of a disjunct `len(A) != len(B)` / `>` / `>=` — or after B = make(…, len(A)), or both have a constant length by construction: Parse must not panic with an index out of range when two lists that usually have the same length do not.",
		func(p *Prog, r *Res) {
			const rule = "C14-e parallel-index-guarded"
			r.Rule(rule + ": B[i] inside a loop over A needs a length relation between A and B")
			n := 0
			for _, f := range p.FnList {
				if f.Short != "query" || f.Body() == nil {
					continue
				}
				info := f.Pkg.TypesInfo
				var fl *Flow
				inspectShallow(f.Body(), func(x ast.Node) bool {
					rs, ok := x.(*ast.RangeStmt)
					if !ok || rs.Key == nil {
						return true
					}
					if _, isSl := info.TypeOf(rs.X).Underlying().(*types.Slice); !isSl {
						return true
					}
					iv := identObj(info, rs.Key)
					if iv == nil {
						return true
					}
					aStr := exprString(p.Fset, ast.Unparen(rs.X))
					inspectShallow(rs.Body, func(y ast.Node) bool {
						ix, ok := y.(*ast.IndexExpr)
						if !ok || !sameObj(info, ix.Index, iv) {
							return true
						}
						if _, isSl := info.TypeOf(ix.X).Underlying().(*types.Slice); !isSl {
							return true
						}
						bStr := exprString(p.Fset, ast.Unparen(ix.X))
						if bStr == aStr {
							return true
						}
						n++
						key := fmt.Sprintf("%s %s[%s] inside range %s", f.Key(), bStr, iv.Name(), aStr)
						if fl == nil {
							fl = p.Flow(f)
						}
						// the same expression: same text and same root variable (a, b are reused names in sibling scopes)
						sameAs := func(e ast.Expr, ref ast.Expr, refStr string) bool {
							if exprString(p.Fset, ast.Unparen(e)) != refStr {
								return false
							}
							r1, r2 := rootIdentOf(e), rootIdentOf(ref)
							if r1 == nil || r2 == nil {
								return r1 == nil && r2 == nil
							}
							o1, o2 := info.Uses[r1], info.Uses[r2]
							if o1 == nil {
								o1 = info.Defs[r1]
							}
							if o2 == nil {
								o2 = info.Defs[r2]
							}
							return o1 == o2
						}
						lenOf := func(e ast.Expr) string {
							c, ok := ast.Unparen(e).(*ast.CallExpr)
							if !ok || !isBuiltin(info, c, "len") || len(c.Args) != 1 {
								return ""
							}
							if sameAs(c.Args[0], rs.X, aStr) {
								return "A"
							}
							if sameAs(c.Args[0], ix.X, bStr) {
								return "B"
							}
							return ""
						}
						// does taking the given edge of condition c establish len(A) <= len(B)?
						establishes := func(c ast.Expr, trueEdge bool) bool {
							be, ok := ast.Unparen(c).(*ast.BinaryExpr)
							if !ok {
								return false
							}
							l, rr := lenOf(be.X), lenOf(be.Y)
							op := be.Op
							if l == "B" && rr == "A" {
								// mirror to A op B
								switch op {
								case token.LSS:
									op = token.GTR
								case token.GTR:
									op = token.LSS
								case token.LEQ:
									op = token.GEQ
								case token.GEQ:
									op = token.LEQ
								}
							} else if !(l == "A" && rr == "B") {
								return false
							}
							if trueEdge {
								return op == token.EQL || op == token.LEQ || op == token.LSS
							}
							return op == token.NEQ || op == token.GTR || op == token.GEQ
						}
						// B = make([]T, len(A)) (or a literal/copy sized by A) makes B as long as A
						relates := func(nd ast.Node) bool {
							as, ok := nd.(*ast.AssignStmt)
							if !ok {
								return false
							}
							for i, l := range as.Lhs {
								if !sameAs(l, ix.X, bStr) || i >= len(as.Rhs) {
									continue
								}
								mk, ok := ast.Unparen(as.Rhs[i]).(*ast.CallExpr)
								if ok && isBuiltin(info, mk, "make") && len(mk.Args) >= 2 && lenOf(mk.Args[1]) == "A" {
									return true
								}
							}
							// B is v.F and this statement defines v by a literal whose F is make(…, len(A))
							if bse, ok := ast.Unparen(ix.X).(*ast.SelectorExpr); ok && len(as.Lhs) == len(as.Rhs) {
								for i, l := range as.Lhs {
									if identObj(info, l) == nil || identObj(info, l) != identObj(info, bse.X) {
										continue
									}
									rh := ast.Unparen(as.Rhs[i])
									if u, ok := rh.(*ast.UnaryExpr); ok && u.Op == token.AND {
										rh = ast.Unparen(u.X)
									}
									cl, ok := rh.(*ast.CompositeLit)
									if !ok {
										continue
									}
									for _, el := range cl.Elts {
										kv, ok := el.(*ast.KeyValueExpr)
										if !ok {
											continue
										}
										if kid, ok := kv.Key.(*ast.Ident); !ok || kid.Name != bse.Sel.Name {
											continue
										}
										mk, ok := ast.Unparen(kv.Value).(*ast.CallExpr)
										if ok && isBuiltin(info, mk, "make") && len(mk.Args) == 2 && lenOf(mk.Args[1]) == "A" {
											return true
										}
									}
								}
							}
							return false
						}
						// B has a constant length k by construction and the loop runs where len(A) == k
						if k, ok := constLenOfExpr(p, f, ix.X, map[types.Object]bool{}); ok {
							if ka, okA := constLenOfExpr(p, f, rs.X, map[types.Object]bool{}); okA && ka <= k {
								r.Ok(rule, key, p.Pos(ix), fmt.Sprintf("%s always has %d elements and %s always has %d (every assignment is a literal or make with that constant length)", aStr, ka, bStr, k))
								return true
							}
							if ka, ok2 := lenPinnedTo(p, f, rs, aStr); ok2 && ka <= k {
								r.Ok(rule, key, p.Pos(ix), fmt.Sprintf("%s always has %d elements (every assignment to it is a %d-element literal, make(…, %d) or a value of that kind) and the loop runs where len(%s) == %d", bStr, k, k, k, aStr, ka))
								return true
							}
						}
						pt, okp := fl.PointOf(ix)
						if !okp {
							r.Undecided(rule, key, p.Pos(ix), "index expression not found in the CFG")
							return true
						}
						target := fl.node(pt)
						gfl := p.Flow(f)
						gfl.EdgeOK = func(b *cfg.Block, succ int) bool {
							if len(b.Succs) != 2 || len(b.Nodes) == 0 {
								return true
							}
							cond, ok := b.Nodes[len(b.Nodes)-1].(ast.Expr)
							if !ok {
								return true
							}
							if succ == 0 {
								for _, c := range conjuncts(cond) {
									if establishes(c, true) {
										return false
									}
								}
							} else {
								for _, c := range disjuncts(cond) {
									if establishes(c, false) {
										return false
									}
								}
							}
							return true
						}
						res := gfl.Reach([]Pt{gfl.Entry()}, func(nd ast.Node) bool { return nd == target }, relates)
						r.Check(!res.Found, rule, key, p.Pos(ix), "a length relation between "+aStr+" and "+bStr+" lies on every path to the index", "B[i] is evaluated for every i < len("+aStr+") without anything relating that length to len("+bStr+") ("+fl.traceString(res)+"): when the second list is shorter Parse panics with an index out of range")
						return true
					})
					return true
				})
			}
			r.Note("%s: %d parallel index expressions in package query", rule, n)
			r.Floor(rule, 1, n)
		})
}

// constLenOfExpr: e denotes a slice-typed struct field (x.F) every assignment to which, anywhere in the package, has a
// value of the same constant length: a composite literal with k elements, make(T, k) with constant k, or another
// expression with constant length k (followed through fields, depth-limited by seen).
func constLenOfExpr(p *Prog, f *Fn, e ast.Expr, seen map[types.Object]bool) (int, bool) {
	info := f.Pkg.TypesInfo
	if lo := identObj(info, e); lo != nil {
		// a local variable: every assignment in its function is make(T, k) / a k-element literal
		k, any, okAll := -1, false, true
		ast.Inspect(f.Root().Body(), func(x ast.Node) bool {
			as, ok := x.(*ast.AssignStmt)
			if !ok || len(as.Lhs) != len(as.Rhs) {
				return true
			}
			for i, l := range as.Lhs {
				if !sameObj(info, l, lo) {
					continue
				}
				any = true
				n, good := -1, false
				switch v := ast.Unparen(as.Rhs[i]).(type) {
				case *ast.CompositeLit:
					n, good = len(v.Elts), true
				case *ast.CallExpr:
					if isBuiltin(info, v, "make") && len(v.Args) == 2 {
						if tv, ok := info.Types[v.Args[1]]; ok && tv.Value != nil {
							if _, err := fmt.Sscan(tv.Value.ExactString(), &n); err == nil {
								good = true
							}
						}
					} else if fn := p.Callee(f.Pkg, v); fn != nil && !seen[fn] {
						// a function of the package every return of which has the same constant length
						if h := p.FnOfObj(fn); h != nil && h.Short == f.Short && h.Lit == nil && h.Body() != nil {
							seen[fn] = true
							hk, hAny, hOK := -1, false, true
							inspectShallow(h.Body(), func(y ast.Node) bool {
								ret, ok := y.(*ast.ReturnStmt)
								if !ok || len(ret.Results) != 1 {
									return true
								}
								hAny = true
								m, ok := constLenOfExpr(p, h, ret.Results[0], seen)
								if !ok || (hk != -1 && hk != m) {
									hOK = false
								}
								hk = m
								return true
							})
							if hAny && hOK && hk >= 0 {
								n, good = hk, true
							}
						}
					}
				}
				if !good || (k != -1 && k != n) {
					okAll = false
				}
				k = n
			}
			return true
		})
		if any && okAll && k >= 0 {
			return k, true
		}
		return 0, false
	}
	se, ok := ast.Unparen(e).(*ast.SelectorExpr)
	if !ok {
		return 0, false
	}
	fld, ok := info.Uses[se.Sel].(*types.Var)
	if !ok || !fld.IsField() {
		return 0, false
	}
	return constLenOfField(p, f.Short, fld, seen)
}

func constLenOfField(p *Prog, pkgShort string, fld *types.Var, seen map[types.Object]bool) (int, bool) {
	if seen[fld] {
		return -1, true // self reference: neutral
	}
	seen[fld] = true
	k := -1
	okAll, any := true, false
	valueLen := func(g *Fn, v ast.Expr) (int, bool) {
		ginfo := g.Pkg.TypesInfo
		v = ast.Unparen(v)
		switch x := v.(type) {
		case *ast.CompositeLit:
			return len(x.Elts), true
		case *ast.CallExpr:
			if isBuiltin(ginfo, x, "make") && len(x.Args) >= 2 {
				if tv, ok := ginfo.Types[x.Args[1]]; ok && tv.Value != nil {
					var n int
					fmt.Sscan(tv.Value.ExactString(), &n)
					return n, true
				}
			}
			return 0, false
		case *ast.SelectorExpr:
			if fv, ok := ginfo.Uses[x.Sel].(*types.Var); ok && fv.IsField() {
				return constLenOfField(p, pkgShort, fv, seen)
			}
		case *ast.Ident:
			return constLenOfExpr(p, g, x, seen)
		}
		return 0, false
	}
	note := func(n int, ok bool) {
		any = true
		if !ok {
			okAll = false
			return
		}
		if n == -1 {
			return
		}
		if k == -1 {
			k = n
		} else if k != n {
			okAll = false
		}
	}
	for _, g := range p.FnList {
		if g.Short != pkgShort || g.Body() == nil {
			continue
		}
		ginfo := g.Pkg.TypesInfo
		inspectShallow(g.Body(), func(x ast.Node) bool {
			switch s := x.(type) {
			case *ast.AssignStmt:
				for i, l := range s.Lhs {
					if ls, ok := ast.Unparen(l).(*ast.SelectorExpr); ok && ginfo.Uses[ls.Sel] == types.Object(fld) && len(s.Rhs) == len(s.Lhs) {
						note(valueLen(g, s.Rhs[i]))
					}
				}
			case *ast.KeyValueExpr:
				if id, ok := s.Key.(*ast.Ident); ok && ginfo.Uses[id] == types.Object(fld) {
					note(valueLen(g, s.Value))
				}
			}
			return true
		})
	}
	if !any || !okAll || k < 0 {
		return 0, false
	}
	return k, true
}

// lenPinnedTo: the range statement rs over A lies in a `case k:` clause of `switch len(A)` or in the body of an if
// whose condition has the conjunct len(A) == k.
func lenPinnedTo(p *Prog, f *Fn, rs *ast.RangeStmt, aStr string) (int, bool) {
	info := f.Pkg.TypesInfo
	res, found := 0, false
	isLenA := func(e ast.Expr) bool {
		c, ok := ast.Unparen(e).(*ast.CallExpr)
		return ok && isBuiltin(info, c, "len") && len(c.Args) == 1 && exprString(p.Fset, c.Args[0]) == aStr
	}
	constOf := func(e ast.Expr) (int, bool) {
		if tv, ok := info.Types[e]; ok && tv.Value != nil {
			var n int
			if _, err := fmt.Sscan(tv.Value.ExactString(), &n); err == nil {
				return n, true
			}
		}
		return 0, false
	}
	inspectParents(f.Body(), func(x ast.Node, parents []ast.Node) bool {
		if x != ast.Node(rs) {
			return true
		}
		for i, par := range parents {
			switch s := par.(type) {
			case *ast.SwitchStmt:
				if s.Tag != nil && isLenA(s.Tag) && i+2 < len(parents) {
					if cc, ok := parents[i+2].(*ast.CaseClause); ok && len(cc.List) == 1 {
						if n, ok := constOf(cc.List[0]); ok {
							res, found = n, true
						}
					}
				}
			case *ast.IfStmt:
				var child ast.Node = x
				if i+1 < len(parents) {
					child = parents[i+1]
				}
				if child == ast.Node(s.Body) {
					for _, c := range conjuncts(s.Cond) {
						if be, ok := ast.Unparen(c).(*ast.BinaryExpr); ok && be.Op == token.EQL && isLenA(be.X) {
							if n, ok := constOf(be.Y); ok {
								res, found = n, true
							}
						}
					}
				}
			}
		}
		return false
	})
	return res, found
}
