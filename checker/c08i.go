package main

// c08i.go: C08-i / C12-q the start-up scan knows every capture name the import gates accept.
//
// A capture enters pkappa2 through the upload route (`/upload/{filename:.+[.]pcap(ng)?}`) or through the watched
// directory, whose handler accepts every name whose extension STARTS with .pcap (tcpdump -C rotation: dump.pcap1,
// dump.pcap2, …). The importer's knowledge of which captures exist — needed to replay older packets when a flow
// continues — is rebuilt at start-up by builder.New from the capture directory, and that scan recognised only names
// ENDING in .pcap or .pcapng: after a restart the rotated captures were forgotten (PcapCount 1 → 0), the next capture of
// the same flow was assembled without them, and one connection became two streams (#59).
//
// Rule (exhaustive evaluation of the three name predicates over sample names): every sample name accepted by a gate —
// the watcher's condition on the event name, the route pattern of the upload handler — is accepted by the condition
// under which builder.New registers a directory entry. The predicates are read from the source and folded: HasSuffix,
// HasPrefix, filepath.Ext on the name, string literals, !, &&, ||; the route pattern is a constant regular expression.

import (
	"fmt"
	"go/ast"
	"go/constant"
	"go/token"
	"path/filepath"
	"regexp"
	"strings"
)

func init() {
	const expl = "(exhaustive evaluation over sample names): every capture name that an import gate accepts — the condition on the event name in the handler of the watched directory, the {filename:…} pattern of the upload route — is accepted by the condition under which builder.New registers an entry of the capture directory at start-up. The three predicates are read from the source and folded (strings.HasSuffix / HasPrefix, filepath.Ext on the name, literals, !, &&, ||; the route pattern is a constant regular expression) for names like x.pcap, x.pcapng, x.pcap1, x.pcap.gz, x.cap. A name that gets in but is not recognised again is forgotten by a restart: the captures it names are not replayed when their flows continue, and a connection is split into two streams."
	register("C08", "C08-i "+expl, func(p *Prog, r *Res) { ruleCaptureNamesAgree(p, r, "C08-i start-up-scan-knows-accepted-names") })
	register("C12", "C12-q "+expl, func(p *Prog, r *Res) { ruleCaptureNamesAgree(p, r, "C12-q start-up-scan-knows-accepted-names") })
}

// foldNamePred evaluates a boolean expression over one file name. nameLike decides which sub-expressions denote the name.
func foldNamePred(p *Prog, f *Fn, e ast.Expr, name string) (val bool, ok bool) {
	info := f.Pkg.TypesInfo
	var str func(e ast.Expr) (string, bool)
	str = func(e ast.Expr) (string, bool) {
		e = ast.Unparen(e)
		if tv, has := info.Types[e]; has && tv.Value != nil && tv.Value.Kind() == constant.String {
			return constant.StringVal(tv.Value), true
		}
		switch x := e.(type) {
		case *ast.CallExpr:
			if fn := p.Callee(f.Pkg, x); fn != nil {
				switch fn.FullName() {
				case "path/filepath.Ext":
					if s, ok := str(x.Args[0]); ok {
						return filepath.Ext(s), true
					}
				case "path/filepath.Base":
					if s, ok := str(x.Args[0]); ok {
						return filepath.Base(s), true
					}
				case "strings.ToLower":
					if s, ok := str(x.Args[0]); ok {
						return strings.ToLower(s), true
					}
				}
				// x.Name() on a directory entry / file info
				if fn.Name() == "Name" && len(x.Args) == 0 {
					return name, true
				}
			}
		case *ast.SelectorExpr:
			if x.Sel.Name == "Name" { // event.Name
				return name, true
			}
		case *ast.Ident:
			// a local with one definition: what it was computed from
			if o := info.Uses[x]; o != nil {
				var defs []ast.Expr
				ast.Inspect(f.Body(), func(n ast.Node) bool {
					if as, ok := n.(*ast.AssignStmt); ok {
						for i, l := range as.Lhs {
							if identObj(info, l) == o {
								if len(as.Lhs) == len(as.Rhs) {
									defs = append(defs, as.Rhs[i])
								} else {
									defs = append(defs, nil)
								}
							}
						}
					}
					return true
				})
				if len(defs) == 1 && defs[0] != nil {
					if s, ok := str(defs[0]); ok {
						return s, true
					}
				}
			}
			// a local holding the name
			if strings.Contains(strings.ToLower(x.Name), "name") {
				return name, true
			}
		}
		return "", false
	}
	var ev func(e ast.Expr) (bool, bool)
	ev = func(e ast.Expr) (bool, bool) {
		e = ast.Unparen(e)
		switch x := e.(type) {
		case *ast.UnaryExpr:
			if x.Op == token.NOT {
				v, ok := ev(x.X)
				return !v, ok
			}
		case *ast.BinaryExpr:
			switch x.Op {
			case token.LAND, token.LOR:
				a, ok1 := ev(x.X)
				b, ok2 := ev(x.Y)
				if x.Op == token.LAND {
					// unknown operands that are not about the name (event kinds, IsDir) count as true: the predicate is read
					// for an ordinary file and a relevant event
					if !ok1 {
						a = true
					}
					if !ok2 {
						b = true
					}
					return a && b, ok1 || ok2
				}
				if !ok1 {
					a = false
				}
				if !ok2 {
					b = false
				}
				return a || b, ok1 || ok2
			case token.EQL, token.NEQ:
				a, ok1 := str(x.X)
				b, ok2 := str(x.Y)
				if ok1 && ok2 {
					return (a == b) == (x.Op == token.EQL), true
				}
			}
		case *ast.Ident:
			// a named boolean with one definition
			if d := singleDef(f, x); d != nil {
				return ev(d)
			}
		case *ast.CallExpr:
			if fn := p.Callee(f.Pkg, x); fn != nil && len(x.Args) == 2 {
				a, ok1 := str(x.Args[0])
				b, ok2 := str(x.Args[1])
				if ok1 && ok2 {
					switch fn.FullName() {
					case "strings.HasSuffix":
						return strings.HasSuffix(a, b), true
					case "strings.HasPrefix":
						return strings.HasPrefix(a, b), true
					case "strings.Contains":
						return strings.Contains(a, b), true
					}
				}
			}
		}
		return false, false
	}
	return ev(e)
}

func mentionsPcapLiteral(e ast.Node) bool {
	hit := false
	ast.Inspect(e, func(x ast.Node) bool {
		if bl, ok := x.(*ast.BasicLit); ok && bl.Kind == token.STRING && strings.Contains(bl.Value, ".pcap") {
			hit = true
		}
		return !hit
	})
	return hit
}

// singleDef: the one expression a local of f is defined from (nil if it has none or several definitions).
func singleDef(f *Fn, id *ast.Ident) ast.Expr {
	info := f.Pkg.TypesInfo
	o := info.Uses[id]
	if o == nil {
		return nil
	}
	var defs []ast.Expr
	ast.Inspect(f.Body(), func(n ast.Node) bool {
		if as, ok := n.(*ast.AssignStmt); ok {
			for i, l := range as.Lhs {
				if identObj(info, l) == o {
					if len(as.Lhs) == len(as.Rhs) {
						defs = append(defs, as.Rhs[i])
					} else {
						defs = append(defs, nil)
					}
				}
			}
		}
		return true
	})
	if len(defs) == 1 {
		return defs[0]
	}
	return nil
}

// mentionsPcapLiteralIn: the condition, or a local with one definition that it uses (named booleans, two levels),
// mentions a ".pcap" literal.
func mentionsPcapLiteralIn(f *Fn, cond ast.Expr) bool {
	if mentionsPcapLiteral(cond) {
		return true
	}
	var visit func(e ast.Node, depth int) bool
	visit = func(e ast.Node, depth int) bool {
		hit := false
		ast.Inspect(e, func(x ast.Node) bool {
			if id, ok := x.(*ast.Ident); ok && !hit && depth > 0 {
				if d := singleDef(f, id); d != nil && (mentionsPcapLiteral(d) || visit(d, depth-1)) {
					hit = true
				}
			}
			return !hit
		})
		return hit
	}
	return visit(cond, 2)
}

func ruleCaptureNamesAgree(p *Prog, r *Res, rule string) {
	r.Rule(rule + ": names accepted by the watcher or the upload route are registered again by builder.New")
	scanFn := p.Fn("builder.New")
	if scanFn == nil {
		p.anchorFail("builder.New")
		return
	}
	// the scan predicate: `if <cond> { continue }` in New with a .pcap literal: registered ⇔ !cond
	var scanCond ast.Expr
	inspectShallow(scanFn.Body(), func(x ast.Node) bool {
		if ifs, ok := x.(*ast.IfStmt); ok && scanCond == nil && mentionsPcapLiteralIn(scanFn, ifs.Cond) && len(ifs.Body.List) == 1 {
			if bs, ok := ifs.Body.List[0].(*ast.BranchStmt); ok && bs.Tok == token.CONTINUE {
				scanCond = ifs.Cond
			}
		}
		return true
	})
	if scanCond == nil {
		p.anchorFail("the condition under which builder.New skips a directory entry (a test on .pcap names)")
		return
	}
	scan := func(name string) (bool, bool) {
		v, ok := foldNamePred(p, scanFn, scanCond, name)
		return !v, ok
	}
	type gate struct {
		what string
		pos  string
		acc  func(string) (bool, bool)
	}
	var gates []gate
	// watcher conditions in package manager: `if !(… && P(event.Name)) { continue }` or `if … P …`
	for _, f := range p.FnList {
		if f.Short != "manager" || f.Body() == nil {
			continue
		}
		inspectShallow(f.Body(), func(x ast.Node) bool {
			ifs, ok := x.(*ast.IfStmt)
			if !ok || !mentionsPcapLiteralIn(f, ifs.Cond) || len(ifs.Body.List) == 0 {
				return true
			}
			skips := false
			if bs, ok := ifs.Body.List[len(ifs.Body.List)-1].(*ast.BranchStmt); ok && bs.Tok == token.CONTINUE {
				skips = true
			}
			if _, ok := ifs.Body.List[len(ifs.Body.List)-1].(*ast.ReturnStmt); ok {
				skips = true
			}
			cond := ifs.Cond
			ff := f
			gates = append(gates, gate{"the handler of the watched directory (" + f.Key() + ")", p.Pos(ifs), func(name string) (bool, bool) {
				v, ok := foldNamePred(p, ff, cond, name)
				if skips {
					return !v, ok
				}
				return v, ok
			}})
			return true
		})
	}
	// route patterns {filename:REGEX} in package main
	for _, f := range p.FnList {
		if f.Short != "main" || f.Body() == nil {
			continue
		}
		inspectShallow(f.Body(), func(x ast.Node) bool {
			bl, ok := x.(*ast.BasicLit)
			if !ok || bl.Kind != token.STRING || !strings.Contains(bl.Value, "{filename:") || !strings.Contains(bl.Value, "upload") {
				return true
			}
			s := strings.Trim(bl.Value, "\"`")
			i := strings.Index(s, "{filename:")
			pat := s[i+len("{filename:"):]
			if j := strings.LastIndex(pat, "}"); j >= 0 {
				pat = pat[:j]
			}
			re, err := regexp.Compile("^(?:" + pat + ")$")
			if err != nil {
				return true
			}
			gates = append(gates, gate{"the upload route " + s, p.Pos(bl), func(name string) (bool, bool) { return re.MatchString(name), true }})
			return true
		})
	}
	if len(gates) == 0 {
		p.anchorFail("an import gate with a test on capture names (watcher condition / upload route)")
		return
	}
	samples := []string{"x.pcap", "x.pcapng", "x.pcap1", "x.pcap12", "x.pcap.gz", "x.pcapng.1", "dump.pcap0", "x.cap", "x.txt", "pcap", "x.PCAP"}
	n := 0
	for _, g := range gates {
		n++
		key := "names accepted by " + g.what + " are known to the start-up scan"
		var lost []string
		undecided := false
		for _, s := range samples {
			a, ok1 := g.acc(s)
			b, ok2 := scan(s)
			if !ok1 || !ok2 {
				undecided = true
				continue
			}
			if a && !b {
				lost = append(lost, s)
			}
		}
		if undecided {
			r.Undecided(rule, key, g.pos, "a name predicate is outside the vocabulary of the evaluator (HasSuffix/HasPrefix/Ext/literals/!/&&/||)")
			continue
		}
		r.Check(len(lost) == 0, rule, key, g.pos, fmt.Sprintf("every sample name the gate accepts is registered by builder.New (%d samples)", len(samples)), fmt.Sprintf("the gate accepts %v, builder.New does not register them at start-up: after a restart these captures are unknown to the importer — they are not replayed when their flows continue (one connection, two streams), and the status counts drop", lost))
	}
	r.Floor(rule, 2, n)
}
