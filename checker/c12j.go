package main

// c12j.go: C12-j New saves the state only after everything it restores is restored.
//
// saveState writes a new state file from the Manager's fields and deletes the old one. While New is still putting the
// old state back — some of it (the PCAP-over-IP endpoints) in the closure it posts to the freshly started service loop —
// a save writes a file without the part that is not restored yet, and the only copy of that part is deleted with the
// old file. Rule: let R be the Manager fields that saveState (and the package functions it calls) reads. For every
// call of saveState in New or in a closure New posts, no assignment to a field of R made by New or by such a closure
// can execute after the save: an assignment in the same function must not be reachable from the save; an assignment in
// a posted closure runs after everything in New's own body.

import (
	"fmt"
	"go/ast"
	"go/types"
	"sort"
	"strings"
)

func init() {
	register("C12",
		"C12-j (FLOW + happens-before between New and the closures it posts): for every call of Manager.saveState made by manager.New or by a function literal New sends to Manager.jobs, no assignment (New's or such a literal's) to a Manager field that saveState reads is executed after the save — not reachable from it in the same function, and not in a posted literal when the save is in New's own body. saveState deletes the previous state file, so whatever is restored from that file only after the save exists nowhere on disk until the next save: a kill in between loses it (the PCAP-over-IP endpoints, when start-up found a capture the state file did not list).",
		func(p *Prog, r *Res) {
			const rule = "C12-j new-saves-after-restoring"
			r.Rule(rule + ": New does not save the state before it has restored all of it")
			newF := p.Fn("manager.New")
			save := p.Method("manager", "Manager", "saveState")
			mgrT := p.Named("manager", "Manager")
			jobs := p.Field("manager", "Manager", "jobs")
			if newF == nil || save == nil || mgrT == nil || jobs == nil {
				return
			}
			sf := p.FnOfObj(save)
			if sf == nil {
				return
			}
			// fields of Manager read by saveState
			reads := map[*types.Var]bool{}
			var collect func(f *Fn, depth int)
			collect = func(f *Fn, depth int) {
				info := f.Pkg.TypesInfo
				ast.Inspect(f.Body(), func(x ast.Node) bool {
					switch s := x.(type) {
					case *ast.SelectorExpr:
						if v, ok := info.Uses[s.Sel].(*types.Var); ok && v.IsField() {
							if t := info.TypeOf(s.X); t != nil && namedOf(derefType(t)) == mgrT {
								reads[v] = true
							}
						}
					case *ast.CallExpr:
						if fn := p.Callee(f.Pkg, s); fn != nil && depth > 0 {
							if h := p.FnOfObj(fn); h != nil && h.Pkg == f.Pkg && h != f && h.Body() != nil {
								collect(h, depth-1)
							}
						}
					}
					return true
				})
			}
			collect(sf, 1)
			delete(reads, jobs)
			// the closures New posts
			info := newF.Pkg.TypesInfo
			var posted []*Fn
			inspectShallow(newF.Body(), func(x ast.Node) bool {
				if s, ok := x.(*ast.SendStmt); ok && isFieldOf(info, s.Chan, jobs) {
					if lit, ok := ast.Unparen(s.Value).(*ast.FuncLit); ok {
						if g := p.FnOfLit(lit); g != nil {
							posted = append(posted, g)
						}
					}
				}
				return true
			})
			assignsTo := func(f *Fn, nd ast.Node) *types.Var {
				finfo := f.Pkg.TypesInfo
				var hit *types.Var
				check := func(l ast.Expr) {
					for {
						switch y := ast.Unparen(l).(type) {
						case *ast.IndexExpr:
							l = y.X
							continue
						case *ast.SelectorExpr:
							if v, ok := finfo.Uses[y.Sel].(*types.Var); ok && v.IsField() && reads[v] {
								if t := finfo.TypeOf(y.X); t != nil && namedOf(derefType(t)) == mgrT {
									hit = v
								}
							}
						}
						return
					}
				}
				switch s := nd.(type) {
				case *ast.AssignStmt:
					for _, l := range s.Lhs {
						check(l)
					}
				case *ast.IncDecStmt:
					check(s.X)
				}
				return hit
			}
			n := 0
			scopes := append([]*Fn{newF}, posted...)
			for _, f := range scopes {
				fl := p.Flow(f)
				for _, sp := range fl.Find(func(nd ast.Node) bool {
					return fl.hasCall(nd, func(c *ast.CallExpr) bool { return p.Callee(f.Pkg, c) == save })
				}) {
					n++
					key := fmt.Sprintf("%s saveState@%s", f.Key(), relLine(p, f, fl.node(sp)))
					var late []string
					// same function: assignments reachable from the save
					seenF := map[string]bool{}
					for {
						res := fl.Reach([]Pt{After(sp)}, func(nd ast.Node) bool {
							v := assignsTo(f, nd)
							return v != nil && !seenF[v.Name()]
						}, nil)
						if !res.Found {
							break
						}
						v := assignsTo(f, res.End)
						seenF[v.Name()] = true
						late = append(late, fmt.Sprintf("%s (line %d)", v.Name(), lineOf(p.Fset, res.End)))
					}
					// a save in New's own body: everything a posted literal assigns comes later
					if f == newF {
						for _, g := range posted {
							ast.Inspect(g.Body(), func(x ast.Node) bool {
								if v := assignsTo(g, x); v != nil && !seenF[v.Name()] {
									seenF[v.Name()] = true
									late = append(late, fmt.Sprintf("%s (line %d, in the closure posted to the service loop)", v.Name(), lineOf(p.Fset, x)))
								}
								return true
							})
						}
					}
					sort.Strings(late)
					r.Check(len(late) == 0, rule, key, p.Pos(fl.node(sp)), "every field saveState reads has its last start-up assignment before this save", "the state is saved — and the previous state file deleted — before New has restored "+strings.Join(late, ", ")+": the new file lacks it, and a kill before the next save loses it")
				}
			}
			var names []string
			for v := range reads {
				names = append(names, v.Name())
			}
			sort.Strings(names)
			r.Note("%s: saveState reads Manager.{%s}; New posts %d closure(s)", rule, strings.Join(names, ", "), len(posted))
			r.Floor(rule, 1, n)
		})
}
