package main

// c07q.go: C07-q the duplicate check of a merge is skipped only on a summary that is kept as a running extremum.
//
// Writer.AddIndex takes the streams of one index file after the other, youngest first, and skips a stream whose id it
// has taken already — the younger record is the current version. The set of taken ids is rebuilt from w.streams for
// every added index. Seeded C07o skipped that when "the index ends below everything collected so far", judged by a new
// field w.minStreamID — which it overwrote with the lowest id of the index added LAST instead of combining it with its
// previous value. An index in the middle of the list that holds only high ids raised it again; the next, older index
// was taken without the check and a stream that a younger index had rewritten was copied a second time in its old
// version: [1 1 2 40 50], StreamByID(1) = "oldversion".
//
// Rule (typed AST): in package index, where the loop that fills a set of stream ids from a field of the receiver is
// guarded by a condition that reads a field F of the receiver, every assignment to F in the package is a running
// extremum — inside an if whose condition compares with F, or through min()/max() with F as an argument.

import (
	"fmt"
	"go/ast"
	"go/types"
)

func init() {
	register("C07",
		"C07-q (typed AST): in package index, where the loop that fills a set of stream ids (`M[s.StreamID] = …` over a field of the receiver) is guarded by a condition that reads a field F of the receiver, every assignment to F in the package is a running extremum: it lies in an if whose condition compares with F, or goes through min()/max() with F as an argument. The merge skips a stream whose id it has already taken from a younger index; a shortcut around building that set is only as good as the summary it trusts, and a summary that is overwritten per index instead of combined lets an older version of a stream be copied a second time.",
		func(p *Prog, r *Res) {
			const rule = "C07-q duplicate-check-skipped-only-on-a-running-extremum"
			r.Rule(rule + ": the set of taken stream ids is complete, or the guard's summary field is monotone")
			sid := p.Field("index", "stream", "StreamID")
			n := 0
			for _, f := range p.FnList {
				if f.Short != "index" || f.Lit != nil || f.Decl == nil || f.Decl.Recv == nil || f.Body() == nil {
					continue
				}
				info := f.Pkg.TypesInfo
				recvObj := types.Object(nil)
				if len(f.Decl.Recv.List) == 1 && len(f.Decl.Recv.List[0].Names) == 1 {
					recvObj = info.Defs[f.Decl.Recv.List[0].Names[0]]
				}
				if recvObj == nil {
					continue
				}
				inspectParents(f.Body(), func(x ast.Node, ps []ast.Node) bool {
					rs, ok := x.(*ast.RangeStmt)
					if !ok {
						return true
					}
					se, ok := ast.Unparen(rs.X).(*ast.SelectorExpr)
					if !ok || identObj(info, se.X) != recvObj {
						return true
					}
					// the body stores into a map keyed by a StreamID
					fills := false
					ast.Inspect(rs.Body, func(y ast.Node) bool {
						as, ok := y.(*ast.AssignStmt)
						if !ok {
							return true
						}
						for _, l := range as.Lhs {
							ix, ok := ast.Unparen(l).(*ast.IndexExpr)
							if !ok {
								continue
							}
							if _, isMap := info.TypeOf(ix.X).Underlying().(*types.Map); !isMap {
								continue
							}
							if ks, ok := ast.Unparen(ix.Index).(*ast.SelectorExpr); ok && (ks.Sel.Name == "StreamID" || (sid != nil && info.Uses[ks.Sel] == types.Object(sid))) {
								fills = true
							}
						}
						return true
					})
					if !fills {
						return true
					}
					n++
					key := fmt.Sprintf("%s fills the set of taken ids from %s", f.Key(), types.ExprString(rs.X))
					// guards
					var bad string
					for _, par := range ps {
						ifs, ok := par.(*ast.IfStmt)
						if !ok {
							continue
						}
						ast.Inspect(ifs.Cond, func(y ast.Node) bool {
							fs, ok := y.(*ast.SelectorExpr)
							if !ok || identObj(info, fs.X) != recvObj {
								return true
							}
							fld, ok := info.Uses[fs.Sel].(*types.Var)
							if !ok || !fld.IsField() || fld == info.Uses[se.Sel] {
								return true
							}
							// every assignment to the field in the package
							for _, g := range p.FnList {
								if g.Short != "index" || g.Body() == nil {
									continue
								}
								ginfo := g.Pkg.TypesInfo
								inspectParents(g.Body(), func(z ast.Node, qs []ast.Node) bool {
									as, ok := z.(*ast.AssignStmt)
									if !ok {
										return true
									}
									for i, l := range as.Lhs {
										ls, ok := ast.Unparen(l).(*ast.SelectorExpr)
										if !ok || ginfo.Uses[ls.Sel] != types.Object(fld) {
											continue
										}
										mono := false
										if i < len(as.Rhs) {
											if c, ok := ast.Unparen(as.Rhs[i]).(*ast.CallExpr); ok && (isBuiltin(ginfo, c, "min") || isBuiltin(ginfo, c, "max")) {
												for _, a := range c.Args {
													if as2, ok := ast.Unparen(a).(*ast.SelectorExpr); ok && ginfo.Uses[as2.Sel] == types.Object(fld) {
														mono = true
													}
												}
											}
										}
										for _, q := range qs {
											if gi, ok := q.(*ast.IfStmt); ok {
												ast.Inspect(gi.Cond, func(w ast.Node) bool {
													if cs, ok := w.(*ast.SelectorExpr); ok && ginfo.Uses[cs.Sel] == types.Object(fld) {
														mono = true
													}
													return true
												})
											}
										}
										if !mono && bad == "" {
											bad = fmt.Sprintf("%s, which %s overwrites at %s without comparing it with its previous value", fld.Name(), g.Key(), p.Pos(as))
										}
									}
									return true
								})
							}
							return true
						})
					}
					r.Check(bad == "", rule, key, p.Pos(rs), "unconditional, or guarded by a running extremum", "the set of ids already taken over is only built when a condition on "+bad+" says so: the summary describes the index added last, not everything collected — an older index is then taken without the duplicate check and a stream that a younger index rewrote is copied again in its old version")
					return true
				})
			}
			r.Floor(rule, 1, n)
		})
}
