package main

import (
	"fmt"
	"go/ast"
	"go/token"
	"go/types"
	"strings"

	"golang.org/x/tools/go/cfg"
)

func init() {
	register("C12",
		"C12 (FLOW, ordering of durable effects; all decided per function on every CFG path): (a) saveState writes the new state file completely (Encode and Close succeeded: their error branches return) before it removes the old one and before it records the new name; (a') when New loads index and state files no error branch inside the two loading loops returns or exits — unreadable files are skipped — the newest-timestamp test dominates adoption, and adoption is atomic: no store to state that outlives one state file (Manager fields, variables declared outside the loop) is followed by a path that rejects the file; (b) the index magic is written last: the only store to fileHeader.Magic in package index is in Finalize, it is dominated by the end of the data section, by all eleven section writes and by a Flush, nothing but header write, Flush, Close and NewReader follows it, and NewReader compares the magic before it uses any section offset; (c) files are deleted only when superseded: every os.Remove in the non-test code is either in indexReleaser.release (use count zero), on a name created in the same function on an error path, the old state file after the new one is complete, or the old snapshot file after saveSnapshots succeeded; (d) a partly written converter cache tail is tolerated (C15-a). fsync-level durability (there is none: a kill is survivable, a power loss is not), the contents of the files and convergence of tag matches are NOT decided.",
		ruleC12, ruleC15Tail)
	register("C13",
		"C13-k = C12-c (who may delete): every os.Remove outside the upload handler is in indexReleaser.release behind the use-count test, on a name this function created itself (the writers and readers of a failed merge or import), the old state or snapshot file after its successor is complete, or a converter cache deleting its own emptied file. An index file removed anywhere else — index.Merge deleting its inputs 'so that a restart does not find them' (seeded C13n) — vanishes from the directory while a view or a job with an older snapshot still reads it.",
		func(p *Prog, r *Res) { ruleDeleteOnlySuperseded(p, r, "C13-k delete-only-superseded") })
}

// callNamed: node contains a call whose callee full name (or method name on a receiver) matches.
func nodeCalls(p *Prog, f *Fn, n ast.Node, match func(fn *types.Func, c *ast.CallExpr) bool) bool {
	fl := &Flow{}
	return fl.hasCall(n, func(c *ast.CallExpr) bool {
		fn := p.Callee(f.Pkg, c)
		return fn != nil && match(fn, c)
	})
}

// errBranchReturns: the statement `if err := <call>; err != nil { … }` (or `x, err := call; if err != nil`) that
// contains call c has a then-branch from which goal is unreachable; reports whether from the failure branch
// of the call the goal node can be reached.
func failureReaches(fl *Flow, callPt Pt, goal func(ast.Node) bool) bool {
	// find the condition node following the call in the same block with two successors
	b := callPt.B
	everything := func() bool { return fl.Reach([]Pt{After(callPt)}, goal, nil).Found }
	// the error of the step has a variable of its own (assigned exactly once in the function): wherever it is tested,
	// a failure takes the `!= nil` side. `encodeErr := enc.Encode(…); closeErr := f.Close(); if encodeErr != nil {…}; if closeErr != nil {…}`
	if as, isAs := fl.node(callPt).(*ast.AssignStmt); isAs && len(as.Rhs) == 1 {
		info := fl.F.Pkg.TypesInfo
		var ev types.Object
		for _, l := range as.Lhs {
			if o := identObj(info, l); o != nil && types.TypeString(o.Type(), nil) == "error" {
				ev = o
			}
		}
		if ev != nil {
			nDef := 0
			ast.Inspect(fl.F.Body(), func(x ast.Node) bool {
				switch s := x.(type) {
				case *ast.AssignStmt:
					for _, l := range s.Lhs {
						if identObj(info, l) == ev {
							nDef++
						}
					}
				case *ast.UnaryExpr:
					if s.Op == token.AND && identObj(info, s.X) == ev {
						nDef += 2
					}
				}
				return true
			})
			if nDef == 1 {
				saved := fl.EdgeOK
				fl.EdgeOK = func(bb *cfg.Block, succ int) bool {
					if saved != nil && !saved(bb, succ) {
						return false
					}
					if len(bb.Succs) != 2 || len(bb.Nodes) == 0 {
						return true
					}
					c, ok := bb.Nodes[len(bb.Nodes)-1].(*ast.BinaryExpr)
					if !ok || (c.Op != token.NEQ && c.Op != token.EQL) {
						return true
					}
					x, y := ast.Unparen(c.X), ast.Unparen(c.Y)
					if types.ExprString(x) == "nil" {
						x, y = y, x
					}
					if types.ExprString(y) != "nil" || identObj(info, x) != ev {
						return true
					}
					// the step failed: ev != nil
					if c.Op == token.NEQ {
						return succ == 0
					}
					return succ == 1
				}
				found := fl.Reach([]Pt{After(callPt)}, goal, nil).Found
				fl.EdgeOK = saved
				return found
			}
		}
	}
	if len(b.Succs) != 2 || len(b.Nodes) == 0 {
		return everything() // the error of this call is not tested at the end of its block: its failure flows on
	}
	info := fl.F.Pkg.TypesInfo
	// a step that reports success as a boolean: `if !step(…) { return }`, `ok := step(…); if !ok { … }`
	if last, isExpr := b.Nodes[len(b.Nodes)-1].(ast.Expr); isExpr {
		e, neg := ast.Unparen(last), false
		if u, isU := e.(*ast.UnaryExpr); isU && u.Op == token.NOT {
			e, neg = ast.Unparen(u.X), true
		}
		isTheCall := false
		if c, isC := e.(*ast.CallExpr); isC && callPt.I == len(b.Nodes)-1 {
			if t := info.TypeOf(c); t != nil && types.TypeString(t, nil) == "bool" {
				isTheCall = true
			}
		}
		if id, isId := e.(*ast.Ident); isId && callPt.I < len(b.Nodes)-1 {
			if as, isAs := fl.node(callPt).(*ast.AssignStmt); isAs && len(as.Lhs) == 1 && identObj(info, as.Lhs[0]) == info.Uses[id] {
				if t := info.TypeOf(id); t != nil && types.TypeString(t, nil) == "bool" {
					isTheCall = true
				}
			}
		}
		if isTheCall {
			failSucc := b.Succs[1] // the step answered false
			if neg {
				failSucc = b.Succs[0]
			}
			return fl.Reach([]Pt{{failSucc, 0}}, goal, nil).Found
		}
	}
	cond, ok := b.Nodes[len(b.Nodes)-1].(*ast.BinaryExpr)
	if !ok || cond.Op != token.NEQ || types.ExprString(cond.Y) != "nil" {
		return true
	}
	// the tested variable must be the one this call's error was assigned to, and nothing in between may overwrite it
	tested := identObj(info, cond.X)
	if as, isAs := fl.node(callPt).(*ast.AssignStmt); isAs && tested != nil && callPt.I < len(b.Nodes)-1 {
		assigned := false
		for _, l := range as.Lhs {
			if identObj(info, l) == tested {
				assigned = true
			}
		}
		if !assigned {
			return everything()
		}
		for _, n := range b.Nodes[callPt.I+1 : len(b.Nodes)-1] {
			if as2, ok := n.(*ast.AssignStmt); ok {
				for _, l := range as2.Lhs {
					if identObj(info, l) == tested {
						return everything() // the error is overwritten before it is looked at
					}
				}
			}
		}
	}
	res := fl.Reach([]Pt{{b.Succs[0], 0}}, goal, nil)
	return res.Found
}

func ruleC12(p *Prog, r *Res) {
	// ---------- (a) saveState ----------
	const ruleA = "C12-a state-file-order"
	r.Rule(ruleA + ": write-new-then-delete-old in saveState; tolerant, atomic adoption in New")
	if f := p.Fn("manager.Manager.saveState"); f != nil {
		fl := p.Flow(f)
		info := f.Pkg.TypesInfo
		stateFn := p.Field("manager", "Manager", "stateFilename")
		isRemove := func(n ast.Node) bool {
			return nodeCalls(p, f, n, func(fn *types.Func, c *ast.CallExpr) bool {
				return fn.FullName() == "os.Remove" && len(c.Args) == 1 && (isFieldOf(info, c.Args[0], stateFn) || mentionsCopyOf(info, f, c.Args[0], stateFn))
			})
		}
		// a package-local helper that performs the step and hands its failure back (error-accumulation idiom)
		viaHelper := func(n ast.Node, step string) bool {
			if _, isAs := n.(*ast.AssignStmt); !isAs {
				return false
			}
			return nodeCalls(p, f, n, func(fn *types.Func, c *ast.CallExpr) bool {
				h := p.FnOfObj(fn)
				return h != nil && h.Pkg == f.Pkg && h.Lit == nil && h != f && helperPropagates(p, h, step)
			})
		}
		isEncode := func(n ast.Node) bool {
			return nodeCalls(p, f, n, func(fn *types.Func, c *ast.CallExpr) bool { return fn.FullName() == "(*encoding/json.Encoder).Encode" }) || viaHelper(n, "(*encoding/json.Encoder).Encode")
		}
		isClose := func(n ast.Node) bool {
			// the checked close: `err := f.Close()` as an assignment (the close in the Encode error branch is an ExprStmt)
			as, ok := n.(*ast.AssignStmt)
			if !ok {
				return false
			}
			return nodeCalls(p, f, as, func(fn *types.Func, c *ast.CallExpr) bool { return fn.FullName() == "(*os.File).Close" }) || viaHelper(n, "(*os.File).Close")
		}
		isRecord := func(n ast.Node) bool {
			as, ok := n.(*ast.AssignStmt)
			return ok && len(as.Lhs) == 1 && isFieldOf(info, as.Lhs[0], stateFn)
		}
		rem := fl.Find(isRemove)
		r.Floor(ruleA+" os.Remove(stateFilename) sites", 1, len(rem))
		for _, name := range []string{"remove-old", "record-new-name"} {
			goal := isRemove
			if name == "record-new-name" {
				goal = isRecord
			}
			for _, step := range []struct {
				what string
				pred func(ast.Node) bool
			}{{"Encode", isEncode}, {"Close", isClose}} {
				res := fl.Reach([]Pt{fl.Entry()}, goal, step.pred)
				r.Check(!res.Found, ruleA, fmt.Sprintf("saveState %s after %s", name, step.what), p.Pos(f.Node()), step.what+" of the new file lies on every path", "the old state file can be removed / the new name recorded on a path that skips "+step.what+" of the new file: "+fl.traceString(res))
				for _, pt := range fl.Find(step.pred) {
					bad := failureReaches(fl, pt, goal)
					r.Check(!bad, ruleA, fmt.Sprintf("saveState %s only after successful %s", name, step.what), p.Pos(fl.node(pt)), "the failure branch of "+step.what+" returns before it", "after a failed "+step.what+" of the new state file control still reaches the removal of the old file / the recording of the new name: a crash or full disk then leaves no complete state file")
				}
			}
		}
	}
	// New: loading loops
	if f := p.Fn("manager.New"); f != nil {
		info := f.Pkg.TypesInfo
		nLoops := 0
		inspectShallow(f.Body(), func(x ast.Node) bool {
			rs, ok := x.(*ast.RangeStmt)
			if !ok {
				return true
			}
			// by role: a range over the result of tools.ListFiles(dir, suffix); the suffix tells index files from state files
			name := ""
			if xo := identObj(info, rs.X); xo != nil {
				inspectShallow(f.Body(), func(y ast.Node) bool {
					if as, ok := y.(*ast.AssignStmt); ok && len(as.Rhs) == 1 && len(as.Lhs) >= 1 && sameObj(info, as.Lhs[0], xo) {
						if c, ok := as.Rhs[0].(*ast.CallExpr); ok && len(c.Args) == 2 {
							if fn := p.Callee(f.Pkg, c); fn != nil && fn.Name() == "ListFiles" {
								if tv, ok := info.Types[c.Args[1]]; ok && tv.Value != nil {
									if strings.Contains(tv.Value.ExactString(), "state") {
										name = "stateFilenames"
									} else {
										name = "indexFileNames"
									}
								}
							}
						}
					}
					return true
				})
			}
			if name == "" {
				return true
			}
			nLoops++
			// no return / fatal inside
			bad := ""
			inspectShallow(rs.Body, func(y ast.Node) bool {
				switch s := y.(type) {
				case *ast.ReturnStmt:
					bad = "return at " + p.Pos(s)
				case *ast.CallExpr:
					if isBuiltin(info, s, "panic") {
						bad = "panic at " + p.Pos(s)
					}
					if fn := p.Callee(f.Pkg, s); fn != nil && (strings.HasPrefix(fn.FullName(), "log.Fatal") || fn.FullName() == "os.Exit") {
						bad = fn.FullName() + " at " + p.Pos(s)
					}
				}
				return true
			})
			r.Check(bad == "", ruleA, "New: loop over "+name+" skips unreadable files", p.Pos(rs), "no return/exit inside the loop body", "an unreadable or half-written file makes the start fail ("+bad+") instead of being skipped")
			if name != "stateFilenames" {
				return true
			}
			// timestamp test present and followed by skip
			hasBefore := false
			inspectShallow(rs.Body, func(y ast.Node) bool {
				if ifs, ok := y.(*ast.IfStmt); ok {
					for _, c := range callsIn(ifs.Cond) {
						if fn := p.Callee(f.Pkg, c); fn != nil && fn.FullName() == "(time.Time).Before" {
							hasBefore = true
						}
					}
				}
				return true
			})
			r.Check(hasBefore, ruleA, "New: older state files do not replace newer ones", p.Pos(rs), "Saved.Before(best so far) test in the loop", "state files are adopted in directory order without comparing their timestamps")
			// atomic adoption: stores to outer state must be in the trailing run of top-level assignment statements
			body := rs.Body.List
			tail := len(body)
			for tail > 0 {
				if _, ok := body[tail-1].(*ast.AssignStmt); ok {
					tail--
					continue
				}
				break
			}
			isOuter := func(e ast.Expr) (bool, string) {
				e = ast.Unparen(e)
				if ix, ok := e.(*ast.IndexExpr); ok {
					e = ast.Unparen(ix.X)
				}
				root, path, ok := accessPath(info, e)
				if !ok {
					return false, ""
				}
				// declared outside the loop body?
				if root.Pos() < rs.Pos() || root.Pos() >= rs.End() {
					return true, path
				}
				return false, ""
			}
			nStores := 0
			for i, st := range body {
				ast.Inspect(st, func(y ast.Node) bool {
					if _, isLit := y.(*ast.FuncLit); isLit {
						return false
					}
					as, ok := y.(*ast.AssignStmt)
					if !ok {
						return true
					}
					for _, l := range as.Lhs {
						if outer, path := isOuter(l); outer {
							nStores++
							key := fmt.Sprintf("New: store to %s while loading a state file", path)
							inTail := i >= tail && ast.Node(st) == y
							r.Check(inTail, ruleA, key, p.Pos(as), "in the final adoption block, after every rejection test", "state that outlives this file is written before the file is fully validated (a later `continue nextStateFile` rejects it): a rejected — e.g. half-written or older — state file leaves its endpoints/tags behind or blocks a valid newer file")
						}
					}
					return true
				})
			}
			r.Floor(ruleA+" adoption stores", 5, nStores)
			return true
		})
		r.Floor(ruleA+" loading loops", 2, nLoops)
	}

	// ---------- (b) magic last ----------
	const ruleB = "C12-b magic-last"
	r.Rule(ruleB + ": the index file magic is written after everything else and checked before anything is used")
	magic := p.Field("index", "fileHeader", "Magic")
	nMagicStores := 0
	for _, f := range p.FnList {
		if f.Short != "index" {
			continue
		}
		info := f.Pkg.TypesInfo
		inspectShallow(f.Body(), func(x ast.Node) bool {
			writes := false
			switch s := x.(type) {
			case *ast.AssignStmt:
				for _, l := range s.Lhs {
					ast.Inspect(l, func(y ast.Node) bool {
						if se, ok := y.(*ast.SelectorExpr); ok && info.Uses[se.Sel] == types.Object(magic) {
							writes = true
						}
						return true
					})
				}
			case *ast.CallExpr:
				if isBuiltin(info, s, "copy") && len(s.Args) == 2 {
					ast.Inspect(s.Args[0], func(y ast.Node) bool {
						if se, ok := y.(*ast.SelectorExpr); ok && info.Uses[se.Sel] == types.Object(magic) {
							writes = true
						}
						return true
					})
				}
			}
			if writes {
				nMagicStores++
				r.Check(f.Key() == "index.Writer.Finalize", ruleB, "store to fileHeader.Magic in "+f.Key(), p.Pos(x), "only Finalize sets the magic", "the magic is set outside Finalize: a file that is still being written would be accepted by NewReader after a crash")
			}
			return true
		})
	}
	r.Floor(ruleB+" magic stores", 1, nMagicStores)
	if f := p.Fn("index.Writer.Finalize"); f != nil && magic != nil {
		fl := p.Flow(f)
		info := f.Pkg.TypesInfo
		isMagic := func(n ast.Node) bool {
			hit := false
			inspectShallow(n, func(y ast.Node) bool {
				if c, ok := y.(*ast.CallExpr); ok && isBuiltin(info, c, "copy") && len(c.Args) == 2 {
					ast.Inspect(c.Args[0], func(z ast.Node) bool {
						if se, ok := z.(*ast.SelectorExpr); ok && info.Uses[se.Sel] == types.Object(magic) {
							hit = true
						}
						return true
					})
				}
				if as, ok := y.(*ast.AssignStmt); ok {
					for _, l := range as.Lhs {
						ast.Inspect(l, func(z ast.Node) bool {
							if se, ok := z.(*ast.SelectorExpr); ok && info.Uses[se.Sel] == types.Object(magic) {
								hit = true
							}
							return true
						})
					}
				}
				return true
			})
			return hit
		}
		sect := p.Named("index", "section")
		consts := constsOfType(sect)
		// a node "writes section S" if it calls writeSection/writeLookup/setSectionEnd with constant S as first argument
		writesSection := func(n ast.Node, val string) bool {
			hit := false
			inspectShallow(n, func(y ast.Node) bool {
				if c, ok := y.(*ast.CallExpr); ok && len(c.Args) >= 1 {
					if tv, ok := info.Types[c.Args[0]]; ok && tv.Value != nil && types.Identical(types.Unalias(tv.Type), sect) && tv.Value.ExactString() == val {
						hit = true
					}
					// the end mark written in place: setPos(&w.header.Sections[S].End)
					if kind, sec := sectionMarkOf(p, f, c); kind == "end" {
						if tv, ok := info.Types[sec]; ok && tv.Value != nil && types.Identical(types.Unalias(tv.Type), sect) && tv.Value.ExactString() == val {
							hit = true
						}
					}
				}
				return true
			})
			return hit
		}
		for name, v := range consts {
			res := fl.Reach([]Pt{fl.Entry()}, isMagic, func(n ast.Node) bool { return writesSection(n, v.ExactString()) })
			r.Check(!res.Found, ruleB, "Finalize writes "+name+" before the magic", p.Pos(f.Node()), "a write/end of this section dominates the magic", "the magic can be written on a path that has not written section "+name+": a crash after it leaves a file that NewReader accepts but whose section table is incomplete: "+fl.traceString(res))
		}
		r.Floor(ruleB+" sections", 12, len(consts))
		isFlush := func(n ast.Node) bool {
			return nodeCalls(p, f, n, func(fn *types.Func, c *ast.CallExpr) bool { return fn.FullName() == "(*bufio.Writer).Flush" })
		}
		res := fl.Reach([]Pt{fl.Entry()}, isMagic, isFlush)
		r.Check(!res.Found, ruleB, "Finalize flushes buffered sections before the magic", p.Pos(f.Node()), "Flush dominates the magic", "section data may still sit in the buffer when the header with the magic is written at offset 0")
		// after the magic only header write, flush, close, NewReader
		for _, pt := range fl.Find(isMagic) {
			bad := fl.Reach([]Pt{After(pt)}, func(n ast.Node) bool {
				disallowed := false
				inspectShallow(n, func(y ast.Node) bool {
					c, ok := y.(*ast.CallExpr)
					if !ok {
						return true
					}
					if fn := p.Callee(f.Pkg, c); fn != nil {
						switch fn.Name() {
						case "write", "Flush", "Close", "NewReader", "Seek":
						default:
							if fn.Pkg() != nil && fn.Pkg().Path() == f.Pkg.PkgPath {
								disallowed = true
							}
						}
					} else if id, ok := c.Fun.(*ast.Ident); ok && (id.Name == "writeSection" || id.Name == "writeLookup") {
						disallowed = true
					}
					return true
				})
				return disallowed
			}, nil)
			r.Check(!bad.Found, ruleB, "Finalize writes nothing but the header after the magic", p.Pos(fl.node(pt)), "only write(header), Flush, Close, NewReader follow", "more file content is produced after the magic was set: "+fl.traceString(bad))
		}
	}
	if f := p.Fn("index.NewReader"); f != nil && magic != nil {
		// inside the constructor's worker literal: the magic comparison precedes the first use of a section
		for _, l := range f.Lits {
			fl := p.Flow(l)
			info := l.Pkg.TypesInfo
			isCmp := func(n ast.Node) bool {
				be, ok := n.(*ast.BinaryExpr)
				if !ok || be.Op != token.NEQ {
					return false
				}
				hit := false
				ast.Inspect(be, func(z ast.Node) bool {
					if se, ok := z.(*ast.SelectorExpr); ok && info.Uses[se.Sel] == types.Object(magic) {
						hit = true
					}
					return true
				})
				return hit
			}
			if len(fl.Find(isCmp)) == 0 {
				continue
			}
			sectionsFld := p.Field("index", "fileHeader", "Sections")
			usesSections := func(n ast.Node) bool {
				hit := false
				inspectShallow(n, func(z ast.Node) bool {
					if se, ok := z.(*ast.SelectorExpr); ok && info.Uses[se.Sel] == types.Object(sectionsFld) {
						hit = true
					}
					if c, ok := z.(*ast.CallExpr); ok {
						if fn := p.Callee(l.Pkg, c); fn != nil && (fn.Name() == "readObjects" || fn.Name() == "objectCount" || fn.Name() == "calculateOffset") {
							hit = true
						}
					}
					return true
				})
				return hit
			}
			res := fl.Reach([]Pt{fl.Entry()}, usesSections, isCmp)
			r.Check(!res.Found, ruleB, "NewReader checks the magic before using any section", p.Pos(l.Node()), "magic comparison dominates the first section use", "a section offset is used before the magic was compared: "+fl.traceString(res))
			for _, pt := range fl.Find(isCmp) {
				// true branch (mismatch) returns an error
				b := pt.B
				okRet := false
				if len(b.Succs) == 2 {
					for _, n := range b.Succs[0].Nodes {
						if isFailingReturn(info, n) {
							okRet = true
						}
					}
				}
				r.Check(okRet, ruleB, "NewReader rejects a wrong magic", p.Pos(fl.node(pt)), "mismatch branch returns an error", "a magic mismatch does not make NewReader fail")
			}
		}
	}

	ruleDeleteOnlySuperseded(p, r, "C12-c delete-only-superseded")
}

// ruleDeleteOnlySuperseded: who may delete files (C12-c; registered for C13 as C13-k).
func ruleDeleteOnlySuperseded(p *Prog, r *Res, ruleC string) {
	// ---------- (c) who may delete files ----------
	r.Rule(ruleC + ": every os.Remove is justified by supersession or by same-function creation")
	nRem := 0
	for _, f := range p.FnList {
		if f.Short == "main" {
			continue // upload handler: C19-c
		}
		info := f.Pkg.TypesInfo
		for _, c := range callsIn(f.Body()) {
			fn := p.Callee(f.Pkg, c)
			if fn == nil || (fn.FullName() != "os.Remove" && fn.FullName() != "os.RemoveAll") {
				continue
			}
			nRem++
			arg := types.ExprString(c.Args[0])
			key := fmt.Sprintf("os.Remove(%s) in %s", arg, f.Key())
			root := f.Root()
			switch {
			case f.Key() == "manager.indexReleaser.release":
				guarded := useCountZeroGuards(p, f, c)
				r.Check(guarded, ruleC, key, p.Pos(c), "index file removed when its use count reached zero", "index file removed without the use-count test")
			case f.Key() == "manager.Manager.saveState":
				r.OkTrivial(ruleC, key, p.Pos(c), "old state file; ordering checked by C12-a")
			case f.Short == "converters" && f.Decl != nil && f.Decl.Recv != nil && recvTypeName(f.Decl.Recv.List[0].Type) == "cacheFile" && isFieldOf(info, c.Args[0], p.Field("converters", "cacheFile", "cachePath")):
				// a converter cache deletes its own file (the converter left the registry, #65): the file holds derived
				// data only, and it must have been emptied before — what the object still serves from memory is nothing
				fl := p.Flow(f)
				resetM := p.Method("converters", "cacheFile", "Reset")
				pt, ok := fl.PointOf(c)
				if !ok || resetM == nil {
					r.Undecided(ruleC, key, p.Pos(c), "call not found in the CFG")
					break
				}
				isReset := func(n ast.Node) bool {
					return nodeCalls(p, f, n, func(fn *types.Func, _ *ast.CallExpr) bool { return fn.Origin() == resetM })
				}
				target := fl.node(pt)
				res := fl.Reach([]Pt{fl.Entry()}, func(n ast.Node) bool { return n == target }, isReset)
				r.Check(!res.Found, ruleC, key, p.Pos(c), "the cache deletes its own file, and only after it was reset", "the cache file is deleted without having been reset first: the object goes on serving records from a file that is gone")
			case unfinishedIndexGuard(p, f, info, c):
				// a file that could not be loaded and was never finalised (#82): nothing can refer to it — an index is
				// registered, named in a state file or used as merge input only after Finalize has written its magic
				r.OkTrivial(ruleC, key, p.Pos(c), "a file that failed to load, removed only under a test of package index that looks at the file's magic")
			default:
				// the removed name must derive from something created in this function: w.filename / ib.Filename() / i.Filename()
				// of a local writer/reader (C13-d provenance), a local variable assigned from MakeFilename/Join in this function,
				// or — for the snapshot file — be guarded by the success of saveSnapshots
				okLocal, why := removedNameIsLocal(p, f, root, info, c)
				r.Check(okLocal, ruleC, key, p.Pos(c), why, "a file is deleted that this function did not create and that is not known to be superseded: "+why)
			}
		}
	}
	r.Floor(ruleC, 8, nRem)
}

// unfinishedIndexGuard: os.Remove(x) lies in the body of an if whose condition calls, with the same x, a function of
// package index that looks at the file magic (its body mentions the constant fileMagic), and x is what index.NewReader
// was called with in this function.
func unfinishedIndexGuard(p *Prog, f *Fn, info *types.Info, c *ast.CallExpr) bool {
	x := identObj(info, c.Args[0])
	if x == nil {
		return false
	}
	pk := p.By["index"]
	if pk == nil {
		return false
	}
	magic := pk.Types.Scope().Lookup("fileMagic")
	if magic == nil {
		return false
	}
	looksAtMagic := func(h *Fn) bool {
		if h == nil || h.Body() == nil || h.Short != "index" {
			return false
		}
		hit := false
		ast.Inspect(h.Body(), func(y ast.Node) bool {
			if id, ok := y.(*ast.Ident); ok && h.Pkg.TypesInfo.Uses[id] == magic {
				hit = true
			}
			return !hit
		})
		return hit
	}
	asksMagic := func(cond ast.Expr) (asked, negated bool) {
		neg := false
		e := ast.Unparen(cond)
		for {
			u, ok := e.(*ast.UnaryExpr)
			if !ok || u.Op != token.NOT {
				break
			}
			neg = !neg
			e = ast.Unparen(u.X)
		}
		cc, ok := e.(*ast.CallExpr)
		if !ok || len(cc.Args) != 1 || identObj(info, cc.Args[0]) != x {
			return false, false
		}
		if fn := p.Callee(f.Pkg, cc); fn != nil && looksAtMagic(p.FnOfObj(fn)) {
			return true, neg
		}
		return false, false
	}
	guarded := false
	ast.Inspect(f.Body(), func(y ast.Node) bool {
		ifs, ok := y.(*ast.IfStmt)
		if !ok {
			return true
		}
		asked, neg := asksMagic(ifs.Cond)
		if !asked {
			return true
		}
		// the removal in the branch taken for an unfinished file …
		if !neg && within(c, ifs.Body) {
			guarded = true
		}
		// … or behind `if !unfinished(x) { return }`
		if neg && ifs.Else == nil && len(ifs.Body.List) > 0 && ifs.End() <= c.Pos() {
			if _, ok := ifs.Body.List[len(ifs.Body.List)-1].(*ast.ReturnStmt); ok {
				guarded = true
			}
		}
		return true
	})
	if !guarded {
		return false
	}
	loadsFail := func(g *Fn, name types.Object) bool {
		for _, cc := range callsInDeep(g.Body()) {
			if fn := p.Callee(g.Pkg, cc); fn != nil && fn.FullName() == "github.com/spq/pkappa2/internal/index.NewReader" && len(cc.Args) == 1 && identObj(g.Pkg.TypesInfo, cc.Args[0]) == name {
				return true
			}
		}
		return false
	}
	if loadsFail(f, x) {
		return true
	}
	// x is a parameter of a helper: every call of the helper passes a name index.NewReader was called with there
	if f.Decl == nil || f.Lit != nil || f.Decl.Type.Params == nil {
		return false
	}
	pos := -1
	k := 0
	for _, fld := range f.Decl.Type.Params.List {
		for _, nm := range fld.Names {
			if info.Defs[nm] == x {
				pos = k
			}
			k++
		}
	}
	fobj, _ := info.Defs[f.Decl.Name].(*types.Func)
	if pos < 0 || fobj == nil {
		return false
	}
	sites, okSites := 0, 0
	for _, g := range p.FnList {
		if g.Body() == nil || g.Short != f.Short {
			continue
		}
		for _, cc := range callsIn(g.Body()) {
			if fn := p.Callee(g.Pkg, cc); fn != nil && fn.Origin() == fobj.Origin() && pos < len(cc.Args) {
				sites++
				if o := identObj(g.Pkg.TypesInfo, cc.Args[pos]); o != nil && loadsFail(g.Root(), o) {
					okSites++
				}
			}
		}
	}
	return sites > 0 && sites == okSites
}

// removedNameIsLocal: the argument of os.Remove derives from an object created in this function.
func removedNameIsLocal(p *Prog, f, root *Fn, info *types.Info, c *ast.CallExpr) (bool, string) {
	arg := ast.Unparen(c.Args[0])
	if strings.Contains(types.ExprString(arg), "snapshotFilename") {
		// old snapshot file: must come after a successful saveSnapshots
		fl := p.Flow(f)
		pt, ok := fl.PointOf(c)
		if !ok {
			return false, "not in CFG"
		}
		isSave := func(n ast.Node) bool {
			return nodeCalls(p, f, n, func(fn *types.Func, _ *ast.CallExpr) bool { return fn.Name() == "saveSnapshots" })
		}
		res := fl.Reach([]Pt{fl.Entry()}, func(n ast.Node) bool { return n == fl.node(pt) }, isSave)
		if res.Found {
			return false, "old snapshot file removed on a path without saveSnapshots"
		}
		for _, sp := range fl.Find(isSave) {
			if failureReaches(fl, sp, func(n ast.Node) bool { return n == fl.node(pt) }) {
				return false, "old snapshot file removed although saveSnapshots failed"
			}
		}
		return true, "old snapshot file, removed only after saveSnapshots succeeded"
	}
	var base ast.Expr
	switch x := arg.(type) {
	case *ast.CallExpr: // ib.Filename()
		if se, ok := ast.Unparen(x.Fun).(*ast.SelectorExpr); ok {
			base = se.X
		}
	case *ast.SelectorExpr: // w.filename
		base = x.X
	case *ast.Ident:
		base = x
	}
	if base == nil {
		return false, "unrecognised argument form"
	}
	obj := identObj(info, base)
	if obj == nil {
		// b.snapshotFilename: old snapshot file, must be after a successful saveSnapshots
		if se, ok := base.(*ast.SelectorExpr); ok {
			_ = se
		}
		if strings.Contains(types.ExprString(arg), "snapshotFilename") {
			fl := p.Flow(f)
			pt, ok := fl.PointOf(c)
			if !ok {
				return false, "not in CFG"
			}
			isSave := func(n ast.Node) bool {
				return nodeCalls(p, f, n, func(fn *types.Func, _ *ast.CallExpr) bool { return fn.Name() == "saveSnapshots" })
			}
			res := fl.Reach([]Pt{fl.Entry()}, func(n ast.Node) bool { return n == fl.node(pt) }, isSave)
			if res.Found {
				return false, "old snapshot file removed on a path without saveSnapshots"
			}
			for _, sp := range fl.Find(isSave) {
				if failureReaches(fl, sp, func(n ast.Node) bool { return n == fl.node(pt) }) {
					return false, "old snapshot file removed although saveSnapshots failed"
				}
			}
			return true, "old snapshot file, removed only after saveSnapshots succeeded"
		}
		return false, "argument is not rooted in a local variable"
	}
	// string variable assigned in this function from a filename constructor
	if b, ok := obj.Type().Underlying().(*types.Basic); ok && b.Kind() == types.String {
		local := false
		ast.Inspect(root.Body(), func(y ast.Node) bool {
			if as, ok := y.(*ast.AssignStmt); ok {
				for i, l := range as.Lhs {
					if sameObj(info, l, obj) && i < len(as.Rhs) {
						if cc, ok := ast.Unparen(as.Rhs[i]).(*ast.CallExpr); ok {
							if fn := p.Callee(f.Pkg, cc); fn != nil && (fn.Name() == "MakeFilename" || fn.FullName() == "path/filepath.Join") {
								local = true
							}
						}
					}
				}
			}
			return true
		})
		if paramIndexDeep(f, obj) >= 0 {
			return false, "file name is a parameter"
		}
		// closure variable captured from the enclosing function (event.Name etc.) is not local
		return local, "name " + obj.Name() + " built in this function from a fresh file name"
	}
	src := localSource(info, root, obj)
	if src == nil {
		return false, "receiver provenance unknown"
	}
	if paramIndexDeep(f, src) >= 0 {
		if okc, whyc := localAtCallSites(p, root, src, 1); okc {
			return true, "cleanup helper: file of parameter " + src.Name() + "; " + whyc
		}
		return false, "file of a reader/writer passed in as " + src.Name()
	}
	return true, "file of " + src.Name() + ", created in this function"
}

// C12-e/f: what is acknowledged is persisted, and what is persisted is restored.
func init() {
	register("C12",
		"C12-e (state fields round-trip, sibling agreement): every field of the persisted stateFile record — including the per-tag record — is written by saveState and read back by New. C12-f (acknowledge after save): in every closure that an exported API function posts on the service goroutine, a change of persisted state (Manager.tags and the persisted fields of a tag, config, webhook list, endpoint list) is followed on every path to the end of the closure by a call of saveState (or by a failing return that C11-a shows to be free of mutations).",
		ruleC12Persist)
}

func ruleC12Persist(p *Prog, r *Res) {
	const ruleE = "C12-e state-fields-round-trip"
	r.Rule(ruleE + ": every stateFile field is saved and restored")
	sf := p.Named("manager", "stateFile")
	save := p.Fn("manager.Manager.saveState")
	nw := p.Fn("manager.New")
	if sf == nil || save == nil || nw == nil {
		return
	}
	type fld struct {
		name string
		v    *types.Var
	}
	var fields []fld
	st := sf.Underlying().(*types.Struct)
	for i := 0; i < st.NumFields(); i++ {
		f := st.Field(i)
		fields = append(fields, fld{"stateFile." + f.Name(), f})
		// element struct of Tags
		if sl, ok := f.Type().Underlying().(*types.Slice); ok {
			if es, ok := sl.Elem().Underlying().(*types.Struct); ok {
				for j := 0; j < es.NumFields(); j++ {
					fields = append(fields, fld{"stateFile." + f.Name() + "[]." + es.Field(j).Name(), es.Field(j)})
				}
			}
		}
	}
	usedIn := func(f *Fn, v *types.Var, asKey bool) bool {
		hit := false
		info := f.Pkg.TypesInfo
		ast.Inspect(f.Body(), func(x ast.Node) bool {
			switch s := x.(type) {
			case *ast.KeyValueExpr:
				if id, ok := s.Key.(*ast.Ident); ok && asKey && info.Uses[id] == types.Object(v) {
					hit = true
				}
			case *ast.SelectorExpr:
				if info.Uses[s.Sel] == types.Object(v) {
					hit = true
				}
			}
			return true
		})
		return hit
	}
	for _, f := range fields {
		// anonymous struct fields in saveState's literal are distinct objects from the named type's: match by name for the element struct
		saved := usedIn(save, f.v, true)
		if !saved {
			// by name inside composite literals of saveState
			ast.Inspect(save.Body(), func(x ast.Node) bool {
				if kv, ok := x.(*ast.KeyValueExpr); ok {
					if id, ok := kv.Key.(*ast.Ident); ok && id.Name == f.v.Name() {
						saved = true
					}
				}
				return true
			})
		}
		restored := usedIn(nw, f.v, false)
		if !restored {
			ast.Inspect(nw.Body(), func(x ast.Node) bool {
				if se, ok := x.(*ast.SelectorExpr); ok && se.Sel.Name == f.v.Name() {
					if v, ok := nw.Pkg.TypesInfo.Uses[se.Sel].(*types.Var); ok && v.IsField() && v.Name() == f.v.Name() {
						t := nw.Pkg.TypesInfo.TypeOf(se.X)
						if t != nil && (strings.Contains(t.String(), "stateFile") || strings.Contains(t.String(), "struct{Name string")) {
							restored = true
						}
					}
				}
				return true
			})
		}
		r.Check(saved && restored, ruleE, f.name, p.PosOf(f.v.Pos()), "written by saveState and read by New", fmt.Sprintf("saved=%v restored=%v: an acknowledged change of this part of the state does not survive a restart", saved, restored))
	}
	r.Floor(ruleE, 10, len(fields))

	const ruleF = "C12-f acknowledge-after-save"
	r.Rule(ruleF + ": API closures persist what they change before they complete successfully")
	ctx := p.Contexts()
	saveObj := p.Method("manager", "Manager", "saveState")
	persisted := map[*types.Var]string{}
	for _, n := range []string{"tags", "config", "pcapProcessorWebhookUrls", "pcapOverIPEndpoints"} {
		if v := p.Field("manager", "Manager", n); v != nil {
			persisted[v] = "Manager." + n
		}
	}
	for _, n := range []string{"definition", "color", "converters"} {
		if v := p.Field("manager", "tag", n); v != nil {
			persisted[v] = "tag." + n
		}
	}
	nf := 0
	for _, api := range p.FnList {
		if api.Short != "manager" || api.Lit != nil || !api.Decl.Name.IsExported() || api.Key() == "manager.New" {
			continue
		}
		for _, posted := range ctx.postedIn(api) {
			// the functions that run as part of this closure: the closure, its inline literals, and declared delegates
			var fns []*Fn
			seen := map[*Fn]bool{}
			var visit func(g *Fn, d int)
			visit = func(g *Fn, d int) {
				if g == nil || seen[g] || d > 2 {
					return
				}
				seen[g] = true
				fns = append(fns, g)
				for _, l := range g.Lits {
					visit(l, d)
				}
			}
			eff, _ := ctx.effective(posted)
			visit(posted, 0)
			visit(eff, 0)
			for _, g := range fns {
				info := g.Pkg.TypesInfo
				fl := p.Flow(g)
				isSave := func(n ast.Node) bool {
					return fl.hasCall(n, func(c *ast.CallExpr) bool {
						if p.Callee(g.Pkg, c) == saveObj {
							return true
						}
						// an inline worker literal that itself always saves (err := func() error {…}())
						if lit, ok := ast.Unparen(c.Fun).(*ast.FuncLit); ok {
							lf := p.FnOfLit(lit)
							lfl := p.Flow(lf)
							res := lfl.search([]Pt{lfl.Entry()}, func(m ast.Node) bool {
								return isReturn(m) && !isFailingReturn(info, m) && !lfl.hasCall(m, func(cc *ast.CallExpr) bool { return p.Callee(lf.Pkg, cc) == saveObj })
							}, func(m ast.Node) bool {
								return lfl.hasCall(m, func(cc *ast.CallExpr) bool { return p.Callee(lf.Pkg, cc) == saveObj })
							})
							return !res.Found
						}
						// removeConverter / restartConverterProcess style helpers that end in saveState
						if fn := p.Callee(g.Pkg, c); fn != nil {
							if tf := p.FnOfObj(fn); tf != nil && tf.Short == "manager" {
								for _, cc := range callsIn(tf.Body()) {
									if p.Callee(tf.Pkg, cc) == saveObj {
										return true
									}
								}
							}
						}
						return false
					})
				}
				for _, b := range fl.G.Blocks {
					if !b.Live {
						continue
					}
					for i, n := range b.Nodes {
						what := ""
						inspectShallow(n, func(x ast.Node) bool {
							var lhss []ast.Expr
							switch s := x.(type) {
							case *ast.AssignStmt:
								lhss = s.Lhs
							case *ast.CallExpr:
								if isBuiltin(info, s, "delete") && len(s.Args) == 2 {
									lhss = []ast.Expr{s.Args[0]}
								}
							}
							for _, l := range lhss {
								ast.Inspect(l, func(y ast.Node) bool {
									if se, ok := y.(*ast.SelectorExpr); ok {
										if v, ok := info.Uses[se.Sel].(*types.Var); ok && persisted[v] != "" {
											// stores through a fresh, not yet installed tag (newTag.color = …) do not change persisted state
											if obj := identObj(info, se.X); obj != nil && strings.HasPrefix(persisted[v], "tag.") {
												if _, isPtr := obj.Type().Underlying().(*types.Pointer); !isPtr {
													return true
												}
												// by role: a pointer that is only ever assigned the address of a composite literal
												// or of a local copy is a tag under construction, not the installed one
												if freshTagPointer(info, g, obj) {
													return true
												}
											}
											what = persisted[v]
										}
									}
									return true
								})
							}
							return true
						})
						if what == "" {
							continue
						}
						nf++
						key := fmt.Sprintf("%s change of %s@%s", g.Key(), what, relLine(p, g, n))
						res := fl.search([]Pt{{b, i + 1}}, func(m ast.Node) bool {
							return isReturn(m) && !isFailingReturn(info, m) && !isSave(m)
						}, isSave)
						r.Check(!res.Found, ruleF, key, p.Pos(n), "saveState lies on every successful path after the change", "persisted state is changed and the closure can complete successfully without saving it: the change is acknowledged to the caller but lost at the next restart ("+fl.traceString(res)+")")
					}
				}
			}
		}
	}
	r.Floor(ruleF, 10, nf)
}

// freshTagPointer: every assignment to the pointer variable obj in g (and its enclosing function) is &T{…} or
// &local where local is a variable declared in the same function (a by-value copy being built).
func freshTagPointer(info *types.Info, g *Fn, obj types.Object) bool {
	root := g.Root()
	n, ok := 0, true
	ast.Inspect(root.Body(), func(x ast.Node) bool {
		as, isAs := x.(*ast.AssignStmt)
		if !isAs || len(as.Lhs) != len(as.Rhs) {
			return true
		}
		for i, l := range as.Lhs {
			if !sameObj(info, l, obj) {
				continue
			}
			n++
			ue, isU := ast.Unparen(as.Rhs[i]).(*ast.UnaryExpr)
			if !isU || ue.Op != token.AND {
				ok = false
				continue
			}
			switch t := ast.Unparen(ue.X).(type) {
			case *ast.CompositeLit:
			case *ast.Ident:
				if v, isVar := info.Uses[t].(*types.Var); !isVar || v.IsField() || v.Pos() < root.Node().Pos() || v.Pos() > root.Node().End() {
					ok = false
				}
			default:
				ok = false
			}
		}
		return true
	})
	return ok && n > 0
}

// ---- C12-g: matches read back from the state file are not trusted as decided ----

func init() {
	register("C12",
		"C12-g (AST, typed): saveState runs before a new or changed tag has been evaluated, so the matches stored in a state file can be empty or stale after a kill. In New every tag built from a state file starts with Uncertain = all streams; a block that empties a loaded tag's Uncertain must, in the same block, assign its Matches from something computed from the parsed definition (the explicit id list of a mark), never leave the saved matches in place.",
		func(p *Prog, r *Res) {
			const rule = "C12-g restored-matches-not-trusted"
			r.Rule(rule + ": a tag restored from the state file is undecided unless its matches are recomputed from its definition")
			f := p.Fn("manager.New")
			unc := p.Field("query", "TagDetails", "Uncertain")
			mat := p.Field("query", "TagDetails", "Matches")
			tagT := p.Named("manager", "tag")
			all := p.Field("manager", "Manager", "allStreams")
			if f == nil || unc == nil || mat == nil || tagT == nil || all == nil {
				p.anchorFail("manager.New / query.TagDetails.Uncertain,Matches / manager.tag / Manager.allStreams")
				return
			}
			info := f.Pkg.TypesInfo
			n := 0
			// (1) the literal: Uncertain initialised with Manager.allStreams
			ast.Inspect(f.Body(), func(x ast.Node) bool {
				cl, ok := x.(*ast.CompositeLit)
				if !ok {
					return true
				}
				if nt := namedOf(info.TypeOf(cl)); nt == nil || nt.Obj().Name() != "TagDetails" {
					return true
				}
				for _, el := range cl.Elts {
					kv, ok := el.(*ast.KeyValueExpr)
					if !ok {
						continue
					}
					if k, ok := kv.Key.(*ast.Ident); ok && info.Uses[k] == types.Object(unc) {
						n++
						se, isSel := ast.Unparen(kv.Value).(*ast.SelectorExpr)
						r.Check(isSel && info.Uses[se.Sel] == types.Object(all), rule, "New: a restored tag starts with Uncertain = all streams", p.Pos(kv), "Uncertain: mgr.allStreams", "a tag restored from the state file does not start fully undecided: matches saved before its first evaluation are served as final")
					}
				}
				return true
			})
			// (2) every emptying of Uncertain is paired with a recomputation of Matches in the same block
			inspectShallow(f.Body(), func(x ast.Node) bool {
				blk, ok := x.(*ast.BlockStmt)
				if !ok {
					return true
				}
				for _, st := range blk.List {
					as, ok := st.(*ast.AssignStmt)
					if !ok || len(as.Lhs) != 1 || len(as.Rhs) != 1 {
						continue
					}
					se, ok := ast.Unparen(as.Lhs[0]).(*ast.SelectorExpr)
					if !ok || info.Uses[se.Sel] != types.Object(unc) {
						continue
					}
					if cl, isLit := ast.Unparen(as.Rhs[0]).(*ast.CompositeLit); !isLit || len(cl.Elts) != 0 {
						continue
					}
					base := types.ExprString(se.X)
					n++
					recomputed := false
					for _, st2 := range blk.List {
						a2, ok := st2.(*ast.AssignStmt)
						if !ok || len(a2.Lhs) != 1 || len(a2.Rhs) != 1 {
							continue
						}
						s2, ok := ast.Unparen(a2.Lhs[0]).(*ast.SelectorExpr)
						if ok && info.Uses[s2.Sel] == types.Object(mat) && types.ExprString(s2.X) == base {
							recomputed = true
						}
					}
					r.Check(recomputed, rule, fmt.Sprintf("New: %s.Uncertain emptied (line +%d)", base, lineOf(p.Fset, as)-lineOf(p.Fset, f.Node())), p.Pos(as), "the same block assigns "+base+".Matches from the parsed definition", "the tag is declared decided with the matches that were read from the state file: after a kill between the acknowledgement of AddTag/UpdateTag and the end of the first tagging job these are empty or stale, and nothing re-evaluates them")
				}
				return true
			})
			r.Floor(rule, 2, n)
		})
}

// helperPropagates: h performs the call named step on every path to a successful return, and a failure of that call
// reaches h's caller — the step's error is stored in (or is) the variable h returns, and every later assignment to that
// variable is guarded by `<var> == nil`, so an earlier failure is never overwritten (error-accumulation idiom:
// `err = enc.Encode(x); if cerr := f.Close(); err == nil { err = cerr }; return err`).
func helperPropagates(p *Prog, h *Fn, step string) bool {
	if h.Body() == nil {
		return false
	}
	info := h.Pkg.TypesInfo
	fl := p.Flow(h)
	isStep := func(n ast.Node) bool {
		return nodeCalls(p, h, n, func(fn *types.Func, _ *ast.CallExpr) bool { return fn.FullName() == step })
	}
	pts := fl.Find(isStep)
	if len(pts) == 0 {
		return false
	}
	// the step lies on every path to a non-failing return
	if fl.ExitAvoiding([]Pt{fl.Entry()}, func(n ast.Node) bool { return isStep(n) || isErrReturn(info, n) }).Found {
		// a `return err` with a variable is not recognised as failing by isErrReturn only if err is the nil identifier: fine
		// but a successful path without the step disqualifies the helper
		return false
	}
	// the variable h returns
	var ret types.Object
	okRet := true
	inspectShallow(h.Body(), func(x ast.Node) bool {
		if rs, ok := x.(*ast.ReturnStmt); ok && len(rs.Results) > 0 {
			last := rs.Results[len(rs.Results)-1]
			if o := identObj(info, last); o != nil {
				if _, isNil := o.(*types.Nil); isNil {
					return true
				}
				if ret == nil {
					ret = o
				}
			}
		}
		return true
	})
	if ret == nil || !okRet {
		return false
	}
	for _, pt := range pts {
		// error variable of the step
		var ev types.Object
		switch n := fl.node(pt).(type) {
		case *ast.AssignStmt:
			ev = identObj(info, n.Lhs[len(n.Lhs)-1])
		}
		if ev == nil {
			return false
		}
		flows := ev == ret
		guardedOnly := true
		inspectParents(h.Body(), func(x ast.Node, parents []ast.Node) bool {
			as, ok := x.(*ast.AssignStmt)
			if !ok || x.Pos() <= fl.node(pt).Pos() {
				return true
			}
			for i, l := range as.Lhs {
				if !sameObj(info, l, ret) {
					continue
				}
				if i < len(as.Rhs) && sameObj(info, as.Rhs[i], ev) {
					flows = true
				}
				// must be guarded by ret == nil
				g := false
				for _, par := range parents {
					if is, ok := par.(*ast.IfStmt); ok {
						for _, c := range conjuncts(is.Cond) {
							if be, ok := ast.Unparen(c).(*ast.BinaryExpr); ok && be.Op == token.EQL && sameObj(info, be.X, ret) && types.ExprString(be.Y) == "nil" {
								g = true
							}
						}
					}
				}
				if !g {
					guardedOnly = false
				}
			}
			return true
		})
		if !flows || !guardedOnly {
			return false
		}
	}
	return true
}

// ---- C12-h: order-dependent elimination over a map runs to a fixpoint ----

func init() {
	register("C12",
		"C12-h (AST, typed): a range over a map whose body deletes keys from that same map depending on whether OTHER keys are (still) in it computes something that depends on Go's randomised iteration order unless it is repeated until nothing changes. For every such loop in packages manager and query (FLOW) the range expression is reached again from each deletion without the map being replaced in between (the fixpoint iteration). In manager.New this is the acyclicity check of restored tags: a single pass rejects a valid state file — all tags, converters, webhooks and endpoints of the last session — whenever a tag happens to be visited before a tag it references.",
		func(p *Prog, r *Res) {
			const rule = "C12-h map-elimination-runs-to-fixpoint"
			r.Rule(rule + ": order-dependent deletions from a map being ranged over are iterated to a fixpoint")
			n := 0
			for _, f := range p.FnList {
				if (f.Short != "manager" && f.Short != "query") || f.Body() == nil {
					continue
				}
				info := f.Pkg.TypesInfo
				inspectParents(f.Body(), func(x ast.Node, parents []ast.Node) bool {
					rs, ok := x.(*ast.RangeStmt)
					if !ok {
						return true
					}
					if _, isMap := info.TypeOf(rs.X).Underlying().(*types.Map); !isMap {
						return true
					}
					mStr := exprString(p.Fset, rs.X)
					key := identObj(info, rs.Key)
					deletes, testsOther := false, false
					ast.Inspect(rs.Body, func(y ast.Node) bool {
						switch s := y.(type) {
						case *ast.FuncLit:
							return false
						case *ast.CallExpr:
							if isBuiltin(info, s, "delete") && len(s.Args) == 2 && exprString(p.Fset, s.Args[0]) == mStr {
								deletes = true
							}
						case *ast.IndexExpr:
							if exprString(p.Fset, s.X) == mStr && (key == nil || !sameObj(info, s.Index, key)) {
								testsOther = true
							}
						}
						return true
					})
					if !deletes || !testsOther {
						return true
					}
					n++
					// the pass is repeated: after every deletion the range expression is evaluated again (the enclosing loop comes
					// round) without the map having been replaced in between
					_ = parents
					fl := p.Flow(f)
					enclosed := true
					isRangeX := func(nd ast.Node) bool { return nd == ast.Node(rs.X) }
					replaces := func(nd ast.Node) bool {
						as, ok := nd.(*ast.AssignStmt)
						if !ok {
							return false
						}
						for _, l := range as.Lhs {
							if exprString(p.Fset, l) == mStr {
								return true
							}
						}
						return false
					}
					nDel := 0
					leftAt := ""
					for _, pt := range fl.Find(func(nd ast.Node) bool {
						if nd.Pos() < rs.Body.Pos() || nd.End() > rs.Body.End() {
							return false
						}
						return fl.hasCall(nd, func(c *ast.CallExpr) bool {
							return isBuiltin(info, c, "delete") && len(c.Args) == 2 && exprString(p.Fset, c.Args[0]) == mStr
						})
					}) {
						nDel++
						if !fl.Reach([]Pt{After(pt)}, isRangeX, replaces).Found {
							enclosed = false
							continue
						}
						// … and on every path: from the deletion (the straight-line code it belongs to) the repeating loop is not left
						// without either starting the pass again or setting a variable its condition reads (the `changed` flag form)
						var region *ast.ForStmt
						for _, par := range parents {
							if fs, ok := par.(*ast.ForStmt); ok {
								region = fs
							}
						}
						if region == nil {
							enclosed = false
							continue
						}
						flags := map[types.Object]bool{}
						condReadsMap := false
						if region.Cond != nil {
							ast.Inspect(region.Cond, func(y ast.Node) bool {
								if e, ok := y.(ast.Expr); ok && exprString(p.Fset, e) == mStr {
									condReadsMap = true
								}
								return true
							})
						}
						if condReadsMap {
							continue // `for len(m) != 0 { … }`: the deletion itself is what the repeating loop's condition reads
						}
						if region.Cond != nil {
							ast.Inspect(region.Cond, func(y ast.Node) bool {
								if id, ok := y.(*ast.Ident); ok {
									if o, ok := info.Uses[id].(*types.Var); ok {
										flags[o] = true
									}
								}
								return true
							})
						}
						pass := func(nd ast.Node) bool {
							if isRangeX(nd) {
								return true
							}
							if nd.Pos() < rs.Body.Pos() || nd.End() > rs.Body.End() {
								return false // the loop's own counter (init/post) is no sign of progress
							}
							if as, ok := nd.(*ast.AssignStmt); ok {
								for _, l := range as.Lhs {
									if o := identObj(info, l); o != nil && flags[o] {
										return true
									}
								}
							}
							if ids, ok := nd.(*ast.IncDecStmt); ok {
								if o := identObj(info, ids.X); o != nil && flags[o] {
									return true
								}
							}
							return false
						}
						start := Pt{pt.B, 0}
						flagSetBefore := false
						for i := 0; i < pt.I; i++ {
							if pass(pt.B.Nodes[i]) {
								flagSetBefore = true // `changed = true; delete(m, k)`: same straight-line code
							}
						}
						if flagSetBefore {
							continue
						}
						leaves := func(nd ast.Node) bool {
							return isReturn(nd) || nd.Pos() < region.Pos() || nd.End() > region.End()
						}
						if res := fl.Reach([]Pt{start}, leaves, pass); res.Found {
							enclosed = false
							leftAt = fl.traceString(res)
						}
					}
					if nDel == 0 {
						enclosed = false
					}
					k := fmt.Sprintf("%s elimination over %s", f.Key(), mStr)
					r.Check(enclosed, rule, k, p.Pos(rs), "after each deletion the pass over the map is started again", "keys are deleted from "+mStr+" depending on the presence of other keys, and the pass is not started again after every deletion "+leftAt+": the outcome depends on the randomised iteration order (an entry visited before the entries it depends on is wrongly kept)")
					return true
				})
			}
			r.Floor(rule, 1, n)
		})
}
