package main

import (
	"fmt"
	"go/ast"
	"go/token"
	"go/types"
	"sort"
	"strings"

	"golang.org/x/tools/go/cfg"
)

func init() {
	register("C11",
		"C11 (CTX+FLOW with derived operation groups): (a) validate-before-mutate — in the service-goroutine closures of AddTag, DelTag and UpdateTag no path leads from a mutation of tag state (store to Manager.tags or through an installed *tag, referencedBy updates, delete, attach/detach of converters) to a return of a non-nil error; paths are pruned by operation groups derived from the UpdateTagOperation* constructors (one call sets the fields of exactly one group, so guards on other groups' fields — and on variables assigned only under such guards — are false), and failure returns of callees that fail only on file I/O, or whose failure condition is validated before the first mutation, are exempt by name with a checked reason; (b) the update path validates what the add path validates — every installation of a freshly parsed tag is dominated by an existence check of all referenced tags and, where the tag may already be referenced, by a cycle check; every dereference of a single-result lookup in Manager.tags uses a key that is a range key of the map, comes from the reference list of a tag, or was tested with comma-ok; (c) referencedBy mirrors the definitions — add/delete/rename/update are accompanied on every path by the matching referencedBy updates and delete/rename are dominated by the still-referenced rejection; (d) the two fixed-point walks over the tag graph are the only loops in package manager with a state-preserving iteration, and they terminate iff the graph is acyclic, which (b) maintains. Absence of other panics and persistence of each accepted change are NOT decided.",
		ruleC11)
}

type opGroup struct {
	Name   string
	Fields map[string]bool
}

// opGroups derives the operation groups from the UpdateTagOperation* constructors.
func opGroups(p *Prog) []opGroup {
	var out []opGroup
	for _, f := range p.FnList {
		if f.Short != "manager" || f.Lit != nil || !strings.HasPrefix(f.Name, "UpdateTagOperation") {
			continue
		}
		g := opGroup{Name: strings.TrimPrefix(f.Name, "UpdateTagOperation"), Fields: map[string]bool{}}
		for _, l := range f.Lits {
			ast.Inspect(l.Body(), func(x ast.Node) bool {
				if as, ok := x.(*ast.AssignStmt); ok {
					for _, lhs := range as.Lhs {
						if se, ok := lhs.(*ast.SelectorExpr); ok {
							if n := namedOf(l.Pkg.TypesInfo.TypeOf(se.X)); n != nil && n.Obj().Name() == "updateTagOperationInfo" {
								g.Fields[se.Sel.Name] = true
							}
						}
					}
				}
				return true
			})
		}
		if len(g.Fields) > 0 {
			out = append(out, g)
		}
	}
	sort.Slice(out, func(i, j int) bool { return out[i].Name < out[j].Name })
	return out
}

// groupEval evaluates guards of UpdateTag under the assumption "exactly the fields of group G may be non-zero".
type groupEval struct {
	info   *types.Info
	fields map[string]bool                  // fields of the active group
	varDep map[types.Object]map[string]bool // local variable -> info fields it depends on (assigned only under guards on them)
}

// deps returns the info-fields an expression depends on (directly or via dependent variables); ok=false if it
// mentions anything else that is not a literal/len.
func (g *groupEval) termDeps(e ast.Expr) (map[string]bool, bool) {
	e = ast.Unparen(e)
	switch x := e.(type) {
	case *ast.SelectorExpr:
		if n := namedOf(g.info.TypeOf(x.X)); n != nil && n.Obj().Name() == "updateTagOperationInfo" {
			return map[string]bool{x.Sel.Name: true}, true
		}
	case *ast.Ident:
		if d, ok := g.varDep[g.info.ObjectOf(x)]; ok {
			return d, true
		}
	case *ast.CallExpr:
		if isBuiltin(g.info, x, "len") && len(x.Args) == 1 {
			return g.termDeps(x.Args[0])
		}
	case *ast.StarExpr:
		return g.termDeps(x.X)
	}
	return nil, false
}

func isZeroLit(e ast.Expr) bool {
	switch x := ast.Unparen(e).(type) {
	case *ast.BasicLit:
		return x.Value == `""` || x.Value == "0"
	case *ast.Ident:
		return x.Name == "nil" || x.Name == "false"
	}
	return false
}

// eval returns +1 (true), -1 (false), 0 (unknown) for an atomic condition.
func (g *groupEval) eval(e ast.Expr) int {
	e = ast.Unparen(e)
	zeroTerm := func(t ast.Expr) bool {
		d, ok := g.termDeps(t)
		if !ok || len(d) == 0 {
			return false
		}
		for f := range d {
			if g.fields[f] {
				return false
			}
		}
		return true
	}
	switch x := e.(type) {
	case *ast.BinaryExpr:
		if x.Op == token.NEQ || x.Op == token.EQL {
			var term ast.Expr
			if isZeroLit(x.Y) {
				term = x.X
			} else if isZeroLit(x.X) {
				term = x.Y
			}
			if term != nil && zeroTerm(term) {
				if x.Op == token.NEQ {
					return -1
				}
				return +1
			}
		}
	case *ast.UnaryExpr:
		if x.Op == token.NOT {
			return -g.eval(x.X)
		}
	case *ast.SelectorExpr, *ast.Ident:
		if zeroTerm(x.(ast.Expr)) {
			return -1
		}
	}
	return 0
}

func (g *groupEval) edgeOK(b *cfg.Block, succ int) bool {
	if len(b.Succs) != 2 || len(b.Nodes) == 0 {
		return true
	}
	cond, ok := b.Nodes[len(b.Nodes)-1].(ast.Expr)
	if !ok {
		return true
	}
	switch g.eval(cond) {
	case +1:
		return succ == 0
	case -1:
		return succ == 1
	}
	return true
}

// varDeps computes, for the local variables of outer (and its closures), the info-fields they depend on:
// every non-zero assignment lies inside an if whose condition depends only on info fields.
func varDeps(p *Prog, outer *Fn) map[types.Object]map[string]bool {
	info := outer.Pkg.TypesInfo
	g := &groupEval{info: info, fields: map[string]bool{}, varDep: map[types.Object]map[string]bool{}}
	type asg struct {
		obj  types.Object
		node ast.Node
		zero bool
	}
	var asgs []asg
	var ifs []*ast.IfStmt
	ast.Inspect(outer.Body(), func(x ast.Node) bool {
		switch s := x.(type) {
		case *ast.IfStmt:
			ifs = append(ifs, s)
		case *ast.AssignStmt:
			for i, l := range s.Lhs {
				if id, ok := l.(*ast.Ident); ok {
					z := false
					if i < len(s.Rhs) {
						r := ast.Unparen(s.Rhs[i])
						if c, ok := r.(*ast.CallExpr); ok && len(c.Args) == 1 && isZeroLit(c.Args[0]) {
							z = true // uint64(0)
						}
						if isZeroLit(r) {
							z = true
						}
					}
					asgs = append(asgs, asg{info.ObjectOf(id), s, z})
				}
			}
		case *ast.IncDecStmt:
			if id, ok := s.X.(*ast.Ident); ok {
				asgs = append(asgs, asg{info.ObjectOf(id), s, false})
			}
		case *ast.ValueSpec:
			for _, id := range s.Names {
				asgs = append(asgs, asg{info.Defs[id], s, len(s.Values) == 0})
			}
		}
		return true
	})
	for iter := 0; iter < 3; iter++ {
		byObj := map[types.Object][]asg{}
		for _, a := range asgs {
			byObj[a.obj] = append(byObj[a.obj], a)
		}
		for obj, as := range byObj {
			if obj == nil {
				continue
			}
			dep := map[string]bool{}
			ok := true
			nonzero := 0
			for _, a := range as {
				if a.zero {
					continue
				}
				nonzero++
				// innermost enclosing if-with-dependency (then-branch only)
				found := false
				// a boolean that IS such a condition: markStreams := len(info.add) != 0 || len(info.del) != 0
				if as1, ok := a.node.(*ast.AssignStmt); ok && len(as1.Lhs) == len(as1.Rhs) {
					for i, l := range as1.Lhs {
						if id, ok := l.(*ast.Ident); ok && info.ObjectOf(id) == obj {
							if t := info.TypeOf(as1.Rhs[i]); t != nil {
								if b, ok := t.Underlying().(*types.Basic); ok && b.Info()&types.IsBoolean != 0 {
									if d := condDeps(g, as1.Rhs[i]); len(d) > 0 {
										for f := range d {
											dep[f] = true
										}
										found = true
									}
								}
							}
						}
					}
				}
				for _, ifs1 := range ifs {
					if !within(a.node, ifs1.Body) {
						continue
					}
					d := condDeps(g, ifs1.Cond)
					if len(d) > 0 {
						for f := range d {
							dep[f] = true
						}
						found = true
					}
				}
				if !found {
					ok = false
				}
			}
			if ok && nonzero > 0 && len(dep) > 0 {
				g.varDep[obj] = dep
			}
		}
	}
	return g.varDep
}

func condDeps(g *groupEval, e ast.Expr) map[string]bool {
	out := map[string]bool{}
	pure := true
	var walk func(e ast.Expr)
	walk = func(e ast.Expr) {
		e = ast.Unparen(e)
		switch x := e.(type) {
		case *ast.BinaryExpr:
			if x.Op == token.LAND || x.Op == token.LOR {
				walk(x.X)
				walk(x.Y)
				return
			}
			for _, side := range []ast.Expr{x.X, x.Y} {
				if isZeroLit(side) {
					continue
				}
				if d, ok := g.termDeps(side); ok {
					for f := range d {
						out[f] = true
					}
				} else {
					pure = false
				}
			}
		case *ast.UnaryExpr:
			walk(x.X)
		default:
			if d, ok := g.termDeps(e); ok {
				for f := range d {
					out[f] = true
				}
			} else {
				pure = false
			}
		}
	}
	walk(e)
	if !pure {
		return nil
	}
	return out
}

// isFailingReturn: return statement whose last result is a non-nil error expression.
func isFailingReturn(info *types.Info, n ast.Node) bool {
	rs, ok := n.(*ast.ReturnStmt)
	if !ok || len(rs.Results) == 0 {
		return false
	}
	last := rs.Results[len(rs.Results)-1]
	if id, ok := ast.Unparen(last).(*ast.Ident); ok && id.Name == "nil" {
		return false
	}
	t := info.TypeOf(last)
	return t != nil && types.Implements(t, errorIface())
}

func ruleC11(p *Prog, r *Res) {
	ctx := p.Contexts()
	tagsFld := p.Field("manager", "Manager", "tags")
	tagT := p.Named("manager", "tag")
	refByFld := p.Field("manager", "tag", "referencedBy")
	attach := p.Method("manager", "Manager", "attachConverterToTag")
	detach := p.Method("manager", "Manager", "detachConverterFromTag")
	saveState := p.Method("manager", "Manager", "saveState")
	refTags := p.Method("manager", "tag", "referencedTags")
	if tagsFld == nil || tagT == nil || refByFld == nil || attach == nil || detach == nil || saveState == nil || refTags == nil {
		return
	}
	groups := opGroups(p)
	r.Floor("C11 operation groups derived from constructors", 6, len(groups))
	var gnames []string
	for _, g := range groups {
		var fs []string
		for f := range g.Fields {
			fs = append(fs, f)
		}
		sort.Strings(fs)
		gnames = append(gnames, g.Name+"{"+strings.Join(fs, ",")+"}")
	}
	r.Note("operation groups: %s", strings.Join(gnames, " "))

	// the worker of an API function: among the closure posted on the service goroutine, the literals inside it and the
	// declared functions it delegates to (closure-to-method refactorings), the function that contains most of the tag
	// state changes (stores to Manager.tags / referencedBy, deletes)
	tagScore := func(f *Fn) int {
		info := f.Pkg.TypesInfo
		n := 0
		inspectShallow(f.Body(), func(x ast.Node) bool {
			switch s := x.(type) {
			case *ast.AssignStmt:
				for _, l := range s.Lhs {
					if ix, ok := ast.Unparen(l).(*ast.IndexExpr); ok && (isFieldOf(info, ix.X, tagsFld) || isFieldOf(info, ix.X, refByFld)) {
						n++
					}
				}
			case *ast.CallExpr:
				if isBuiltin(info, s, "delete") && len(s.Args) == 2 && (isFieldOf(info, s.Args[0], tagsFld) || isFieldOf(info, s.Args[0], refByFld)) {
					n++
				}
			}
			return true
		})
		return n
	}
	helperNames := map[string]bool{"saveState": true, "event": true, "inheritTagUncertainty": true, "invalidateTags": true, "attachConverterToTag": true, "detachConverterFromTag": true,
		"startTaggingJobIfNeeded": true, "startConverterJobIfNeeded": true, "startMergeJobIfNeeded": true, "referencesTag": true}
	worker := func(api string) (*Fn, *Fn) {
		f := p.Fn(api)
		if f == nil {
			return nil, nil
		}
		var best *Fn
		bestScore := -1
		seen := map[*Fn]bool{}
		var visit func(g *Fn, depth int)
		visit = func(g *Fn, depth int) {
			if g == nil || seen[g] || depth > 3 {
				return
			}
			seen[g] = true
			if sc := tagScore(g); sc > bestScore {
				best, bestScore = g, sc
			}
			for _, l := range g.Lits {
				visit(l, depth)
			}
			for _, c := range callsIn(g.Body()) {
				if fn := p.Callee(g.Pkg, c); fn != nil && !helperNames[fn.Name()] {
					if tf := p.FnOfObj(fn); tf != nil && tf.Short == "manager" && tf != f {
						visit(tf, depth+1)
					}
				}
			}
		}
		posted := ctx.postedIn(f)
		if len(posted) == 0 {
			p.anchorFail("posted closure of %s", api)
			return f, nil
		}
		for _, pc := range posted {
			visit(pc, 0)
		}
		return f, best
	}

	// fresh *tag variables: only ever assigned &tag{…}
	freshTagVar := func(outer *Fn, obj types.Object) bool {
		info := outer.Pkg.TypesInfo
		fresh, n := true, 0
		ast.Inspect(outer.Body(), func(x ast.Node) bool {
			if as, ok := x.(*ast.AssignStmt); ok {
				for i, l := range as.Lhs {
					if id, ok := l.(*ast.Ident); ok && info.ObjectOf(id) == obj && i < len(as.Rhs) {
						n++
						u, ok := ast.Unparen(as.Rhs[i]).(*ast.UnaryExpr)
						if !ok || u.Op != token.AND {
							fresh = false
						} else if _, ok := ast.Unparen(u.X).(*ast.CompositeLit); !ok {
							fresh = false
						}
					}
				}
			}
			return true
		})
		return fresh && n > 0
	}

	// isMutation: node mutates installed tag state
	isMutation := func(outer, w *Fn, n ast.Node) (bool, string) {
		info := w.Pkg.TypesInfo
		hit, what := false, ""
		lhsMut := func(l ast.Expr) (bool, string) {
			l = ast.Unparen(l)
			// mgr.tags[k] = …
			if ix, ok := l.(*ast.IndexExpr); ok {
				if isFieldOf(info, ix.X, tagsFld) {
					return true, "store to Manager.tags[…]"
				}
				if isFieldOf(info, ix.X, refByFld) {
					return true, "store to referencedBy[…]"
				}
			}
			// x.f = … with x of type *tag (not fresh), or mgr.tags[k].f = …
			if se, ok := l.(*ast.SelectorExpr); ok {
				base := ast.Unparen(se.X)
				if ix, ok := base.(*ast.IndexExpr); ok && isFieldOf(info, ix.X, tagsFld) {
					return true, "store to Manager.tags[…]." + se.Sel.Name
				}
				if t := info.TypeOf(base); t != nil {
					if pt, ok := t.Underlying().(*types.Pointer); ok {
						if nn := namedOf(pt.Elem()); nn != nil && nn.Obj() == tagT.Obj() {
							if obj := identObj(info, base); obj != nil && freshTagVar(outer, obj) {
								return false, ""
							}
							return true, "store to " + types.ExprString(l) + " (installed *tag)"
						}
					}
				}
			}
			return false, ""
		}
		inspectShallow(n, func(x ast.Node) bool {
			if hit {
				return false
			}
			switch s := x.(type) {
			case *ast.AssignStmt:
				for _, l := range s.Lhs {
					if ok, wh := lhsMut(l); ok {
						hit, what = true, wh
					}
				}
			case *ast.CallExpr:
				if isBuiltin(info, s, "delete") && len(s.Args) == 2 {
					if isFieldOf(info, s.Args[0], tagsFld) {
						hit, what = true, "delete(Manager.tags, …)"
					}
					if isFieldOf(info, s.Args[0], refByFld) {
						hit, what = true, "delete(referencedBy, …)"
					}
				}
				if fn := p.Callee(w.Pkg, s); fn == attach || fn == detach {
					hit, what = true, "call of "+fn.Name()
				}
			}
			return true
		})
		return hit, what
	}

	const ruleA = "C11-a validate-before-mutate"
	r.Rule(ruleA + ": no failing return after a mutation of tag state, per operation group")
	// exempt failure returns: callee -> reason (each with its own structural check below)
	exemptFail := map[*types.Func]string{
		detach: "detachConverterFromTag fails only when (*CachedConverter).Reset fails, i.e. on file I/O (Seek/Truncate/Write of the cache file); fault sequences are outside C11's quantifier",
		attach: "attachConverterToTag fails only on !canAttachConverter(), a condition of the tag alone that the validation loop of the same closure rejects before the first mutation (checked below)",
	}
	for _, api := range []string{"manager.Manager.AddTag", "manager.Manager.DelTag", "manager.Manager.UpdateTag"} {
		outer, w := worker(api)
		if outer == nil || w == nil {
			continue
		}
		info := w.Pkg.TypesInfo
		var gs []opGroup
		if api == "manager.Manager.UpdateTag" {
			gs = groups
		} else {
			gs = []opGroup{{Name: "-", Fields: map[string]bool{}}}
		}
		deps := varDeps(p, outer)
		var depNames []string
		for o, d := range deps {
			var fs []string
			for f := range d {
				fs = append(fs, f)
			}
			sort.Strings(fs)
			depNames = append(depNames, o.Name()+"←{"+strings.Join(fs, ",")+"}")
		}
		sort.Strings(depNames)
		if len(depNames) > 0 {
			r.Note("%s: guard variables derived from operation fields: %s", api, strings.Join(depNames, " "))
		}
		for _, g := range gs {
			fl := p.Flow(w)
			if g.Name != "-" {
				ge := &groupEval{info: info, fields: g.Fields, varDep: deps}
				fl.EdgeOK = ge.edgeOK
			}
			// reachable mutation points under this group
			var muts []Pt
			var mutWhat []string
			reach := map[ast.Node]bool{}
			// compute reachability from entry under pruning
			fl.search([]Pt{fl.Entry()}, func(n ast.Node) bool { reach[n] = true; return false }, nil)
			for _, b := range fl.G.Blocks {
				for i, n := range b.Nodes {
					if !reach[n] {
						continue
					}
					if ok, wh := isMutation(outer, w, n); ok {
						muts = append(muts, Pt{b, i + 1})
						mutWhat = append(mutWhat, fmt.Sprintf("%s@%s", wh, relLine(p, w, n)))
					}
				}
			}
			key := fmt.Sprintf("%s group %s", w.Key(), g.Name)
			exemptSeen := map[string]string{}
			res := fl.search(muts, func(n ast.Node) bool {
				if !isFailingReturn(info, n) {
					return false
				}
				rs := n.(*ast.ReturnStmt)
				// return mgr.saveState()
				if c, ok := ast.Unparen(rs.Results[len(rs.Results)-1]).(*ast.CallExpr); ok && p.Callee(w.Pkg, c) == saveState {
					return false
				}
				if wf := failureReturnOf(p, w, rs, func(c *Fn) bool {
					co, _ := c.Pkg.TypesInfo.Defs[c.Decl.Name].(*types.Func)
					return c.Lit == nil && exemptFail[co] != ""
				}); wf != nil {
					co, _ := wf.Pkg.TypesInfo.Defs[wf.Decl.Name].(*types.Func)
					exemptSeen[fmt.Sprintf("%s: return after failed %s", w.Key(), wf.Name)] = exemptFail[co]
					return false
				}
				return true
			}, nil)
			if res.Found {
				r.Bad(ruleA, key, p.Pos(res.End), fmt.Sprintf("an error is returned at line %d after tag state was already changed (%s): the call is rejected but not without effect. Mutations in this group: %s", lineOf(p.Fset, res.End), fl.traceString(res), strings.Join(mutWhat, "; ")))
			} else {
				r.Ok(ruleA, key, p.Pos(w.Node()), fmt.Sprintf("%d mutation site(s) reachable in this group, none followed by a failing return", len(muts)))
			}
			for k, why := range exemptSeen {
				r.Exempt(ruleA, k, p.Pos(w.Node()), why)
			}
		}
	}
	// structural checks behind the attach exemption
	if af := p.FnOfObj(attach); af != nil {
		canAttach := p.Method("manager", "tag", "canAttachConverter")
		// (1) every failing return of attachConverterToTag is guarded by !tag.canAttachConverter()
		okGuard := true
		nfail := 0
		inspectShallow(af.Body(), func(x ast.Node) bool {
			if isFailingReturn(af.Pkg.TypesInfo, x) {
				nfail++
				guarded := false
				inspectShallow(af.Body(), func(y ast.Node) bool {
					if ifs, ok := y.(*ast.IfStmt); ok && within(x, ifs.Body) {
						for _, c := range callsIn(ifs.Cond) {
							if p.Callee(af.Pkg, c) == canAttach {
								guarded = true
							}
						}
					}
					return true
				})
				if !guarded {
					okGuard = false
				}
			}
			return true
		})
		r.Check(okGuard && nfail > 0 && canAttach != nil, ruleA, "exemption premise: attachConverterToTag fails only on !canAttachConverter()", p.Pos(af.Node()), "all failing returns are guarded by canAttachConverter", "attachConverterToTag has a failing return not guarded by canAttachConverter(): its failure after earlier detaches/attaches would leave a partially applied converter list")
		// (2) in UpdateTag's worker a failing return guarded by !tag.canAttachConverter() precedes every mutation of the converters group
		if outer, w := worker("manager.Manager.UpdateTag"); w != nil {
			fl := p.Flow(w)
			var conv opGroup
			for _, g := range groups {
				if g.Fields["convertersUpdated"] {
					conv = g
				}
			}
			ge := &groupEval{info: w.Pkg.TypesInfo, fields: conv.Fields, varDep: varDeps(p, outer)}
			fl.EdgeOK = ge.edgeOK
			isValidation := func(n ast.Node) bool {
				e, ok := n.(ast.Expr)
				if !ok {
					return false
				}
				for _, c := range callsIn(e) {
					if p.Callee(w.Pkg, c) == canAttach {
						return true
					}
				}
				return false
			}
			// the validation test with a failing return exists in the converters group and is applied to every name
			// that is not attached yet (the same skip condition as the attach loop: slices.Contains on converterNames)
			reachV := map[ast.Node]bool{}
			fl.search([]Pt{fl.Entry()}, func(n ast.Node) bool { reachV[n] = true; return false }, nil)
			nVal := 0
			for n := range reachV {
				if isValidation(n) {
					nVal++
				}
			}
			r.Check(nVal > 0, ruleA, "exemption premise: UpdateTag validates canAttachConverter before attaching", p.Pos(w.Node()), "a canAttachConverter test with a failing return is reachable in the converters group", "the converters group no longer validates canAttachConverter() before it starts changing the tag")
			// and no mutation precedes the validation
			var muts []Pt
			for _, b := range fl.G.Blocks {
				for i, n := range b.Nodes {
					if !reachV[n] {
						continue
					}
					if ok, _ := isMutation(outer, w, n); ok {
						muts = append(muts, Pt{b, i + 1})
					}
				}
			}
			res2 := fl.Reach(muts, isValidation, nil)
			r.Check(!res2.Found, ruleA, "exemption premise: no mutation precedes the converter validation", p.Pos(w.Node()), "validation is not reachable from any mutation", "the converter validation runs after a mutation: "+fl.traceString(res2))
		}
	}
	r.Floor(ruleA, 8, r.CountRule(ruleA))

	// ---------- C11-b ----------
	const ruleB = "C11-b update-validates-like-add"
	r.Rule(ruleB + ": installations of freshly parsed tags are dominated by existence (and cycle) validation; lookups in Manager.tags that are dereferenced use validated keys")
	// validation loop: range over X.referencedTags() whose body does a comma-ok lookup in Manager.tags and returns an error
	isExistenceValidation := func(w *Fn, rs *ast.RangeStmt, tagObj types.Object) bool {
		info := w.Pkg.TypesInfo
		c, ok := ast.Unparen(rs.X).(*ast.CallExpr)
		if !ok || p.Callee(w.Pkg, c) != refTags {
			return false
		}
		se, ok := ast.Unparen(c.Fun).(*ast.SelectorExpr)
		if !ok || !sameObj(info, se.X, tagObj) {
			return false
		}
		lookup, fails := false, false
		ast.Inspect(rs.Body, func(y ast.Node) bool {
			if as, ok := y.(*ast.AssignStmt); ok && len(as.Lhs) == 2 && len(as.Rhs) == 1 {
				if ix, ok := ast.Unparen(as.Rhs[0]).(*ast.IndexExpr); ok && isFieldOf(info, ix.X, tagsFld) {
					lookup = true
				}
			}
			if isFailingReturn(info, y) {
				fails = true
			}
			return true
		})
		return lookup && fails
	}
	nInst := 0
	for _, api := range []string{"manager.Manager.AddTag", "manager.Manager.UpdateTag"} {
		outer, w := worker(api)
		if outer == nil || w == nil {
			continue
		}
		info := w.Pkg.TypesInfo
		// the freshly parsed tag variable of the API function: a *tag assigned &tag{…} in outer
		var parsed types.Object
		ast.Inspect(outer.Body(), func(x ast.Node) bool {
			if as, ok := x.(*ast.AssignStmt); ok && len(as.Lhs) == 1 && len(as.Rhs) == 1 {
				if obj := identObj(info, as.Lhs[0]); obj != nil && freshTagVar(outer, obj) && parsed == nil {
					if p.EnclosingFn(outer.Pkg, as.Pos()) == outer {
						parsed = obj
					}
				}
			}
			return true
		})
		if parsed == nil {
			r.Bad(ruleB, api+" parsed tag variable", p.Pos(outer.Node()), "cannot find the freshly parsed tag (&tag{…}) of the API function")
			continue
		}
		fl := p.Flow(w)
		if api == "manager.Manager.UpdateTag" {
			var qg opGroup
			for _, g := range groups {
				if g.Fields["query"] {
					qg = g
				}
			}
			fl.EdgeOK = (&groupEval{info: info, fields: qg.Fields, varDep: varDeps(p, outer)}).edgeOK
		}
		// installations: mgr.tags[k] = X reachable in this group
		reach := map[ast.Node]bool{}
		fl.search([]Pt{fl.Entry()}, func(n ast.Node) bool { reach[n] = true; return false }, nil)
		var valNodes []ast.Node
		ast.Inspect(w.Body(), func(x ast.Node) bool {
			if rs, ok := x.(*ast.RangeStmt); ok && isExistenceValidation(w, rs, parsed) {
				valNodes = append(valNodes, rs.X)
			}
			return true
		})
		isVal := func(n ast.Node) bool {
			for _, v := range valNodes {
				if n == ast.Node(v) {
					return true
				}
			}
			return false
		}
		for _, b := range fl.G.Blocks {
			for _, n := range b.Nodes {
				as, ok := n.(*ast.AssignStmt)
				if !ok || !reach[n] || len(as.Lhs) != 1 {
					continue
				}
				ix, ok := ast.Unparen(as.Lhs[0]).(*ast.IndexExpr)
				if !ok || !isFieldOf(info, ix.X, tagsFld) {
					continue
				}
				nInst++
				key := fmt.Sprintf("%s install@%s", w.Key(), relLine(p, w, as))
				res := fl.Reach([]Pt{fl.Entry()}, func(m ast.Node) bool { return m == n }, isVal)
				r.Check(!res.Found && len(valNodes) > 0, ruleB, key+" existence of referenced tags validated", p.Pos(as), "a range over "+parsed.Name()+".referencedTags() with comma-ok lookup and error return dominates the installation",
					"a freshly parsed tag is installed without first checking that every tag it references exists ("+fl.traceString(res)+"): the tag graph gets a dangling reference, and later code dereferences the missing tag on the service goroutine")
				if api == "manager.Manager.UpdateTag" {
					// cycle check: a failing return guarded by a call to a function that walks referencedTags of installed tags
					isCycleCheck := func(m ast.Node) bool {
						e, ok := m.(ast.Expr)
						if !ok {
							return false
						}
						for _, c := range callsIn(e) {
							if fn := p.Callee(w.Pkg, c); fn != nil {
								if tf := p.FnOfObj(fn); tf != nil && tf.Short == "manager" && tf != p.FnOfObj(refTags) {
									walks, reads := false, false
									for _, cc := range callsIn(tf.Body()) {
										if p.Callee(tf.Pkg, cc) == refTags {
											walks = true
										}
									}
									ast.Inspect(tf.Body(), func(z ast.Node) bool {
										if ix2, ok := z.(*ast.IndexExpr); ok && isFieldOf(tf.Pkg.TypesInfo, ix2.X, tagsFld) {
											reads = true
										}
										return true
									})
									if walks && reads {
										return true
									}
								}
							}
						}
						return false
					}
					res2 := fl.Reach([]Pt{fl.Entry()}, func(m ast.Node) bool { return m == n }, isCycleCheck)
					r.Check(!res2.Found, ruleB, key+" acyclicity validated", p.Pos(as), "a reachability test over the installed tags' references dominates the installation", "a tag that may already be referenced is re-defined without a cycle check ("+fl.traceString(res2)+"): a ⇄ b makes inheritTagUncertainty and prefetchTags spin forever")
				}
			}
		}
	}
	r.Floor(ruleB+" installations", 2, nInst)

	// unchecked-lookup dereferences
	nLook := 0
	for _, f := range p.FnList {
		if f.Short != "manager" {
			continue
		}
		info := f.Pkg.TypesInfo
		root := f.Root()
		inspectParents(f.Body(), func(n ast.Node, stack []ast.Node) bool {
			ix, ok := n.(*ast.IndexExpr)
			if !ok || !isFieldOf(info, ix.X, tagsFld) || len(stack) == 0 {
				return true
			}
			par := stack[len(stack)-1]
			deref := false
			commaOK := false
			isStore := false
			var boundVar types.Object
			switch pn := par.(type) {
			case *ast.SelectorExpr:
				deref = pn.X == ast.Expr(ix)
			case *ast.AssignStmt:
				if len(pn.Lhs) == 2 && len(pn.Rhs) == 1 && pn.Rhs[0] == ast.Expr(ix) {
					commaOK = true
				} else if len(pn.Lhs) == 1 && len(pn.Rhs) == 1 && pn.Rhs[0] == ast.Expr(ix) {
					boundVar = identObj(info, pn.Lhs[0])
				}
				for _, l := range pn.Lhs {
					if l == ast.Expr(ix) {
						isStore = true
					}
				}
			case *ast.CompositeLit, *ast.KeyValueExpr:
				deref = true
			}
			if boundVar != nil {
				ast.Inspect(root.Body(), func(y ast.Node) bool {
					if se, ok := y.(*ast.SelectorExpr); ok && sameObj(info, se.X, boundVar) {
						deref = true
					}
					return true
				})
			}
			if isStore || commaOK || !deref {
				return true
			}
			nLook++
			key := fmt.Sprintf("%s lookup Manager.tags[%s]@%s", f.Key(), types.ExprString(ix.Index), relLine(p, f, ix))
			ok2, why := validatedTagKey(p, f, ix, tagsFld, refTags)
			r.Check(ok2, ruleB, key, p.Pos(ix), why, "the result of Manager.tags["+types.ExprString(ix.Index)+"] is dereferenced but the key is not known to be present: "+why)
			return true
		})
	}
	r.Floor(ruleB+" dereferenced lookups", 10, nLook)

	// ---------- C11-c ----------
	ruleC11c(p, r, worker, tagsFld, refByFld, refTags)

	// ---------- C11-d: hang freedom of the loops in manager ----------
	const ruleD = "C11-d no-stationary-loop"
	sub := &Res{}
	ruleStationary(p, sub, ruleD, []string{"manager"}, 18)
	exemptLoops := map[string]string{
		"manager.Manager.inheritTagUncertainty loop#1": "fixed-point walk over the tag graph: an iteration that resolves no tag repeats forever, which can only happen if the installed graph has a reference cycle; acyclicity is maintained by C11-b (existence + cycle validation on every installation) and checked when a state file is loaded",
		"manager.View.prefetchTags loop#1":             "same fixed-point walk on a view's snapshot of the tag graph; terminates iff the snapshot is acyclic (C11-b)",
	}
	for _, o := range sub.Obls {
		if o.Verdict == "violated" && exemptLoops[o.Key] != "" {
			r.Exempt(ruleD, o.Key, o.Pos, exemptLoops[o.Key])
			continue
		}
		r.Obls = append(r.Obls, o)
	}
	r.Floors = append(r.Floors, sub.Floors...)
	r.Rules = append(r.Rules, sub.Rules...)
}

// validatedTagKey: the key of a dereferenced lookup in Manager.tags is known to be present.
func validatedTagKey(p *Prog, f *Fn, ix *ast.IndexExpr, tagsFld *types.Var, refTags *types.Func) (bool, string) {
	info := f.Pkg.TypesInfo
	root := f.Root()
	keyObj := identObj(info, ix.Index)
	if keyObj == nil {
		// field of a struct etc.
		return false, "key is not a plain variable"
	}
	// (i)/(ii): the key is a range variable
	var okRange bool
	var why string
	ast.Inspect(root.Body(), func(x ast.Node) bool {
		rs, ok := x.(*ast.RangeStmt)
		if !ok {
			return true
		}
		isKey := rs.Key != nil && sameObj(info, rs.Key, keyObj)
		isVal := rs.Value != nil && sameObj(info, rs.Value, keyObj)
		if !isKey && !isVal {
			return true
		}
		xe := ast.Unparen(rs.X)
		if isKey && isFieldOf(info, xe, tagsFld) {
			okRange, why = true, "range key of Manager.tags"
			return true
		}
		// range over T.referencedTags(), T.features.MainTags / SubQueryTags
		if c, ok := xe.(*ast.CallExpr); ok && p.Callee(f.Pkg, c) == refTags && isVal {
			okRange, why = true, "element of referencedTags() of a tag (installed graph is closed; new tags are validated: C11-b)"
			return true
		}
		if se, ok := xe.(*ast.SelectorExpr); ok && isVal && (se.Sel.Name == "MainTags" || se.Sel.Name == "SubQueryTags") {
			okRange, why = true, "element of a tag's feature reference list"
			return true
		}
		// range over a local map filled only with keys that come from referencedTags()
		if isKey {
			if mobj := identObj(info, xe); mobj != nil {
				filledFromRefs := true
				n := 0
				ast.Inspect(root.Body(), func(y ast.Node) bool {
					as, ok := y.(*ast.AssignStmt)
					if !ok {
						return true
					}
					for _, l := range as.Lhs {
						if mix, ok := ast.Unparen(l).(*ast.IndexExpr); ok && sameObj(info, mix.X, mobj) {
							n++
							kobj := identObj(info, mix.Index)
							from := false
							ast.Inspect(root.Body(), func(z ast.Node) bool {
								if rs2, ok := z.(*ast.RangeStmt); ok && rs2.Value != nil && sameObj(info, rs2.Value, kobj) {
									if c, ok := ast.Unparen(rs2.X).(*ast.CallExpr); ok && p.Callee(f.Pkg, c) == refTags {
										from = true
									}
								}
								return true
							})
							if !from {
								filledFromRefs = false
							}
						}
					}
					return true
				})
				if filledFromRefs && n > 0 {
					okRange, why = true, "key of a local set filled only from referencedTags()"
				}
			}
		}
		return true
	})
	if okRange {
		return true, why
	}
	// (ii') the key is a parameter of a function literal passed to a slices.*Func helper over a reference list, or a
	// range variable over a local that only ever holds reference lists
	isRefList := func(e ast.Expr) bool {
		e = ast.Unparen(e)
		if c, ok := e.(*ast.CallExpr); ok && p.Callee(f.Pkg, c) == refTags {
			return true
		}
		if se, ok := e.(*ast.SelectorExpr); ok && (se.Sel.Name == "MainTags" || se.Sel.Name == "SubQueryTags") {
			return true
		}
		return false
	}
	refListVar := func(o types.Object) bool {
		if o == nil {
			return false
		}
		all, n := true, 0
		ast.Inspect(root.Body(), func(x ast.Node) bool {
			if as, ok := x.(*ast.AssignStmt); ok {
				for i, l := range as.Lhs {
					if sameObj(info, l, o) && i < len(as.Rhs) {
						n++
						if !isRefList(as.Rhs[i]) {
							all = false
						}
					}
				}
			}
			return true
		})
		return all && n > 0
	}
	okLit := false
	ast.Inspect(root.Body(), func(x ast.Node) bool {
		switch s := x.(type) {
		case *ast.CallExpr:
			if fn := p.Callee(f.Pkg, s); fn != nil && fn.Pkg() != nil && fn.Pkg().Path() == "slices" && len(s.Args) == 2 {
				if lit, ok := ast.Unparen(s.Args[1]).(*ast.FuncLit); ok && (isRefList(s.Args[0]) || refListVar(identObj(info, s.Args[0]))) {
					for _, fld := range lit.Type.Params.List {
						for _, id := range fld.Names {
							if info.Defs[id] == keyObj {
								okLit = true
							}
						}
					}
				}
			}
		case *ast.RangeStmt:
			if s.Value != nil && sameObj(info, s.Value, keyObj) && refListVar(identObj(info, s.X)) {
				okLit = true
			}
		}
		return true
	})
	if okLit {
		return true, "element of a tag's reference list (through a local / a slices helper)"
	}
	// (iii) a comma-ok lookup of the same key with a failing/skipping branch occurs earlier in the function
	found := false
	ast.Inspect(root.Body(), func(x ast.Node) bool {
		if as, ok := x.(*ast.AssignStmt); ok && len(as.Lhs) == 2 && len(as.Rhs) == 1 && as.Pos() < ix.Pos() {
			if ix2, ok := ast.Unparen(as.Rhs[0]).(*ast.IndexExpr); ok && isFieldOf(info, ix2.X, tagsFld) && sameObj(info, ix2.Index, keyObj) {
				found = true
			}
		}
		return true
	})
	if found {
		return true, "same key tested with comma-ok earlier in the function"
	}
	return false, "key " + keyObj.Name() + " is neither a range key of Manager.tags, nor taken from a tag's reference list, nor comma-ok tested"
}

func ruleC11c(p *Prog, r *Res, worker func(string) (*Fn, *Fn), tagsFld, refByFld *types.Var, refTags *types.Func) {
	const rule = "C11-c referencedBy-mirrors"
	r.Rule(rule + ": every installation/deletion/rename keeps referencedBy in step; delete/rename are dominated by the still-referenced rejection")
	// helper predicates
	rangeOverRefsWith := func(w *Fn, n ast.Node, want func(body *ast.BlockStmt) bool) bool {
		// n is the X expression node of a RangeStmt (as added to the CFG)
		info := w.Pkg.TypesInfo
		ok := false
		ast.Inspect(w.Body(), func(x ast.Node) bool {
			if rs, isRs := x.(*ast.RangeStmt); isRs && ast.Node(rs.X) == n {
				xe := ast.Unparen(rs.X)
				isRefs := false
				if c, isCall := xe.(*ast.CallExpr); isCall && p.Callee(w.Pkg, c) == refTags {
					isRefs = true
				}
				if id := identObj(info, xe); id != nil {
					if _, isMap := id.Type().Underlying().(*types.Map); isMap {
						isRefs = true // onlyBefore / onlyAfter sets
					}
				}
				if isRefs && want(rs.Body) {
					ok = true
				}
			}
			return true
		})
		return ok
	}
	bodyHas := func(w *Fn, kind string) func(*ast.BlockStmt) bool {
		info := w.Pkg.TypesInfo
		// the map itself or a local that stands for it (users := mgr.tags[rtn].referencedBy; a map is a reference)
		isRefBy := func(e ast.Expr) bool {
			if isFieldOf(info, e, refByFld) {
				return true
			}
			_, isId := ast.Unparen(e).(*ast.Ident)
			return isId && mentionsCopyOf(info, w, e, refByFld)
		}
		return func(b *ast.BlockStmt) bool {
			hit := false
			ast.Inspect(b, func(x ast.Node) bool {
				switch s := x.(type) {
				case *ast.AssignStmt:
					if kind == "add" {
						for _, l := range s.Lhs {
							if ix, ok := ast.Unparen(l).(*ast.IndexExpr); ok && isRefBy(ix.X) {
								hit = true
							}
						}
					}
				case *ast.CallExpr:
					if kind == "del" && isBuiltin(info, s, "delete") && len(s.Args) == 2 && isRefBy(s.Args[0]) {
						hit = true
					}
				}
				return true
			})
			return hit
		}
	}
	isDeleteTag := func(w *Fn) func(ast.Node) bool {
		info := w.Pkg.TypesInfo
		return func(n ast.Node) bool {
			hit := false
			inspectShallow(n, func(x ast.Node) bool {
				if c, ok := x.(*ast.CallExpr); ok && isBuiltin(info, c, "delete") && len(c.Args) == 2 && isFieldOf(info, c.Args[0], tagsFld) {
					hit = true
				}
				return true
			})
			return hit
		}
	}
	isInstall := func(w *Fn) func(ast.Node) bool {
		info := w.Pkg.TypesInfo
		return func(n ast.Node) bool {
			as, ok := n.(*ast.AssignStmt)
			if !ok || len(as.Lhs) != 1 {
				return false
			}
			ix, ok := ast.Unparen(as.Lhs[0]).(*ast.IndexExpr)
			return ok && isFieldOf(info, ix.X, tagsFld)
		}
	}
	referencedGuard := func(w *Fn) func(ast.Node) bool {
		info := w.Pkg.TypesInfo
		return func(n ast.Node) bool {
			be, ok := n.(*ast.BinaryExpr)
			if !ok {
				return false
			}
			m := false
			ast.Inspect(be, func(x ast.Node) bool {
				if c, ok := x.(*ast.CallExpr); ok && isBuiltin(info, c, "len") && len(c.Args) == 1 && isFieldOf(info, c.Args[0], refByFld) {
					m = true
				}
				return true
			})
			return m && be.Op == token.NEQ
		}
	}
	n := 0
	// AddTag: after the install every successful path registers the back references
	if _, w := worker("manager.Manager.AddTag"); w != nil {
		fl := p.Flow(w)
		info := w.Pkg.TypesInfo
		for _, pt := range fl.Find(isInstall(w)) {
			n++
			res := fl.search([]Pt{After(pt)}, func(m ast.Node) bool {
				return isReturn(m) && !isFailingReturn(info, m) || isReturn(m) && isFailingReturn(info, m) && false
			}, func(m ast.Node) bool {
				return rangeOverRefsWith(w, m, bodyHas(w, "add"))
			})
			// the goal above: any non-failing return (incl. return mgr.saveState()) reached without registering
			r.Check(!res.Found, rule, "manager.Manager.AddTag registers back references after install", p.Pos(fl.node(pt)), "a range over the new tag's references adding to referencedBy lies on every path from the install to a return", "a path installs the tag and returns without adding it to referencedBy of the tags it references: those tags can then be deleted or renamed although still referenced: "+fl.traceString(res))
		}
	}
	// DelTag: delete dominated by referenced guard; followed by back-reference removal
	if _, w := worker("manager.Manager.DelTag"); w != nil {
		fl := p.Flow(w)
		for _, pt := range fl.Find(isDeleteTag(w)) {
			n++
			res := fl.Reach([]Pt{fl.Entry()}, func(m ast.Node) bool { return m == fl.node(pt) }, referencedGuard(w))
			r.Check(!res.Found, rule, "manager.Manager.DelTag rejects referenced tags before deleting", p.Pos(fl.node(pt)), "len(referencedBy) != 0 test dominates delete(Manager.tags, …)", "a tag can be deleted without passing the still-referenced test: "+fl.traceString(res))
			res2 := fl.ExitAvoiding([]Pt{After(pt)}, func(m ast.Node) bool { return rangeOverRefsWith(w, m, bodyHas(w, "del")) })
			r.Check(!res2.Found, rule, "manager.Manager.DelTag removes back references after deleting", p.Pos(fl.node(pt)), "range over the tag's references deleting from referencedBy on every path", "a deleted tag stays in referencedBy of the tags it referenced: they can never be deleted or renamed again: "+fl.traceString(res2))
		}
	}
	// UpdateTag: rename and query paths
	if outer, w := worker("manager.Manager.UpdateTag"); w != nil {
		info := w.Pkg.TypesInfo
		groups := opGroups(p)
		for _, g := range groups {
			fl := p.Flow(w)
			fl.EdgeOK = (&groupEval{info: info, fields: g.Fields, varDep: varDeps(p, outer)}).edgeOK
			reach := map[ast.Node]bool{}
			fl.search([]Pt{fl.Entry()}, func(m ast.Node) bool { reach[m] = true; return false }, nil)
			if g.Fields["name"] {
				for _, pt := range fl.Find(isDeleteTag(w)) {
					if !reach[fl.node(pt)] {
						continue
					}
					n++
					res := fl.Reach([]Pt{fl.Entry()}, func(m ast.Node) bool { return m == fl.node(pt) }, referencedGuard(w))
					r.Check(!res.Found, rule, "manager.Manager.UpdateTag rename rejects referenced tags", p.Pos(fl.node(pt)), "len(referencedBy) != 0 test dominates the rename", "a referenced tag can be renamed: "+fl.traceString(res))
					res2 := fl.ExitAvoiding([]Pt{After(pt)}, func(m ast.Node) bool {
						return rangeOverRefsWith(w, m, func(b *ast.BlockStmt) bool { return bodyHas(w, "del")(b) && bodyHas(w, "add")(b) })
					})
					r.Check(!res2.Found, rule, "manager.Manager.UpdateTag rename moves back references", p.Pos(fl.node(pt)), "range deleting the old and adding the new name on every path", "a renamed tag is not re-registered in referencedBy of the tags it references: "+fl.traceString(res2))
				}
			}
			if g.Fields["query"] {
				for _, pt := range fl.Find(isInstall(w)) {
					if !reach[fl.node(pt)] {
						continue
					}
					n++
					for _, kind := range []string{"del", "add"} {
						res := fl.Reach([]Pt{fl.Entry()}, func(m ast.Node) bool { return m == fl.node(pt) }, func(m ast.Node) bool { return rangeOverRefsWith(w, m, bodyHas(w, kind)) })
						r.Check(!res.Found, rule, "manager.Manager.UpdateTag query change updates referencedBy ("+kind+")", p.Pos(fl.node(pt)), "a referencedBy "+kind+" loop dominates the installation of the new definition", "the new definition is installed without the referencedBy "+kind+" pass: "+fl.traceString(res))
					}
					// the removal set must exclude names that are still referenced: the set ranged over in the "del" pass
					// must have entries deleted inside a range over the NEW tag's references
					okDiff, whyDiff := false, "removal pass not recognised"
					ast.Inspect(w.Body(), func(x ast.Node) bool {
						rs, ok := x.(*ast.RangeStmt)
						if !ok || !bodyHas(w, "del")(rs.Body) {
							return true
						}
						mobj := identObj(info, rs.X)
						if mobj == nil {
							return true
						}
						if _, isMap := mobj.Type().Underlying().(*types.Map); !isMap {
							return true
						}
						whyDiff = "removal set " + mobj.Name() + " is never reduced by the new tag's references"
						ast.Inspect(w.Body(), func(y ast.Node) bool {
							rs2, ok := y.(*ast.RangeStmt)
							if !ok {
								return true
							}
							c, ok := ast.Unparen(rs2.X).(*ast.CallExpr)
							if !ok || p.Callee(w.Pkg, c) != refTags {
								return true
							}
							// receiver must be a fresh (new) tag variable
							se, _ := ast.Unparen(c.Fun).(*ast.SelectorExpr)
							if se == nil {
								return true
							}
							ast.Inspect(rs2.Body, func(z ast.Node) bool {
								if dc, ok := z.(*ast.CallExpr); ok && isBuiltin(info, dc, "delete") && len(dc.Args) == 2 && sameObj(info, dc.Args[0], mobj) {
									okDiff, whyDiff = true, "names still referenced by the new definition are removed from "+mobj.Name()+" before the removal pass"
								}
								return true
							})
							return true
						})
						return true
					})
					r.Check(okDiff, rule, "manager.Manager.UpdateTag query change removes only dropped references", p.Pos(fl.node(pt)), whyDiff, "the back-reference removal pass also removes tags that the new definition still references ("+whyDiff+"): they report Referenced=false and can be deleted, leaving a dangling reference")
				}
			}
		}
	}
	r.Floor(rule, 4, n)
}
