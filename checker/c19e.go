package main

// c19e.go: C19-e the batch is the head of the queue, as given.
//
// ImportPcaps appends the names it is given to Manager.importJobs; importPcapJob works on a window of that queue and
// its completion drops the first `processed` entries — by COUNT. Both therefore rely on the list of names being
// exactly what was given, in the order it was given: a name filtered out on the way in is stored, answered 200 and
// never imported; a batch that is re-ordered before it is handed to the builder makes the count refer to other names
// than the ones processed (one capture imported twice, another never). Structural rule: in both functions the
// []string parameter is never assigned, sorted, compacted or re-sliced before it reaches its consumer (the queue
// append; FromPcap and the processed-prefix expression), and ImportPcaps has no return between its entry and the
// queue append other than under a test of the parameter's own length.

import (
	"fmt"
	"go/ast"
	"go/types"
)

func init() {
	register("C19",
		"C19-e (typed AST + FLOW): the []string parameter of Manager.ImportPcaps and of Manager.importPcapJob (closures included) is never assigned, sorted or otherwise rewritten (sort.*, slices.Sort*/Delete*/Compact*/Reverse, copy into it, element stores) — the queue is consumed by count, so the names must stay exactly the ones given, in the given order — and in ImportPcaps every path from the entry to the end passes the append of the parameter to Manager.importJobs unless it leaves under a test of len(parameter) alone: an uploaded, stored and acknowledged capture is queued exactly once.",
		func(p *Prog, r *Res) {
			const rule = "C19-e batch-is-the-queue-head-as-given"
			r.Rule(rule + ": the names handed to ImportPcaps / importPcapJob are used as given")
			jobsFld := p.Field("manager", "Manager", "importJobs")
			if jobsFld == nil {
				return
			}
			n := 0
			for _, name := range []string{"manager.Manager.ImportPcaps", "manager.Manager.importPcapJob"} {
				f := p.Fn(name)
				if f == nil {
					continue
				}
				info := f.Pkg.TypesInfo
				var param types.Object
				for i := 0; ; i++ {
					o := paramObj(f, i)
					if o == nil {
						break
					}
					if sl, ok := o.Type().Underlying().(*types.Slice); ok {
						if b, ok := sl.Elem().Underlying().(*types.Basic); ok && b.Kind() == types.String {
							param = o
						}
					}
				}
				if param == nil {
					p.anchorFail("[]string parameter of %s", name)
					continue
				}
				n++
				bad := ""
				ast.Inspect(f.Body(), func(x ast.Node) bool {
					switch s := x.(type) {
					case *ast.AssignStmt:
						for _, l := range s.Lhs {
							if identObj(info, l) == param {
								bad = fmt.Sprintf("assigned at line %d", lineOf(p.Fset, s))
							}
							if ix, ok := ast.Unparen(l).(*ast.IndexExpr); ok && identObj(info, ix.X) == param {
								bad = fmt.Sprintf("an element is overwritten at line %d", lineOf(p.Fset, s))
							}
						}
					case *ast.CallExpr:
						fn := p.Callee(f.Pkg, s)
						if fn == nil || fn.Pkg() == nil || len(s.Args) == 0 {
							if isBuiltin(info, s, "copy") && len(s.Args) == 2 && identObj(info, s.Args[0]) == param {
								bad = fmt.Sprintf("copied into at line %d", lineOf(p.Fset, s))
							}
							return true
						}
						first := identObj(info, s.Args[0])
						if sl, ok := ast.Unparen(s.Args[0]).(*ast.SliceExpr); ok {
							first = identObj(info, sl.X)
						}
						if first != param {
							return true
						}
						switch fn.Pkg().Path() + "." + fn.Name() {
						case "sort.Strings", "sort.Slice", "sort.SliceStable", "sort.Sort", "sort.Stable",
							"slices.Sort", "slices.SortFunc", "slices.SortStableFunc", "slices.Reverse",
							"slices.Delete", "slices.DeleteFunc", "slices.Compact", "slices.CompactFunc", "slices.Insert", "slices.Replace":
							bad = fmt.Sprintf("rewritten by %s.%s at line %d", fn.Pkg().Name(), fn.Name(), lineOf(p.Fset, s))
						}
					}
					return true
				})
				r.Check(bad == "", rule, f.Key()+" uses "+param.Name()+" as given", p.Pos(f.Node()), "never assigned, sorted or rewritten", "the list of capture names is "+bad+": the import queue is consumed by count and by position, so a name that is dropped is stored and acknowledged but never imported, and a re-ordered batch makes the completion drop other names than the ones that were processed")
			}
			// ImportPcaps: the queue append lies on every path, except under a test of the parameter's length
			if f := p.Fn("manager.Manager.ImportPcaps"); f != nil {
				info := f.Pkg.TypesInfo
				var param types.Object
				for i := 0; ; i++ {
					o := paramObj(f, i)
					if o == nil {
						break
					}
					if _, ok := o.Type().Underlying().(*types.Slice); ok {
						param = o
					}
				}
				// the append may sit in the closure posted to the service goroutine
				appended := false
				var host *Fn
				for _, g := range append([]*Fn{f}, f.Lits...) {
					ginfo := g.Pkg.TypesInfo
					inspectShallow(g.Body(), func(x ast.Node) bool {
						as, ok := x.(*ast.AssignStmt)
						if !ok || len(as.Lhs) != 1 || len(as.Rhs) != 1 || !isFieldOf(ginfo, as.Lhs[0], jobsFld) {
							return true
						}
						isParam := func(e ast.Expr) bool {
							o := identObj(ginfo, e)
							if o == param {
								return true
							}
							// a local defined once as the parameter itself (names := filenames)
							if o == nil {
								return false
							}
							nDef, same := 0, false
							ast.Inspect(f.Body(), func(z ast.Node) bool {
								if a2, ok := z.(*ast.AssignStmt); ok && len(a2.Lhs) == len(a2.Rhs) {
									for i, l := range a2.Lhs {
										if identObj(ginfo, l) == o {
											nDef++
											same = identObj(ginfo, a2.Rhs[i]) == param
										}
									}
								}
								return true
							})
							return nDef == 1 && same
						}
						if c, ok := ast.Unparen(as.Rhs[0]).(*ast.CallExpr); ok && isBuiltin(ginfo, c, "append") && len(c.Args) == 2 && c.Ellipsis.IsValid() && isParam(c.Args[1]) && isFieldOf(ginfo, c.Args[0], jobsFld) {
							appended, host = true, g
						}
						return true
					})
				}
				n++
				r.Check(appended, rule, f.Key()+" appends the whole parameter to Manager.importJobs", p.Pos(f.Node()), "mgr.importJobs = append(mgr.importJobs, "+param.Name()+"...)", "the queue is not extended by exactly the names given: some acknowledged uploads are never imported or imported twice")
				if appended {
					for _, g := range []*Fn{f, host} {
						if g == nil {
							continue
						}
						gfl := p.Flow(g)
						passes := func(nd ast.Node) bool {
							if g == host {
								if as, ok := nd.(*ast.AssignStmt); ok && len(as.Lhs) == 1 && isFieldOf(g.Pkg.TypesInfo, as.Lhs[0], jobsFld) {
									return true
								}
								return false
							}
							// in the API function: the send of the closure
							_, isSend := nd.(*ast.SendStmt)
							return isSend
						}
						if g == host && g == f {
							// append directly in the API function
						}
						// prune: returns under a test of len(param) alone
						early := ""
						for _, pt := range gfl.Find(isReturn) {
							ret := gfl.node(pt)
							res := gfl.Reach([]Pt{gfl.Entry()}, func(nd ast.Node) bool { return nd == ret }, passes)
							if !res.Found {
								continue
							}
							// allowed only directly inside `if len(param) == 0 { return }`
							okGuard := false
							inspectParents(g.Body(), func(y ast.Node, ps []ast.Node) bool {
								if y != ret {
									return true
								}
								for _, q := range ps {
									if ifs, ok := q.(*ast.IfStmt); ok {
										if be, ok := ast.Unparen(ifs.Cond).(*ast.BinaryExpr); ok {
											if c, ok := ast.Unparen(be.X).(*ast.CallExpr); ok && isBuiltin(info, c, "len") && len(c.Args) == 1 && identObj(info, c.Args[0]) == param {
												okGuard = true
											}
										}
									}
								}
								return true
							})
							if !okGuard {
								early = fmt.Sprintf("return at line %d", lineOf(p.Fset, ret))
							}
						}
						n++
						r.Check(early == "", rule, g.Key()+" reaches the queue append on every path", p.Pos(g.Node()), "no return before the append except under a test of len("+param.Name()+")", "the function can return before the names are queued ("+early+"): a capture that was stored and acknowledged is never imported")
					}
				}
			}
			r.Floor(rule, 3, n)
		})
}
