package main

// c14l.go: C14-l no step of the normaliser walks through all flag values.
//
// Conditions.clean is called for every pair of alternatives while a query is brought into normal form. For protocol
// filters it called cleanFlagConditions, which marked the forbidden values by counting v through all 65536 values of the
// 16-bit flag word and then, for each of the 16 bits, enumerated the 32768 values without that bit: about 1.2 ms per
// call whatever the filter. `-(protocol:tcp,udp port:80,443 data:flag)` — 12 alternatives in normal form — took 14.5 s
// to parse against 4 ms without the protocol filter, a variant with a time filter 52 s (#85,
// probes/c14_protocol_filter_parse_time); C14 claims promptness for normal forms of this size. Only the bits of the masks
// in use can make a difference.
//
// Rule (typed AST): in package query a for loop without a condition that leaves through `if v == C { break }` either
// (a) steps with v++ / v-- only when C is a constant below 4096, or (b) enumerates sub-masks, `v = (v - 1) & X`, of an X
// that is not a complement (^…) and not a constant with more than twelve bits set.

import (
	"fmt"
	"go/ast"
	"go/constant"
	"go/token"
	"go/types"
	"math/bits"
)

func init() {
	register("C14",
		"C14-l (typed AST): in package query a for loop without a condition that leaves through `if v == C { break }` either steps with v++ / v-- only when C is a constant below 4096, or enumerates sub-masks (`v = (v - 1) & X`) of an X that is neither a complement (^…) nor a constant with more than twelve bits set: no step of the normaliser walks through all (or half of all) values of the 16-bit flag word. Such a walk costs a millisecond per clean(), which runs for every pair of alternatives: a negated filter with a protocol part and twelve alternatives took 14 s to parse. That parsing is prompt for every query of moderate size is NOT decided.",
		func(p *Prog, r *Res) {
			const rule = "C14-l no-walk-through-all-flag-values"
			r.Rule(rule + ": value enumerations in package query are bounded by the masks in use")
			n := 0
			for _, f := range p.FnList {
				if f.Short != "query" || f.Body() == nil {
					continue
				}
				info := f.Pkg.TypesInfo
				idx := 0
				inspectShallow(f.Body(), func(x ast.Node) bool {
					fs, ok := x.(*ast.ForStmt)
					if !ok || fs.Cond != nil {
						return true
					}
					// the step: the post statement, or — `v := X; for { …; v = (v - 1) & X }` — a statement of the body
					steps := []ast.Stmt{fs.Post}
					if fs.Post == nil {
						steps = fs.Body.List
					}
					// the loop variable and the exit test
					var v ast.Expr
					kind, mask := "", ast.Expr(nil)
					for _, step := range steps {
						if kind != "" {
							break
						}
						switch post := step.(type) {
						case *ast.IncDecStmt:
							v, kind = post.X, "count"
						case *ast.AssignStmt:
							if len(post.Lhs) == 1 && len(post.Rhs) == 1 {
								if be, ok := ast.Unparen(post.Rhs[0]).(*ast.BinaryExpr); ok && be.Op == token.AND {
									if sub, ok := ast.Unparen(be.X).(*ast.BinaryExpr); ok && sub.Op == token.SUB && identObj(info, sub.X) != nil && identObj(info, sub.X) == identObj(info, post.Lhs[0]) {
										v, kind, mask = post.Lhs[0], "submask", be.Y
									}
								}
							}
						}
					}
					if kind == "" || identObj(info, v) == nil {
						return true
					}
					var exitC ast.Expr
					ast.Inspect(fs.Body, func(y ast.Node) bool {
						ifs, ok := y.(*ast.IfStmt)
						if !ok || len(ifs.Body.List) != 1 {
							return true
						}
						if br, ok := ifs.Body.List[0].(*ast.BranchStmt); !ok || br.Tok != token.BREAK {
							return true
						}
						if be, ok := ast.Unparen(ifs.Cond).(*ast.BinaryExpr); ok && be.Op == token.EQL && identObj(info, be.X) == identObj(info, v) {
							exitC = be.Y
						}
						return true
					})
					if exitC == nil {
						return true
					}
					idx++
					n++
					key := fmt.Sprintf("%s value enumeration #%d", f.Key(), idx)
					switch kind {
					case "count":
						tv, isC := info.Types[exitC]
						small := false
						if isC && tv.Value != nil && tv.Value.Kind() == constant.Int {
							if c, ok := constant.Uint64Val(tv.Value); ok && c < 4096 {
								small = true
							}
						}
						r.Check(small, rule, key, p.Pos(fs), "counts to a small constant", "the loop counts through every value up to "+types.ExprString(exitC)+": a step of the normaliser that costs the same — about a millisecond — whatever the filter, executed for every pair of alternatives; a negated query with a protocol filter and a dozen alternatives takes tens of seconds to parse")
					case "submask":
						bad := ""
						m := ast.Unparen(mask)
						if u, ok := m.(*ast.UnaryExpr); ok && u.Op == token.XOR {
							bad = "the complement " + types.ExprString(m)
						} else if tv, ok := info.Types[m]; ok && tv.Value != nil && tv.Value.Kind() == constant.Int {
							if c, ok := constant.Uint64Val(tv.Value); ok && bits.OnesCount64(c) > 12 {
								bad = "the constant " + types.ExprString(m)
							}
						}
						r.Check(bad == "", rule, key, p.Pos(fs), "enumerates sub-masks of a value computed from the masks in use", "the loop enumerates all sub-masks of "+bad+" — tens of thousands of values whatever the filter: executed for every pair of alternatives, it makes a negated query with a protocol filter and a dozen alternatives take tens of seconds to parse")
					}
					return true
				})
			}
			r.Floor(rule, 2, n)
		})
}
