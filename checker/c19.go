package main

import (
	"fmt"
	"go/ast"
	"go/constant"
	"go/token"
	"go/types"
	"os"
	"strings"
)

func init() {
	register("C19",
		"C19 (taint + dominance on the handlers of cmd/pkappa2 and the watch-directory copy in manager): (a) every value derived from the request (chi.URLParam, URL.Query, FormValue, URL.Path; fsnotify event names for the watcher) that reaches a file-system sink (os.OpenFile/Open/Create/Remove/Rename/ReadFile/WriteFile/Stat, http.ServeFile, pcap.OpenOffline) — directly or through filepath.Join, path.Join, +, fmt.Sprintf, url.PathUnescape — is base-name checked: on every path from each assignment of the request variable to the sink the rejection test `v != filepath.Base(v)` is passed, its rejecting branch cannot reach the sink, and the variable is not re-assigned after the test (numeric conversions and os.FileInfo.Name() sanitise); (b) every os.OpenFile with O_CREATE in those functions has O_EXCL (constant folding), and no os.Create/WriteFile/Rename is used on request-derived names; (c) the capture is queued exactly once and only on success: ImportPcaps is reached only through the success branches of the copy and the close, never twice on a path; the partial file is removed only on paths where this request created it (the removal is dominated by the successful exclusive create and unreachable from its failure branch). Semantics of filepath.Base, chi's routing and the kernel's O_EXCL are trusted.",
		ruleC19)
	register("C08",
		"C08-j = C19-b/C19-c for the watched directory: the copy of an arriving capture into the capture directory is created exclusively (O_CREATE|O_EXCL), queued once after a successful copy, and only a file this event created is removed again. A truncating create lets a second event for the same file (a chmod, a touch) deliver the capture again: FromPcap gives every stream of a re-imported file a new id, and the first records stay visible (seeded C08n).",
		ruleC19)
}

var fsSinks = map[string]int{ // full name -> index of the path argument
	"os.OpenFile": 0, "os.Open": 0, "os.Create": 0, "os.Remove": 0, "os.RemoveAll": 0, "os.Rename": 0, "os.ReadFile": 0, "os.WriteFile": 0,
	"os.Stat": 0, "os.Lstat": 0, "os.Mkdir": 0, "os.MkdirAll": 0, "os.Truncate": 0, "os.Chmod": 0, "os.ReadDir": 0, "os.Symlink": 0, "os.Link": 0,
	"net/http.ServeFile": 2, "github.com/gopacket/gopacket/pcap.OpenOffline": 0, "io/ioutil.ReadFile": 0, "io/ioutil.WriteFile": 0,
}

func isRequestSource(p *Prog, f *Fn, e ast.Expr) bool {
	info := f.Pkg.TypesInfo
	hit := false
	ast.Inspect(e, func(x ast.Node) bool {
		switch s := x.(type) {
		case *ast.CallExpr:
			if fn := p.Callee(f.Pkg, s); fn != nil {
				switch fn.FullName() {
				case "github.com/go-chi/chi/v5.URLParam", "github.com/go-chi/chi/v5.URLParamFromCtx", "(*net/http.Request).FormValue", "(*net/http.Request).PostFormValue",
					"(*net/url.URL).Query", "(net/url.Values).Get", "(net/http.Header).Get", "(*net/http.Request).PathValue":
					hit = true
				}
			}
		case *ast.SelectorExpr:
			// r.URL.Path, r.URL.RawPath, r.RequestURI; fsnotify.Event.Name
			if v, ok := info.Uses[s.Sel].(*types.Var); ok && v.IsField() {
				t := info.TypeOf(s.X)
				ts := ""
				if t != nil {
					ts = types.TypeString(t, nil)
				}
				if (strings.HasSuffix(ts, "net/url.URL") && (s.Sel.Name == "Path" || s.Sel.Name == "RawPath" || s.Sel.Name == "RawQuery")) ||
					(strings.HasSuffix(ts, "net/http.Request") && s.Sel.Name == "RequestURI") ||
					(strings.HasSuffix(ts, "fsnotify.Event") && s.Sel.Name == "Name") {
					hit = true
				}
			}
		}
		return true
	})
	return hit
}

// sanitising calls: their result is not path-like request data any more
func isSanitisingCall(p *Prog, f *Fn, c *ast.CallExpr) bool {
	fn := p.Callee(f.Pkg, c)
	if fn == nil {
		return false
	}
	switch fn.FullName() {
	case "strconv.ParseUint", "strconv.ParseInt", "strconv.Atoi", "strconv.ParseBool", "strconv.ParseFloat", "path/filepath.Base", "path.Base", "(io/fs.FileInfo).Name", "(os.FileInfo).Name", "(io/fs.DirEntry).Name":
		return true
	}
	return false
}

func ruleC19(p *Prog, r *Res) {
	const ruleA = "C19-a basename-checked"
	r.Rule(ruleA + ": request-derived values reach file-system sinks only after the base-name rejection test")
	const ruleB = "C19-b exclusive-create"
	r.Rule(ruleB + ": files are created with O_CREATE|O_EXCL; no truncating create on request-derived names")
	const ruleC = "C19-c queue-once-on-success"
	r.Rule(ruleC + ": ImportPcaps only after successful copy and close, once; the partial file is removed only if this request created it")
	importPcaps := p.Method("manager", "Manager", "ImportPcaps")
	nSinks, nCreate, nQueue := 0, 0, 0
	var scope []*Fn
	for _, f := range p.FnList {
		if f.Short == "main" {
			scope = append(scope, f)
		}
		if f.Short == "manager" && strings.HasPrefix(f.Key(), "manager.Manager.startMonitoringPcaps") {
			scope = append(scope, f)
		}
	}
	for _, f := range scope {
		info := f.Pkg.TypesInfo
		fl := p.Flow(f)
		// tainted variables (fixpoint over assignments in this function; closure variables of enclosing functions are
		// tainted if tainted there — handled by analysing the enclosing function first is unnecessary: event is a source itself)
		tainted := map[types.Object]bool{}
		for changed := true; changed; {
			changed = false
			inspectShallow(f.Body(), func(x ast.Node) bool {
				mark := func(lhs []ast.Expr, rhs []ast.Expr) {
					for i, l := range lhs {
						obj := identObj(info, l)
						if obj == nil || tainted[obj] {
							continue
						}
						var e ast.Expr
						if len(rhs) == len(lhs) {
							e = rhs[i]
						} else if len(rhs) == 1 {
							e = rhs[0]
						}
						if e == nil {
							continue
						}
						if c, ok := ast.Unparen(e).(*ast.CallExpr); ok && isSanitisingCall(p, f, c) {
							continue
						}
						t := isRequestSource(p, f, e)
						ast.Inspect(e, func(y ast.Node) bool {
							if c, ok := y.(*ast.CallExpr); ok && isSanitisingCall(p, f, c) {
								return false
							}
							if id, ok := y.(*ast.Ident); ok && tainted[info.ObjectOf(id)] {
								t = true
							}
							return true
						})
						// only string-ish values carry path taint
						if t {
							if bt, ok := obj.Type().Underlying().(*types.Basic); ok && bt.Info()&types.IsString == 0 {
								continue
							}
							tainted[obj] = true
							changed = true
						}
					}
				}
				switch s := x.(type) {
				case *ast.AssignStmt:
					mark(s.Lhs, s.Rhs)
				case *ast.RangeStmt:
					if s.Value != nil {
						mark([]ast.Expr{s.Value}, []ast.Expr{s.X})
					}
				}
				return true
			})
		}
		// root request variables: tainted variables assigned directly from a source expression
		isRoot := map[types.Object]bool{}
		inspectShallow(f.Body(), func(x ast.Node) bool {
			if as, ok := x.(*ast.AssignStmt); ok {
				for i, l := range as.Lhs {
					if obj := identObj(info, l); obj != nil && tainted[obj] && i < len(as.Rhs) && isRequestSource(p, f, as.Rhs[i]) {
						isRoot[obj] = true
					}
				}
			}
			return true
		})
		// derivation: derived var -> set of root vars (transitive through assignments)
		rootsOf := func(e ast.Expr) map[types.Object]bool {
			out := map[types.Object]bool{}
			var visitVar func(o types.Object, depth int)
			visitExpr := func(e ast.Expr, depth int) {
				ast.Inspect(e, func(y ast.Node) bool {
					if c, ok := y.(*ast.CallExpr); ok && isSanitisingCall(p, f, c) {
						return false
					}
					if id, ok := y.(*ast.Ident); ok {
						if o := info.ObjectOf(id); tainted[o] {
							visitVar(o, depth+1)
						}
					}
					return true
				})
			}
			seen := map[types.Object]bool{}
			visitVar = func(o types.Object, depth int) {
				if seen[o] || depth > 8 {
					return
				}
				seen[o] = true
				if isRoot[o] {
					out[o] = true
				}
				inspectShallow(f.Body(), func(x ast.Node) bool {
					if as, ok := x.(*ast.AssignStmt); ok {
						for i, l := range as.Lhs {
							if sameObj(info, l, o) && i < len(as.Rhs) {
								visitExpr(as.Rhs[i], depth)
							}
						}
					}
					return true
				})
			}
			visitExpr(e, 0)
			if isRequestSource(p, f, e) {
				out[nil] = true // inline source without a variable: cannot be sanitised
			}
			return out
		}
		// sinks
		for _, b := range fl.G.Blocks {
			if !b.Live {
				continue
			}
			for _, node := range b.Nodes {
				for _, c := range callsIn(node) {
					fn := p.Callee(f.Pkg, c)
					if fn == nil {
						continue
					}
					// (b) create flags
					if fn.FullName() == "os.OpenFile" && len(c.Args) >= 2 {
						if tv, ok := info.Types[c.Args[1]]; ok && tv.Value != nil {
							flags, _ := constant.Int64Val(tv.Value)
							const oCreate, oExcl, oTrunc = 0x40, 0x80, 0x200
							if flags&oCreate != 0 {
								nCreate++
								key := fmt.Sprintf("%s os.OpenFile(%s, …)", f.Key(), types.ExprString(c.Args[0]))
								r.Check(flags&oExcl != 0 && flags&oTrunc == 0, ruleB, key, p.Pos(c), "O_CREATE together with O_EXCL", "a capture file is created without O_EXCL (or with O_TRUNC): uploading an existing name overwrites the stored capture instead of failing")
							}
						} else {
							nCreate++
							r.Undecided(ruleB, fmt.Sprintf("%s os.OpenFile(%s, …)", f.Key(), types.ExprString(c.Args[0])), p.Pos(c), "open flags are not a compile-time constant")
						}
					}
					argIdx, isSink := fsSinks[fn.FullName()]
					if !isSink || argIdx >= len(c.Args) {
						continue
					}
					roots := rootsOf(c.Args[argIdx])
					if len(roots) == 0 {
						continue
					}
					if fn.FullName() == "os.Create" || fn.FullName() == "os.WriteFile" || fn.FullName() == "os.Rename" {
						r.Bad(ruleB, fmt.Sprintf("%s %s(%s)", f.Key(), fn.FullName(), types.ExprString(c.Args[argIdx])), p.Pos(c), "a truncating/renaming create on a request-derived name can replace an existing capture")
					}
					for root := range roots {
						nSinks++
						rname := "<inline request value>"
						if root != nil {
							rname = root.Name()
						}
						key := fmt.Sprintf("%s %s(%s) ← %s", f.Key(), fn.FullName(), types.ExprString(c.Args[argIdx]), rname)
						// watcher: reads of the watched directory itself (os.Stat/os.Open(event.Name)) are source-dir reads
						if strings.HasPrefix(f.Key(), "manager.") && (fn.FullName() == "os.Stat" || fn.FullName() == "os.Open") {
							r.Exempt(ruleA, key, p.Pos(c), "reads the file fsnotify reported inside the watched directory (the source of the copy); the destination name is fileInfo.Name(), a base name")
							continue
						}
						if root == nil {
							r.Bad(ruleA, key, p.Pos(c), "a request value flows into a file-system call without being bound to a variable that is base-name checked")
							continue
						}
						// the rejection test for root
						isCheck := func(n ast.Node) bool {
							be, ok := n.(*ast.BinaryExpr)
							if !ok || be.Op != token.NEQ {
								return false
							}
							for _, pair := range [][2]ast.Expr{{be.X, be.Y}, {be.Y, be.X}} {
								if !sameObj(info, pair[0], root) {
									continue
								}
								if cc, ok := ast.Unparen(pair[1]).(*ast.CallExpr); ok && len(cc.Args) == 1 && sameObj(info, cc.Args[0], root) {
									if cf := p.Callee(f.Pkg, cc); cf != nil && (cf.FullName() == "path/filepath.Base" || cf.FullName() == "path.Base") {
										return true
									}
								}
							}
							return false
						}
						// starts: after every assignment to root
						var starts []Pt
						for _, bb := range fl.G.Blocks {
							for i, n := range bb.Nodes {
								if as, ok := n.(*ast.AssignStmt); ok {
									for _, l := range as.Lhs {
										if sameObj(info, l, root) {
											starts = append(starts, Pt{bb, i + 1})
										}
									}
								}
							}
						}
						res := fl.Reach(starts, func(n ast.Node) bool { return n == node }, isCheck)
						okCheck := !res.Found
						why := ""
						if res.Found {
							why = "the sink is reachable from an assignment of " + rname + " without passing `" + rname + " != filepath.Base(" + rname + ")` (" + fl.traceString(res) + ")"
						}
						for _, cp := range fl.Find(isCheck) {
							if len(cp.B.Succs) == 2 {
								if rr := fl.Reach([]Pt{{cp.B.Succs[0], 0}}, func(n ast.Node) bool { return n == node }, nil); rr.Found {
									okCheck = false
									why = "the rejecting branch of the base-name test can still reach the sink"
								}
							}
						}
						r.Check(okCheck, ruleA, key, p.Pos(c), "base-name test on every path, rejecting branch returns, no re-assignment afterwards", "request-derived path reaches the file system unchecked: "+why+" — a name containing separators or `..` (in any encoding decoded after the test) escapes the capture directory")
					}
				}
			}
		}
		// (c) queue once on success — functions that create a capture file and call ImportPcaps
		var createPts, queuePts []Pt
		for _, bb := range fl.G.Blocks {
			if !bb.Live {
				continue
			}
			for i, n := range bb.Nodes {
				if nodeCalls(p, f, n, func(fn *types.Func, c *ast.CallExpr) bool {
					if fn.FullName() != "os.OpenFile" || len(c.Args) < 2 {
						return false
					}
					tv, ok := info.Types[c.Args[1]]
					if !ok || tv.Value == nil {
						return false
					}
					v, _ := constant.Int64Val(tv.Value)
					return v&0x40 != 0
				}) {
					createPts = append(createPts, Pt{bb, i})
				}
				if nodeCalls(p, f, n, func(fn *types.Func, _ *ast.CallExpr) bool { return fn == importPcaps }) {
					queuePts = append(queuePts, Pt{bb, i})
				}
			}
		}
		if len(queuePts) == 0 {
			continue
		}
		isQueue := func(n ast.Node) bool {
			for _, q := range queuePts {
				if n == fl.node(q) {
					return true
				}
			}
			return false
		}
		for _, q := range queuePts {
			nQueue++
			key := f.Key() + " ImportPcaps"
			// once
			twice := fl.Reach([]Pt{After(q)}, isQueue, nil)
			r.Check(!twice.Found, ruleC, key+" at most once per request", p.Pos(fl.node(q)), "no second ImportPcaps reachable", "the capture can be queued twice on one path")
			// a package-local helper that performs the step (create / copy / close) and reports failure as an error
			helperDoes := func(fn *types.Func, want func(*types.Func) bool) bool {
				hf := p.FnOfObj(fn)
				if hf == nil || hf.Pkg != f.Pkg || hf.Lit != nil {
					return false
				}
				sig, _ := fn.Type().(*types.Signature)
				if sig == nil || sig.Results().Len() == 0 {
					return false
				}
				lastT := sig.Results().At(sig.Results().Len() - 1).Type()
				reportsBool := sig.Results().Len() == 1 && types.TypeString(lastT, nil) == "bool"
				if !reportsBool && !types.Implements(lastT, errorIface()) {
					return false
				}
				does := false
				for _, c := range callsIn(hf.Body()) {
					if cf := p.Callee(hf.Pkg, c); cf != nil && want(cf) {
						does = true
					}
				}
				if !does || !reportsBool {
					return does
				}
				// a helper that reports success as `true`: no `return true` is reachable from the failure of the step
				hfl := p.Flow(hf)
				hinfo := hf.Pkg.TypesInfo
				isStep := func(n ast.Node) bool {
					return nodeCalls(p, hf, n, func(cf *types.Func, _ *ast.CallExpr) bool { return want(cf) })
				}
				returnsTrue := func(n ast.Node) bool {
					ret, ok := n.(*ast.ReturnStmt)
					if !ok || len(ret.Results) != 1 {
						return false
					}
					tv, ok := hinfo.Types[ret.Results[0]]
					return !(ok && tv.Value != nil && tv.Value.Kind() == constant.Bool && !constant.BoolVal(tv.Value))
				}
				for _, sp := range hfl.Find(isStep) {
					if len(sp.B.Succs) == 2 && failureReaches(hfl, sp, returnsTrue) {
						return false
					}
				}
				return true
			}
			if len(createPts) == 0 {
				viaHelper := false
				for _, bb := range fl.G.Blocks {
					for _, n := range bb.Nodes {
						if nodeCalls(p, f, n, func(fn *types.Func, _ *ast.CallExpr) bool {
							return helperDoes(fn, func(cf *types.Func) bool { return cf.FullName() == "os.OpenFile" })
						}) {
							viaHelper = true
						}
					}
				}
				if !viaHelper {
					r.Undecided(ruleC, key+" only after a successful create, copy and close", p.Pos(fl.node(q)), "the exclusive create is neither in this function nor in a package-local helper it calls; cannot tie the queueing to its success")
					continue
				}
			}
			for _, step := range []struct {
				what string
				pred func(fn *types.Func) bool
			}{{"exclusive create", func(fn *types.Func) bool { return fn.FullName() == "os.OpenFile" }}, {"io.Copy", func(fn *types.Func) bool { return fn.FullName() == "io.Copy" }}, {"Close", func(fn *types.Func) bool { return fn.FullName() == "(*os.File).Close" }}} {
				isStep := func(n ast.Node) bool {
					// the checked occurrence: assignment or if-init (not the cleanup close inside an error branch is also an if-init… accept any)
					return nodeCalls(p, f, n, func(fn *types.Func, _ *ast.CallExpr) bool { return step.pred(fn) || helperDoes(fn, step.pred) })
				}
				res := fl.Reach([]Pt{fl.Entry()}, func(n ast.Node) bool { return n == fl.node(q) }, isStep)
				r.Check(!res.Found, ruleC, key+" after "+step.what, p.Pos(fl.node(q)), step.what+" lies on every path to the queueing", "the capture can be queued without "+step.what+": "+fl.traceString(res))
				bad := false
				for _, sp := range fl.Find(isStep) {
					if len(sp.B.Succs) == 2 && failureReaches(fl, sp, func(n ast.Node) bool { return n == fl.node(q) }) {
						// only the dominating occurrences matter: the cleanup Close inside an error branch cannot reach the queue anyway
						bad = true
					}
				}
				r.Check(!bad, ruleC, key+" only after successful "+step.what, p.Pos(fl.node(q)), "the failure branch of "+step.what+" returns before the queueing", "after a failed "+step.what+" the capture is still queued for import")
			}
		}
		// at least once: from the success continuation of the last step (the checked Close, or the helper that performs
		// it) every path to the end of the handler passes the queueing
		if len(queuePts) > 0 {
			isCloseStep := func(n ast.Node) bool {
				return nodeCalls(p, f, n, func(fn *types.Func, _ *ast.CallExpr) bool {
					if fn.FullName() == "(*os.File).Close" {
						return true
					}
					hf := p.FnOfObj(fn)
					if hf == nil || hf.Pkg != f.Pkg || hf.Lit != nil {
						return false
					}
					for _, c := range callsIn(hf.Body()) {
						if cf := p.Callee(hf.Pkg, c); cf != nil && cf.FullName() == "(*os.File).Close" {
							return true
						}
					}
					return false
				})
			}
			for _, sp := range fl.Find(isCloseStep) {
				b := sp.B
				if len(b.Succs) != 2 || sp.I != len(b.Nodes)-2 {
					continue // not the checked occurrence (cleanup close inside an error branch)
				}
				cond, ok := b.Nodes[len(b.Nodes)-1].(*ast.BinaryExpr)
				if !ok || cond.Op != token.NEQ || types.ExprString(cond.Y) != "nil" {
					continue
				}
				// only the close that can reach the queueing at all (the success-path close)
				if !fl.Reach([]Pt{{b.Succs[1], 0}}, isQueue, nil).Found {
					continue
				}
				nQueue++
				res := fl.ExitAvoiding([]Pt{{b.Succs[1], 0}}, isQueue)
				miss := res.Found || fallsOffEndAvoiding(fl, Pt{b.Succs[1], 0}, isQueue)
				r.Check(!miss, ruleC, f.Key()+" ImportPcaps on every path after the successful close", p.Pos(fl.node(sp)), "the queueing lies on every path from the successful close to the end of the handler", "a successfully stored upload can be answered without being queued for import ("+fl.traceString(res)+"): the capture sits in the pcap directory, is never imported, and cannot be uploaded again because the name exists")
			}
		}
		// removal of the partial file: dominated by the successful create, unreachable from its failure branch
		for _, bb := range fl.G.Blocks {
			for _, n := range bb.Nodes {
				removes := callsIn(n)
				// a deferred clean-up runs at every return that follows its registration: the registration is what
				// has to be dominated by the successful create
				if ds, isDefer := n.(*ast.DeferStmt); isDefer {
					if lit, isLit := ast.Unparen(ds.Call.Fun).(*ast.FuncLit); isLit {
						ast.Inspect(lit.Body, func(y ast.Node) bool {
							if c, ok := y.(*ast.CallExpr); ok {
								removes = append(removes, c)
							}
							return true
						})
					}
				}
				for _, c := range removes {
					if fn := p.Callee(f.Pkg, c); fn == nil || fn.FullName() != "os.Remove" {
						continue
					}
					nQueue++
					key := fmt.Sprintf("%s os.Remove(%s)", f.Key(), types.ExprString(c.Args[0]))
					if len(createPts) == 0 {
						r.Bad(ruleC, key+" only what this request created", p.Pos(c), "the file is removed in a function that did not itself create it exclusively: if the create failed because the name exists, this deletes the stored capture of another upload")
						continue
					}
					okDom := true
					for _, cp := range createPts {
						res := fl.Reach([]Pt{fl.Entry()}, func(m ast.Node) bool { return m == n }, func(m ast.Node) bool { return m == fl.node(cp) })
						if res.Found {
							okDom = false
						}
						if failureReaches(fl, cp, func(m ast.Node) bool { return m == n }) {
							okDom = false
						}
						// same name as the created file
						var created ast.Expr
						for _, cc := range callsIn(fl.node(cp)) {
							if cf := p.Callee(f.Pkg, cc); cf != nil && cf.FullName() == "os.OpenFile" {
								created = cc.Args[0]
							}
						}
						if created != nil && types.ExprString(created) != types.ExprString(c.Args[0]) {
							okDom = false
						}
					}
					r.Check(okDom, ruleC, key+" only what this request created", p.Pos(c), "dominated by the successful exclusive create of the same name", "the removal is reachable without (or after a failed) exclusive create of that name: an upload that is rejected because the file exists would delete the stored capture")
				}
			}
		}
	}
	r.Floor(ruleA+" request→sink flows", 3, nSinks)
	r.Floor(ruleB+" creating opens", 2, nCreate)
	r.Floor(ruleC, 3, nQueue)
}

// ---- C19-d: the name that is queued is the name that was created ----

func init() {
	register("C19",
		"C19-d (AST, typed): in every function of cmd/pkappa2 that both creates a file with os.OpenFile(O_CREATE…) and queues a capture with Manager.ImportPcaps, the queued name is the very variable that forms the last path element of the created file (filepath.Join(dir…, name)): a name that is normalised for the create but queued as requested stores a capture that is never imported, while the request is answered with success.",
		func(p *Prog, r *Res) {
			const rule = "C19-d queued-name-is-stored-name"
			r.Rule(rule + ": ImportPcaps receives the name under which the upload was created")
			imp := p.Method("manager", "Manager", "ImportPcaps")
			if imp == nil {
				p.anchorFail("manager.Manager.ImportPcaps")
				return
			}
			n := 0
			for _, f := range p.FnList {
				if f.Short != "main" || f.Body() == nil {
					continue
				}
				info := f.Pkg.TypesInfo
				// created path variable -> last Join element
				var stored types.Object
				var createPos ast.Node
				inspectShallow(f.Body(), func(x ast.Node) bool {
					c, ok := x.(*ast.CallExpr)
					if !ok {
						return true
					}
					fn := p.Callee(f.Pkg, c)
					if fn == nil {
						return true
					}
					creates := func(g *Fn, oc *ast.CallExpr) bool {
						ofn := p.Callee(g.Pkg, oc)
						if ofn == nil || ofn.FullName() != "os.OpenFile" || len(oc.Args) != 3 {
							return false
						}
						tv, ok := g.Pkg.TypesInfo.Types[oc.Args[1]]
						if !ok || tv.Value == nil {
							return false
						}
						var fl int64
						fmt.Sscan(tv.Value.ExactString(), &fl)
						return fl&int64(os.O_CREATE) != 0
					}
					pathArg := ast.Expr(nil)
					if creates(f, c) {
						pathArg = c.Args[0]
					} else if h := p.FnOfObj(fn); h != nil && h.Pkg == f.Pkg && h.Lit == nil && h.Body() != nil {
						// a package-local helper that creates the file named by one of its parameters
						for _, hc := range callsIn(h.Body()) {
							if creates(h, hc) {
								if po := identObj(h.Pkg.TypesInfo, hc.Args[0]); po != nil {
									if pi := paramIndex(h, po); pi >= 0 && pi < len(c.Args) {
										pathArg = c.Args[pi]
									}
								}
							}
						}
					}
					if pathArg == nil {
						return true
					}
					pathObj := identObj(info, pathArg)
					if pathObj == nil {
						return true
					}
					inspectShallow(f.Body(), func(y ast.Node) bool {
						as, ok := y.(*ast.AssignStmt)
						if !ok || len(as.Lhs) != 1 || len(as.Rhs) != 1 || !sameObj(info, as.Lhs[0], pathObj) {
							return true
						}
						if jc, ok := as.Rhs[0].(*ast.CallExpr); ok && len(jc.Args) > 0 {
							if jf := p.Callee(f.Pkg, jc); jf != nil && jf.FullName() == "path/filepath.Join" {
								stored = identObj(info, jc.Args[len(jc.Args)-1])
								createPos = c
							}
						}
						return true
					})
					return true
				})
				if stored == nil {
					continue
				}
				inspectShallow(f.Body(), func(x ast.Node) bool {
					c, ok := x.(*ast.CallExpr)
					if !ok || p.Callee(f.Pkg, c) != imp || len(c.Args) != 1 {
						return true
					}
					n++
					key := f.Key() + " ImportPcaps queues the created name"
					okName := false
					desc := types.ExprString(c.Args[0])
					if cl, isLit := ast.Unparen(c.Args[0]).(*ast.CompositeLit); isLit {
						okName = len(cl.Elts) > 0
						for _, el := range cl.Elts {
							if identObj(info, el) != stored {
								okName = false
							}
						}
					}
					r.Check(okName, rule, key, p.Pos(c), "queues "+stored.Name()+", the last path element of the file created at "+p.Pos(createPos), "the file is created under the name "+stored.Name()+" but "+desc+" is queued for import: when the two differ the stored capture is never imported although the upload is acknowledged")
					return true
				})
			}
			if n == 0 {
				r.Note("%s: no function of cmd/pkappa2 both creates a file (directly or through a package-local helper) and queues a capture; nothing to compare", rule)
			}
		})
}
