package main

// pkcheck: repository-specific static analyser for spq/pkappa2 (see /verif/DESIGN.md).
//
//   pkcheck -prop C13 -tier quick|thorough [-repo /repo] [-out /verif/evidence] [-kf /verif/known-findings.json]
//
// Exit 0: property's structural obligations all discharged (or listed as known findings).
// Exit 1: prints "VIOLATION property=<id> replay=<evidence file>#<rule>|<construct>".
// Exit 2: the analyser itself failed (load error); also printed as VIOLATION so that it is never silent.

import (
	"flag"
	"fmt"
	"os"
	"path/filepath"
	"runtime/debug"
	"sort"
	"strconv"
	"strings"
	"time"
)

type PropDef struct {
	ID          string
	Explanation string
	Rules       []func(*Prog, *Res)
}

var registry = map[string]*PropDef{}

// register adds rules (and their part of the explanation) to a property; several files may
// contribute clauses to the same property.
func register(id, explanation string, rules ...func(*Prog, *Res)) {
	d := registry[id]
	if d == nil {
		d = &PropDef{ID: id}
		registry[id] = d
	}
	if d.Explanation != "" {
		d.Explanation += " || "
	}
	d.Explanation += explanation
	d.Rules = append(d.Rules, rules...)
}

// runProp runs all rules of a property on a loaded program.
func runProp(p *Prog, def *PropDef) *Res {
	r := &Res{Prop: def.ID}
	p.anchorErrs = nil
	for _, rule := range def.Rules {
		func() {
			defer func() {
				if e := recover(); e != nil {
					r.Bad("analyzer", "panic", "", fmt.Sprintf("analyzer panic: %v\n%s", e, debug.Stack()))
				}
			}()
			rule(p, r)
		}()
	}
	seen := map[string]bool{}
	for _, a := range p.anchorErrs {
		if !seen[a] {
			seen[a] = true
			r.Bad("anchor", a, "", "unresolved anchor: the construct a rule is tied to no longer exists under this name; the rule cannot be applied")
		}
	}
	p.anchorErrs = nil
	sortObls(r.Obls)
	return r
}

func main() {
	prop := flag.String("prop", "", "property id (C01..C20) or 'all'")
	tier := flag.String("tier", "quick", "quick|thorough")
	repo := flag.String("repo", "/repo", "repository root")
	out := flag.String("out", "/verif/evidence", "evidence directory")
	kfPath := flag.String("kf", "/verif/known-findings.json", "known findings file")
	verif := flag.String("verif", "/verif", "verif root (mutants, seeded)")
	verbose := flag.Bool("v", false, "print every obligation")
	overlayFlag := flag.String("overlay", "", "comma-separated real=replacement file pairs (debugging)")
	patchFlag := flag.String("patch", "", "unified diff applied in memory before analysing (trying a change without touching /repo)")
	flag.Parse()
	if *tier != "quick" && *tier != "thorough" {
		fmt.Println("bad tier")
		os.Exit(2)
	}
	if t := os.Getenv("VERIF_TIER"); t == "quick" || t == "thorough" {
		_ = t // the explicit flag wins; the manifest passes the tier explicitly
	}
	seed := int64(0)
	if s := os.Getenv("VERIF_SEED"); s != "" {
		seed, _ = strconv.ParseInt(s, 10, 64)
	}
	var ids []string
	if *prop == "all" {
		for id := range registry {
			ids = append(ids, id)
		}
		sort.Strings(ids)
	} else {
		for _, id := range strings.Split(*prop, ",") {
			if registry[id] == nil {
				fmt.Printf("unknown or unclaimed property %q\n", id)
				os.Exit(2)
			}
			ids = append(ids, id)
		}
	}
	absRepo, _ := filepath.Abs(*repo)
	kf, err := loadKF(*kfPath)
	if err != nil {
		fmt.Printf("cannot read known findings %s: %v\n", *kfPath, err)
		kf = nil
	}
	var overlay map[string][]byte
	if *overlayFlag != "" {
		overlay = map[string][]byte{}
		for _, pair := range strings.Split(*overlayFlag, ",") {
			kv := strings.SplitN(pair, "=", 2)
			b, err := os.ReadFile(kv[1])
			if err != nil {
				fmt.Println(err)
				os.Exit(2)
			}
			a, _ := filepath.Abs(kv[0])
			overlay[a] = b
		}
	}
	if *patchFlag != "" {
		ov, err := overlayFromPatch(absRepo, *patchFlag)
		if err != nil {
			fmt.Println("patch:", err)
			os.Exit(2)
		}
		overlay = ov
	}
	t0 := time.Now()
	p, err := Load(absRepo, overlay)
	if err != nil {
		// never silent: every requested property fails
		for _, id := range ids {
			r := &Res{Prop: id}
			r.Bad("load", "packages", "", err.Error())
			o := r.finish(nil)
			r.writeEvidence(*out, *tier, seed, time.Since(t0).Seconds(), o, nil, "load failed")
			fmt.Printf("load error: %v\n", err)
			fmt.Printf("VIOLATION property=%s replay=%s\n", id, filepath.Join(*out, id+".json"))
		}
		os.Exit(1)
	}
	loadSecs := time.Since(t0).Seconds()
	fmt.Printf("loaded %d packages, %d functions (incl. literals) from %s in %.1fs\n", len(p.Pkgs), len(p.FnList), absRepo, time.Since(t0).Seconds())
	exit := 0
	for _, id := range ids {
		t1 := time.Now()
		def := registry[id]
		r := runProp(p, def)
		extra := map[string]any{}
		if *tier == "thorough" {
			st := runSelftest(absRepo, *verif, def, kf)
			extra["selftest"] = st
			for _, m := range st.Missed {
				fmt.Printf("SELFTEST-MISS property=%s mutant=%s (the rule did not fire on a variant it should detect; checker weakness, not a violation of the tree)\n", id, m)
			}
			fmt.Printf("selftest %s: %d variants applied, %d breaking detected, %d/%d behaviour-preserving silent, %d stale, %d not statically detectable (documented)\n", id, st.Applied, st.Detected, st.NegativeSilent, st.Negative, len(st.Stale), len(st.Undetectable))
		}
		if kf != nil {
			for _, e := range kf.Entries {
				if e.Kind == "finding-unchecked" && e.Property == id {
					r.Note("recorded defect of this property that no static rule decides (confirmed by %s): %s", e.Rule, e.Key)
				}
			}
		}
		o := r.finish(kf)
		wall := time.Since(t1).Seconds() + loadSecs
		if err := r.writeEvidence(*out, *tier, seed, wall, o, extra, def.Explanation); err != nil {
			fmt.Printf("cannot write evidence: %v\n", err)
			exit = 2
		}
		nd := 0
		for _, ob := range r.Obls {
			if ob.Verdict == "discharged" {
				nd++
			}
			if *verbose {
				fmt.Printf("  [%s] %s | %s | %s | %s\n", ob.Verdict, ob.Rule, ob.Key, ob.Pos, ob.Detail)
			}
		}
		for _, fl := range r.Floors {
			fmt.Printf("  floor %-34s confirmed>=%d found=%d\n", fl.Rule, fl.Want, fl.Got)
		}
		fmt.Printf("%s: %d obligations, %d discharged, %d known findings, %d violations\n", id, len(r.Obls), nd, len(o.Known), len(o.Violations))
		for _, k := range o.Known {
			fmt.Printf("KNOWN-FINDING: property=%s %s | %s | %s | %s\n", id, k.Rule, k.Key, k.Pos, k.Detail)
		}
		// defects of the property that were confirmed by running code (probes/) and that no static rule decides:
		// listed for the record; they suppress nothing and are not re-detected by this check
		if kf != nil {
			for _, e := range kf.Entries {
				if e.Kind == "finding-unchecked" && e.Property == id {
					fmt.Printf("KNOWN-FINDING: property=%s (confirmed by a probe, not decided statically) %s | %s\n", id, e.Key, e.What)
				}
			}
		}
		for _, v := range o.Violations {
			fmt.Printf("  %s: [%s] %s | %s\n      %s\n", v.Verdict, v.Rule, v.Key, v.Pos, v.Detail)
			fmt.Printf("VIOLATION property=%s replay=%s#%s|%s\n", id, filepath.Join(*out, id+".json"), strings.ReplaceAll(v.Rule, " ", "_"), strings.ReplaceAll(v.Key, " ", "_"))
			if exit == 0 {
				exit = 1
			}
		}
	}
	os.Exit(exit)
}
