package main

import (
	"fmt"
	"golang.org/x/tools/go/packages"
)

func main() {
	cfg := &packages.Config{Mode: packages.LoadAllSyntax, Dir: "/repo"}
	pkgs, err := packages.Load(cfg, "./cmd/...", "./internal/...")
	fmt.Println(len(pkgs), err)
	for _, p := range pkgs {
		fmt.Println(p.PkgPath, len(p.Errors), p.Errors)
	}
}
