package main

// c03n.go: C03-n dropping impossible alternatives never yields "no restriction".
//
// A ConditionsSet is a disjunction; the EMPTY set is the project's encoding of "no restriction" (every stream), and
// the one-element set {impossible} of "no stream". A function that builds a set and leaves out the alternatives that
// contradict themselves must therefore look at the case that all were left out: ConditionsSet.Clean does
// (`if len(new) == 0 && len(c) != 0 { return {impossible} }`). Seeded C03o gave ConditionsSet.And the same skip —
// "most combinations of an inverted query contradict themselves" — without it: `protocol:tcp protocol:udp` and
// `cdata:hello -cdata:hello` were normalised to the query that matches every stream.
//
// Rule (typed AST, sibling agreement): in package query a function that returns a ConditionsSet variable it appends to
// in a loop, where an append is skipped (or admitted) under a test that calls impossible(), tests `len(<variable>) == 0`
// in a condition whose branch returns something else, in front of every return of the variable.

import (
	"fmt"
	"go/ast"
	"go/token"
	"go/types"
)

func init() {
	register("C03",
		"C03-n (typed AST, sibling agreement): in package query a function that returns a ConditionsSet variable it appends to in a loop, where an iteration's append is skipped or admitted under a test that calls impossible(), has — in front of every return of that variable — a condition `len(variable) == 0` whose branch returns something else. The empty set means 'no restriction'; a set from which every alternative was dropped as contradictory means 'no stream'. ConditionsSet.Clean makes the distinction; a product or filter that drops impossible alternatives without it turns `protocol:tcp protocol:udp` into the query that matches everything.",
		func(p *Prog, r *Res) {
			const rule = "C03-n dropped-alternatives-leave-impossible-not-empty"
			r.Rule(rule + ": a set built by leaving out impossible alternatives handles the case that none is left")
			cs := p.Named("query", "ConditionsSet")
			if cs == nil {
				p.anchorFail("query.ConditionsSet")
				return
			}
			isCS := func(t types.Type) bool {
				nt := namedOf(t)
				return nt != nil && nt.Obj() == cs.Obj()
			}
			n := 0
			for _, f := range p.FnList {
				if f.Short != "query" || f.Lit != nil || f.Body() == nil || f.Decl.Type.Results == nil {
					continue
				}
				info := f.Pkg.TypesInfo
				callsImpossible := func(e ast.Node) bool {
					hit := false
					ast.Inspect(e, func(x ast.Node) bool {
						if c, ok := x.(*ast.CallExpr); ok {
							if fn := p.Callee(f.Pkg, c); fn != nil && fn.Name() == "impossible" {
								hit = true
							}
						}
						return !hit
					})
					return hit
				}
				// variables of type ConditionsSet that receive `v = append(v, …)` inside a loop body in which an
				// impossible() test decides whether the append is reached
				filtered := map[types.Object]ast.Node{}
				ast.Inspect(f.Body(), func(x ast.Node) bool {
					var body *ast.BlockStmt
					switch l := x.(type) {
					case *ast.RangeStmt:
						body = l.Body
					case *ast.ForStmt:
						body = l.Body
					default:
						return true
					}
					tested := false
					ast.Inspect(body, func(y ast.Node) bool {
						if ifs, ok := y.(*ast.IfStmt); ok && callsImpossible(ifs.Cond) {
							tested = true
						}
						return true
					})
					if !tested {
						return true
					}
					ast.Inspect(body, func(y ast.Node) bool {
						as, ok := y.(*ast.AssignStmt)
						if !ok || len(as.Lhs) != 1 || len(as.Rhs) != 1 {
							return true
						}
						c, ok := ast.Unparen(as.Rhs[0]).(*ast.CallExpr)
						if !ok || !isBuiltin(info, c, "append") || len(c.Args) < 2 {
							return true
						}
						o := identObj(info, as.Lhs[0])
						if o != nil && identObj(info, c.Args[0]) == o && isCS(o.Type()) {
							filtered[o] = as
						}
						return true
					})
					return true
				})
				for o, at := range filtered {
					// every `return o`
					var rets []*ast.ReturnStmt
					inspectShallow(f.Body(), func(x ast.Node) bool {
						if ret, ok := x.(*ast.ReturnStmt); ok && len(ret.Results) >= 1 && identObj(info, ret.Results[0]) == o {
							rets = append(rets, ret)
						}
						return true
					})
					if len(rets) == 0 {
						continue
					}
					n++
					okAll := true
					for _, ret := range rets {
						handled := false
						ast.Inspect(f.Body(), func(x ast.Node) bool {
							ifs, ok := x.(*ast.IfStmt)
							if !ok || ifs.End() > ret.Pos() || len(ifs.Body.List) == 0 {
								return true
							}
							if _, ok := ifs.Body.List[len(ifs.Body.List)-1].(*ast.ReturnStmt); !ok {
								return true
							}
							ast.Inspect(ifs.Cond, func(y ast.Node) bool {
								be, ok := y.(*ast.BinaryExpr)
								if !ok || be.Op != token.EQL {
									return true
								}
								for _, pair := range [][2]ast.Expr{{be.X, be.Y}, {be.Y, be.X}} {
									c, ok := ast.Unparen(pair[0]).(*ast.CallExpr)
									if ok && isBuiltin(info, c, "len") && len(c.Args) == 1 && identObj(info, c.Args[0]) == o && isZeroLit(pair[1]) {
										handled = true
									}
								}
								return true
							})
							return true
						})
						if !handled {
							okAll = false
						}
					}
					key := fmt.Sprintf("%s returns %s after leaving out impossible alternatives", f.Key(), o.Name())
					r.Check(okAll, rule, key, p.Pos(at), "the empty result is replaced before it is returned", "alternatives that contradict themselves are left out of "+o.Name()+" and the set is returned as it is: when every alternative was left out the result is the EMPTY set, which means 'no restriction' — a query no stream can satisfy (`protocol:tcp protocol:udp`) is normalised to the query that matches every stream")
				}
			}
			r.Floor(rule, 1, n)
		})
}
