package main

// c03n.go: C03-n dropping impossible alternatives never yields "no restriction".
//
// A ConditionsSet is a disjunction; the EMPTY set is the project's encoding of "no restriction" (every stream), and
// the one-element set {impossible} of "no stream". A function that builds a set and leaves out the alternatives that
// contradict themselves must therefore look at the case that all were left out: ConditionsSet.Clean does
// (`if len(new) == 0 && len(c) != 0 { return {impossible} }`). Seeded C03o gave ConditionsSet.And the same skip —
// "most combinations of an inverted query contradict themselves" — without it: `protocol:tcp protocol:udp` and
// `cdata:hello -cdata:hello` were normalised to the query that matches every stream.
//
// Rule (typed AST, sibling agreement): in package query a function that returns a ConditionsSet variable it appends to
// in a loop, where an append is skipped (or admitted) under a test that calls impossible(), compares `len(<variable>)` with 0
// (in a condition or in the definition of a boolean) and has, besides the return of the variable, a return of a freshly
// built set.

import (
	"fmt"
	"go/ast"
	"go/token"
	"go/types"
)

func init() {
	register("C03",
		"C03-n (typed AST, sibling agreement): in package query a function that returns a ConditionsSet variable it appends to in a loop, where an iteration's append is skipped or admitted under a test that calls impossible(), compares `len(variable)` with 0 in a condition (or in the definition of a boolean) and has a return of a freshly built set besides the return of the variable. The empty set means 'no restriction'; a set from which every alternative was dropped as contradictory means 'no stream'. ConditionsSet.Clean makes the distinction; a product or filter that drops impossible alternatives without it turns `protocol:tcp protocol:udp` into the query that matches everything.",
		func(p *Prog, r *Res) {
			const rule = "C03-n dropped-alternatives-leave-impossible-not-empty"
			r.Rule(rule + ": a set built by leaving out impossible alternatives handles the case that none is left")
			cs := p.Named("query", "ConditionsSet")
			if cs == nil {
				p.anchorFail("query.ConditionsSet")
				return
			}
			isCS := func(t types.Type) bool {
				nt := namedOf(t)
				return nt != nil && nt.Obj() == cs.Obj()
			}
			n := 0
			for _, f := range p.FnList {
				if f.Short != "query" || f.Lit != nil || f.Body() == nil || f.Decl.Type.Results == nil {
					continue
				}
				info := f.Pkg.TypesInfo
				callsImpossible := func(e ast.Node) bool {
					hit := false
					ast.Inspect(e, func(x ast.Node) bool {
						if c, ok := x.(*ast.CallExpr); ok {
							if fn := p.Callee(f.Pkg, c); fn != nil && fn.Name() == "impossible" {
								hit = true
							}
						}
						return !hit
					})
					return hit
				}
				// variables of type ConditionsSet that receive `v = append(v, …)` inside a loop body in which an
				// impossible() test decides whether the append is reached
				filtered := map[types.Object]ast.Node{}
				ast.Inspect(f.Body(), func(x ast.Node) bool {
					var body *ast.BlockStmt
					switch l := x.(type) {
					case *ast.RangeStmt:
						body = l.Body
					case *ast.ForStmt:
						body = l.Body
					default:
						return true
					}
					tested := false
					ast.Inspect(body, func(y ast.Node) bool {
						if ifs, ok := y.(*ast.IfStmt); ok && callsImpossible(ifs.Cond) {
							tested = true
						}
						return true
					})
					if !tested {
						return true
					}
					ast.Inspect(body, func(y ast.Node) bool {
						as, ok := y.(*ast.AssignStmt)
						if !ok || len(as.Lhs) != 1 || len(as.Rhs) != 1 {
							return true
						}
						c, ok := ast.Unparen(as.Rhs[0]).(*ast.CallExpr)
						if !ok {
							return true
						}
						o := identObj(info, as.Lhs[0])
						if o == nil || !isCS(o.Type()) {
							return true
						}
						if isBuiltin(info, c, "append") && len(c.Args) >= 2 && identObj(info, c.Args[0]) == o {
							filtered[o] = as
							return true
						}
						// v = v.add(x) / v = add(v, x): a helper of the package that returns its receiver or parameter, appended to
						if fn := p.Callee(f.Pkg, c); fn != nil {
							if h := p.FnOfObj(fn); h != nil && h.Short == "query" && h.Body() != nil {
								passes := false
								if se, ok := ast.Unparen(c.Fun).(*ast.SelectorExpr); ok && identObj(info, se.X) == o {
									passes = true
								}
								for _, a := range c.Args {
									if identObj(info, a) == o {
										passes = true
									}
								}
								appends := false
								ast.Inspect(h.Body(), func(z ast.Node) bool {
									if ret, ok := z.(*ast.ReturnStmt); ok && len(ret.Results) == 1 {
										if ac, ok := ast.Unparen(ret.Results[0]).(*ast.CallExpr); ok && isBuiltin(h.Pkg.TypesInfo, ac, "append") {
											appends = true
										}
									}
									return true
								})
								if passes && appends {
									filtered[o] = as
								}
							}
						}
						return true
					})
					return true
				})
				for o, at := range filtered {
					// every `return o`
					var rets []*ast.ReturnStmt
					inspectShallow(f.Body(), func(x ast.Node) bool {
						if ret, ok := x.(*ast.ReturnStmt); ok && len(ret.Results) >= 1 && identObj(info, ret.Results[0]) == o {
							rets = append(rets, ret)
						}
						return true
					})
					if len(rets) == 0 {
						continue
					}
					n++
					// the function looks at the length of the variable — `len(v) == 0`, `!= 0`, `> 0` … in a condition or in
					// the definition of a boolean — and has a way out that returns something else
					looks := false
					ast.Inspect(f.Body(), func(x ast.Node) bool {
						be, ok := x.(*ast.BinaryExpr)
						if !ok {
							return true
						}
						switch be.Op {
						case token.EQL, token.NEQ, token.GTR, token.LSS, token.GEQ, token.LEQ:
						default:
							return true
						}
						for _, pair := range [][2]ast.Expr{{be.X, be.Y}, {be.Y, be.X}} {
							c, ok := ast.Unparen(pair[0]).(*ast.CallExpr)
							if ok && isBuiltin(info, c, "len") && len(c.Args) == 1 && identObj(info, c.Args[0]) == o {
								if tv, ok := info.Types[pair[1]]; ok && tv.Value != nil && (tv.Value.String() == "0" || tv.Value.String() == "1") {
									looks = true
								}
							}
						}
						return true
					})
					otherWay := false
					inspectShallow(f.Body(), func(x ast.Node) bool {
						if ret, ok := x.(*ast.ReturnStmt); ok && len(ret.Results) >= 1 {
							if _, isLit := ast.Unparen(ret.Results[0]).(*ast.CompositeLit); isLit {
								otherWay = true
							}
						}
						return true
					})
					okAll := looks && otherWay
					key := fmt.Sprintf("%s returns %s after leaving out impossible alternatives", f.Key(), o.Name())
					r.Check(okAll, rule, key, p.Pos(at), "the empty result is replaced before it is returned", "alternatives that contradict themselves are left out of "+o.Name()+" and the set is returned as it is: when every alternative was left out the result is the EMPTY set, which means 'no restriction' — a query no stream can satisfy (`protocol:tcp protocol:udp`) is normalised to the query that matches every stream")
				}
			}
			r.Floor(rule, 1, n)
		})
}
