package main

import (
	"fmt"
	"go/ast"
	"go/token"
	"go/types"
	"sort"
	"strings"
)

func init() {
	register("C09",
		"C09 (CTX+FLOW): local liveness obligations of the service loop. (a) every background job started with `go` from the loop posts exactly one completion closure on every path; (b) the running flag set where a job is started is cleared on every path of its completion, the flag and the `go` statement lie on the same paths, and the import completion shrinks the queue and restarts import when the queue is non-empty; (c) trigger-after-raise: in every closure executed by the service goroutine (and in New before the loop starts), every statement that raises tag work (non-empty assignment to a tag's Uncertain, invalidateTags/inheritTagUncertainty, clearing taggingJobRunning) or converter work (Or/Set on a streamsToConvert entry, attach/invalidateConverters, clearing converterJobRunning) is followed on every path to the closure's end by startTaggingJobIfNeeded / startConverterJobIfNeeded — helper functions that raise without triggering are summarised bottom-up as wrappers and the obligation moves to their callers; (d) the service goroutine never blocks: every channel operation in loop context is a send inside a select with default, a send on a result channel the posting API function awaits, close, or the buffered pcapOverIPCmd; no receive, range-over-channel, Sleep, Wait or send on Manager.jobs itself. Global termination (finite re-tagging rounds, no merge/tag ping-pong) is NOT decided.",
		ruleC09)
}

type effKind int

const (
	effTag effKind = iota
	effConv
	effMerge
)

var effName = map[effKind]string{effTag: "tag-work", effConv: "converter-work", effMerge: "merge-work"}

func ruleC09(p *Prog, r *Res) {
	ctx := p.Contexts()
	info := p.By["manager"].TypesInfo
	jobsFld := ctx.jobsFld
	if jobsFld == nil {
		return
	}
	mgrFns := func() []*Fn {
		var out []*Fn
		for _, f := range p.FnList {
			if f.Short == "manager" {
				out = append(out, f)
			}
		}
		return out
	}()

	// ---------- C09-a ----------
	const ruleA = "C09-a job-posts-completion"
	r.Rule(ruleA + ": every job started from the loop posts exactly one completion on every path and has no non-returning call")
	jobs := map[*Fn]bool{}
	for _, gs := range ctx.GoSites {
		if gs.In.Short != "manager" || gs.Callee == nil || gs.Callee.Lit != nil {
			continue
		}
		if ctx.Has(gs.In, ctxLOOP) || ctx.Has(gs.In, ctxINIT) {
			// workers started once in New's first closure (handlers that loop forever) are not jobs with a completion
			if gs.Callee.Name == "Manager.pcapOverIPPacketHandler" || gs.Callee.Name == "Manager.tagUpdateEventWorker" {
				continue
			}
			jobs[gs.Callee] = true
		}
	}
	var jobList []*Fn
	for j := range jobs {
		jobList = append(jobList, j)
	}
	sort.Slice(jobList, func(i, j int) bool { return jobList[i].Key() < jobList[j].Key() })
	completion := map[*Fn]*Fn{}
	for _, jf := range jobList {
		if jf.Name == "triggerPcapProcessedWebhook" {
			continue // fire-and-forget HTTP request, holds no loop state
		}
		fl := p.Flow(jf)
		isPost := func(n ast.Node) bool {
			s, ok := n.(*ast.SendStmt)
			return ok && ctx.isJobsChan(jf.Pkg.TypesInfo, s.Chan)
		}
		res := fl.MustPass(isPost)
		r.Check(!res.Found, ruleA, jf.Key()+" posts on every path", p.Pos(jf.Node()), "must-pass send on Manager.jobs", "a path of the job ends without posting its completion: its running flag is never cleared: "+fl.traceString(res))
		pts := fl.Find(isPost)
		twice := false
		for _, pt := range pts {
			if rr := fl.Reach([]Pt{After(pt)}, isPost, nil); rr.Found {
				twice = true
			}
		}
		r.Check(!twice, ruleA, jf.Key()+" posts once", p.Pos(jf.Node()), fmt.Sprintf("%d post site(s), none follows another", len(pts)), "two completions can be posted by one job run")
		// non-returning calls inside the job
		fatal := ""
		inspectShallow(jf.Body(), func(x ast.Node) bool {
			if c, ok := x.(*ast.CallExpr); ok {
				if isBuiltin(jf.Pkg.TypesInfo, c, "panic") {
					fatal = p.Pos(c)
				}
				if fn := p.Callee(jf.Pkg, c); fn != nil && strings.HasPrefix(fn.FullName(), "log.Fatal") {
					fatal = p.Pos(c)
				}
			}
			return true
		})
		r.Check(fatal == "", ruleA, jf.Key()+" has no non-returning call", p.Pos(jf.Node()), "no panic/log.Fatal on the job's own paths", "the job can end at "+fatal+" without posting its completion")
		if posted := ctx.completionsIn(jf); len(posted) == 1 {
			completion[jf] = posted[0]
		}
	}
	r.Floor(ruleA+" jobs", 4, len(completion))

	// ---------- C09-b ----------
	const ruleB = "C09-b completion-clears-flag"
	r.Rule(ruleB + ": the running flag set at the go statement is cleared on every path of the completion closure")
	isFlagAssign := func(f *Fn, n ast.Node, fld *types.Var, val string) bool {
		as, ok := n.(*ast.AssignStmt)
		if !ok || len(as.Lhs) != 1 || len(as.Rhs) != 1 {
			return false
		}
		if !isFieldOf(f.Pkg.TypesInfo, as.Lhs[0], fld) {
			return false
		}
		id, ok := as.Rhs[0].(*ast.Ident)
		return ok && id.Name == val
	}
	nb := 0
	for _, gs := range ctx.GoSites {
		if gs.Callee == nil || completion[gs.Callee] == nil || gs.In.Short != "manager" {
			continue
		}
		starter := gs.In
		sfl := p.Flow(starter)
		// flags assigned true in the starter
		var flags []*types.Var
		inspectShallow(starter.Body(), func(x ast.Node) bool {
			if as, ok := x.(*ast.AssignStmt); ok && len(as.Lhs) == 1 && len(as.Rhs) == 1 {
				if id, ok := as.Rhs[0].(*ast.Ident); ok && id.Name == "true" {
					if se, ok := as.Lhs[0].(*ast.SelectorExpr); ok {
						if v, ok := starter.Pkg.TypesInfo.Uses[se.Sel].(*types.Var); ok && v.IsField() && strings.HasSuffix(v.Name(), "JobRunning") {
							flags = append(flags, v)
						}
					}
				}
			}
			return true
		})
		comp := completion[gs.Callee]
		cfl := p.Flow(comp)
		for _, fld := range flags {
			nb++
			key := fmt.Sprintf("%s: %s", gs.Callee.Key(), fld.Name())
			res := cfl.MustPass(func(n ast.Node) bool { return isFlagAssign(comp, n, fld, "false") })
			r.Check(!res.Found, ruleB, key+" cleared in completion", p.Pos(comp.Node()), "must-pass "+fld.Name()+" = false", "a path through the completion leaves "+fld.Name()+" set: no job of this kind can ever start again: "+cfl.traceString(res))
			// flag=true and go on the same paths
			isGo := func(n ast.Node) bool { return n == ast.Node(gs.Stmt) }
			for _, pt := range sfl.Find(func(n ast.Node) bool { return isFlagAssign(starter, n, fld, "true") }) {
				after := sfl.ExitAvoiding([]Pt{After(pt)}, isGo)
				before := sfl.Reach([]Pt{sfl.Entry()}, func(n ast.Node) bool { return n == sfl.node(pt) }, isGo)
				r.Check(!after.Found || !before.Found, ruleB, key+" set only together with go", p.Pos(sfl.node(pt)), "flag assignment and go statement lie on the same paths", "the flag can be set on a path that never starts the job: it would stay set forever")
			}
		}
	}
	// import: queue shrink + restart
	if jf := p.Fns["manager.Manager.importPcapJob"]; jf != nil && completion[jf] != nil {
		comp := completion[jf]
		cfl := p.Flow(comp)
		qfld := p.Field("manager", "Manager", "importJobs")
		isShrink := func(n ast.Node) bool {
			as, ok := n.(*ast.AssignStmt)
			return ok && len(as.Lhs) == 1 && isFieldOf(comp.Pkg.TypesInfo, as.Lhs[0], qfld)
		}
		res := cfl.MustPass(isShrink)
		nb++
		r.Check(!res.Found, ruleB, "manager.Manager.importPcapJob: importJobs updated in completion", p.Pos(comp.Node()), "must-pass assignment to Manager.importJobs", "a completion path does not remove the processed files from the import queue")
		// after the shrink every path passes the test on the queue length whose then-branch restarts import
		// the restart: a go statement of importPcapJob in a branch (then or else) of an if whose condition — directly or
		// through a boolean local defined from it — reads Manager.importJobs
		cinfo := comp.Pkg.TypesInfo
		readsQueue := func(e ast.Expr) bool {
			hit := false
			var visit func(n ast.Node, depth int)
			visit = func(n ast.Node, depth int) {
				ast.Inspect(n, func(y ast.Node) bool {
					switch z := y.(type) {
					case *ast.SelectorExpr:
						if cinfo.Uses[z.Sel] == types.Object(qfld) {
							hit = true
						}
					case *ast.Ident:
						if v, ok := cinfo.Uses[z].(*types.Var); ok && !v.IsField() && depth < 2 {
							if b, ok := v.Type().Underlying().(*types.Basic); ok && b.Kind() == types.Bool {
								inspectShallow(comp.Body(), func(w ast.Node) bool {
									if as, ok := w.(*ast.AssignStmt); ok && len(as.Lhs) == len(as.Rhs) {
										for i, l := range as.Lhs {
											if identObj(cinfo, l) == types.Object(v) {
												visit(as.Rhs[i], depth+1)
											}
										}
									}
									return true
								})
							}
						}
					}
					return !hit
				})
			}
			visit(e, 0)
			return hit
		}
		var restartIf *ast.IfStmt
		inspectShallow(comp.Body(), func(x ast.Node) bool {
			if ifs, ok := x.(*ast.IfStmt); ok && readsQueue(ifs.Cond) {
				hasGo := false
				inspectShallow(ifs, func(y ast.Node) bool {
					if g, ok := y.(*ast.GoStmt); ok {
						if fn := p.Callee(comp.Pkg, g.Call); fn != nil && fn.Name() == "importPcapJob" {
							hasGo = true
						}
					}
					return true
				})
				if hasGo {
					restartIf = ifs
				}
			}
			return true
		})
		nb++
		if restartIf == nil {
			r.Bad(ruleB, "manager.Manager.importPcapJob: restart when queue non-empty", p.Pos(comp.Node()), "the completion no longer restarts importPcapJob when files are still queued")
		} else {
			pts := cfl.Find(isShrink)
			var starts []Pt
			for _, pt := range pts {
				starts = append(starts, After(pt))
			}
			// the test of the queue: a branching node that reads the queue (the condition itself, or — after the
			// expansion of named booleans — the expression it stands for)
			isQueueTest := func(n ast.Node) bool {
				pt, ok := cfl.at[n]
				if !ok || pt.I != len(pt.B.Nodes)-1 || len(pt.B.Succs) != 2 {
					return false
				}
				e, ok := n.(ast.Expr)
				return ok && readsQueue(e)
			}
			res := cfl.ExitAvoiding(starts, isQueueTest)
			r.Check(!res.Found, ruleB, "manager.Manager.importPcapJob: restart when queue non-empty", p.Pos(restartIf), "every path after the queue update tests the queue and restarts import", "a path after the queue update skips the restart test: queued captures are never imported: "+cfl.traceString(res))
		}
	}
	// ImportPcaps: appending to the queue starts an import when none is running
	if f := p.Fns["manager.Manager.ImportPcaps"]; f != nil {
		for _, l := range ctx.postedIn(f) {
			lfl := p.Flow(l)
			qfld := p.Field("manager", "Manager", "importJobs")
			pts := lfl.Find(func(n ast.Node) bool {
				as, ok := n.(*ast.AssignStmt)
				return ok && len(as.Lhs) == 1 && isFieldOf(l.Pkg.TypesInfo, as.Lhs[0], qfld)
			})
			nb++
			okStart := false
			inspectShallow(l.Body(), func(x ast.Node) bool {
				if ifs, ok := x.(*ast.IfStmt); ok && strings.Contains(types.ExprString(ifs.Cond), "importJobs") {
					inspectShallow(ifs.Body, func(y ast.Node) bool {
						if g, ok := y.(*ast.GoStmt); ok {
							if fn := p.Callee(l.Pkg, g.Call); fn != nil && fn.Name() == "importPcapJob" {
								okStart = true
							}
						}
						return true
					})
				}
				return true
			})
			r.Check(len(pts) == 1 && okStart, ruleB, "manager.Manager.ImportPcaps: queue append starts import when idle", p.Pos(l.Node()), "append followed by start-if-idle test", "queueing captures no longer starts an import when none is running")
		}
	}
	r.Floor(ruleB, 5, nb)

	// ---------- C09-c ----------
	const ruleC = "C09-c trigger-after-raise"
	r.Rule(ruleC + ": every raise of tag/converter work in loop context is followed on all paths by the matching start…IfNeeded")
	trigger := map[effKind]*types.Func{
		effTag:  p.Method("manager", "Manager", "startTaggingJobIfNeeded"),
		effConv: p.Method("manager", "Manager", "startConverterJobIfNeeded"),
	}
	// the merge trigger waits for its own job and for the tagging and converter jobs (its entry guard): whoever clears
	// one of these flags lets a merge that is due start, and has to ask for it — with the converter job finishing last
	// the service went idle with the merge rule unsatisfied, and the end state depended on the order of completions (#67)
	kinds := []effKind{effTag, effConv}
	if mt := p.Method("manager", "Manager", "startMergeJobIfNeeded"); mt != nil {
		trigger[effMerge] = mt
		kinds = append(kinds, effMerge)
	}
	uncertainFld := p.Field("query", "TagDetails", "Uncertain")
	s2cFld := p.Field("manager", "Manager", "streamsToConvert")
	flagFld := map[effKind]*types.Var{
		effTag:  p.Field("manager", "Manager", "taggingJobRunning"),
		effConv: p.Field("manager", "Manager", "converterJobRunning"),
	}
	if trigger[effMerge] != nil {
		flagFld[effMerge] = p.Field("manager", "Manager", "mergeJobRunning")
	}
	if trigger[effTag] == nil || trigger[effConv] == nil || uncertainFld == nil || s2cFld == nil {
		return
	}
	// the flags that hold a trigger back: Manager booleans on which the trigger function returns at once. Clearing one
	// of them is what lets the held-back work start, so it counts as a raise of that kind (the frozen pair
	// taggingJobRunning/converterJobRunning is what the tree has today; a trigger that also waits for another job
	// needs that job's completion to call it)
	blockers := map[effKind]map[*types.Var]bool{}
	mgrNamed := p.Named("manager", "Manager")
	for _, k := range kinds {
		blockers[k] = map[*types.Var]bool{}
		if flagFld[k] != nil {
			blockers[k][flagFld[k]] = true
		}
		tf := p.FnOfObj(trigger[k])
		if tf == nil || tf.Body() == nil || mgrNamed == nil {
			continue
		}
		tinfo := tf.Pkg.TypesInfo
		for _, st := range tf.Body().List {
			ifs, ok := st.(*ast.IfStmt)
			if !ok || len(ifs.Body.List) == 0 {
				continue
			}
			if _, isRet := ifs.Body.List[len(ifs.Body.List)-1].(*ast.ReturnStmt); !isRet {
				continue
			}
			for _, d := range disjuncts(ifs.Cond) {
				se, ok := ast.Unparen(d).(*ast.SelectorExpr)
				if !ok {
					continue
				}
				v, ok := tinfo.Uses[se.Sel].(*types.Var)
				if !ok || !v.IsField() {
					continue
				}
				if b, isB := v.Type().Underlying().(*types.Basic); !isB || b.Kind() != types.Bool {
					continue
				}
				if n := namedOf(tinfo.TypeOf(se.X)); n != nil && n.Obj() == mgrNamed.Obj() {
					blockers[k][v] = true
				}
			}
		}
	}
	isBlocker := func(info *types.Info, e ast.Expr, k effKind) *types.Var {
		for v := range blockers[k] {
			if isFieldOf(info, e, v) {
				return v
			}
		}
		return nil
	}
	isEmptyBitmaskLit := func(e ast.Expr) bool {
		cl, ok := ast.Unparen(e).(*ast.CompositeLit)
		return ok && len(cl.Elts) == 0
	}
	// wrapper summaries: function -> kinds it may raise without triggering afterwards
	wrapper := map[*Fn]map[effKind]bool{}
	errOnlyBefore := map[*Fn]map[effKind]bool{} // effect never precedes a non-nil error return
	directEffect := func(f *Fn, n ast.Node, k effKind) (bool, string) {
		finfo := f.Pkg.TypesInfo
		hit, what := false, ""
		inspectShallow(n, func(x ast.Node) bool {
			if hit {
				return false
			}
			switch s := x.(type) {
			case *ast.GoStmt:
				return false
			case *ast.AssignStmt:
				for i, l := range s.Lhs {
					if k == effTag && isFieldOf(finfo, l, uncertainFld) && i < len(s.Rhs) && !isEmptyBitmaskLit(s.Rhs[i]) {
						// a copy local to a value that is not installed does not matter; we cannot tell, so count it
						hit, what = true, "assignment to "+types.ExprString(l)
					}
					if bv := isBlocker(finfo, l, k); bv != nil && i < len(s.Rhs) {
						if id, ok := s.Rhs[i].(*ast.Ident); ok && id.Name == "false" {
							hit, what = true, bv.Name()+" = false"
						}
					}
				}
			case *ast.CallExpr:
				if k == effConv {
					if se, ok := ast.Unparen(s.Fun).(*ast.SelectorExpr); ok && (se.Sel.Name == "Or" || se.Sel.Name == "Set") {
						if ix, ok := ast.Unparen(se.X).(*ast.IndexExpr); ok && isFieldOf(finfo, ix.X, s2cFld) {
							hit, what = true, "streamsToConvert[…]."+se.Sel.Name
						}
					}
				}
				var callee *Fn
				if lit, ok := ast.Unparen(s.Fun).(*ast.FuncLit); ok {
					callee = p.FnOfLit(lit)
				} else if fn := p.Callee(f.Pkg, s); fn != nil {
					callee = p.FnOfObj(fn)
				}
				if callee != nil && wrapper[callee][k] {
					hit, what = true, "call of "+callee.Key()
				}
			}
			return true
		})
		return hit, what
	}
	isTrigger := func(f *Fn, n ast.Node, k effKind) bool {
		fl := p.Flow(f)
		if fl.hasCall(n, func(c *ast.CallExpr) bool { return p.Callee(f.Pkg, c) == trigger[k] }) {
			return true
		}
		// in INIT: posting a closure that calls the trigger
		if s, ok := n.(*ast.SendStmt); ok && ctx.isJobsChan(f.Pkg.TypesInfo, s.Chan) {
			if lit, ok := ast.Unparen(s.Value).(*ast.FuncLit); ok {
				lf := p.FnOfLit(lit)
				lfl := p.Flow(lf)
				res := lfl.MustPass(func(m ast.Node) bool {
					return lfl.hasCall(m, func(c *ast.CallExpr) bool { return p.Callee(lf.Pkg, c) == trigger[k] })
				})
				return !res.Found
			}
		}
		return false
	}
	// functions subject to the rule: everything in package manager that runs in LOOP or INIT context
	var subjects []*Fn
	for _, f := range mgrFns {
		if ctx.Has(f, ctxLOOP) || ctx.Has(f, ctxINIT) {
			subjects = append(subjects, f)
		}
	}
	type finding struct {
		f    *Fn
		k    effKind
		pos  string
		what string
		tr   string
	}
	var findings map[string]finding
	var wrapperWhy []string
	exemptReturns := map[string]string{}
	var siteStatus, sitePos map[string]string
	effectSites := 0
	for iter := 0; iter < 8; iter++ {
		changed := false
		findings = map[string]finding{}
		effectSites = 0
		siteStatus = map[string]string{}
		sitePos = map[string]string{}
		for _, f := range subjects {
			if f == p.FnOfObj(trigger[effTag]) || f == p.FnOfObj(trigger[effConv]) || (trigger[effMerge] != nil && f == p.FnOfObj(trigger[effMerge])) {
				continue
			}
			fl := p.Flow(f)
			for _, k := range kinds {
				idx := 0
				for _, b := range fl.G.Blocks {
					if !b.Live {
						continue
					}
					for i, n := range b.Nodes {
						hit, what := directEffect(f, n, k)
						if !hit {
							continue
						}
						idx++
						effectSites++
						siteKey := fmt.Sprintf("%s %s#%d (%s)", f.Key(), effName[k], idx, what)
						sitePos[siteKey] = p.Pos(n)
						siteStatus[siteKey] = "ok"
						starts := []Pt{{b, i + 1}}
						// `if err := wrapper(); err != nil { … }`: a failed call raised nothing
						if as, ok := n.(*ast.AssignStmt); ok && len(as.Rhs) == 1 {
							if c, ok := as.Rhs[0].(*ast.CallExpr); ok {
								var callee *Fn
								if fn := p.Callee(f.Pkg, c); fn != nil {
									callee = p.FnOfObj(fn)
								}
								if callee != nil && errOnlyBefore[callee][k] && i+2 == len(b.Nodes) && len(b.Succs) == 2 {
									if be, ok := b.Nodes[i+1].(*ast.BinaryExpr); ok && be.Op == token.NEQ && types.ExprString(be.Y) == "nil" {
										starts = []Pt{{b.Succs[1], 0}}
									}
								}
							}
						}
						res := fl.search(starts, func(m ast.Node) bool {
							rs, ok := m.(*ast.ReturnStmt)
							if !ok || isTrigger(f, m, k) {
								return false
							}
							if w := failureReturnOf(p, f, rs, func(c *Fn) bool { return errOnlyBefore[c][k] }); w != nil {
								exemptReturns[fmt.Sprintf("%s: return after failed %s", f.Key(), w.Key())] = p.Pos(rs)
								return false
							}
							if f.Key() == "manager.New" && len(rs.Results) == 2 {
								// a failing constructor discards the manager
								if id, ok := rs.Results[1].(*ast.Ident); !ok || id.Name != "nil" {
									return false
								}
							}
							return true
						}, func(m ast.Node) bool { return isTrigger(f, m, k) })
						if !res.Found {
							continue
						}
						isRoot := (f.Lit != nil && ctx.PostSite[f] != nil) || f.Key() == "manager.New" || ctx.Has(f, ctxTIMER)
						if f.Lit != nil && ctx.PostSite[f] == nil && f.Parent != nil {
							isRoot = false // inline literal: obligation moves to the enclosing function
						}
						if isRoot {
							key := fmt.Sprintf("%s %s#%d (%s)", f.Key(), effName[k], idx, what)
							findings[key] = finding{f, k, p.Pos(n), what, fl.traceString(res)}
							siteStatus[siteKey] = "bad"
						} else {
							siteStatus[siteKey] = "moved"
							if wrapper[f] == nil {
								wrapper[f] = map[effKind]bool{}
							}
							if !wrapper[f][k] {
								wrapper[f][k] = true
								changed = true
								wrapperWhy = append(wrapperWhy, fmt.Sprintf("%s:%s because %s at %s is not followed by the trigger (%s)", f.Key(), effName[k], what, p.Pos(n), fl.traceString(res)))
							}
							// does the effect precede a failing return?
							bad := fl.search(starts, func(m ast.Node) bool {
								rs, ok := m.(*ast.ReturnStmt)
								if !ok || len(rs.Results) == 0 {
									return false
								}
								last := rs.Results[len(rs.Results)-1]
								if id, ok := last.(*ast.Ident); ok && id.Name == "nil" {
									return false
								}
								t := f.Pkg.TypesInfo.TypeOf(last)
								return t != nil && types.Implements(t, errorIface())
							}, nil)
							if errOnlyBefore[f] == nil {
								errOnlyBefore[f] = map[effKind]bool{}
							}
							if !bad.Found && !errOnlyBefore[f][k] {
								errOnlyBefore[f][k] = true
								changed = true
							}
						}
					}
				}
			}
		}
		if !changed {
			break
		}
	}
	// report: every effect site in loop/init context is an obligation
	var siteKeys []string
	for k := range siteStatus {
		siteKeys = append(siteKeys, k)
	}
	sort.Strings(siteKeys)
	for _, key := range siteKeys {
		switch siteStatus[key] {
		case "bad":
			fd := findings[key]
			r.Bad(ruleC, key, fd.pos, fmt.Sprintf("%s raised by %s is not followed by %s on every path to the end of the closure (%s): the work stays pending with nothing scheduled to pick it up", effName[fd.k], fd.what, trigger[fd.k].Name(), fd.tr))
		case "moved":
			r.Ok(ruleC, key, sitePos[key], "helper raises without triggering: summarised as a raise-wrapper, the obligation is checked at every call site")
		default:
			r.Ok(ruleC, key, sitePos[key], "followed by the matching start…IfNeeded on every path")
		}
	}
	for k, pos := range exemptReturns {
		r.Exempt(ruleC, k, pos, "error return in the failure branch of a raise-wrapper that raises nothing when it fails (its effect never precedes a failing return, checked); such wrappers fail on a condition of the tag alone, so an earlier successful call in the same loop cannot be followed by a failing one")
	}
	var wr []string
	for f, ks := range wrapper {
		for k := range ks {
			wr = append(wr, f.Key()+":"+effName[k])
		}
	}
	sort.Strings(wr)
	r.Note("%s: raise-without-trigger wrappers (obligation moved to callers): %s", ruleC, strings.Join(wr, ", "))
	for _, w := range wrapperWhy {
		r.Note("wrapper: %s", w)
	}
	r.Floor(ruleC, 14, r.CountRule(ruleC))

	// ---------- C09-d ----------
	const ruleD = "C09-d loop-never-blocks"
	r.Rule(ruleD + ": channel operations and blocking calls in loop context")
	nd := 0
	cmdFld := p.Field("manager", "Manager", "pcapOverIPCmd")
	for _, f := range mgrFns {
		if !ctx.Has(f, ctxLOOP) {
			continue
		}
		finfo := f.Pkg.TypesInfo
		fl := p.Flow(f)
		inspectShallow(f.Body(), func(x ast.Node) bool {
			switch s := x.(type) {
			case *ast.GoStmt:
				return false
			case *ast.SelectStmt:
				hasDefault := false
				for _, c := range s.Body.List {
					if c.(*ast.CommClause).Comm == nil {
						hasDefault = true
					}
				}
				nd++
				r.Check(hasDefault, ruleD, fmt.Sprintf("%s select@%s", f.Key(), relLine(p, f, s)), p.Pos(s), "select has a default clause", "select without default can block the service goroutine")
				// do not descend: sends inside a select with default are fine
				for _, c := range s.Body.List {
					for _, st := range c.(*ast.CommClause).Body {
						_ = st
					}
				}
				return false
			case *ast.SendStmt:
				nd++
				key := fmt.Sprintf("%s send %s", f.Key(), types.ExprString(s.Chan))
				switch {
				case ctx.isJobsChan(finfo, s.Chan):
					r.Bad(ruleD, key, p.Pos(s), "send on Manager.jobs from the service goroutine itself: the channel is unbuffered and its only receiver is this goroutine — deadlock")
				case isFieldOf(finfo, s.Chan, cmdFld):
					r.Exempt(ruleD, key, p.Pos(s), "buffered (cap 1) command channel; its consumer pcapOverIPPacketHandler performs no blocking operation between receives (checked below)")
				default:
					obj := identObj(finfo, s.Chan)
					ok, why := awaitedResultChan(p, f, obj)
					r.Check(ok, ruleD, key, p.Pos(s), why, "send on a channel that is not provably awaited by the posting API call: "+why)
				}
			case *ast.UnaryExpr:
				if s.Op == token.ARROW {
					nd++
					r.Bad(ruleD, fmt.Sprintf("%s receive %s", f.Key(), types.ExprString(s.X)), p.Pos(s), "blocking receive on the service goroutine")
				}
			case *ast.RangeStmt:
				if t := finfo.TypeOf(s.X); t != nil {
					if _, isChan := t.Underlying().(*types.Chan); isChan {
						nd++
						r.Bad(ruleD, fmt.Sprintf("%s range %s", f.Key(), types.ExprString(s.X)), p.Pos(s), "range over a channel on the service goroutine")
					}
				}
			case *ast.CallExpr:
				if fn := p.Callee(f.Pkg, s); fn != nil {
					switch fn.FullName() {
					case "time.Sleep", "(*sync.WaitGroup).Wait", "(*sync.Cond).Wait":
						nd++
						r.Bad(ruleD, fmt.Sprintf("%s call %s", f.Key(), fn.FullName()), p.Pos(s), "blocking call on the service goroutine")
					}
					// exported API that itself posts to Manager.jobs must not be called from the loop
					if tf := p.FnOfObj(fn); tf != nil && tf.Short == "manager" && len(ctx.postedIn(tf)) > 0 && tf != f {
						nd++
						r.Bad(ruleD, fmt.Sprintf("%s call %s", f.Key(), tf.Key()), p.Pos(s), "calls a function that sends on Manager.jobs from the service goroutine: self-deadlock")
					}
				}
			}
			return true
		})
		_ = fl
	}
	// consumer of pcapOverIPCmd does not block between receives
	if h := p.Fns["manager.Manager.pcapOverIPPacketHandler"]; h != nil {
		blocking := ""
		inspectShallow(h.Body(), func(x ast.Node) bool {
			switch s := x.(type) {
			case *ast.GoStmt:
				return false // `go mgr.f(…)` runs f on another goroutine: the handler itself does not block
			case *ast.SendStmt:
				blocking = "send at " + p.Pos(s)
			case *ast.CallExpr:
				if fn := p.Callee(h.Pkg, s); fn != nil {
					if tf := p.FnOfObj(fn); tf != nil && tf.Short == "manager" {
						blocking = "call of " + tf.Key() + " at " + p.Pos(s)
					}
				}
			}
			return true
		})
		nd++
		r.Check(blocking == "", ruleD, "manager.Manager.pcapOverIPPacketHandler drains without blocking", p.Pos(h.Node()), "no send or manager call on the handler goroutine outside spawned goroutines", "the consumer of pcapOverIPCmd can block ("+blocking+"), so the loop's send on the 1-slot channel can block the service goroutine")
	}
	r.Floor(ruleD, 25, nd)
	_ = info
}

func relLine(p *Prog, f *Fn, n ast.Node) string {
	return fmt.Sprintf("+%d", lineOf(p.Fset, n)-lineOf(p.Fset, f.Node()))
}

// awaitedResultChan: obj is a channel created with make(chan T) in the API function that posts the
// closure f (or an enclosing one), and that function receives from it after posting on every path.
func awaitedResultChan(p *Prog, f *Fn, obj types.Object) (bool, string) {
	if obj == nil {
		return false, "channel expression is not a local variable"
	}
	ctx := p.Contexts()
	// find the posted ancestor and its poster
	posted := f
	for posted != nil && ctx.PostSite[posted] == nil {
		posted = posted.Parent
	}
	if posted == nil || posted.Parent == nil {
		return false, "enclosing closure is not posted on Manager.jobs"
	}
	poster := posted.Parent
	pinfo := poster.Pkg.TypesInfo
	// defined by make(chan …) in poster
	made := false
	inspectShallow(poster.Body(), func(x ast.Node) bool {
		if as, ok := x.(*ast.AssignStmt); ok && len(as.Lhs) == 1 && len(as.Rhs) == 1 {
			if id, ok := as.Lhs[0].(*ast.Ident); ok && pinfo.Defs[id] == obj {
				if c, ok := as.Rhs[0].(*ast.CallExpr); ok && isBuiltin(pinfo, c, "make") && len(c.Args) >= 1 {
					made = true // unbuffered or buffered: the poster waits for it either way
				}
			}
		}
		return true
	})
	if !made {
		return false, "channel is not created with make(chan T) in " + poster.Key()
	}
	fl := p.Flow(poster)
	post := ctx.PostSite[posted]
	pt, ok := fl.PointOf(post)
	if !ok {
		return false, "post site not in CFG"
	}
	res := fl.ExitAvoiding([]Pt{After(pt)}, func(n ast.Node) bool {
		hit := false
		inspectShallow(n, func(y ast.Node) bool {
			if u, ok := y.(*ast.UnaryExpr); ok && u.Op == token.ARROW && sameObj(pinfo, u.X, obj) {
				hit = true
			}
			return true
		})
		return hit
	})
	if res.Found {
		return false, "the posting function " + poster.Key() + " can return without receiving from the channel"
	}
	return true, "result channel made in " + poster.Key() + ", which receives from it after posting on every path"
}

// failureReturnOf: rs lies in the then-branch of `if err := W(...); err != nil { … }` where W is a
// source function accepted by ok. Returns W or nil.
func failureReturnOf(p *Prog, f *Fn, rs *ast.ReturnStmt, ok func(*Fn) bool) *Fn {
	var found *Fn
	inspectShallow(f.Body(), func(x ast.Node) bool {
		ifs, isIf := x.(*ast.IfStmt)
		if !isIf || ifs.Init == nil || !within(rs, ifs.Body) {
			return true
		}
		as, isAs := ifs.Init.(*ast.AssignStmt)
		if !isAs || len(as.Rhs) != 1 {
			return true
		}
		c, isCall := as.Rhs[0].(*ast.CallExpr)
		if !isCall {
			return true
		}
		be, isBin := ifs.Cond.(*ast.BinaryExpr)
		if !isBin || be.Op != token.NEQ || types.ExprString(be.Y) != "nil" {
			return true
		}
		if fn := p.Callee(f.Pkg, c); fn != nil {
			if w := p.FnOfObj(fn); w != nil && ok(w) {
				found = w
			}
		}
		return true
	})
	return found
}
