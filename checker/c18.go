package main

import (
	"fmt"
	"go/ast"
	"go/types"
	"sort"
	"strings"
)

// C18-a: both instruction walks of regexAnalysis handle the whole InstOp set, partition it the same
// way, and fall out with an error.
func init() {
	register("C18",
		"C18-a (EXH, sibling agreement): the `switch i.Op` walks in regexanalysis.ConstantSuffix and AcceptedLength are checked, on the type-checked AST, to (1) name every constant of rsc.io/binaryregexp/syntax.InstOp, (2) partition the ops into identical clause classes in both walks (an op that consumes a byte in one walk consumes in the other), (3) end, after the switch, in a return of a non-nil error, (4) make the consuming class update its accumulator on every path and continue at i.Out, and (5) make the branch class evaluate both i.Out and i.Arg. Exactness of the computed lengths/suffix is NOT decided.",
		ruleC18)
}

func ruleC18(p *Prog, r *Res) {
	const rule = "C18-a instop-exhaustive"
	r.Rule(rule + ": every InstOp constant is handled by both walks, same partition, error fall-out")
	pk := p.By["regexanalysis"]
	var instOp *types.Named
	for _, imp := range pk.Types.Imports() {
		if imp.Path() == "rsc.io/binaryregexp/syntax" {
			if o := imp.Scope().Lookup("InstOp"); o != nil {
				instOp, _ = o.Type().(*types.Named)
			}
		}
	}
	if instOp == nil {
		p.anchorFail("type rsc.io/binaryregexp/syntax.InstOp")
		return
	}
	consts := constsOfType(instOp)
	var names []string
	for n := range consts {
		names = append(names, n)
	}
	sort.Strings(names)
	r.Floor(rule+" InstOp constants", 11, len(names))

	type walk struct {
		key     string
		classes map[string]string // const name -> class signature (sorted names in same clause)
		sw      *ast.SwitchStmt
		f       *Fn
	}
	var walks []walk
	for _, fkey := range []string{"regexanalysis.ConstantSuffix", "regexanalysis.AcceptedLength"} {
		f := p.Fn(fkey)
		if f == nil {
			continue
		}
		sws := valueSwitchesOn(f, instOp)
		if len(sws) != 1 {
			r.Bad(rule, fkey+" switch on InstOp", p.Pos(f.Node()), fmt.Sprintf("expected exactly one switch on InstOp, found %d", len(sws)))
			continue
		}
		s := sws[0]
		lit := p.EnclosingFn(f.Pkg, s.Pos())
		byVal, hasDefault, _ := switchClasses(f.Pkg.TypesInfo, s)
		w := walk{key: fkey, classes: map[string]string{}, sw: s, f: lit}
		clauseMembers := map[int][]string{}
		for _, n := range names {
			if ci, ok := byVal[consts[n].ExactString()]; ok {
				clauseMembers[ci] = append(clauseMembers[ci], n)
			}
		}
		for _, n := range names {
			key := fkey + " case " + n
			ci, ok := byVal[consts[n].ExactString()]
			if !ok {
				r.Bad(rule, key, p.Pos(s), "InstOp constant not handled: every expression compiling to it makes the data filter fail, or (with a permissive default) is analysed wrongly")
				continue
			}
			w.classes[n] = strings.Join(clauseMembers[ci], ",")
			r.OkTrivial(rule, key, p.Pos(s), "handled in class {"+w.classes[n]+"}")
		}
		// a default clause that is itself the error return is the fall-out written inside the switch
		defaultFails := false
		if hasDefault {
			for _, cl := range s.Body.List {
				if cc, ok := cl.(*ast.CaseClause); ok && cc.List == nil {
					defaultFails = failsLoudly(f.Pkg.TypesInfo, cc.Body)
				}
			}
		}
		if hasDefault && !defaultFails {
			r.Bad(rule, fkey+" default clause", p.Pos(s), "a default clause hides unhandled instructions; the walks must fall out into the error return")
		}
		// (3) the statement following the switch returns a non-nil error
		ok3 := defaultFails
		var after ast.Stmt
		ast.Inspect(lit.Body(), func(x ast.Node) bool {
			if bl, ok := x.(*ast.BlockStmt); ok {
				for i, st := range bl.List {
					if st == ast.Stmt(s) && i+1 < len(bl.List) {
						after = bl.List[i+1]
					}
				}
			}
			return true
		})
		if after != nil && !ok3 {
			ok3 = failsLoudly(f.Pkg.TypesInfo, []ast.Stmt{after})
		}
		r.Check(ok3, rule, fkey+" fall-out returns error", p.Pos(s), "statement after the switch returns a non-nil error", "an instruction not matched by any case must end in an error return, not a zero value")

		// (4)/(5) clause bodies
		info := f.Pkg.TypesInfo
		for ci, members := range clauseMembers {
			cc := s.Body.List[ci].(*ast.CaseClause)
			has := func(n string) bool {
				for _, m := range members {
					if m == n {
						return true
					}
				}
				return false
			}
			if has("InstRune1") {
				// consuming class: must fall through into the epsilon class (or itself advance to i.Out)
				ft := len(cc.Body) > 0 && isFallthrough(cc.Body[len(cc.Body)-1])
				adv := assignsPosToOut(cc.Body)
				r.Check(ft || adv, rule, fkey+" consuming class advances to i.Out", p.Pos(cc), "consuming clause falls through to / performs pos = i.Out", "consuming clause neither falls through to the epsilon class nor advances pos to i.Out")
				// accumulator updated on every path through the clause
				cnt := 0
				switch fkey {
				case "regexanalysis.ConstantSuffix":
					// every path through the clause assigns *s
					cnt = countPathsMissing(cc.Body, func(st ast.Stmt) bool {
						as, ok := st.(*ast.AssignStmt)
						if !ok {
							return false
						}
						for _, l := range as.Lhs {
							// by type, not by name: the accumulator is reached through a *[]byte
							if se, ok := ast.Unparen(l).(*ast.StarExpr); ok {
								if id, ok := se.X.(*ast.Ident); ok {
									if pt, isPtr := info.TypeOf(id).Underlying().(*types.Pointer); isPtr {
										if sl, isSl := pt.Elem().Underlying().(*types.Slice); isSl && types.TypeString(sl.Elem(), nil) == "byte" {
											return true
										}
									}
								}
							}
						}
						return false
					})
					r.Check(cnt == 0, rule, fkey+" consuming class updates suffix on every path", p.Pos(cc), "every path assigns *s (append byte or reset)", "a path through the consuming clause leaves the suffix accumulator untouched: a consumed byte would be missing from / stale in the suffix")
				case "regexanalysis.AcceptedLength":
					// calls inc(&r.MinLength) and inc(&r.MaxLength) or otherwise mentions both fields in a statement at top level
					min, max := false, false
					for _, st := range cc.Body {
						if _, isDecl := st.(*ast.AssignStmt); isDecl {
							if as := st.(*ast.AssignStmt); len(as.Rhs) == 1 {
								if _, isLit := as.Rhs[0].(*ast.FuncLit); isLit {
									continue
								}
							}
						}
						ast.Inspect(st, func(x ast.Node) bool {
							if se, ok := x.(*ast.SelectorExpr); ok {
								if se.Sel.Name == "MinLength" {
									min = true
								}
								if se.Sel.Name == "MaxLength" {
									max = true
								}
							}
							return true
						})
					}
					r.Check(min && max, rule, fkey+" consuming class counts min and max", p.Pos(cc), "both MinLength and MaxLength are updated", "the consuming clause must advance both MinLength and MaxLength")
				}
			}
			if has("InstAlt") {
				// both successors evaluated
				outSeen, argSeen := false, false
				for _, c := range callsInStmts(cc.Body) {
					// by role: a call of a local function value (the recursive walk), whatever it is called
					if id, ok := c.Fun.(*ast.Ident); ok && isLocalFuncVar(info, id) {
						for _, a := range c.Args {
							if se, ok := ast.Unparen(a).(*ast.SelectorExpr); ok {
								if se.Sel.Name == "Out" {
									outSeen = true
								}
								if se.Sel.Name == "Arg" {
									argSeen = true
								}
							}
						}
					}
				}
				r.Check(outSeen && argSeen, rule, fkey+" branch class evaluates both successors", p.Pos(cc), "evaluate(i.Out) and evaluate(i.Arg) both called", "an alternation must analyse both i.Out and i.Arg")
			}
		}
		walks = append(walks, w)
	}
	if len(walks) == 2 {
		for _, n := range names {
			a, b := walks[0].classes[n], walks[1].classes[n]
			if a == "" || b == "" {
				continue
			}
			r.Check(a == b, rule, "partition agreement "+n, p.Pos(walks[1].sw), "same class in both walks: {"+a+"}",
				fmt.Sprintf("ConstantSuffix puts %s in class {%s} but AcceptedLength in {%s}: length bounds and suffix would talk about different languages", n, a, b))
		}
	}
	r.Floor(rule, 2*11+6, r.CountRule(rule))
}

func isLocalFuncVar(info *types.Info, id *ast.Ident) bool {
	v, ok := info.Uses[id].(*types.Var)
	if !ok || v.IsField() {
		return false
	}
	_, isSig := v.Type().Underlying().(*types.Signature)
	return isSig
}

func isFallthrough(s ast.Stmt) bool {
	b, ok := s.(*ast.BranchStmt)
	return ok && b.Tok.String() == "fallthrough"
}

func assignsPosToOut(body []ast.Stmt) bool {
	for _, st := range body {
		if as, ok := st.(*ast.AssignStmt); ok && len(as.Lhs) == 1 && len(as.Rhs) == 1 {
			if _, ok := as.Lhs[0].(*ast.Ident); ok {
				if se, ok := as.Rhs[0].(*ast.SelectorExpr); ok && se.Sel.Name == "Out" {
					return true
				}
			}
		}
	}
	return false
}

func callsInStmts(body []ast.Stmt) []*ast.CallExpr {
	var out []*ast.CallExpr
	for _, st := range body {
		out = append(out, callsIn(st)...)
	}
	return out
}

// countPathsMissing counts structured paths through a statement list on which no statement satisfying
// pred executes (if/else only; loops and other statements are treated as opaque single steps).
func countPathsMissing(body []ast.Stmt, pred func(ast.Stmt) bool) int {
	// returns number of paths without pred; stops counting a path once pred seen
	var paths func(list []ast.Stmt) (missing int)
	paths = func(list []ast.Stmt) int {
		if len(list) == 0 {
			return 1
		}
		st := list[0]
		if pred(st) {
			return 0
		}
		if ifs, ok := st.(*ast.IfStmt); ok {
			thenMissing := paths(ifs.Body.List)
			elseMissing := 1
			switch e := ifs.Else.(type) {
			case *ast.BlockStmt:
				elseMissing = paths(e.List)
			case *ast.IfStmt:
				elseMissing = paths([]ast.Stmt{e})
			}
			rest := paths(list[1:])
			return (thenMissing + elseMissing) * rest
		}
		return paths(list[1:])
	}
	return paths(body)
}

// C18-b: a memo table keyed by program position must not be written with a value that depends on the
// recursion stack. In AcceptedLength the stack is the `seen` parameter; the loop-detected sentinel is only
// valid while the loop head is on the stack.
func init() {
	register("C18",
		"C18-b (who-may-write, context-free memo): in AcceptedLength no store into the memo map is control-dependent on a test of the recursion stack (`seen`): the value computed on the loop-detected path only holds while the loop head is on the stack, and reusing it from outside the loop made MinLength too large (`a?c+` → 2; repaired in 277e127). The rule finds every assignment to an element of a map-typed local captured by the recursive closure and requires that it is not inside the body of the range over the stack parameter.",
		ruleC18Memo)
}

func ruleC18Memo(p *Prog, r *Res) {
	const rule = "C18-b context-free-memo"
	r.Rule(rule + ": memo stores are not control-dependent on the recursion-stack test")
	n := 0
	for _, fkey := range []string{"regexanalysis.AcceptedLength", "regexanalysis.ConstantSuffix"} {
		f := p.Fn(fkey)
		if f == nil {
			continue
		}
		info := f.Pkg.TypesInfo
		for _, lit := range f.Lits {
			// the recursive closure: has a slice parameter (the stack)
			var stack types.Object
			for _, fld := range lit.Type().Params.List {
				for _, id := range fld.Names {
					if isSliceType(info.TypeOf(fld.Type)) {
						stack = info.Defs[id]
					}
				}
			}
			if stack == nil {
				continue
			}
			// accumulator parameters: pointer- or slice-typed parameters other than the stack
			var accs []types.Object
			for _, fld := range lit.Type().Params.List {
				for _, id := range fld.Names {
					t := info.TypeOf(fld.Type)
					if _, isPtr := t.Underlying().(*types.Pointer); (isPtr || isSliceType(t)) && info.Defs[id] != stack {
						accs = append(accs, info.Defs[id])
					}
				}
			}
			ast.Inspect(lit.Body(), func(x ast.Node) bool {
				as, ok := x.(*ast.AssignStmt)
				if !ok {
					return true
				}
				for _, l := range as.Lhs {
					ix, ok := ast.Unparen(l).(*ast.IndexExpr)
					if !ok {
						continue
					}
					if _, isMap := info.TypeOf(ix.X).Underlying().(*types.Map); !isMap {
						continue
					}
					n++
					underStack := false
					ast.Inspect(lit.Body(), func(y ast.Node) bool {
						if rs, ok := y.(*ast.RangeStmt); ok && sameObj(info, rs.X, stack) && within(as, rs.Body) {
							underStack = true
						}
						return true
					})
					key := fmt.Sprintf("%s store %s#%d", lit.Key(), types.ExprString(ix.X), n)
					// the key names the program counter the stored value was computed FROM: a variable that is assigned
					// once (entry := pos) or a parameter that is never reassigned — not the cursor the walk advances
					if ko := identObj(info, ix.Index); ko != nil {
						assigns := 0
						ast.Inspect(lit.Body(), func(y ast.Node) bool {
							switch s := y.(type) {
							case *ast.AssignStmt:
								for _, l2 := range s.Lhs {
									if sameObj(info, l2, ko) {
										assigns++
									}
								}
							case *ast.IncDecStmt:
								if sameObj(info, s.X, ko) {
									assigns++
								}
							}
							return true
						})
						isParam := paramIndex(lit, ko) >= 0
						stable := (isParam && assigns == 0) || (!isParam && assigns == 1)
						r.Check(stable, rule, key+" keyed by the walk's entry", p.Pos(as), "key "+ko.Name()+" is never reassigned during the walk", "the memo key "+ko.Name()+" is the cursor the walk advances, but the stored value covers everything consumed since the walk was entered: a later walk that starts at this pc gets a result that is too large by the bytes consumed before it")
					}
					r.Check(!underStack, rule, key, p.Pos(as), "not under the recursion-stack test", "the memo is written inside the range over the recursion stack `"+stack.Name()+"`: the stored value depends on what is on the stack and is wrong when reused from another context (too-large MinLength)")
					// the stored value must not derive from an accumulator parameter (its content depends on the path taken so far)
					usesAcc := ""
					for i2, rhs := range as.Rhs {
						if i2 < len(as.Lhs) && as.Lhs[i2] != l {
							continue
						}
						ast.Inspect(rhs, func(y ast.Node) bool {
							if id, ok := y.(*ast.Ident); ok {
								for _, a := range accs {
									if info.ObjectOf(id) == a {
										usesAcc = a.Name()
									}
								}
							}
							return true
						})
					}
					r.Check(usesAcc == "", rule, key+" value is context-free", p.Pos(as), "stored value does not derive from an accumulator parameter", "the memo stores a value derived from the accumulator parameter `"+usesAcc+"`, whose content depends on the path walked so far; a later visit from another path inherits a suffix/length its strings do not have")
				}
				return true
			})
		}
	}
	r.Floor(rule, 2, n)
}

func init() {
	register("C18",
		"C18-c (FRESH): in ConstantSuffix the accumulator handed to the first branch of an alternation is an owned copy, so the two branches cannot extend one array (shared with C04-d).",
		ruleSuffixBranchOwned("C18-c suffix-branch-owned"))
}
