package main

// c16m.go: C16-m invalidations that wait for the end of a converter job are applied before the caches are closed.
//
// A converter job converts from the index snapshot it was started with. When an import extends a stream while the job
// runs, invalidateConverters can only drop what is cached already; the stream is remembered in
// Manager.updatedStreamsDuringConverterJob and the job's completion drops whatever the job stored for it meanwhile.
// That set lives in memory. Manager.Close — the clean shutdown — closed the caches with the set still pending: the job's
// output for the old payload stayed in the cache file, and after the restart "CONV[first-half]" was served for a stream
// whose payload is "first-half+SECOND-HALF"; nothing converts a stream again that the cache contains (#66,
// probes/c16_restart_during_converter_job).
//
// Rule (FLOW, value flow): in package manager a function that closes the caches of the registry (a call of
// (*CachedConverter).Close) reaches that call only through a call that hands a value read from
// Manager.updatedStreamsDuringConverterJob to the invalidation (invalidateConverters / InvalidateChangedStreams), or
// over the edge on which that set was found empty.

import (
	"fmt"
	"go/ast"
	"go/types"

	"golang.org/x/tools/go/cfg"
)

func init() {
	register("C16",
		"C16-m (FLOW, value flow): in package manager a function that closes the converter caches ((*CachedConverter).Close) reaches the close only through a call that hands the streams recorded in Manager.updatedStreamsDuringConverterJob to the invalidation (Manager.invalidateConverters or CachedConverter.InvalidateChangedStreams), or over the edge on which that set was found empty (IsZero). The set holds streams that an import changed while a converter job was converting from its older snapshot; it exists only in memory, and what the job stored for those streams is stale. Closed with the set pending, the stale output is what the next start serves — and a stream the cache contains is never converted again.",
		func(p *Prog, r *Res) {
			const rule = "C16-m pending-invalidations-flushed-before-close"
			r.Rule(rule + ": the caches are closed only after the streams changed during a converter job were invalidated")
			pend := p.Field("manager", "Manager", "updatedStreamsDuringConverterJob")
			closeM := p.Method("converters", "CachedConverter", "Close")
			inval := p.Method("manager", "Manager", "invalidateConverters")
			inval2 := p.Method("converters", "CachedConverter", "InvalidateChangedStreams")
			if pend == nil || closeM == nil || (inval == nil && inval2 == nil) {
				p.anchorFail("manager.Manager.updatedStreamsDuringConverterJob / converters.CachedConverter.Close / invalidateConverters")
				return
			}
			n := 0
			for _, f := range p.FnList {
				if f.Short != "manager" || f.Body() == nil {
					continue
				}
				info := f.Pkg.TypesInfo
				fl := p.Flow(f)
				readsPend := func(e ast.Node) bool {
					hit := false
					ast.Inspect(e, func(x ast.Node) bool {
						if se, ok := x.(*ast.SelectorExpr); ok && info.Uses[se.Sel] == types.Object(pend) {
							hit = true
						}
						return !hit
					})
					return hit
				}
				// locals that hold the pending set
				holds := map[types.Object]bool{}
				inspectShallow(f.Body(), func(x ast.Node) bool {
					if as, ok := x.(*ast.AssignStmt); ok && len(as.Lhs) == len(as.Rhs) {
						for i, l := range as.Lhs {
							if o := identObj(info, l); o != nil && readsPend(as.Rhs[i]) {
								holds[o] = true
							}
						}
					}
					return true
				})
				flushes := func(nd ast.Node) bool {
					hit := false
					inspectShallow(nd, func(x ast.Node) bool {
						c, ok := x.(*ast.CallExpr)
						if !ok {
							return true
						}
						fn := p.Callee(f.Pkg, c)
						if fn == nil || !(inval != nil && fn.Origin() == inval || inval2 != nil && fn.Origin() == inval2) {
							return true
						}
						for _, a := range c.Args {
							if readsPend(a) {
								hit = true
							}
							ast.Inspect(a, func(y ast.Node) bool {
								if id, ok := y.(*ast.Ident); ok && holds[info.Uses[id]] {
									hit = true
								}
								return true
							})
						}
						return !hit
					})
					return hit
				}
				for _, pt := range fl.Find(func(nd ast.Node) bool {
					hit := false
					inspectShallow(nd, func(x ast.Node) bool {
						if c, ok := x.(*ast.CallExpr); ok {
							if fn := p.Callee(f.Pkg, c); fn != nil && fn.Origin() == closeM {
								hit = true
							}
						}
						return !hit
					})
					return hit
				}) {
					nd := fl.node(pt)
					n++
					key := fmt.Sprintf("%s closes the converter caches@%s", f.Key(), relLine(p, f, nd))
					g := p.Flow(f)
					g.EdgeOK = func(b *cfg.Block, succ int) bool {
						if len(b.Succs) != 2 || len(b.Nodes) == 0 {
							return true
						}
						cond, ok := b.Nodes[len(b.Nodes)-1].(ast.Expr)
						if !ok {
							return true
						}
						// `!pending.IsZero()` false edge / `pending.IsZero()` true edge: nothing is pending
						isZero := func(e ast.Expr) bool {
							c, ok := ast.Unparen(e).(*ast.CallExpr)
							if !ok {
								return false
							}
							se, ok := ast.Unparen(c.Fun).(*ast.SelectorExpr)
							if !ok || se.Sel.Name != "IsZero" {
								return false
							}
							// the set itself or the local it was moved into
							return readsPend(se.X) || holds[identObj(info, se.X)]
						}
						if succ == 0 {
							for _, cj := range conjuncts(cond) {
								if isZero(cj) {
									return false
								}
							}
						} else {
							for _, dj := range disjuncts(cond) {
								if u, ok := ast.Unparen(dj).(*ast.UnaryExpr); ok && u.Op.String() == "!" && isZero(u.X) {
									return false
								}
							}
						}
						return true
					}
					res := g.Reach([]Pt{g.Entry()}, func(m ast.Node) bool { return m == nd }, flushes)
					r.Check(!res.Found, rule, key, p.Pos(nd), "reached only after the pending streams were invalidated (or none are pending)", "the caches are closed while streams may wait in updatedStreamsDuringConverterJob ("+g.traceString(res)+"): what the running converter job stored for them was computed from their payload before the last import; the set is lost with the process, the stale output stays in the cache file and is served after the restart")
				}
			}
			r.Floor(rule, 1, n)
		})
}
