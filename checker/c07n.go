package main

// c07n.go: C07-n / C02-r positions kept in a map follow the elements when the list is shifted.
//
// searchStreams keeps the result list sorted by inserting every accepted stream at its place and shifting the others; for
// a grouped search resultData.groups maps a group key to the POSITION of the group's stream in resultData.streams. The
// shift moved the streams and left the positions of their groups behind: with streams arriving best-first (one file, a
// sorting lookup) nothing shifts, with a second index file its streams are inserted in the middle, the groups behind
// point one slot off, and a later stream of such a group is compared with — and replaces — the stream of another group:
// `protocol:tcp group:"@sport@"` returned [2 0 3] over two files and [2 0 1] over their merge (#62,
// probes/c07_grouped_search_positions).
//
// Rule (typed AST; the relation map→list is derived, not named): a map-valued field M of index.resultData whose looked-up
// values are used as index into the list field L of the same struct is a position index of L. Every statement that moves
// an element inside L (`X.L[a] = X.L[b]`) is followed in the same block by a store `X.M[…] = a` of the new position.

import (
	"fmt"
	"go/ast"
	"go/types"
)

func init() {
	const expl = "(typed AST, derived relation): a map field of index.resultData whose looked-up values index the list field streams is a position index of that list (groups: group key → position of the group's stream). Every statement that moves an element inside the list (X.streams[a] = X.streams[b], the shift that keeps the result sorted) is followed in the same block by a store of the new position a into that map. Positions left behind by a shift make a later stream of the group replace the stream of ANOTHER group — the grouped result then depends on the order in which the streams arrive, that is on how the streams are spread over index files, and changes with a merge."
	register("C07", "C07-n "+expl, func(p *Prog, r *Res) { rulePositionsFollowShift(p, r, "C07-n positions-follow-the-shift") })
	register("C02", "C02-r "+expl, func(p *Prog, r *Res) { rulePositionsFollowShift(p, r, "C02-r positions-follow-the-shift") })
}

func rulePositionsFollowShift(p *Prog, r *Res, rule string) {
	r.Rule(rule + ": a shift inside resultData.streams updates the positions stored in resultData.groups")
	rd := p.Named("index", "resultData")
	if rd == nil {
		p.anchorFail("index.resultData")
		return
	}
	st, ok := rd.Underlying().(*types.Struct)
	if !ok {
		p.anchorFail("index.resultData is a struct")
		return
	}
	isFld := func(info *types.Info, e ast.Expr, fld *types.Var) bool {
		se, ok := ast.Unparen(e).(*ast.SelectorExpr)
		return ok && info.Uses[se.Sel] == types.Object(fld)
	}
	// derive: (map field M with integer values, list field L) such that a value read from M indexes L
	type rel struct{ m, l *types.Var }
	var rels []rel
	var mapFlds, listFlds []*types.Var
	for i := 0; i < st.NumFields(); i++ {
		f := st.Field(i)
		switch t := f.Type().Underlying().(type) {
		case *types.Map:
			if b, ok := t.Elem().Underlying().(*types.Basic); ok && b.Info()&types.IsInteger != 0 {
				mapFlds = append(mapFlds, f)
			}
		case *types.Slice:
			listFlds = append(listFlds, f)
		}
	}
	for _, f := range p.FnList {
		if f.Short != "index" || f.Body() == nil {
			continue
		}
		info := f.Pkg.TypesInfo
		for _, m := range mapFlds {
			// locals assigned from X.M[…]
			vals := map[types.Object]bool{}
			inspectShallow(f.Body(), func(x ast.Node) bool {
				if as, ok := x.(*ast.AssignStmt); ok && len(as.Rhs) == 1 {
					if ix, ok := ast.Unparen(as.Rhs[0]).(*ast.IndexExpr); ok && isFld(info, ix.X, m) {
						if o := identObj(info, as.Lhs[0]); o != nil {
							vals[o] = true
						}
					}
				}
				return true
			})
			if len(vals) == 0 {
				continue
			}
			for _, l := range listFlds {
				hit := false
				inspectShallow(f.Body(), func(x ast.Node) bool {
					if ix, ok := x.(*ast.IndexExpr); ok && isFld(info, ix.X, l) {
						if o := identObj(info, ix.Index); o != nil && vals[o] {
							hit = true
						}
					}
					return !hit
				})
				if hit {
					dup := false
					for _, q := range rels {
						if q.m == m && q.l == l {
							dup = true
						}
					}
					if !dup {
						rels = append(rels, rel{m, l})
					}
				}
			}
		}
	}
	if len(rels) == 0 {
		p.anchorFail("a map field of index.resultData whose values index a list field of it (groups → streams)")
		return
	}
	n := 0
	for _, q := range rels {
		for _, f := range p.FnList {
			if f.Short != "index" || f.Body() == nil {
				continue
			}
			info := f.Pkg.TypesInfo
			inspectParentsAll(f.Body(), func(x ast.Node, stack []ast.Node) {
				as, ok := x.(*ast.AssignStmt)
				if !ok || len(as.Lhs) != 1 || len(as.Rhs) != 1 {
					return
				}
				li, ok1 := ast.Unparen(as.Lhs[0]).(*ast.IndexExpr)
				ri, ok2 := ast.Unparen(as.Rhs[0]).(*ast.IndexExpr)
				if !ok1 || !ok2 || !isFld(info, li.X, q.l) || !isFld(info, ri.X, q.l) {
					return
				}
				for _, anc := range stack {
					if _, isLit := anc.(*ast.FuncLit); isLit {
						return // reported with the literal
					}
				}
				n++
				to := exprString(p.Fset, ast.Unparen(li.Index))
				key := fmt.Sprintf("%s moves %s[%s] to [%s]", f.Key(), q.l.Name(), exprString(p.Fset, ast.Unparen(ri.Index)), to)
				// the enclosing block
				var blk *ast.BlockStmt
				for i := len(stack) - 1; i >= 0 && blk == nil; i-- {
					if b, ok := stack[i].(*ast.BlockStmt); ok {
						blk = b
					}
				}
				stored := false
				if blk != nil {
					after := false
					for _, s := range blk.List {
						if s == ast.Stmt(as) {
							after = true
							continue
						}
						if !after {
							continue
						}
						ast.Inspect(s, func(y ast.Node) bool {
							if _, isLit := y.(*ast.FuncLit); isLit {
								return false
							}
							if a2, ok := y.(*ast.AssignStmt); ok && len(a2.Lhs) == 1 && len(a2.Rhs) == 1 {
								if mi, ok := ast.Unparen(a2.Lhs[0]).(*ast.IndexExpr); ok && isFld(info, mi.X, q.m) && exprString(p.Fset, ast.Unparen(a2.Rhs[0])) == to {
									stored = true
								}
							}
							return !stored
						})
					}
				}
				r.Check(stored, rule, key, p.Pos(as), "the new position is stored in "+q.m.Name(), "an element of "+q.l.Name()+" is moved to position "+to+" and the position kept for it in "+q.m.Name()+" is not updated in the same block: the map now points one slot off, and the next stream with that key is compared with, and replaces, the element of another key — a grouped search then returns other streams over two index files than over their merge")
			})
		}
	}
	r.Note("%s: position indexes derived: %d (%s → %s)", rule, len(rels), rels[0].m.Name(), rels[0].l.Name())
	r.Floor(rule, 2, n)
}
