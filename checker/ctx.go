package main

// ctx.go: CTX — which goroutine runs a piece of code (DESIGN §3.1).

import (
	"go/ast"
	"go/types"
	"sort"
	"strings"
)

const (
	ctxINIT  = "INIT"
	ctxLOOP  = "LOOP"
	ctxTIMER = "TIMER"
	ctxAPI   = "API"
	// JOB contexts are "JOB:<callee key>"
)

type CtxInfo struct {
	p        *Prog
	Posted   []*Fn            // literals sent on Manager.jobs (LOOP roots)
	PostSite map[*Fn]ast.Node // the send statement
	GoSites  []GoSite         // every go statement in the analysed packages
	Ctx      map[*Fn]map[string]bool
	Why      map[*Fn]map[string]string // context -> justification (caller chain head)
	jobsFld  *types.Var
}

type GoSite struct {
	In     *Fn
	Stmt   *ast.GoStmt
	Callee *Fn // nil if not resolvable to a source function
	Multi  bool
}

var ctxPkgs = map[string]bool{"manager": true, "builder": true, "converters": true, "index": true}

// isJobsChan: expression denotes the field Manager.jobs
func (c *CtxInfo) isJobsChan(info *types.Info, e ast.Expr) bool {
	se, ok := ast.Unparen(e).(*ast.SelectorExpr)
	if !ok {
		return false
	}
	return info.Uses[se.Sel] == types.Object(c.jobsFld)
}

func (p *Prog) Contexts() *CtxInfo {
	if p.ctx != nil {
		return p.ctx
	}
	c := &CtxInfo{p: p, PostSite: map[*Fn]ast.Node{}, Ctx: map[*Fn]map[string]bool{}, Why: map[*Fn]map[string]string{}}
	p.ctx = c
	c.jobsFld = p.Field("manager", "Manager", "jobs")
	if c.jobsFld == nil {
		return c
	}
	add := func(f *Fn, ctx, why string) bool {
		if c.Ctx[f] == nil {
			c.Ctx[f] = map[string]bool{}
			c.Why[f] = map[string]string{}
		}
		if c.Ctx[f][ctx] {
			return false
		}
		c.Ctx[f][ctx] = true
		c.Why[f][ctx] = why
		return true
	}
	// seeds
	type callEdge struct {
		from *Fn
		to   *Fn
	}
	var edges []callEdge
	for _, f := range p.FnList {
		if !ctxPkgs[f.Short] {
			continue
		}
		info := f.Pkg.TypesInfo
		inspectShallow(f.Body(), func(x ast.Node) bool {
			switch s := x.(type) {
			case *ast.SendStmt:
				if c.isJobsChan(info, s.Chan) {
					if lit, ok := ast.Unparen(s.Value).(*ast.FuncLit); ok {
						lf := p.FnOfLit(lit)
						c.Posted = append(c.Posted, lf)
						c.PostSite[lf] = s
						add(lf, ctxLOOP, "posted on Manager.jobs at "+p.Pos(s))
					}
				}
			case *ast.GoStmt:
				gs := GoSite{In: f, Stmt: s}
				if lit, ok := ast.Unparen(s.Call.Fun).(*ast.FuncLit); ok {
					gs.Callee = p.FnOfLit(lit)
				} else if fn := p.Callee(f.Pkg, s.Call); fn != nil {
					gs.Callee = p.FnOfObj(fn)
				}
				c.GoSites = append(c.GoSites, gs)
				if gs.Callee != nil {
					add(gs.Callee, "JOB:"+gs.Callee.Key(), "started with go at "+p.Pos(s))
				}
				return false // the callee does not run in this context
			case *ast.CallExpr:
				if fn := p.Callee(f.Pkg, s); fn != nil {
					if fn.FullName() == "time.AfterFunc" && len(s.Args) == 2 {
						if lit, ok := ast.Unparen(s.Args[1]).(*ast.FuncLit); ok {
							add(p.FnOfLit(lit), ctxTIMER, "time.AfterFunc at "+p.Pos(s))
						}
					}
					if tf := p.FnOfObj(fn); tf != nil && ctxPkgs[tf.Short] {
						edges = append(edges, callEdge{f, tf})
					}
				}
			}
			return true
		})
		// nested literals that are not posted / go'ed / timers inherit the parent's context (called inline,
		// assigned to a local and called, deferred, or passed to a synchronous helper such as sort.Slice)
		for _, l := range f.Lits {
			// a literal bound to a local variable that is only ever CALLED runs where it is called — possibly inside
			// another literal of f that is started with go (connectOnce := func() {…}; go func() { for { connectOnce() } }())
			if callers := localClosureCallers(p, f, l); callers != nil {
				for _, from := range callers {
					edges = append(edges, callEdge{from, l})
				}
				continue
			}
			edges = append(edges, callEdge{f, l})
		}
		// entry points for arbitrary goroutines: the exported API of package manager (methods of Manager, View,
		// StreamContext); exported functions of builder/converters/index get their context from their callers
		if f.Lit == nil && f.Decl.Name.IsExported() && f.Short == "manager" && f.Key() != "manager.New" {
			add(f, ctxAPI, "exported")
		}
	}
	if nf := p.Fns["manager.New"]; nf != nil {
		add(nf, ctxINIT, "constructor, before the service goroutine starts")
	}
	// literals with their own seed context do not inherit
	own := map[*Fn]bool{}
	for f, m := range c.Ctx {
		if f.Lit != nil && len(m) > 0 {
			own[f] = true
		}
	}
	for changed := true; changed; {
		changed = false
		for _, e := range edges {
			if e.to.Lit != nil && own[e.to] {
				continue
			}
			for ctx := range c.Ctx[e.from] {
				if ctx == ctxAPI && e.to.Lit == nil && e.to.Decl.Name.IsExported() {
					// already API
				}
				if add(e.to, ctx, "called from "+e.from.Key()) {
					changed = true
				}
			}
		}
	}
	sort.Slice(c.Posted, func(i, j int) bool { return c.Posted[i].Key() < c.Posted[j].Key() })
	return c
}

func (c *CtxInfo) Of(f *Fn) []string {
	var out []string
	for k := range c.Ctx[f] {
		out = append(out, k)
	}
	sort.Strings(out)
	return out
}

func (c *CtxInfo) Has(f *Fn, ctx string) bool { return c.Ctx[f][ctx] }

func (c *CtxInfo) OnlyLoopInit(f *Fn) bool {
	if len(c.Ctx[f]) == 0 {
		return false
	}
	for k := range c.Ctx[f] {
		if k != ctxLOOP && k != ctxINIT {
			return false
		}
	}
	return true
}

func ctxString(cs []string) string { return "[" + strings.Join(cs, ",") + "]" }

// postedIn returns the closures posted on Manager.jobs directly inside function f (not in nested literals).
func (c *CtxInfo) postedIn(f *Fn) []*Fn {
	var out []*Fn
	for _, l := range c.Posted {
		if l.Parent == f {
			out = append(out, l)
		}
	}
	return out
}

// effective resolves closure-to-method delegation: a posted closure whose body is a single call of a declared
// function of the same package is analysed through that function. The returned mapping translates objects of the
// closure's environment that are passed as arguments (x or &x) into the callee's parameter objects.
func (c *CtxInfo) effective(l *Fn) (*Fn, func(types.Object) types.Object) {
	id := func(o types.Object) types.Object { return o }
	if l == nil || l.Lit == nil {
		return l, id
	}
	body := l.Body().List
	if len(body) != 1 {
		return l, id
	}
	var call *ast.CallExpr
	switch s := body[0].(type) {
	case *ast.ExprStmt:
		call, _ = s.X.(*ast.CallExpr)
	case *ast.ReturnStmt:
		if len(s.Results) == 1 {
			call, _ = s.Results[0].(*ast.CallExpr)
		}
	}
	if call == nil {
		return l, id
	}
	fn := c.p.Callee(l.Pkg, call)
	if fn == nil {
		return l, id
	}
	tf := c.p.FnOfObj(fn)
	if tf == nil || tf.Pkg != l.Pkg {
		return l, id
	}
	info := l.Pkg.TypesInfo
	m := map[types.Object]types.Object{}
	for i, a := range call.Args {
		a = ast.Unparen(a)
		if u, ok := a.(*ast.UnaryExpr); ok {
			a = ast.Unparen(u.X)
		}
		if idn, ok := a.(*ast.Ident); ok {
			if po := paramObj(tf, i); po != nil {
				m[info.ObjectOf(idn)] = po
			}
		}
	}
	return tf, func(o types.Object) types.Object {
		if t, ok := m[o]; ok {
			return t
		}
		return o
	}
}

// completionsIn returns the closures posted directly in f, resolved through delegation.
func (c *CtxInfo) completionsIn(f *Fn) []*Fn {
	var out []*Fn
	for _, l := range c.postedIn(f) {
		e, _ := c.effective(l)
		out = append(out, e)
	}
	return out
}

// localClosureCallers: if the literal l (a direct child of f) is the right side of `v := func…` / `v = func…` /
// `var v = func…` for a local v of f, and every other mention of v in f (nested literals included) is the callee of a
// call, the functions (f or literals below it) in which those calls stand; nil otherwise (the literal then inherits
// f's context as before).
func localClosureCallers(p *Prog, f *Fn, l *Fn) []*Fn {
	info := f.Pkg.TypesInfo
	var v types.Object
	inspectShallow(f.Body(), func(x ast.Node) bool {
		switch s := x.(type) {
		case *ast.AssignStmt:
			if len(s.Lhs) == len(s.Rhs) {
				for i, rh := range s.Rhs {
					if ast.Unparen(rh) == ast.Expr(l.Lit) {
						v = identObj(info, s.Lhs[i])
					}
				}
			}
		case *ast.ValueSpec:
			for i, rh := range s.Values {
				if ast.Unparen(rh) == ast.Expr(l.Lit) && i < len(s.Names) {
					v = info.Defs[s.Names[i]]
				}
			}
		}
		return true
	})
	if v == nil {
		return nil
	}
	seen := map[*Fn]bool{}
	var out []*Fn
	escapes := false
	inspectParents(f.Body(), func(x ast.Node, ps []ast.Node) bool { return true })
	var walk func(g *Fn)
	walk = func(g *Fn) {
		inspectParents(g.Body(), func(x ast.Node, ps []ast.Node) bool {
			id, ok := x.(*ast.Ident)
			if !ok || info.Uses[id] != v || len(ps) == 0 {
				return true
			}
			switch par := ps[len(ps)-1].(type) {
			case *ast.CallExpr:
				if ast.Unparen(par.Fun) == ast.Expr(id) {
					// a call started with go or deferred still runs in g's goroutine only for defer
					if len(ps) >= 2 {
						if _, isGo := ps[len(ps)-2].(*ast.GoStmt); isGo {
							escapes = true
							return true
						}
					}
					if !seen[g] {
						seen[g] = true
						out = append(out, g)
					}
					return true
				}
				escapes = true
			case *ast.AssignStmt:
				for _, lh := range par.Lhs {
					if lh == ast.Expr(id) {
						return true // a (re)definition
					}
				}
				escapes = true
			default:
				escapes = true
			}
			return true
		})
		for _, sub := range g.Lits {
			if sub != l {
				walk(sub)
			} else {
				walk(sub) // recursion inside the literal itself
			}
		}
	}
	walk(f)
	if escapes || len(out) == 0 {
		return nil
	}
	return out
}
