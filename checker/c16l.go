package main

// c16l.go: C16-l a converter that leaves the registry leaves no cache file behind.
//
// A converter's cache is opened by PATH (converterindex-<name>.cidx), every cacheFile object appends at its own idea of
// the end of the file. The registry Manager.converters guarantees one object per name — as long as an object that
// leaves the registry cannot meet its successor in the file. removeConverter emptied the cache but left the file; a
// converter job that was running kept the old object, and when the executable was replaced (rm, write again) the
// re-added converter opened the same file: both objects stored records at offset 8, and stream A was shown with
// "CONV[BBBB-payload]", the output of stream B (#65, probes/c16_replaced_converter_cache).
//
// Rule (FLOW + callee summary): in package manager every delete from Manager.converters is reached only through a call on
// the converter that — within package converters, depth ≤ 3 — reaches os.Remove: the file is unlinked, the old object
// keeps an inode of its own, the next object of that name gets a new file.

import (
	"fmt"
	"go/ast"
	"go/types"
)

func init() {
	register("C16",
		"C16-l (FLOW + callee summary): in package manager a delete from the registry Manager.converters is reached only through a call of a method of the converter that reaches os.Remove (within package converters, depth ≤ 3): a converter that leaves the registry takes its cache file with it. Caches are opened by path and each object appends at its own end of file; a running converter job keeps the object of a removed converter, and a converter re-added under the same name would share the file with it — the two overwrite each other's records and a stream is shown with the output of another stream.",
		func(p *Prog, r *Res) {
			const rule = "C16-l removed-converter-leaves-no-cache-file"
			r.Rule(rule + ": leaving Manager.converters unlinks the cache file")
			convFld := p.Field("manager", "Manager", "converters")
			if convFld == nil {
				p.anchorFail("manager.Manager.converters")
				return
			}
			// functions of package converters that reach os.Remove
			unlinks := map[*Fn]bool{}
			var reaches func(g *Fn, d int, seen map[*Fn]bool) bool
			reaches = func(g *Fn, d int, seen map[*Fn]bool) bool {
				if g == nil || g.Body() == nil || seen[g] {
					return false
				}
				seen[g] = true
				for _, c := range callsIn(g.Body()) {
					fn := p.Callee(g.Pkg, c)
					if fn == nil {
						continue
					}
					if fn.FullName() == "os.Remove" {
						return true
					}
					if d > 0 {
						if h := p.FnOfObj(fn); h != nil && h.Short == "converters" && reaches(h, d-1, seen) {
							return true
						}
					}
				}
				return false
			}
			for _, g := range p.FnList {
				if g.Short == "converters" && g.Lit == nil && reaches(g, 3, map[*Fn]bool{}) {
					unlinks[g] = true
				}
			}
			n := 0
			for _, f := range p.FnList {
				if f.Short != "manager" || f.Body() == nil {
					continue
				}
				info := f.Pkg.TypesInfo
				fl := p.Flow(f)
				for _, pt := range fl.Find(func(nd ast.Node) bool {
					hit := false
					inspectShallow(nd, func(x ast.Node) bool {
						if c, ok := x.(*ast.CallExpr); ok && isBuiltin(info, c, "delete") && len(c.Args) == 2 && isFieldOf(info, c.Args[0], convFld) {
							hit = true
						}
						return !hit
					})
					return hit
				}) {
					nd := fl.node(pt)
					n++
					key := fmt.Sprintf("%s takes a converter out of the registry@%s", f.Key(), relLine(p, f, nd))
					isUnlink := func(m ast.Node) bool {
						hit := false
						inspectShallow(m, func(x ast.Node) bool {
							if c, ok := x.(*ast.CallExpr); ok {
								if fn := p.Callee(f.Pkg, c); fn != nil {
									if fn.FullName() == "os.Remove" || unlinks[p.FnOfObj(fn)] {
										hit = true
									}
								}
							}
							return !hit
						})
						return hit
					}
					res := fl.Reach([]Pt{fl.Entry()}, func(m ast.Node) bool { return m == nd }, isUnlink)
					r.Check(!res.Found, rule, key, p.Pos(nd), "reached only through a call that unlinks the cache file", "the converter leaves the registry and its cache file stays ("+fl.traceString(res)+"): a converter job that is still running keeps writing through the old cache object, a converter added under the same name opens the same file, and the two objects overwrite each other's records — a stream is then shown with the converter output of another stream")
				}
			}
			var names []string
			for g := range unlinks {
				names = append(names, g.Key())
			}
			_ = types.Universe
			r.Note("%s: %d functions of package converters reach os.Remove", rule, len(names))
			r.Floor(rule, 1, n)
		})
}
