package main

import (
	"fmt"
	"go/ast"
	"go/constant"
	"go/token"
	"go/types"
	"strings"

	"golang.org/x/tools/go/cfg"
)

func init() {
	register("C15",
		"C15 (FLOW + lockset, structural): (a) a partly written tail is tolerated — in NewCacheFile's record scan both reads that a short file can fail (record header, skipStream) have an error branch that tests io.EOF and io.ErrUnexpectedEOF and leaves the loop instead of failing, the file is cut back (Truncate/truncateFile) on every such path before appends resume, and the running file size is advanced only after the whole record was read; later records win: every completely read record is stored into the in-memory index unconditionally; (b) lock discipline — every access to streamInfos/fileSize/freeSize/freeStart and every positional operation on the file happens with rwmutex held (write-locked for writes), in the constructor before the value escapes, or in a helper all of whose callers hold the lock; (c) offset accounting — in setData every emit to the record writer is followed on every path, before the next emit, by an increment of streamSize, and in skipStream every read's byte count is added; (d) index and file change together — every function that removes entries from streamInfos also performs a file mutation in the same critical section (InvalidateChangedStreams does not: known finding, the format has no tombstone). Encode/decode inverse-ness of the record format and compaction offset arithmetic are NOT decided.",
		ruleC15Tail, ruleC15Locks, ruleC15Accounting, ruleC15IndexFile)
}

func ioErrObj(p *Prog, name string) types.Object {
	for _, pk := range p.Pkgs {
		for _, imp := range pk.Types.Imports() {
			if imp.Path() == "io" {
				return imp.Scope().Lookup(name)
			}
		}
	}
	return nil
}

// scanLoop returns the record-scan loop of NewCacheFile: the `for {` whose body reads a converterStreamSection.
func cacheScanLoop(p *Prog) (*Fn, *ast.ForStmt) {
	f := p.Fn("converters.NewCacheFile")
	if f == nil {
		return nil, nil
	}
	var loop *ast.ForStmt
	inspectShallow(f.Body(), func(x ast.Node) bool {
		if fs, ok := x.(*ast.ForStmt); ok && fs.Cond == nil && loop == nil {
			for _, c := range callsIn(fs.Body) {
				if fn := p.Callee(f.Pkg, c); fn != nil && fn.Name() == "skipStream" {
					loop = fs
				}
			}
		}
		return true
	})
	if loop == nil {
		p.anchorFail("record scan loop in converters.NewCacheFile")
	}
	return f, loop
}

func ruleC15Tail(p *Prog, r *Res) {
	const rule = "C15-a truncated-tail"
	r.Rule(rule + ": short reads at the end of the cache file end the scan, the tail is cut, sizes advance only after a complete record")
	f, loop := cacheScanLoop(p)
	if f == nil || loop == nil {
		return
	}
	info := f.Pkg.TypesInfo
	fl := p.Flow(f)
	eof, ueof := ioErrObj(p, "EOF"), ioErrObj(p, "ErrUnexpectedEOF")
	if eof == nil || ueof == nil {
		p.anchorFail("io.EOF / io.ErrUnexpectedEOF")
		return
	}
	// the two short-file reads inside the loop
	type read struct {
		name string
		pt   Pt
	}
	var reads []read
	for _, b := range fl.G.Blocks {
		for i, n := range b.Nodes {
			if !within(n, loop.Body) {
				continue
			}
			if nodeCalls(p, f, n, func(fn *types.Func, _ *ast.CallExpr) bool { return fn.FullName() == "encoding/binary.Read" }) {
				reads = append(reads, read{"record header read", Pt{b, i}})
			}
			if nodeCalls(p, f, n, func(fn *types.Func, _ *ast.CallExpr) bool { return fn.Name() == "skipStream" }) {
				reads = append(reads, read{"skipStream", Pt{b, i}})
			}
		}
	}
	r.Floor(rule+" short-file reads", 2, len(reads))
	mentions := func(n ast.Node, o types.Object) bool {
		hit := false
		ast.Inspect(n, func(y ast.Node) bool {
			if se, ok := y.(*ast.SelectorExpr); ok && info.Uses[se.Sel] == o {
				hit = true
			}
			return true
		})
		return hit
	}
	// final seek to the end (appends resume)
	isSeekEnd := func(n ast.Node) bool {
		return nodeCalls(p, f, n, func(fn *types.Func, c *ast.CallExpr) bool {
			return fn.FullName() == "(*os.File).Seek" && len(c.Args) == 2 && strings.Contains(types.ExprString(c.Args[1]), "SeekEnd")
		})
	}
	isTruncate := func(n ast.Node) bool {
		return nodeCalls(p, f, n, func(fn *types.Func, _ *ast.CallExpr) bool {
			return fn.FullName() == "(*os.File).Truncate" || fn.Name() == "truncateFile"
		})
	}
	for _, rd := range reads {
		b := rd.pt.B
		if len(b.Succs) != 2 {
			r.Undecided(rule, "NewCacheFile "+rd.name+" error branch", p.Pos(fl.node(rd.pt)), "cannot identify the error branch")
			continue
		}
		errBlock := b.Succs[0]
		// collect the condition nodes in the error branch region (blocks reachable from errBlock that stay lexically inside the if statement)
		var ifStmt *ast.IfStmt
		inspectShallow(loop.Body, func(y ast.Node) bool {
			if ifs, ok := y.(*ast.IfStmt); ok && len(b.Nodes) > 0 && ifs.Cond == b.Nodes[len(b.Nodes)-1] {
				ifStmt = ifs
			}
			return true
		})
		if ifStmt == nil {
			r.Undecided(rule, "NewCacheFile "+rd.name+" error branch", p.Pos(fl.node(rd.pt)), "error branch is not an if statement")
			continue
		}
		testsEOF, testsUEOF := mentions(ifStmt.Body, eof), mentions(ifStmt.Body, ueof)
		// a path from the error branch that leaves the loop without a failing return
		leaves := fl.search([]Pt{{errBlock, 0}}, func(n ast.Node) bool { return !within(n, loop) }, func(n ast.Node) bool { return isFailingReturn(info, n) })
		ok := testsEOF && testsUEOF && leaves.Found
		r.Check(ok, rule, "NewCacheFile "+rd.name+": end-of-file class errors end the scan", p.Pos(ifStmt), "error branch tests io.EOF and io.ErrUnexpectedEOF and can leave the loop without failing",
			fmt.Sprintf("tests io.EOF=%v io.ErrUnexpectedEOF=%v, leaves loop without error=%v: a record cut short by a kill makes the open fail, the converter disappears after restart and its tag attachments are dropped", testsEOF, testsUEOF, leaves.Found))
		// on every path from a flag assignment in the error branch to the final seek, the file is truncated
		var flagPts []Pt
		var flagObjs []types.Object
		for _, bb := range fl.G.Blocks {
			for i, n := range bb.Nodes {
				if as, isAs := n.(*ast.AssignStmt); isAs && within(n, ifStmt.Body) && len(as.Lhs) == 1 && len(as.Rhs) == 1 {
					if id, isID := as.Rhs[0].(*ast.Ident); isID && id.Name == "true" {
						flagPts = append(flagPts, Pt{bb, i + 1})
						flagObjs = append(flagObjs, identObj(info, as.Lhs[0]))
					}
				}
			}
		}
		if rd.name == "skipStream" || testsUEOF {
			if len(flagPts) == 0 {
				// no flag: the truncation must follow unconditionally
				res := fl.search([]Pt{{errBlock, 0}}, isSeekEnd, func(n ast.Node) bool { return isTruncate(n) || isFailingReturn(info, n) })
				r.Check(!res.Found, rule, "NewCacheFile "+rd.name+": partial record is cut off before appends resume", p.Pos(ifStmt), "truncate on every path to the final seek", "the partial tail stays in the file: the next append lands behind garbage and the following open mis-parses it: "+fl.traceString(res))
			}
			for k, fp := range flagPts {
				fobj := flagObjs[k]
				fl2 := p.Flow(f)
				fl2.EdgeOK = func(bb *cfg.Block, succ int) bool {
					if len(bb.Succs) == 2 && len(bb.Nodes) > 0 {
						if id, ok := bb.Nodes[len(bb.Nodes)-1].(*ast.Ident); ok && info.ObjectOf(id) == fobj {
							return succ == 0
						}
					}
					return true
				}
				// map fp into fl2's blocks (same CFG object is cached, so blocks are shared)
				res := fl2.search([]Pt{fp}, isSeekEnd, func(n ast.Node) bool { return isTruncate(n) || isFailingReturn(info, n) })
				r.Check(!res.Found, rule, fmt.Sprintf("NewCacheFile %s: partial record is cut off before appends resume (#%d)", rd.name, k+1), p.Pos(ifStmt), "with the truncated flag set, every path to the final seek truncates the file", "the partial tail stays in the file: "+fl2.traceString(res))
			}
		}
	}
	// sizes advance only after the whole record was read
	fsFld := p.Field("converters", "cacheFile", "fileSize")
	var skipPt *Pt
	for _, rd := range reads {
		if rd.name == "skipStream" {
			pt := rd.pt
			skipPt = &pt
		}
	}
	nInc := 0
	// a call of a package helper that assigns the field counts like the assignment itself (callee effect summary)
	fieldWrites, _ := cacheFieldWrites(p)
	helperWrites := func(n ast.Node, fld *types.Var) *Fn {
		var hit *Fn
		inspectShallow(n, func(y ast.Node) bool {
			if c, ok := y.(*ast.CallExpr); ok && hit == nil {
				if fn := p.Callee(f.Pkg, c); fn != nil {
					if g := p.FnOfObj(fn); g != nil && g.Short == "converters" && g != f && fieldWrites[g.Root()][fld] {
						hit = g
					}
				}
			}
			return hit == nil
		})
		return hit
	}
	for _, b := range fl.G.Blocks {
		for i, n := range b.Nodes {
			if !within(n, loop.Body) {
				continue
			}
			as, ok := n.(*ast.AssignStmt)
			direct := ok && len(as.Lhs) == 1 && isFieldOf(info, as.Lhs[0], fsFld)
			isSkipCall := skipPt != nil && n == fl.node(*skipPt)
			if !direct && (isSkipCall || helperWrites(n, fsFld) == nil) {
				continue
			}
			nInc++
			key := fmt.Sprintf("NewCacheFile scan: fileSize update #%d", nInc)
			if skipPt == nil {
				r.Undecided(rule, key, p.Pos(n), "skipStream call not found")
				continue
			}
			// from the loop header the update must not be reachable without passing skipStream
			var hdr []Pt
			for _, lp := range fl.Loops() {
				if lp.Stmt == ast.Stmt(loop) && lp.Header != nil {
					hdr = append(hdr, Pt{lp.Header, 0})
				}
			}
			res := fl.Reach(hdr, func(m ast.Node) bool { return m == n }, func(m ast.Node) bool { return m == fl.node(*skipPt) })
			bad := failureReaches(fl, *skipPt, func(m ast.Node) bool { return m == n })
			_ = i
			r.Check(!res.Found && !bad, rule, key, p.Pos(n), "after the record was read completely", "the running file size is advanced before the record is known to be complete: when the tail is cut at this record the counted bytes stay in the file as a phantom record header")
		}
	}
	r.Floor(rule+" fileSize updates in the scan", 2, nInc)
	// later records win: every complete record is stored unconditionally
	siFld := p.Field("converters", "cacheFile", "streamInfos")
	if skipPt != nil {
		// a record whose id equals a constant marker (a tombstone written by an invalidation) is not a stream's
		// record: the edge on which `<record>.StreamID == <constant>` holds may skip the store
		sidFld := p.Field("converters", "converterStreamSection", "StreamID")
		tombEdgeIn := func(inf *types.Info) func(bb *cfg.Block, si int) bool {
			return func(bb *cfg.Block, si int) bool {
				if len(bb.Succs) != 2 || len(bb.Nodes) == 0 || sidFld == nil {
					return false
				}
				cond, ok := bb.Nodes[len(bb.Nodes)-1].(ast.Expr)
				if !ok {
					return false
				}
				atoms, want := conjuncts(cond), token.EQL
				if si == 1 {
					atoms, want = disjuncts(cond), token.NEQ
				}
				for _, a := range atoms {
					be, ok := ast.Unparen(a).(*ast.BinaryExpr)
					if !ok || be.Op != want {
						continue
					}
					x, y := be.X, be.Y
					if tv, isC := inf.Types[x]; isC && tv.Value != nil {
						x, y = y, x
					}
					tv, isC := inf.Types[y]
					if !isC || tv.Value == nil {
						continue
					}
					// the record id itself, or a value passed in from it (helper parameter of the same type)
					if se, isSel := ast.Unparen(x).(*ast.SelectorExpr); isSel && inf.Uses[se.Sel] == types.Object(sidFld) {
						return true
					}
					if o := identObj(inf, x); o != nil {
						if b, isB := o.Type().Underlying().(*types.Basic); isB && b.Kind() == types.Uint64 {
							return true
						}
					}
				}
				return false
			}
		}
		tombEdge := tombEdgeIn(info)
		directStore := func(inf *types.Info) func(n ast.Node) bool {
			return func(n ast.Node) bool {
				as, ok := n.(*ast.AssignStmt)
				if !ok || len(as.Lhs) != 1 {
					return false
				}
				ix, ok := ast.Unparen(as.Lhs[0]).(*ast.IndexExpr)
				return ok && isFieldOf(inf, ix.X, siFld)
			}
		}
		isStore := func(n ast.Node) bool {
			if directStore(info)(n) {
				return true
			}
			// a helper of the package that stores on every one of its paths
			if g := helperWrites(n, siFld); g != nil && g.Lit == nil {
				gfl := p.Flow(g)
				te := tombEdgeIn(g.Pkg.TypesInfo)
				gfl.EdgeOK = func(bb *cfg.Block, si int) bool { return !te(bb, si) }
				return !gfl.MustPass(directStore(g.Pkg.TypesInfo)).Found
			}
			return false
		}
		b := skipPt.B
		if len(b.Succs) == 2 {
			var hdrNode *cfg.Block
			for _, lp := range fl.Loops() {
				if lp.Stmt == ast.Stmt(loop) {
					hdrNode = lp.Header
				}
			}
			// from the success branch, reach the loop header again without storing?
			found := false
			seen := map[*cfg.Block]bool{}
			var dfs func(bb *cfg.Block, from int)
			dfs = func(bb *cfg.Block, from int) {
				if found {
					return
				}
				for i := from; i < len(bb.Nodes); i++ {
					if isStore(bb.Nodes[i]) || isReturn(bb.Nodes[i]) {
						return
					}
				}
				for si, s := range bb.Succs {
					if tombEdge(bb, si) {
						continue
					}
					if s == hdrNode {
						found = true
						return
					}
					if !seen[s] {
						seen[s] = true
						dfs(s, 0)
					}
				}
			}
			dfs(b.Succs[1], 0)
			r.Check(!found, "C15-d latest-record-wins", "NewCacheFile scan stores every complete record into streamInfos", p.Pos(loop), "the store lies on every path of an iteration after skipStream succeeded", "an iteration can complete without storing the record: with duplicate records for one stream (re-conversion after an invalidation) the older record stays indexed and stale output is served after a restart")
		}
	}
}

// ---------- C15-b lock discipline ----------

func ruleC15Locks(p *Prog, r *Res) {
	const rule = "C15-b lock-discipline"
	r.Rule(rule + ": guarded fields of cacheFile are accessed under rwmutex")
	cf := p.Named("converters", "cacheFile")
	if cf == nil {
		return
	}
	guarded := map[*types.Var]bool{}
	for _, n := range []string{"streamInfos", "fileSize", "freeSize", "freeStart"} {
		if v := p.Field("converters", "cacheFile", n); v != nil {
			guarded[v] = true
		}
	}
	fileFld := p.Field("converters", "cacheFile", "file")
	mtx := p.Field("converters", "cacheFile", "rwmutex")
	// helpers: functions all of whose callers hold the write lock
	holdsLock := func(f *Fn, kind string) func(ast.Node) bool {
		info := f.Pkg.TypesInfo
		return func(n ast.Node) bool {
			return nodeCalls(p, f, n, func(fn *types.Func, c *ast.CallExpr) bool {
				se, ok := ast.Unparen(c.Fun).(*ast.SelectorExpr)
				if !ok || !isFieldOf(info, se.X, mtx) {
					return false
				}
				if kind == "w" {
					return fn.Name() == "Lock"
				}
				return fn.Name() == "Lock" || fn.Name() == "RLock"
			})
		}
	}
	// which functions are "called only with the lock held / from the constructor"
	callerLocked := map[*Fn]string{}
	// fixpoint: a helper of a helper (truncateFile → writeHeader) is reached with the lock held as well
	for changed := true; changed; {
		changed = false
		for _, f := range p.FnList {
			if f.Short != "converters" || f.Lit != nil || callerLocked[f] != "" {
				continue
			}
			fo, _ := f.Pkg.TypesInfo.Defs[f.Decl.Name].(*types.Func)
			if fo == nil || f.Decl.Recv == nil || recvTypeName(f.Decl.Recv.List[0].Type) != "cacheFile" {
				continue
			}
			// does f itself lock?
			self := false
			for _, c := range callsIn(f.Body()) {
				if se, ok := ast.Unparen(c.Fun).(*ast.SelectorExpr); ok && isFieldOf(f.Pkg.TypesInfo, se.X, mtx) {
					self = true
				}
			}
			if self {
				continue
			}
			all, n := true, 0
			for _, g := range p.FnList {
				if g.Short != "converters" {
					continue
				}
				gfl := p.Flow(g)
				for _, b := range gfl.G.Blocks {
					for i, node := range b.Nodes {
						if !nodeCalls(p, g, node, func(fn *types.Func, _ *ast.CallExpr) bool { return fn == fo }) {
							continue
						}
						n++
						if g.Key() == "converters.NewCacheFile" || callerLocked[g] != "" {
							continue
						}
						res := gfl.Reach([]Pt{gfl.Entry()}, func(m ast.Node) bool { return m == b.Nodes[i] }, holdsLock(g, "w"))
						if res.Found {
							all = false
						}
					}
				}
			}
			if all && n > 0 {
				callerLocked[f] = fmt.Sprintf("all %d call sites hold the write lock, are in the constructor or in a helper that is itself only called so", n)
				changed = true
			}
		}
	}
	nAcc := 0
	for _, f := range p.FnList {
		if f.Short != "converters" {
			continue
		}
		info := f.Pkg.TypesInfo
		fl := p.Flow(f)
		for _, b := range fl.G.Blocks {
			if !b.Live {
				continue
			}
			for _, node := range b.Nodes {
				// accesses in this node
				type acc struct {
					what  string
					write bool
					pos   ast.Node
				}
				var accs []acc
				inspectParents(node, func(n ast.Node, parents []ast.Node) bool {
					switch s := n.(type) {
					case *ast.SelectorExpr:
						if fv, ok := info.Uses[s.Sel].(*types.Var); ok && guarded[fv] {
							w := false
							// write if it is (the base of) an assignment target, inc/dec, or delete()
							for i := len(parents) - 1; i >= 0; i-- {
								switch pn := parents[i].(type) {
								case *ast.AssignStmt:
									for _, l := range pn.Lhs {
										if within(s, l) {
											w = true
										}
									}
								case *ast.IncDecStmt:
									w = true
								case *ast.CallExpr:
									if isBuiltin(info, pn, "delete") && len(pn.Args) > 0 && within(s, pn.Args[0]) {
										w = true
									}
								}
							}
							accs = append(accs, acc{"cacheFile." + fv.Name(), w, s})
						}
					case *ast.CallExpr:
						if se, ok := ast.Unparen(s.Fun).(*ast.SelectorExpr); ok && isFieldOf(info, se.X, fileFld) {
							switch se.Sel.Name {
							case "Seek", "Write", "Truncate", "WriteAt":
								accs = append(accs, acc{"file." + se.Sel.Name, true, s})
							}
						}
					}
					return true
				})
				for _, a := range accs {
					nAcc++
					kind := "r"
					if a.write {
						kind = "w"
					}
					key := fmt.Sprintf("%s %s %s@%s", f.Key(), map[bool]string{true: "write", false: "read"}[a.write], a.what, relLine(p, f, a.pos))
					switch {
					case f.Root().Key() == "converters.NewCacheFile":
						r.OkTrivial(rule, key, p.Pos(a.pos), "constructor: the value has not escaped yet")
					case callerLocked[f.Root()] != "":
						r.Ok(rule, key, p.Pos(a.pos), callerLocked[f.Root()])
					default:
						res := fl.Reach([]Pt{fl.Entry()}, func(m ast.Node) bool { return m == node }, holdsLock(f, kind))
						if res.Found {
							r.Bad(rule, key, p.Pos(a.pos), map[bool]string{true: "write without the write lock", false: "read without a lock"}[a.write]+": a concurrent setData/compaction moves records and offsets under it: "+fl.traceString(res))
						} else {
							r.Ok(rule, key, p.Pos(a.pos), "lock acquired on every path to the access")
						}
					}
				}
			}
		}
	}
	r.Floor(rule, 27, nAcc)
	// every Lock/RLock is released: defer Unlock follows immediately (except Close, which keeps the lock on purpose)
	for _, f := range p.FnList {
		if f.Short != "converters" || f.Lit != nil || f.Decl.Recv == nil || recvTypeName(f.Decl.Recv.List[0].Type) != "cacheFile" {
			continue
		}
		info := f.Pkg.TypesInfo
		fl := p.Flow(f)
		for _, kind := range []string{"Lock", "RLock"} {
			for _, pt := range fl.Find(func(n ast.Node) bool {
				return nodeCalls(p, f, n, func(fn *types.Func, c *ast.CallExpr) bool {
					se, ok := ast.Unparen(c.Fun).(*ast.SelectorExpr)
					return ok && isFieldOf(info, se.X, mtx) && fn.Name() == kind
				})
			}) {
				if _, isDefer := fl.node(pt).(*ast.DeferStmt); isDefer {
					continue
				}
				un := map[string]string{"Lock": "Unlock", "RLock": "RUnlock"}[kind]
				res := fl.ExitAvoiding([]Pt{After(pt)}, func(n ast.Node) bool {
					return nodeCalls(p, f, n, func(fn *types.Func, c *ast.CallExpr) bool {
						se, ok := ast.Unparen(c.Fun).(*ast.SelectorExpr)
						return ok && isFieldOf(info, se.X, mtx) && fn.Name() == un
					})
				})
				key := fmt.Sprintf("%s %s released", f.Key(), kind)
				if f.Key() == "converters.cacheFile.Close" {
					r.Exempt(rule, key, p.Pos(fl.node(pt)), "Close keeps the write lock on purpose so that no operation can follow it")
					continue
				}
				r.Check(!res.Found, rule, key, p.Pos(fl.node(pt)), un+" (deferred) on every path", "a path returns with the "+kind+" still held: every later operation on this cache blocks forever")
			}
		}
	}
}

// ---------- C15-c accounting ----------

func ruleC15Accounting(p *Prog, r *Res) {
	const rule = "C15-c emit-accounting"
	r.Rule(rule + ": every emitted/consumed byte count is added to the record size before the next emit/read")
	if f := p.Fn("converters.cacheFile.setData"); f != nil {
		info := f.Pkg.TypesInfo
		fl := p.Flow(f)
		// by role: the writer is the local defined from bufio.NewWriter; the record size is the local stored as
		// streamInfo.size when the record is indexed
		var sizeObj, writerObj types.Object
		inspectShallow(f.Body(), func(x ast.Node) bool {
			switch s := x.(type) {
			case *ast.AssignStmt:
				if s.Tok == token.DEFINE && len(s.Lhs) == 1 && len(s.Rhs) == 1 {
					if c, ok := s.Rhs[0].(*ast.CallExpr); ok {
						if fn := p.Callee(f.Pkg, c); fn != nil && (fn.FullName() == "bufio.NewWriter" || fn.FullName() == "bufio.NewWriterSize") {
							writerObj = identObj(info, s.Lhs[0])
						}
					}
				}
			case *ast.CompositeLit:
				if n := namedOf(info.TypeOf(s)); n != nil && n.Obj().Name() == "streamInfo" {
					for _, el := range s.Elts {
						if kv, ok := el.(*ast.KeyValueExpr); ok {
							if k, ok := kv.Key.(*ast.Ident); ok && k.Name == "size" {
								ast.Inspect(kv.Value, func(y ast.Node) bool {
									if id, ok := y.(*ast.Ident); ok {
										if v, isVar := info.Uses[id].(*types.Var); isVar && !v.IsField() && sizeObj == nil {
											sizeObj = v
										}
									}
									return true
								})
							}
						}
					}
				}
			}
			return true
		})
		if sizeObj == nil || writerObj == nil {
			p.anchorFail("record size local (stored as streamInfo.size) / bufio writer local in converters.cacheFile.setData")
			return
		}
		isEmit := func(n ast.Node) bool {
			if as, ok := n.(*ast.AssignStmt); ok && len(as.Lhs) == 1 && sameObj(info, as.Lhs[0], sizeObj) {
				return false
			}
			return fl.hasCall(n, func(c *ast.CallExpr) bool {
				if se, ok := ast.Unparen(c.Fun).(*ast.SelectorExpr); ok && sameObj(info, se.X, writerObj) && (se.Sel.Name == "WriteByte" || se.Sel.Name == "Write") {
					return true
				}
				for _, a := range c.Args {
					if sameObj(info, a, writerObj) {
						if fn := p.Callee(f.Pkg, c); fn != nil {
							return true
						}
					}
				}
				return false
			})
		}
		isInc := func(n ast.Node) bool {
			switch s := n.(type) {
			case *ast.AssignStmt:
				return len(s.Lhs) == 1 && sameObj(info, s.Lhs[0], sizeObj) && s.Tok == token.ADD_ASSIGN
			case *ast.IncDecStmt:
				return sameObj(info, s.X, sizeObj) && s.Tok == token.INC
			}
			return false
		}
		// the first emit is the record header (accounted separately as streamHeaderSize); skip it: it precedes the
		// definition of streamSize
		emits := fl.Find(isEmit)
		n := 0
		sizeDef := sizeObj.Pos()
		for _, e := range emits {
			if fl.node(e).Pos() < sizeDef {
				continue
			}
			n++
			// success continuation: if the emit is in an `if err := …; err != nil` header the false branch
			starts := []Pt{After(e)}
			b := e.B
			if len(b.Succs) == 2 && e.I+2 == len(b.Nodes) {
				if be, ok := b.Nodes[len(b.Nodes)-1].(*ast.BinaryExpr); ok && be.Op == token.NEQ && types.ExprString(be.Y) == "nil" {
					starts = []Pt{{b.Succs[1], 0}}
				}
			} else if len(b.Succs) == 2 && e.I+1 == len(b.Nodes)-1 {
				starts = []Pt{{b.Succs[1], 0}}
			}
			res := fl.search(starts, func(m ast.Node) bool {
				if isEmit(m) && m != fl.node(e) {
					return true
				}
				// flush / index update without having counted
				return nodeCalls(p, f, m, func(fn *types.Func, _ *ast.CallExpr) bool { return fn.FullName() == "(*bufio.Writer).Flush" })
			}, isInc)
			key := fmt.Sprintf("setData emit#%d %s", n, firstLine(types.ExprString(exprOfNode(fl.node(e)))))
			r.Check(!res.Found, rule, key, p.Pos(fl.node(e)), "streamSize is increased before the next emit on every path", "bytes are written to the record without being added to streamSize: the stored record size, fileSize and every later offset are short by that amount, and reads of later records start in the middle of this one: "+fl.traceString(res))
		}
		r.Floor(rule+" emits in setData", 8, n)
	}
	if f := p.Fn("converters.skipStream"); f != nil {
		info := f.Pkg.TypesInfo
		fl := p.Flow(f)
		// by role: the local that the successful return hands back as the skipped size
		var sizeObj types.Object
		inspectShallow(f.Body(), func(x ast.Node) bool {
			if ret, ok := x.(*ast.ReturnStmt); ok && len(ret.Results) >= 1 && !isFailingReturn(info, ret) {
				ast.Inspect(ret.Results[0], func(y ast.Node) bool {
					if id, ok := y.(*ast.Ident); ok {
						if v, isVar := info.Uses[id].(*types.Var); isVar && !v.IsField() {
							sizeObj = v
						}
					}
					return true
				})
			}
			return true
		})
		if sizeObj == nil {
			p.anchorFail("local returned as the skipped size in converters.skipStream")
			return
		}
		isRead := func(n ast.Node) bool {
			return nodeCalls(p, f, n, func(fn *types.Func, _ *ast.CallExpr) bool {
				switch fn.Name() {
				case "readVarInt", "readVarBytes", "readString", "Discard":
					return true
				}
				return false
			})
		}
		isInc := func(n ast.Node) bool {
			as, ok := n.(*ast.AssignStmt)
			return ok && len(as.Lhs) == 1 && sameObj(info, as.Lhs[0], sizeObj) && as.Tok == token.ADD_ASSIGN
		}
		n := 0
		for _, e := range fl.Find(isRead) {
			n++
			starts := []Pt{After(e)}
			b := e.B
			if len(b.Succs) == 2 {
				if be, ok := b.Nodes[len(b.Nodes)-1].(*ast.BinaryExpr); ok && be.Op == token.NEQ && types.ExprString(be.Y) == "nil" {
					starts = []Pt{{b.Succs[1], 0}}
				}
			}
			res := fl.search(starts, func(m ast.Node) bool {
				return (isRead(m) && m != fl.node(e)) || (isReturn(m) && !isFailingReturn(info, m))
			}, isInc)
			r.Check(!res.Found, rule, fmt.Sprintf("skipStream read#%d", n), p.Pos(fl.node(e)), "the consumed byte count is added before the next read / the successful return", "bytes are consumed from the record without being added to the skipped size: offsets of all following records are wrong after a reopen: "+fl.traceString(res))
		}
		r.Floor(rule+" reads in skipStream", 5, n)
	}
}

func firstLine(s string) string {
	if i := strings.IndexByte(s, '\n'); i >= 0 {
		s = s[:i]
	}
	if len(s) > 60 {
		s = s[:60] + "…"
	}
	return s
}

func exprOfNode(n ast.Node) ast.Expr {
	switch s := n.(type) {
	case ast.Expr:
		return s
	case *ast.AssignStmt:
		return s.Rhs[0]
	case *ast.ExprStmt:
		return s.X
	}
	return &ast.BadExpr{}
}

// ---------- C15-d index and file change together ----------

func ruleC15IndexFile(p *Prog, r *Res) {
	const rule = "C15-d index-and-file"
	r.Rule(rule + ": removing entries from the in-memory index is accompanied by a file mutation the load scan interprets consistently")
	siFld := p.Field("converters", "cacheFile", "streamInfos")
	fileFld := p.Field("converters", "cacheFile", "file")
	n := 0
	for _, f := range p.FnList {
		if f.Short != "converters" || f.Lit != nil {
			continue
		}
		info := f.Pkg.TypesInfo
		removes := false
		inspectShallow(f.Body(), func(x ast.Node) bool {
			switch s := x.(type) {
			case *ast.CallExpr:
				if isBuiltin(info, s, "delete") && len(s.Args) == 2 && isFieldOf(info, s.Args[0], siFld) {
					removes = true
				}
			case *ast.AssignStmt:
				// replacing the whole map
				for i, l := range s.Lhs {
					if isFieldOf(info, l, siFld) && i < len(s.Rhs) {
						if _, isLit := ast.Unparen(s.Rhs[i]).(*ast.CompositeLit); isLit {
							removes = true
						}
					}
				}
			}
			return true
		})
		if !removes || f.Key() == "converters.NewCacheFile" {
			continue
		}
		n++
		mutatesFile := false
		// the function's own calls and those of the package helpers it calls (one level: discardRecord)
		allCalls := callsIn(f.Body())
		for _, c := range callsIn(f.Body()) {
			if fn := p.Callee(f.Pkg, c); fn != nil {
				if h := p.FnOfObj(fn); h != nil && h.Pkg == f.Pkg && h != f && h.Lit == nil && h.Body() != nil {
					allCalls = append(allCalls, callsIn(h.Body())...)
				}
			}
		}
		for _, c := range allCalls {
			if se, ok := ast.Unparen(c.Fun).(*ast.SelectorExpr); ok && isFieldOf(info, se.X, fileFld) {
				switch se.Sel.Name {
				case "Truncate", "Write", "WriteAt":
					mutatesFile = true
				}
			}
			for _, a := range c.Args {
				if isFieldOf(info, a, fileFld) {
					mutatesFile = true // binary.Write(cachefile.file, …)
				}
			}
		}
		// a marker written over the record's id (tombstone) must be the constant the load scan tests for
		var marker constant.Value
		for _, c := range allCalls {
			if fn := p.Callee(f.Pkg, c); fn != nil && strings.HasPrefix(fn.Name(), "PutUint") && len(c.Args) == 2 {
				if tv, ok := info.Types[c.Args[1]]; ok && tv.Value != nil {
					marker = tv.Value
				}
			}
		}
		if marker != nil {
			sidFld := p.Field("converters", "converterStreamSection", "StreamID")
			recognised := false
			if ctor := p.Fn("converters.NewCacheFile"); ctor != nil && sidFld != nil {
				cinfo := ctor.Pkg.TypesInfo
				bodies := []ast.Node{ctor.Body()}
				for _, hc := range callsIn(ctor.Body()) {
					if fn := p.Callee(ctor.Pkg, hc); fn != nil {
						if h := p.FnOfObj(fn); h != nil && h.Pkg == ctor.Pkg && h != ctor && h.Body() != nil {
							bodies = append(bodies, h.Body())
						}
					}
				}
				for _, bd := range bodies {
					ast.Inspect(bd, func(x ast.Node) bool {
						if be, ok := x.(*ast.BinaryExpr); ok && (be.Op == token.EQL || be.Op == token.NEQ) {
							xx, yy := be.X, be.Y
							if tv, isC := cinfo.Types[xx]; isC && tv.Value != nil {
								xx, yy = yy, xx
							}
							if se, isSel := ast.Unparen(xx).(*ast.SelectorExpr); isSel && cinfo.Uses[se.Sel] == types.Object(sidFld) {
								if tv, isC := cinfo.Types[yy]; isC && tv.Value != nil && constant.Compare(constant.ToInt(tv.Value), token.EQL, constant.ToInt(marker)) {
									recognised = true
								}
							}
							// in a helper the id may arrive as a uint64 parameter
							if o := identObj(cinfo, xx); o != nil {
								if b, isB := o.Type().Underlying().(*types.Basic); isB && b.Kind() == types.Uint64 {
									if tv, isC := cinfo.Types[yy]; isC && tv.Value != nil && constant.Compare(constant.ToInt(tv.Value), token.EQL, constant.ToInt(marker)) {
										recognised = true
									}
								}
							}
						}
						return true
					})
				}
			}
			r.Check(recognised, rule, f.Key()+" tombstone marker is recognised by the load scan", p.Pos(f.Node()), "NewCacheFile compares the record id with the same constant "+marker.ExactString(), "the marker "+marker.ExactString()+" written over invalidated records is not tested for in NewCacheFile's scan: such records are indexed under that id and their space is not reclaimed")
		}
		key := f.Key() + " removes entries from streamInfos"
		r.Check(mutatesFile, rule, key, p.Pos(f.Node()), "the same function also rewrites/truncates the file", "entries are removed from the in-memory index only: the records stay in the append-only file and are indexed again at the next open, so invalidated converter output is served again after a restart")
	}
	r.Floor(rule, 2, n)
}
