package main

// c13l.go: C13-l an index file that was never finished does not outlive the next start.
//
// index.NewWriter creates an index under its final name with an all-zero magic; the magic is the last thing Finalize
// writes. When the service stops while an import or merge writes such a file (SIGTERM runs Close and exits; kill, OOM),
// the next start logs "Unable to load index … wrong magic", skips the file — and nothing ever deleted it: three files on
// disk, two served (#82, probes/c13_unfinished_index_left_behind). In a random-kill run 21 of 200 kills left one.
//
// Rule (typed AST): in package manager the branch taken when index.NewReader(x) failed contains a call of os.Remove(x).
// (That the removal is limited to files without a magic is the other half, checked by C12-c / C13-k.)

import (
	"fmt"
	"go/ast"
	"go/token"
)

func init() {
	register("C13",
		"C13-l (typed AST): in package manager the branch taken when index.NewReader(x) failed contains a call of os.Remove(x): a file that cannot be loaded because it was never finished is deleted at the start that finds it (C12-c / C13-k limit the deletion to files whose magic was never written). An index is created under its final name and gets its magic last; a stop while it is written otherwise leaves a file that no start ever loads or deletes, and the directory holds more than the service serves from.",
		func(p *Prog, r *Res) {
			const rule = "C13-l unfinished-index-removed-at-start"
			r.Rule(rule + ": the failure branch of NewReader deletes the file")
			n := 0
			for _, f := range p.FnList {
				if f.Short != "manager" || f.Lit != nil || f.Body() == nil {
					continue
				}
				info := f.Pkg.TypesInfo
				inspectShallow(f.Body(), func(x ast.Node) bool {
					blk, ok := x.(*ast.BlockStmt)
					if !ok {
						return true
					}
					for i, st := range blk.List {
						as, ok := st.(*ast.AssignStmt)
						if !ok || len(as.Rhs) != 1 || len(as.Lhs) != 2 {
							continue
						}
						call, ok := ast.Unparen(as.Rhs[0]).(*ast.CallExpr)
						if !ok || len(call.Args) != 1 {
							continue
						}
						fn := p.Callee(f.Pkg, call)
						if fn == nil || fn.FullName() != "github.com/spq/pkappa2/internal/index.NewReader" {
							continue
						}
						name := identObj(info, call.Args[0])
						errObj := identObj(info, as.Lhs[1])
						if name == nil || errObj == nil || i+1 >= len(blk.List) {
							continue
						}
						ifs, ok := blk.List[i+1].(*ast.IfStmt)
						if !ok {
							continue
						}
						be, ok := ast.Unparen(ifs.Cond).(*ast.BinaryExpr)
						if !ok || be.Op != token.NEQ || identObj(info, be.X) != errObj {
							continue
						}
						n++
						removes := false
						for _, c := range callsInDeep(ifs.Body) {
							g := p.Callee(f.Pkg, c)
							if g == nil {
								continue
							}
							if g.FullName() == "os.Remove" && len(c.Args) == 1 && identObj(info, c.Args[0]) == name {
								removes = true
							}
							// a helper of the package that is handed the name and removes the file named by that parameter
							if h := p.FnOfObj(g); h != nil && h.Short == "manager" && h.Lit == nil && h.Body() != nil && h.Decl.Type.Params != nil {
								k := 0
								for _, fld := range h.Decl.Type.Params.List {
									for _, nm := range fld.Names {
										if k < len(c.Args) && identObj(info, c.Args[k]) == name {
											po := h.Pkg.TypesInfo.Defs[nm]
											for _, c2 := range callsInDeep(h.Body()) {
												if g2 := p.Callee(h.Pkg, c2); g2 != nil && g2.FullName() == "os.Remove" && len(c2.Args) == 1 && identObj(h.Pkg.TypesInfo, c2.Args[0]) == po {
													removes = true
												}
											}
										}
										k++
									}
								}
							}
						}
						key := fmt.Sprintf("%s failure of index.NewReader", f.Key())
						r.Check(removes, rule, key, p.Pos(ifs), "the branch can delete the file", "the file that failed to load is only logged and skipped: a file left by a stop in the middle of an import or merge (no magic yet) is never loaded and never deleted — the index directory holds files the service does not serve from, for good")
					}
					return true
				})
			}
			r.Floor(rule, 1, n)
		})
}
