package main

// c03k.go: C03-k / C06-n a stored top-level condition set is not negated while it has no alternative.
//
// A ConditionsSet has two readings. Inside the parser an EMPTY set is the neutral element of And ("no restriction"), and
// ConditionsSet.invert keeps it empty. At top level — Query.Conditions, and TagDetails.Conditions, which is a stored
// Query.Conditions — the alternatives are what the search evaluates, and NO alternative means "matches nothing": Parse
// stores nil for an impossible query, and an empty mark tag (`id:-1`) has none. Negating such a set with invert() answers
// "no alternative" again: while mark/seen = id:-1 was pending for freshly imported streams, `-mark:seen` returned []
// instead of every stream (#61, probes/c03_negated_empty_tag).
//
// Rule (FLOW, value flow within the function): in package query a call X.invert() on a ConditionsSet X whose value derives
// — through a chain of method calls — from the field Conditions of a TagDetails or a Query is reached only over an edge
// on which X has been found non-empty (`len(X) != 0` / `> 0` true, `len(X) == 0` false).

import (
	"fmt"
	"go/ast"
	"go/token"
	"go/types"

	"golang.org/x/tools/go/cfg"
)

func init() {
	const expl = "(FLOW, value flow): in package query a ConditionsSet that derives, through a chain of method calls, from the stored top-level conditions of a tag or query (TagDetails.Conditions, Query.Conditions) is handed to ConditionsSet.invert only over an edge on which it was found non-empty. At top level 'no alternative' means 'matches nothing' (the stored form of an impossible query, of an empty mark tag), while invert reads the empty set as the parser's 'no restriction' and returns it unchanged: the negation of a pending tag that matches nothing then selects nothing instead of every pending stream."
	register("C03", "C03-k "+expl, func(p *Prog, r *Res) {
		ruleTopLevelSetNotInvertedEmpty(p, r, "C03-k stored-set-not-negated-while-empty")
	})
	register("C06", "C06-n "+expl, func(p *Prog, r *Res) {
		ruleTopLevelSetNotInvertedEmpty(p, r, "C06-n stored-set-not-negated-while-empty")
	})
}

func ruleTopLevelSetNotInvertedEmpty(p *Prog, r *Res, rule string) {
	r.Rule(rule + ": invert() of a set taken from TagDetails.Conditions / Query.Conditions is guarded by len != 0")
	inv := p.Method("query", "ConditionsSet", "invert")
	tdC := p.Field("query", "TagDetails", "Conditions")
	qC := p.Field("query", "Query", "Conditions")
	if inv == nil || tdC == nil || qC == nil {
		p.anchorFail("query.ConditionsSet.invert / TagDetails.Conditions / Query.Conditions")
		return
	}
	n := 0
	for _, f := range p.FnList {
		if f.Short != "query" || f.Body() == nil {
			continue
		}
		info := f.Pkg.TypesInfo
		// does the expression derive from a stored top-level set?  a.Conditions.m1(…).m2(…) → a.Conditions
		var derives func(e ast.Expr, seen map[types.Object]bool) bool
		defsOf := func(o types.Object) []ast.Expr {
			var out []ast.Expr
			inspectShallow(f.Body(), func(x ast.Node) bool {
				switch s := x.(type) {
				case *ast.AssignStmt:
					if len(s.Lhs) == len(s.Rhs) {
						for i, l := range s.Lhs {
							if identObj(info, l) == o {
								out = append(out, s.Rhs[i])
							}
						}
					}
				case *ast.ValueSpec:
					for i, nm := range s.Names {
						if info.Defs[nm] == o && i < len(s.Values) {
							out = append(out, s.Values[i])
						}
					}
				}
				return true
			})
			return out
		}
		derives = func(e ast.Expr, seen map[types.Object]bool) bool {
			e = ast.Unparen(e)
			switch x := e.(type) {
			case *ast.SelectorExpr:
				if o := info.Uses[x.Sel]; o == types.Object(tdC) || o == types.Object(qC) {
					return true
				}
				return false
			case *ast.CallExpr:
				if se, ok := ast.Unparen(x.Fun).(*ast.SelectorExpr); ok {
					if fn := p.Callee(f.Pkg, x); fn != nil && fn.Origin() == inv {
						return false // the result of a negation is not the stored set any more
					}
					if _, isMethod := info.Selections[se]; isMethod {
						return derives(se.X, seen)
					}
				}
				return false
			case *ast.Ident:
				o := info.Uses[x]
				if o == nil || seen[o] {
					return false
				}
				seen[o] = true
				for _, d := range defsOf(o) {
					if derives(d, seen) {
						return true
					}
				}
			}
			return false
		}
		var sites []*ast.CallExpr
		inspectShallow(f.Body(), func(x ast.Node) bool {
			if c, ok := x.(*ast.CallExpr); ok {
				if fn := p.Callee(f.Pkg, c); fn != nil && fn.Origin() == inv {
					if se, ok := ast.Unparen(c.Fun).(*ast.SelectorExpr); ok && derives(se.X, map[types.Object]bool{}) {
						sites = append(sites, c)
					}
				}
			}
			return true
		})
		for _, c := range sites {
			n++
			recv := ast.Unparen(c.Fun).(*ast.SelectorExpr).X
			rtxt := exprString(p.Fset, ast.Unparen(recv))
			key := fmt.Sprintf("%s negates %s", f.Key(), rtxt)
			fl := p.Flow(f)
			nonEmpty := func(e ast.Expr, trueEdge bool) bool {
				be, ok := ast.Unparen(e).(*ast.BinaryExpr)
				if !ok {
					return false
				}
				lc, ok := ast.Unparen(be.X).(*ast.CallExpr)
				if !ok || !isBuiltin(info, lc, "len") || len(lc.Args) != 1 || exprString(p.Fset, ast.Unparen(lc.Args[0])) != rtxt {
					return false
				}
				k, isC := constInt(info, be.Y)
				if !isC {
					return false
				}
				switch be.Op {
				case token.NEQ, token.GTR:
					return trueEdge && k == 0
				case token.GEQ:
					return trueEdge && k == 1
				case token.EQL, token.LEQ:
					return !trueEdge && k == 0
				case token.LSS:
					return !trueEdge && k == 1
				}
				return false
			}
			fl.EdgeOK = func(b *cfg.Block, succ int) bool {
				if len(b.Succs) != 2 || len(b.Nodes) == 0 {
					return true
				}
				cond, ok := b.Nodes[len(b.Nodes)-1].(ast.Expr)
				if !ok {
					return true
				}
				if succ == 0 {
					for _, cj := range conjuncts(cond) {
						if nonEmpty(cj, true) {
							return false
						}
					}
				} else {
					for _, dj := range disjuncts(cond) {
						if nonEmpty(dj, false) {
							return false
						}
					}
				}
				return true
			}
			pt, ok := fl.PointOf(c)
			if !ok {
				fl.EdgeOK = nil
				r.Undecided(rule, key, p.Pos(c), "call not found in the CFG")
				continue
			}
			target := fl.node(pt)
			res := fl.Reach([]Pt{fl.Entry()}, func(nd ast.Node) bool { return nd == target }, nil)
			fl.EdgeOK = nil
			r.Check(!res.Found, rule, key, p.Pos(c), "reached only where len("+rtxt+") != 0", rtxt+" derives from the stored conditions of a tag or query, where no alternative means 'matches nothing', and is negated without having been found non-empty ("+fl.traceString(res)+"): invert() returns the empty set unchanged, so the negation of a pending tag that matches nothing (an empty mark, an impossible definition) selects none of the pending streams instead of all of them")
		}
	}
	r.Floor(rule, 1, n)
}
