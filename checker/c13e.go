package main

// c13e.go: C13-e created-outputs-removed-on-failure.
//
// Merge and the importer create index files through index.NewWriter and collect the writers in a slice. When the
// operation fails the files never become part of the service's index list, so nothing will ever delete them later:
// the failing return itself has to. The rule finds every collection X of writers created by index.NewWriter and
// requires, in the declared function that owns X, that
//   (1) every block that ends in a failing return and is reached after the creation loop contains a range over X
//       (or a sub-slice of X), and
//   (2) every range over X or a sub-slice of X in such a block calls os.Remove on the element's file name.

import (
	"fmt"
	"go/ast"
	"go/token"
	"go/types"
	"golang.org/x/tools/go/cfg"
)

func init() {
	register("C13",
		"C13-e (AST, typed): index files created by index.NewWriter and collected in a slice X (Merge's ws, the importer's indexBuilders) are deleted again when the operation fails: every block of the owning function that ends in a failing return and lies after the creating loop ranges over X (or a sub-slice X[k:]), and every such range calls os.Remove on the element's file name; otherwise a failed merge or import leaves an orphan .idx file that no use count will ever reach.",
		ruleC13Orphans)
}

func ruleC13Orphans(p *Prog, r *Res) {
	const rule = "C13-e created-outputs-removed-on-failure"
	r.Rule(rule + ": writers created by index.NewWriter are closed and their files removed on every failing return of the creating function")
	newWriter := p.Func("index", "NewWriter")
	if newWriter == nil {
		p.anchorFail("index.NewWriter")
		return
	}
	nColl := 0
	for _, f := range p.FnList {
		if f.Lit != nil || f.Body() == nil || f.Pkg.Types == nil {
			continue
		}
		info := f.Pkg.TypesInfo
		// locals assigned from NewWriter, then appended to a collection
		created := map[types.Object]bool{}
		ast.Inspect(f.Body(), func(x ast.Node) bool {
			if as, ok := x.(*ast.AssignStmt); ok && len(as.Rhs) == 1 {
				if c, ok := as.Rhs[0].(*ast.CallExpr); ok {
					if fn := p.Callee(f.Pkg, c); fn != nil && fn.Origin() == newWriter {
						if o := identObj(info, as.Lhs[0]); o != nil {
							created[o] = true
						}
					}
				}
			}
			return true
		})
		if len(created) == 0 {
			continue
		}
		colls := map[types.Object]ast.Node{}
		ast.Inspect(f.Body(), func(x ast.Node) bool {
			as, ok := x.(*ast.AssignStmt)
			if !ok || len(as.Lhs) != 1 || len(as.Rhs) != 1 {
				return true
			}
			c, ok := as.Rhs[0].(*ast.CallExpr)
			if !ok || !isBuiltin(info, c, "append") || len(c.Args) < 2 {
				return true
			}
			x0 := identObj(info, as.Lhs[0])
			if x0 == nil || !sameObj(info, c.Args[0], x0) {
				return true
			}
			for _, a := range c.Args[1:] {
				if o := identObj(info, a); o != nil && created[o] {
					colls[x0] = as
				}
			}
			return true
		})
		for X, creation := range colls {
			nColl++
			rangesX := func(e ast.Expr) bool {
				e = ast.Unparen(e)
				if se, ok := e.(*ast.SliceExpr); ok {
					e = ast.Unparen(se.X)
				}
				return sameObj(info, e, X)
			}
			// blocks of the declared function (not nested literals) ending in a failing return, after the creation
			nBlocks := 0
			inspectShallow(f.Body(), func(x ast.Node) bool {
				blk, ok := x.(*ast.BlockStmt)
				if !ok || len(blk.List) == 0 || blk.Pos() < creation.End() {
					return true
				}
				ret, ok := blk.List[len(blk.List)-1].(*ast.ReturnStmt)
				if !ok || !isErrReturn(info, ret) {
					return true
				}
				nBlocks++
				key := fmt.Sprintf("%s failing return#%d cleans up %s", f.Key(), nBlocks, X.Name())
				covered, missing := false, ""
				for _, st := range blk.List {
					// a cleanup helper called with X (or a sub-slice): judged by the helper's own loop over its parameter
					if es, isExpr := st.(*ast.ExprStmt); isExpr {
						if hc, isCall := es.X.(*ast.CallExpr); isCall {
							for ai, a := range hc.Args {
								if !rangesX(a) {
									continue
								}
								if fn := p.Callee(f.Pkg, hc); fn != nil {
									if h := p.FnOfObj(fn); h != nil && h.Body() != nil {
										covered = true
										if !helperRemovesEach(p, h, paramObj(h, ai)) {
											missing = "the helper " + h.Key() + " called at line " + fmt.Sprint(lineOf(p.Fset, hc)) + " does not os.Remove the file of every element of its parameter"
										}
									}
								}
							}
						}
					}
					rs, ok := st.(*ast.RangeStmt)
					if !ok || !rangesX(rs.X) {
						continue
					}
					covered = true
					// a clean-up over X[lo:] inside `for k, x := range X` has to start at the element being handled: lo is
					// absent, 0 or k — or the block removes x's file itself
					if se, isSl := ast.Unparen(rs.X).(*ast.SliceExpr); isSl && se.Low != nil {
						if k0, isC := constInt(info, se.Low); !(isC && k0 == 0) {
							var encKey, encVal types.Object
							inspectParents(f.Body(), func(y ast.Node, parents []ast.Node) bool {
								if y == ast.Node(blk) {
									for _, par := range parents {
										if ers, ok := par.(*ast.RangeStmt); ok && sameObj(info, ers.X, X) {
											encKey, encVal = identObj(info, ers.Key), identObj(info, ers.Value)
										}
									}
								}
								return true
							})
							// only inside a loop over X there is an "element being handled"
							if lo := identObj(info, se.Low); (encKey != nil || encVal != nil) && (lo == nil || lo != encKey) {
								removesCurrent := false
								for _, st2 := range blk.List {
									ast.Inspect(st2, func(y ast.Node) bool {
										if _, isRange := y.(*ast.RangeStmt); isRange {
											return false
										}
										if c, ok := y.(*ast.CallExpr); ok {
											if fn := p.Callee(f.Pkg, c); fn != nil && fn.FullName() == "os.Remove" && len(c.Args) == 1 {
												ast.Inspect(c.Args[0], func(z ast.Node) bool {
													if id, ok := z.(*ast.Ident); ok && encVal != nil && info.Uses[id] == encVal {
														removesCurrent = true
													}
													return true
												})
											}
										}
										return true
									})
								}
								if !removesCurrent {
									missing = "the clean-up loop at line " + fmt.Sprint(lineOf(p.Fset, rs)) + " starts at " + types.ExprString(se.Low) + ", behind the element whose handling failed, and nothing else removes that element's file"
								}
							}
						}
					}
					elem := identObj(info, rs.Value)
					removes := false
					ast.Inspect(rs.Body, func(y ast.Node) bool {
						if c, ok := y.(*ast.CallExpr); ok {
							if fn := p.Callee(f.Pkg, c); fn != nil && fn.FullName() == "os.Remove" && len(c.Args) == 1 {
								ast.Inspect(c.Args[0], func(z ast.Node) bool {
									if id, ok := z.(*ast.Ident); ok && elem != nil && info.Uses[id] == elem {
										removes = true
									}
									return true
								})
							}
						}
						return true
					})
					if !removes && missing == "" {
						missing = "the loop over " + types.ExprString(rs.X) + " at line " + fmt.Sprint(lineOf(p.Fset, rs)) + " does not os.Remove the element's file"
					}
				}
				switch {
				case !covered:
					r.Bad(rule, key, p.Pos(ret), "failing return without a loop over "+X.Name()+": the files created by index.NewWriter stay in the index directory, unreferenced")
				case missing != "":
					r.Bad(rule, key, p.Pos(ret), missing+": a partly written .idx file of the failed operation is left behind for ever")
				default:
					r.Ok(rule, key, p.Pos(ret), "ranges over "+X.Name()+" and removes each file")
				}
				return true
			})
			if nBlocks == 0 {
				r.Undecided(rule, fmt.Sprintf("%s collection %s", f.Key(), X.Name()), p.Pos(creation), "writers are collected but the function has no failing return after the creation loop: cleanup cannot be located")
			}
		}
	}
	r.Floor(rule+" collections", 2, nColl)
}

// ---- C13-f: the list a holder reads is the list it locked ----

func init() {
	register("C13",
		"C13-f (FRESH-slices): getIndexesCopy takes the use counts on the readers it returns; the returned list must be a private copy, not a window into Manager.indexes: merges rewrite that array in place, so a holder of a window would start reading replacement readers on which it holds no count — they can be closed and deleted under it, while the readers it does hold counts on are no longer the ones it reads.",
		func(p *Prog, r *Res) {
			const rule = "C13-f held-list-is-read-list"
			r.Rule(rule + ": every result of getIndexesCopy is an owned copy")
			f := p.Fn("manager.Manager.getIndexesCopy")
			if f == nil {
				return
			}
			oc := newOwnCtx(p)
			oc.strict = true
			n := 0
			inspectShallow(f.Body(), func(x ast.Node) bool {
				if rs, ok := x.(*ast.ReturnStmt); ok {
					for i, res := range rs.Results {
						if _, isSlice := f.Pkg.TypesInfo.TypeOf(res).Underlying().(*types.Slice); !isSlice {
							continue
						}
						n++
						okO, why := oc.owned(f, res)
						r.Check(okO, rule, fmt.Sprintf("manager.Manager.getIndexesCopy result#%d is an owned copy", i), p.Pos(rs), why, "the holder reads through a window into Manager.indexes: after a merge it reads readers it holds no use count on ("+why+")")
					}
				}
				return true
			})
			r.Floor(rule, 2, n)
		})
}

// helperRemovesEach: h ranges over its slice parameter par and calls os.Remove on something derived from the element.
func helperRemovesEach(p *Prog, h *Fn, par types.Object) bool {
	if par == nil {
		return false
	}
	info := h.Pkg.TypesInfo
	found := false
	inspectShallow(h.Body(), func(x ast.Node) bool {
		rs, ok := x.(*ast.RangeStmt)
		if !ok || !sameObj(info, rs.X, par) {
			return true
		}
		elem := identObj(info, rs.Value)
		ast.Inspect(rs.Body, func(y ast.Node) bool {
			if c, ok := y.(*ast.CallExpr); ok {
				if fn := p.Callee(h.Pkg, c); fn != nil && fn.FullName() == "os.Remove" && len(c.Args) == 1 {
					ast.Inspect(c.Args[0], func(z ast.Node) bool {
						if id, ok := z.(*ast.Ident); ok && elem != nil && info.Uses[id] == elem {
							found = true
						}
						return true
					})
				}
			}
			return true
		})
		return true
	})
	return found
}

// ---- C13-g: the service's hold on a window of its list is dropped only together with the window ----

func init() {
	const expl = "C13-g (FLOW, the converse of C13-b): a release of the service's own hold on a window of Manager.indexes — indexReleaser(mgr.indexes[a:b]).release(mgr), directly or through a local — is followed on every path to the end of the closure by an assignment to Manager.indexes (the splice that removes the window). Releasing first and replacing only on success leaves, after a failed merge, readers in the list that the service no longer holds: they are closed and deleted while views still get them."
	register("C13", expl, ruleC13ReleaseImpliesRemoval)
	register("C10", "C10-f = "+expl, ruleC13ReleaseImpliesRemoval)
}

func ruleC13ReleaseImpliesRemoval(p *Prog, r *Res) {
	const rule = "C13-g release-implies-removal"
	r.Rule(rule + ": a window of Manager.indexes is released only on paths that also remove it from the list")
	idxFld := p.Field("manager", "Manager", "indexes")
	relM := p.Method("manager", "indexReleaser", "release")
	if idxFld == nil || relM == nil {
		p.anchorFail("manager.Manager.indexes / manager.indexReleaser.release")
		return
	}
	n := 0
	for _, f := range p.FnList {
		if f.Short != "manager" || f.Body() == nil {
			continue
		}
		info := f.Pkg.TypesInfo
		// locals holding a window of Manager.indexes converted to indexReleaser
		window := map[types.Object]string{}
		winExpr := func(e ast.Expr) (string, bool) {
			c, ok := ast.Unparen(e).(*ast.CallExpr)
			if !ok || len(c.Args) != 1 {
				return "", false
			}
			if tv, ok := info.Types[c.Fun]; !ok || !tv.IsType() {
				return "", false
			}
			arg := ast.Unparen(c.Args[0])
			// a copy of the window (append([]T(nil), w...), slices.Clone(w)) holds the same readers
			for {
				cc, ok := arg.(*ast.CallExpr)
				if !ok {
					break
				}
				if isBuiltin(info, cc, "append") && len(cc.Args) == 2 && cc.Ellipsis.IsValid() && isEmptySliceExpr(cc.Args[0]) {
					arg = ast.Unparen(cc.Args[1])
					continue
				}
				if fn := p.Callee(f.Pkg, cc); fn != nil && fn.Pkg() != nil && fn.Pkg().Path() == "slices" && fn.Name() == "Clone" && len(cc.Args) == 1 {
					arg = ast.Unparen(cc.Args[0])
					continue
				}
				break
			}
			sl, ok := arg.(*ast.SliceExpr)
			if !ok || !isFieldOf(info, sl.X, idxFld) {
				return "", false
			}
			return types.ExprString(sl), true
		}
		inspectShallow(f.Body(), func(x ast.Node) bool {
			if as, ok := x.(*ast.AssignStmt); ok && len(as.Lhs) == len(as.Rhs) {
				for i, rh := range as.Rhs {
					if w, ok := winExpr(rh); ok {
						if o := identObj(info, as.Lhs[i]); o != nil {
							window[o] = w
						}
					}
				}
			}
			return true
		})
		var fl *Flow
		isRelease := func(nd ast.Node) (bool, string) {
			hit, w := false, ""
			inspectShallow(nd, func(y ast.Node) bool {
				c, ok := y.(*ast.CallExpr)
				if !ok || p.Callee(f.Pkg, c) != relM {
					return true
				}
				se, ok := ast.Unparen(c.Fun).(*ast.SelectorExpr)
				if !ok {
					return true
				}
				if o := identObj(info, se.X); o != nil && window[o] != "" {
					hit, w = true, window[o]
				}
				if ww, ok := winExpr(se.X); ok {
					hit, w = true, ww
				}
				return true
			})
			return hit, w
		}
		isListChange := func(nd ast.Node) bool {
			as, ok := nd.(*ast.AssignStmt)
			if !ok {
				return false
			}
			for _, l := range as.Lhs {
				if isFieldOf(info, l, idxFld) {
					return true
				}
			}
			return false
		}
		if len(window) == 0 {
			// still look for direct conversions in release calls
			has := false
			inspectShallow(f.Body(), func(x ast.Node) bool {
				if h, _ := isRelease(x); h {
					has = true
				}
				return !has
			})
			if !has {
				continue
			}
		}
		fl = p.Flow(f)
		for _, pt := range fl.Find(func(nd ast.Node) bool { h, _ := isRelease(nd); return h }) {
			_, w := isRelease(fl.node(pt))
			n++
			key := fmt.Sprintf("%s release of %s", f.Key(), w)
			res := fl.ExitAvoiding([]Pt{After(pt)}, isListChange)
			// an implicit end of the closure without return statement: ExitAvoiding only sees returns; closures
			// ending by falling off the end have a synthetic return in go/cfg? — covered by treating block ends below
			// the splice may also come first (release of a copied window after the list was replaced): then it lies on every
			// path from the entry of the closure to the release
			if before := fl.Reach([]Pt{fl.Entry()}, func(nd ast.Node) bool { return nd == fl.node(pt) }, isListChange); !before.Found {
				r.Ok(rule, key, p.Pos(fl.node(pt)), "the window was removed from Manager.indexes on every path to this release")
				continue
			}
			if res.Found || fallsOffEndAvoiding(fl, After(pt), isListChange) {
				r.Bad(rule, key, p.Pos(fl.node(pt)), "the service's hold on "+w+" is dropped, but a path to the end of the closure leaves these readers in Manager.indexes: their use count can reach zero while the list (and every later view) still contains them — the files are closed and deleted under their readers")
			} else {
				r.Ok(rule, key, p.Pos(fl.node(pt)), "every path after the release replaces the window in Manager.indexes")
			}
		}
	}
	r.Floor(rule, 1, n)
}

// fallsOffEndAvoiding: a block without successors (end of the function body, no return statement) is reachable from
// start without passing a node satisfying pass.
func fallsOffEndAvoiding(fl *Flow, start Pt, pass func(ast.Node) bool) bool {
	type st struct{ pt Pt }
	seen := map[Pt]bool{}
	work := []Pt{start}
	for len(work) > 0 {
		pt := work[0]
		work = work[1:]
		if seen[pt] {
			continue
		}
		seen[pt] = true
		if pt.I < len(pt.B.Nodes) {
			n := pt.B.Nodes[pt.I]
			if pass(n) || isReturn(n) {
				continue
			}
			work = append(work, Pt{pt.B, pt.I + 1})
			continue
		}
		if len(pt.B.Succs) == 0 {
			// go/cfg ends the chain of a select without default in a block without successors: the select blocks
			// there until a case is ready, control does not leave the function
			if pt.B.Kind == cfg.KindSelectAfterCase {
				continue
			}
			return true
		}
		for si, s := range pt.B.Succs {
			if fl.EdgeOK != nil && !fl.EdgeOK(pt.B, si) {
				continue
			}
			work = append(work, Pt{s, 0})
		}
	}
	return false
}

// ---- C13-h / C07-h: the offset a job splices at is the offset its run was taken from ----

func init() {
	const expl = "C07-h (AST, typed): a job that is handed a run of Manager.indexes taken with getIndexesCopy(S), together with an integer that the job's completion uses as a bound of a slice of Manager.indexes (the offset of the run), is started with that integer equal to S — the same expression. A loop-relative index passed as the offset makes the completion replace a different run than the one that was merged: an unmerged file is dropped from the list and deleted."
	register("C07", expl, ruleJobOffsetAgrees)
	register("C13", "C13-h = "+expl, ruleJobOffsetAgrees)
}

func ruleJobOffsetAgrees(p *Prog, r *Res) {
	const rule = "C07-h job-offset-is-snapshot-offset"
	r.Rule(rule + ": the run offset handed to a job equals the start of the run handed to it")
	idxFld := p.Field("manager", "Manager", "indexes")
	copyM := p.Method("manager", "Manager", "getIndexesCopy")
	if idxFld == nil || copyM == nil {
		p.anchorFail("manager.Manager.indexes / getIndexesCopy")
		return
	}
	ctx := p.Contexts()
	n := 0
	for _, gs := range ctx.GoSites {
		if gs.In.Short != "manager" || gs.Callee == nil {
			continue
		}
		f := gs.In
		info := f.Pkg.TypesInfo
		// start expression of the list argument
		start := ""
		var startExpr ast.Expr
		for _, a := range gs.Stmt.Call.Args {
			obj := identObj(info, a)
			if obj == nil {
				continue
			}
			inspectShallow(f.Body(), func(x ast.Node) bool {
				if as, ok := x.(*ast.AssignStmt); ok && len(as.Rhs) == 1 && len(as.Lhs) >= 1 && sameObj(info, as.Lhs[0], obj) {
					if c, ok := as.Rhs[0].(*ast.CallExpr); ok && p.Callee(f.Pkg, c) == copyM && len(c.Args) == 1 {
						start = exprString(p.Fset, c.Args[0])
						startExpr = c.Args[0]
					}
				}
				return true
			})
		}
		if start == "" {
			continue
		}
		callee := gs.Callee
		for i, a := range gs.Stmt.Call.Args {
			t := info.TypeOf(a)
			if b, ok := t.Underlying().(*types.Basic); !ok || b.Info()&types.IsInteger == 0 {
				continue
			}
			po := paramObj(callee, i)
			if po == nil {
				continue
			}
			// does the callee (incl. its closures and the package helpers it hands the value to) use the parameter as a bound
			// of a slice of Manager.indexes?
			usedAsBound := boundsIndexes(p, callee, po, idxFld, 2)
			if !usedAsBound {
				continue
			}
			n++
			// locals that are defined exactly once stand for their defining expression (off := i)
			var norm func(e ast.Expr, depth int) string
			norm = func(e ast.Expr, depth int) string {
				e = ast.Unparen(e)
				if id, ok := e.(*ast.Ident); ok && depth < 4 {
					if o := info.Uses[id]; o != nil {
						var def ast.Expr
						nDef := 0
						inspectShallow(f.Body(), func(x ast.Node) bool {
							switch s := x.(type) {
							case *ast.AssignStmt:
								for k, l := range s.Lhs {
									if identObj(info, l) == o {
										nDef++
										if len(s.Lhs) == len(s.Rhs) && (s.Tok == token.DEFINE || s.Tok == token.ASSIGN) {
											def = s.Rhs[k]
										} else {
											nDef++
										}
									}
								}
							case *ast.IncDecStmt:
								if identObj(info, s.X) == o {
									nDef += 2
								}
							case *ast.RangeStmt:
								if identObj(info, s.Key) == o || identObj(info, s.Value) == o {
									nDef += 2
								}
							}
							return true
						})
						if nDef == 1 && def != nil {
							return norm(def, depth+1)
						}
					}
				}
				return exprString(p.Fset, e)
			}
			got := norm(a, 0)
			if startExpr != nil {
				start = norm(startExpr, 0)
			}
			key := fmt.Sprintf("%s: go %s(… %s …) offset", f.Key(), types.ExprString(gs.Stmt.Call.Fun), po.Name())
			r.Check(got == start, rule, key, p.Pos(gs.Stmt), "offset argument "+got+" is the start of getIndexesCopy("+start+")", "the job is handed the run Manager.indexes["+start+":] but told that it starts at "+got+": its completion replaces (and releases) a different run than the one it merged")
		}
	}
	r.Floor(rule, 1, n)
}

// ---- C13-i: a release gives back every count it holds ----

func init() {
	register("C13",
		"C13-i (AST): indexReleaser.release walks the whole releaser: the range loop over the released readers contains no return, no unlabelled break and no goto, so a failing Close/Remove of one superseded file cannot leave the counts of the remaining readers of that releaser held for ever.",
		func(p *Prog, r *Res) {
			const rule = "C13-i release-is-total"
			r.Rule(rule + ": the loop in indexReleaser.release visits every reader of the releaser")
			f := p.Fn("manager.indexReleaser.release")
			if f == nil {
				p.anchorFail("manager.indexReleaser.release")
				return
			}
			n := 0
			inspectShallow(f.Body(), func(x ast.Node) bool {
				rs, ok := x.(*ast.RangeStmt)
				if !ok {
					return true
				}
				n++
				bad := ""
				var walk func(nd ast.Node, inner int)
				walk = func(nd ast.Node, inner int) {
					ast.Inspect(nd, func(y ast.Node) bool {
						switch s := y.(type) {
						case *ast.FuncLit:
							return false
						case *ast.ForStmt:
							walk(s.Body, inner+1)
							return false
						case *ast.RangeStmt:
							if s != rs {
								walk(s.Body, inner+1)
								return false
							}
						case *ast.SwitchStmt, *ast.TypeSwitchStmt, *ast.SelectStmt:
							// a break inside leaves the switch, not the loop
							ast.Inspect(s, func(z ast.Node) bool {
								if rt, ok := z.(*ast.ReturnStmt); ok {
									bad = "return at " + p.Pos(rt)
								}
								return true
							})
							return false
						case *ast.ReturnStmt:
							bad = "return at " + p.Pos(s)
						case *ast.BranchStmt:
							if (s.Tok == token.BREAK && s.Label == nil && inner == 0) || s.Tok == token.GOTO {
								bad = s.Tok.String() + " at " + p.Pos(s)
							}
						}
						return true
					})
				}
				walk(rs.Body, 0)
				r.Check(bad == "", rule, "manager.indexReleaser.release loop over the releaser", p.Pos(rs), "no return/break inside the loop", "the loop can be left early ("+bad+"): the readers after that point keep the counts this releaser held — their files stay open and on disk for ever")
				return true
			})
			r.Floor(rule, 1, n)
		})
}

// boundsIndexes: fn (closures included) uses the variable v — or a local derived from it — as a bound of a slice
// expression on Manager.indexes, directly or through a package function it passes the value to (depth levels).
func boundsIndexes(p *Prog, fn *Fn, v types.Object, idxFld *types.Var, depth int) bool {
	if fn == nil || fn.Body() == nil || depth < 0 {
		return false
	}
	info := fn.Pkg.TypesInfo
	derived := map[types.Object]bool{v: true}
	mentions := func(e ast.Node) bool {
		hit := false
		ast.Inspect(e, func(y ast.Node) bool {
			if id, ok := y.(*ast.Ident); ok && derived[info.Uses[id]] {
				hit = true
			}
			return !hit
		})
		return hit
	}
	for changed := true; changed; {
		changed = false
		ast.Inspect(fn.Body(), func(x ast.Node) bool {
			if as, ok := x.(*ast.AssignStmt); ok && len(as.Lhs) == len(as.Rhs) {
				for i, l := range as.Lhs {
					if o := identObj(info, l); o != nil && !derived[o] && mentions(as.Rhs[i]) {
						if b, ok := o.Type().Underlying().(*types.Basic); ok && b.Info()&types.IsInteger != 0 {
							derived[o] = true
							changed = true
						}
					}
				}
			}
			return true
		})
	}
	used := false
	ast.Inspect(fn.Body(), func(x ast.Node) bool {
		if used {
			return false
		}
		switch s := x.(type) {
		case *ast.SliceExpr:
			if isFieldOf(info, s.X, idxFld) {
				for _, bnd := range []ast.Expr{s.Low, s.High} {
					if bnd != nil && mentions(bnd) {
						used = true
					}
				}
			}
		case *ast.CallExpr:
			callee := p.Callee(fn.Pkg, s)
			if callee == nil {
				return true
			}
			h := p.FnOfObj(callee)
			if h == nil || h == fn || h.Pkg != fn.Pkg {
				// slices.Replace(mgr.indexes, i, j, …) and friends
				if callee.Pkg() != nil && callee.Pkg().Path() == "slices" && len(s.Args) >= 2 && isFieldOf(info, s.Args[0], idxFld) {
					for _, a := range s.Args[1:] {
						if mentions(a) {
							used = true
						}
					}
				}
				return true
			}
			for i, a := range s.Args {
				if mentions(a) {
					if po := paramObj(h, i); po != nil && boundsIndexes(p, h, po, idxFld, depth-1) {
						used = true
					}
				}
			}
		}
		return true
	})
	return used
}
