package main

// c13e.go: C13-e created-outputs-removed-on-failure.
//
// Merge and the importer create index files through index.NewWriter and collect the writers in a slice. When the
// operation fails the files never become part of the service's index list, so nothing will ever delete them later:
// the failing return itself has to. The rule finds every collection X of writers created by index.NewWriter and
// requires, in the declared function that owns X, that
//   (1) every block that ends in a failing return and is reached after the creation loop contains a range over X
//       (or a sub-slice of X), and
//   (2) every range over X or a sub-slice of X in such a block calls os.Remove on the element's file name.

import (
	"fmt"
	"go/ast"
	"go/types"
)

func init() {
	register("C13",
		"C13-e (AST, typed): index files created by index.NewWriter and collected in a slice X (Merge's ws, the importer's indexBuilders) are deleted again when the operation fails: every block of the owning function that ends in a failing return and lies after the creating loop ranges over X (or a sub-slice X[k:]), and every such range calls os.Remove on the element's file name; otherwise a failed merge or import leaves an orphan .idx file that no use count will ever reach.",
		ruleC13Orphans)
}

func ruleC13Orphans(p *Prog, r *Res) {
	const rule = "C13-e created-outputs-removed-on-failure"
	r.Rule(rule + ": writers created by index.NewWriter are closed and their files removed on every failing return of the creating function")
	newWriter := p.Func("index", "NewWriter")
	if newWriter == nil {
		p.anchorFail("index.NewWriter")
		return
	}
	nColl := 0
	for _, f := range p.FnList {
		if f.Lit != nil || f.Body() == nil || f.Pkg.Types == nil {
			continue
		}
		info := f.Pkg.TypesInfo
		// locals assigned from NewWriter, then appended to a collection
		created := map[types.Object]bool{}
		ast.Inspect(f.Body(), func(x ast.Node) bool {
			if as, ok := x.(*ast.AssignStmt); ok && len(as.Rhs) == 1 {
				if c, ok := as.Rhs[0].(*ast.CallExpr); ok {
					if fn := p.Callee(f.Pkg, c); fn != nil && fn.Origin() == newWriter {
						if o := identObj(info, as.Lhs[0]); o != nil {
							created[o] = true
						}
					}
				}
			}
			return true
		})
		if len(created) == 0 {
			continue
		}
		colls := map[types.Object]ast.Node{}
		ast.Inspect(f.Body(), func(x ast.Node) bool {
			as, ok := x.(*ast.AssignStmt)
			if !ok || len(as.Lhs) != 1 || len(as.Rhs) != 1 {
				return true
			}
			c, ok := as.Rhs[0].(*ast.CallExpr)
			if !ok || !isBuiltin(info, c, "append") || len(c.Args) < 2 {
				return true
			}
			x0 := identObj(info, as.Lhs[0])
			if x0 == nil || !sameObj(info, c.Args[0], x0) {
				return true
			}
			for _, a := range c.Args[1:] {
				if o := identObj(info, a); o != nil && created[o] {
					colls[x0] = as
				}
			}
			return true
		})
		for X, creation := range colls {
			nColl++
			rangesX := func(e ast.Expr) bool {
				e = ast.Unparen(e)
				if se, ok := e.(*ast.SliceExpr); ok {
					e = ast.Unparen(se.X)
				}
				return sameObj(info, e, X)
			}
			// blocks of the declared function (not nested literals) ending in a failing return, after the creation
			nBlocks := 0
			inspectShallow(f.Body(), func(x ast.Node) bool {
				blk, ok := x.(*ast.BlockStmt)
				if !ok || len(blk.List) == 0 || blk.Pos() < creation.End() {
					return true
				}
				ret, ok := blk.List[len(blk.List)-1].(*ast.ReturnStmt)
				if !ok || !isErrReturn(info, ret) {
					return true
				}
				nBlocks++
				key := fmt.Sprintf("%s failing return#%d cleans up %s", f.Key(), nBlocks, X.Name())
				covered, missing := false, ""
				for _, st := range blk.List {
					// a cleanup helper called with X (or a sub-slice): judged by the helper's own loop over its parameter
					if es, isExpr := st.(*ast.ExprStmt); isExpr {
						if hc, isCall := es.X.(*ast.CallExpr); isCall {
							for ai, a := range hc.Args {
								if !rangesX(a) {
									continue
								}
								if fn := p.Callee(f.Pkg, hc); fn != nil {
									if h := p.FnOfObj(fn); h != nil && h.Body() != nil {
										covered = true
										if !helperRemovesEach(p, h, paramObj(h, ai)) {
											missing = "the helper " + h.Key() + " called at line " + fmt.Sprint(lineOf(p.Fset, hc)) + " does not os.Remove the file of every element of its parameter"
										}
									}
								}
							}
						}
					}
					rs, ok := st.(*ast.RangeStmt)
					if !ok || !rangesX(rs.X) {
						continue
					}
					covered = true
					elem := identObj(info, rs.Value)
					removes := false
					ast.Inspect(rs.Body, func(y ast.Node) bool {
						if c, ok := y.(*ast.CallExpr); ok {
							if fn := p.Callee(f.Pkg, c); fn != nil && fn.FullName() == "os.Remove" && len(c.Args) == 1 {
								ast.Inspect(c.Args[0], func(z ast.Node) bool {
									if id, ok := z.(*ast.Ident); ok && elem != nil && info.Uses[id] == elem {
										removes = true
									}
									return true
								})
							}
						}
						return true
					})
					if !removes {
						missing = "the loop over " + types.ExprString(rs.X) + " at line " + fmt.Sprint(lineOf(p.Fset, rs)) + " does not os.Remove the element's file"
					}
				}
				switch {
				case !covered:
					r.Bad(rule, key, p.Pos(ret), "failing return without a loop over "+X.Name()+": the files created by index.NewWriter stay in the index directory, unreferenced")
				case missing != "":
					r.Bad(rule, key, p.Pos(ret), missing+": a partly written .idx file of the failed operation is left behind for ever")
				default:
					r.Ok(rule, key, p.Pos(ret), "ranges over "+X.Name()+" and removes each file")
				}
				return true
			})
			if nBlocks == 0 {
				r.Undecided(rule, fmt.Sprintf("%s collection %s", f.Key(), X.Name()), p.Pos(creation), "writers are collected but the function has no failing return after the creation loop: cleanup cannot be located")
			}
		}
	}
	r.Floor(rule+" collections", 2, nColl)
}

// ---- C13-f: the list a holder reads is the list it locked ----

func init() {
	register("C13",
		"C13-f (FRESH-slices): getIndexesCopy takes the use counts on the readers it returns; the returned list must be a private copy, not a window into Manager.indexes: merges rewrite that array in place, so a holder of a window would start reading replacement readers on which it holds no count — they can be closed and deleted under it, while the readers it does hold counts on are no longer the ones it reads.",
		func(p *Prog, r *Res) {
			const rule = "C13-f held-list-is-read-list"
			r.Rule(rule + ": every result of getIndexesCopy is an owned copy")
			f := p.Fn("manager.Manager.getIndexesCopy")
			if f == nil {
				return
			}
			oc := newOwnCtx(p)
			n := 0
			inspectShallow(f.Body(), func(x ast.Node) bool {
				if rs, ok := x.(*ast.ReturnStmt); ok {
					for i, res := range rs.Results {
						if _, isSlice := f.Pkg.TypesInfo.TypeOf(res).Underlying().(*types.Slice); !isSlice {
							continue
						}
						n++
						okO, why := oc.owned(f, res)
						r.Check(okO, rule, fmt.Sprintf("manager.Manager.getIndexesCopy result#%d is an owned copy", i), p.Pos(rs), why, "the holder reads through a window into Manager.indexes: after a merge it reads readers it holds no use count on ("+why+")")
					}
				}
				return true
			})
			r.Floor(rule, 2, n)
		})
}

// helperRemovesEach: h ranges over its slice parameter par and calls os.Remove on something derived from the element.
func helperRemovesEach(p *Prog, h *Fn, par types.Object) bool {
	if par == nil {
		return false
	}
	info := h.Pkg.TypesInfo
	found := false
	inspectShallow(h.Body(), func(x ast.Node) bool {
		rs, ok := x.(*ast.RangeStmt)
		if !ok || !sameObj(info, rs.X, par) {
			return true
		}
		elem := identObj(info, rs.Value)
		ast.Inspect(rs.Body, func(y ast.Node) bool {
			if c, ok := y.(*ast.CallExpr); ok {
				if fn := p.Callee(h.Pkg, c); fn != nil && fn.FullName() == "os.Remove" && len(c.Args) == 1 {
					ast.Inspect(c.Args[0], func(z ast.Node) bool {
						if id, ok := z.(*ast.Ident); ok && elem != nil && info.Uses[id] == elem {
							found = true
						}
						return true
					})
				}
			}
			return true
		})
		return true
	})
	return found
}
