package main

// pathkind.go: C08-f / C12-i path-kind agreement — a two-valued unit system for file-name fields.
//
// A string field that names a file is used either as a path component below a directory
// (filepath.Join(dir, x.F): the field must hold a BASE name) or directly as a path (os.Remove(x.F), os.Open(x.F): the
// field must hold a FULL path). Mixing the two is silent at run time: Remove(Join(dir, full)) fails with ENOENT and
// the error is logged or dropped, the superseded file stays, and after a restart the loader finds two candidates.
//   kind(e) = base   for filepath.Base(…), DirEntry/FileInfo.Name(), a field whose uses require base
//           = full   for filepath.Join(…), filepath.Abs(…), a package function all of whose returns are full
//                    (tools.MakeFilename), a field whose uses require full
//           = unknown otherwise (never reported)
// The requirement of a field is derived from its uses; a field with contradictory uses is reported as such.

import (
	"fmt"
	"go/ast"
	"go/types"
	"sort"
)

func init() {
	const expl = "(typed AST, a unit system with the kinds base-name / full-path): every string field of a struct of the repository that is used as a non-first argument of filepath.Join must hold a base name, every field handed directly to os.Open/OpenFile/Create/Remove/Rename/Stat/ReadFile/WriteFile (or index.NewReader) must hold a full path; every assignment to such a field (composite literals included) whose value has a known kind — filepath.Base, DirEntry/FileInfo.Name() are base names; filepath.Join, filepath.Abs and package functions that return such values (tools.MakeFilename) are full paths; locals and fields carry the kind of what they were assigned — has the required kind. A full path stored where a base name is expected makes the later Remove(Join(dir, name)) fail silently: the superseded snapshot (state, cache) file stays and a restart loads the stale one."
	register("C08", "C08-f "+expl, func(p *Prog, r *Res) { rulePathKind(p, r, "C08-f path-kind-agreement", []string{"builder"}) })
	register("C12", "C12-i "+expl, func(p *Prog, r *Res) {
		rulePathKind(p, r, "C12-i path-kind-agreement", []string{"manager", "converters", "builder"})
	})
}

func rulePathKind(p *Prog, r *Res, rule string, pkgs []string) {
	r.Rule(rule + ": file-name fields hold the kind of name their uses require")
	want := map[string]bool{}
	for _, s := range pkgs {
		want[s] = true
	}
	const (
		kUnknown = ""
		kBase    = "base name"
		kFull    = "full path"
	)
	// 1. requirements of fields from their uses (all packages: a field of package builder may be used elsewhere)
	req := map[*types.Var]map[string]string{} // field -> kind -> first use position
	note := func(fld *types.Var, kind, pos string) {
		if req[fld] == nil {
			req[fld] = map[string]string{}
		}
		if req[fld][kind] == "" {
			req[fld][kind] = pos
		}
	}
	fieldOfExpr := func(info *types.Info, e ast.Expr) *types.Var {
		se, ok := ast.Unparen(e).(*ast.SelectorExpr)
		if !ok {
			return nil
		}
		v, ok := info.Uses[se.Sel].(*types.Var)
		if !ok || !v.IsField() {
			return nil
		}
		if b, ok := v.Type().Underlying().(*types.Basic); !ok || b.Kind() != types.String {
			return nil
		}
		if v.Pkg() == nil || p.By[v.Pkg().Name()] == nil {
			return nil
		}
		return v
	}
	// a field used through a local copy (`prev := b.snapshotFilename; … Join(dir, prev)`) is used as that field
	fieldOfExprIn := func(f *Fn, info *types.Info, e ast.Expr) *types.Var {
		if v := fieldOfExpr(info, e); v != nil {
			return v
		}
		id, ok := ast.Unparen(e).(*ast.Ident)
		if !ok {
			return nil
		}
		o := info.Uses[id]
		if o == nil {
			return nil
		}
		var defs []ast.Expr
		ast.Inspect(f.Body(), func(n ast.Node) bool {
			if as, ok := n.(*ast.AssignStmt); ok {
				for i, l := range as.Lhs {
					if identObj(info, l) == o {
						if len(as.Lhs) == len(as.Rhs) {
							defs = append(defs, as.Rhs[i])
						} else {
							defs = append(defs, nil)
						}
					}
				}
			}
			return true
		})
		if len(defs) == 1 && defs[0] != nil {
			return fieldOfExpr(info, defs[0])
		}
		return nil
	}
	fullSinks := map[string]int{"os.Open": 0, "os.OpenFile": 0, "os.Create": 0, "os.Remove": 0, "os.Stat": 0, "os.Lstat": 0, "os.ReadFile": 0, "os.WriteFile": 0, "os.Rename": 0}
	for _, f := range p.FnList {
		if f.Body() == nil || f.Lit != nil {
			continue
		}
		info := f.Pkg.TypesInfo
		ast.Inspect(f.Body(), func(x ast.Node) bool {
			c, ok := x.(*ast.CallExpr)
			if !ok {
				return true
			}
			fn := p.Callee(f.Pkg, c)
			if fn == nil {
				return true
			}
			switch full := fn.FullName(); {
			case full == "path/filepath.Join":
				for i, a := range c.Args {
					if i == 0 {
						continue
					}
					if fld := fieldOfExprIn(f, info, a); fld != nil {
						note(fld, kBase, p.Pos(c))
					}
				}
			default:
				if idx, ok := fullSinks[full]; ok && idx < len(c.Args) {
					if fld := fieldOfExprIn(f, info, c.Args[idx]); fld != nil {
						note(fld, kFull, p.Pos(c))
					}
					if full == "os.Rename" && len(c.Args) > 1 {
						if fld := fieldOfExprIn(f, info, c.Args[1]); fld != nil {
							note(fld, kFull, p.Pos(c))
						}
					}
				}
			}
			return true
		})
	}
	required := func(fld *types.Var) string {
		m := req[fld]
		if len(m) != 1 {
			return kUnknown
		}
		for k := range m {
			return k
		}
		return kUnknown
	}
	// 2. kinds of expressions
	retKind := map[*Fn]string{}
	var kindOf func(f *Fn, e ast.Expr, depth int) string
	kindOfFn := func(h *Fn, depth int) string {
		if k, ok := retKind[h]; ok {
			return k
		}
		retKind[h] = kUnknown
		if h.Body() == nil || depth <= 0 {
			return kUnknown
		}
		kinds := map[string]bool{}
		inspectShallow(h.Body(), func(x ast.Node) bool {
			if ret, ok := x.(*ast.ReturnStmt); ok && len(ret.Results) >= 1 {
				kinds[kindOf(h, ret.Results[0], depth-1)] = true
			}
			return true
		})
		if len(kinds) == 1 {
			for k := range kinds {
				retKind[h] = k
			}
		}
		return retKind[h]
	}
	kindOf = func(f *Fn, e ast.Expr, depth int) string {
		info := f.Pkg.TypesInfo
		e = ast.Unparen(e)
		switch x := e.(type) {
		case *ast.CallExpr:
			fn := p.Callee(f.Pkg, x)
			if fn == nil {
				return kUnknown
			}
			switch fn.FullName() {
			case "path/filepath.Base":
				return kBase
			case "path/filepath.Join", "path/filepath.Abs":
				return kFull
			}
			if fn.Name() == "Name" && len(x.Args) == 0 {
				if se, ok := ast.Unparen(x.Fun).(*ast.SelectorExpr); ok {
					ts := types.TypeString(info.TypeOf(se.X), nil)
					if ts == "io/fs.DirEntry" || ts == "io/fs.FileInfo" || ts == "os.DirEntry" || ts == "os.FileInfo" {
						return kBase
					}
				}
			}
			if h := p.FnOfObj(fn); h != nil && h.Lit == nil {
				if sig, ok := fn.Type().(*types.Signature); ok && sig.Results().Len() >= 1 {
					if b, ok := sig.Results().At(0).Type().Underlying().(*types.Basic); ok && b.Kind() == types.String {
						return kindOfFn(h, depth)
					}
				}
			}
			return kUnknown
		case *ast.Ident:
			o, ok := info.Uses[x].(*types.Var)
			if !ok || depth <= 0 {
				return kUnknown
			}
			// a local: the kinds of everything assigned to it must agree
			kinds := map[string]bool{}
			root := f.Root()
			n := 0
			ast.Inspect(root.Body(), func(y ast.Node) bool {
				switch s := y.(type) {
				case *ast.AssignStmt:
					for i, l := range s.Lhs {
						if identObj(info, l) == types.Object(o) {
							n++
							if len(s.Lhs) == len(s.Rhs) {
								ef := p.EnclosingFn(f.Pkg, s.Pos())
								if ef == nil {
									ef = f
								}
								kinds[kindOf(ef, s.Rhs[i], depth-1)] = true
							} else {
								kinds[kUnknown] = true
							}
						}
					}
				case *ast.RangeStmt:
					if identObj(info, s.Key) == types.Object(o) || identObj(info, s.Value) == types.Object(o) {
						n++
						kinds[kUnknown] = true
					}
				}
				return true
			})
			if n >= 1 && len(kinds) == 1 {
				for k := range kinds {
					return k
				}
			}
			return kUnknown
		case *ast.SelectorExpr:
			if fld := fieldOfExpr(info, x); fld != nil {
				return required(fld)
			}
		}
		return kUnknown
	}
	// 3. assignments to fields with a requirement
	type asg struct {
		f   *Fn
		fld *types.Var
		val ast.Expr
		pos ast.Node
	}
	var asgs []asg
	for _, f := range p.FnList {
		if f.Body() == nil || f.Lit != nil || !want[f.Short] {
			continue
		}
		info := f.Pkg.TypesInfo
		ast.Inspect(f.Body(), func(x ast.Node) bool {
			switch s := x.(type) {
			case *ast.AssignStmt:
				if len(s.Lhs) != len(s.Rhs) {
					return true
				}
				for i, l := range s.Lhs {
					if fld := fieldOfExpr(info, l); fld != nil && required(fld) != kUnknown {
						ef := p.EnclosingFn(f.Pkg, s.Pos())
						if ef == nil {
							ef = f
						}
						asgs = append(asgs, asg{ef, fld, s.Rhs[i], s})
					}
				}
			case *ast.CompositeLit:
				for _, el := range s.Elts {
					kv, ok := el.(*ast.KeyValueExpr)
					if !ok {
						continue
					}
					id, ok := kv.Key.(*ast.Ident)
					if !ok {
						continue
					}
					if fld, ok := info.Uses[id].(*types.Var); ok && fld.IsField() && required(fld) != kUnknown {
						ef := p.EnclosingFn(f.Pkg, kv.Pos())
						if ef == nil {
							ef = f
						}
						asgs = append(asgs, asg{ef, fld, kv.Value, kv})
					}
				}
			}
			return true
		})
	}
	n := 0
	for _, a := range asgs {
		n++
		need := required(a.fld)
		got := kindOf(a.f, a.val, 4)
		owner := "?"
		if a.fld.Pkg() != nil {
			owner = a.fld.Pkg().Name()
		}
		key := fmt.Sprintf("%s: %s.%s = %s", a.f.Key(), owner, a.fld.Name(), exprString(p.Fset, a.val))
		switch {
		case got == kUnknown:
			r.Exempt(rule, key, p.Pos(a.pos), "kind of the value not known to this analysis (a parameter, a computed string); field requires a "+need)
		case got == need:
			r.Ok(rule, key, p.Pos(a.pos), "value is a "+got+", as every use of the field requires")
		default:
			r.Bad(rule, key, p.Pos(a.pos), fmt.Sprintf("the field is used as a %s (%s) but is assigned a %s: the file operation on it names a file that does not exist, fails, and the failure is at most logged — the superseded file stays on disk and competes with the current one after a restart", need, req[a.fld][need], got))
		}
	}
	// contradictory uses
	var flds []*types.Var
	for fld := range req {
		flds = append(flds, fld)
	}
	sort.Slice(flds, func(i, j int) bool { return flds[i].Pos() < flds[j].Pos() })
	for _, fld := range flds {
		if fld.Pkg() == nil || !want[fld.Pkg().Name()] {
			continue
		}
		n++
		key := fmt.Sprintf("field %s.%s is used as one kind of name", fld.Pkg().Name(), fld.Name())
		if len(req[fld]) > 1 {
			r.Bad(rule, key, p.PosOf(fld.Pos()), fmt.Sprintf("used as a base name at %s and as a full path at %s: one of the two file operations names the wrong file", req[fld][kBase], req[fld][kFull]))
		} else {
			r.Ok(rule, key, p.PosOf(fld.Pos()), "every use requires a "+required(fld))
		}
	}
	r.Floor(rule, 1, n)
}
