package main

// c03i.go: C03-i a negation never yields "no alternative at all".
//
// A ConditionsSet is a disjunction of conjunctions. TRUE is one alternative without conditions, ConditionsSet{Conditions{}};
// FALSE is one alternative holding the impossible condition. The EMPTY set has no meaning of its own: And and then read
// it as "no restriction", Or — plain concatenation — as "no alternative", and Parse turns an empty top-level result
// into TRUE. A negation that returns the empty set is therefore right or wrong depending on what it is combined with:
// `--protocol:@protocol@` is TRUE on its own and inside AND, but `sport:80 or --protocol:@protocol@` lost it and
// became `sport:80` (#52); `-(-protocol:@protocol@ then cdata:x)` became `-cdata:x`.
//
// Rule (sibling agreement over the implementations of invert): no method named invert of package query with a
// ConditionsSet result returns an empty ConditionsSet literal or nil.

import (
	"fmt"
	"go/ast"
	"go/types"
)

func init() {
	register("C03",
		"C03-i (sibling agreement): no invert method of package query (the seven condition kinds, Conditions, ConditionsSet) returns an empty ConditionsSet literal or nil. TRUE is ConditionsSet{Conditions{}}, FALSE is the impossible conjunct; the empty set is read as 'no restriction' by And/then and as 'no alternative' by Or, so a negation that returns it changes its meaning with its context: `sport:80 or --protocol:@protocol@` normalised to `sport:80` although it is always true.",
		func(p *Prog, r *Res) {
			const rule = "C03-i negation-is-never-the-empty-set"
			r.Rule(rule + ": invert returns TRUE as one empty alternative, never as no alternative")
			n := 0
			for _, f := range p.FnList {
				if f.Short != "query" || f.Decl == nil || f.Body() == nil || f.Decl.Name.Name != "invert" || f.Decl.Recv == nil {
					continue
				}
				info := f.Pkg.TypesInfo
				sig, _ := info.Defs[f.Decl.Name].Type().(*types.Signature)
				if sig == nil || sig.Results().Len() != 1 {
					continue
				}
				if nt := namedOf(sig.Results().At(0).Type()); nt == nil || nt.Obj().Name() != "ConditionsSet" {
					continue
				}
				n++
				key := fmt.Sprintf("%s never returns the empty set", f.Key())
				var bad ast.Node
				inspectShallow(f.Body(), func(x ast.Node) bool {
					rs, ok := x.(*ast.ReturnStmt)
					if !ok || len(rs.Results) != 1 {
						return true
					}
					e := ast.Unparen(rs.Results[0])
					if id, ok := e.(*ast.Ident); ok && id.Name == "nil" {
						bad = rs
					}
					if cl, ok := e.(*ast.CompositeLit); ok && len(cl.Elts) == 0 {
						bad = rs
					}
					if c, ok := e.(*ast.CallExpr); ok && len(c.Args) == 1 {
						if tv, ok := info.Types[c.Fun]; ok && tv.IsType() {
							if id, ok := ast.Unparen(c.Args[0]).(*ast.Ident); ok && id.Name == "nil" {
								bad = rs // ConditionsSet(nil)
							}
						}
					}
					return true
				})
				if bad != nil {
					r.Bad(rule, key, p.Pos(bad), "the negation is returned as an empty ConditionsSet: And and then read that as TRUE, Or as 'no alternative' — inside a disjunction the always-true alternative disappears")
				} else {
					r.Ok(rule, key, p.Pos(f.Node()), "every literal result has at least one alternative")
				}
			}
			r.Floor(rule, 8, n)
		})
}
