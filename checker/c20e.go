package main

// c20e.go: C20-e the service loop is started after the last direct use of Manager state by New.
//
// Everything New does to the Manager before `go func() { for f := range mgr.jobs { f() } }()` happens-before every
// closure the loop runs (goroutine creation), and that is the only synchronisation between the two: the converter
// directory watcher and the pcap watcher post closures as soon as they are started. After the loop's go statement
// New may therefore only post closures and return; any store through the Manager or call of a Manager method from
// New's own goroutine races with whatever a watcher has already posted.

import (
	"fmt"
	"go/ast"
	"go/types"
)

func init() {
	register("C20",
		"C20-e (FLOW): in manager.New, from the go statement that starts the service loop (the function literal that ranges over Manager.jobs and calls each element) no node of New's own control flow is reachable that stores through the Manager value (field, map element, slice element) or calls a method of Manager; only sends on Manager.jobs and the return may follow. Goroutine creation is the only happens-before edge between New's initialisation and the closures the loop runs; watchers started earlier post closures immediately.",
		func(p *Prog, r *Res) {
			const rule = "C20-e service-loop-started-last"
			r.Rule(rule + ": New touches Manager state only before it starts the service loop")
			f := p.Fn("manager.New")
			jobs := p.Field("manager", "Manager", "jobs")
			mgrT := p.Named("manager", "Manager")
			if f == nil || jobs == nil || mgrT == nil {
				return
			}
			info := f.Pkg.TypesInfo
			fl := p.Flow(f)
			isLoopStart := func(nd ast.Node) bool {
				gs, ok := nd.(*ast.GoStmt)
				if !ok {
					return false
				}
				lit, ok := gs.Call.Fun.(*ast.FuncLit)
				if !ok {
					return false
				}
				hit := false
				ast.Inspect(lit.Body, func(y ast.Node) bool {
					if rs, ok := y.(*ast.RangeStmt); ok && isFieldOf(info, rs.X, jobs) {
						hit = true
					}
					return true
				})
				return hit
			}
			starts := fl.Find(isLoopStart)
			if len(starts) != 1 {
				p.anchorFail("exactly one go statement starting the service loop in manager.New (found %d)", len(starts))
				return
			}
			isMgr := func(e ast.Expr) bool {
				ri := rootIdentOf(e)
				if ri == nil {
					return false
				}
				o := info.Uses[ri]
				if o == nil {
					return false
				}
				return namedOf(derefType(o.Type())) == mgrT
			}
			touches := func(nd ast.Node) (bool, string) {
				hit, what := false, ""
				inspectShallow(nd, func(y ast.Node) bool {
					switch s := y.(type) {
					case *ast.FuncLit:
						return false
					case *ast.AssignStmt:
						for _, l := range s.Lhs {
							if _, plain := ast.Unparen(l).(*ast.Ident); !plain && isMgr(l) {
								hit, what = true, "store to "+exprString(p.Fset, l)
							}
						}
					case *ast.IncDecStmt:
						if isMgr(s.X) {
							hit, what = true, "store to "+exprString(p.Fset, s.X)
						}
					case *ast.CallExpr:
						if se, ok := ast.Unparen(s.Fun).(*ast.SelectorExpr); ok {
							if fn, ok := info.Uses[se.Sel].(*types.Func); ok {
								if sig, ok := fn.Type().(*types.Signature); ok && sig.Recv() != nil && namedOf(derefType(sig.Recv().Type())) == mgrT {
									hit, what = true, "call of "+exprString(p.Fset, s.Fun)
								}
							}
						}
					}
					return !hit
				})
				return hit, what
			}
			what := ""
			res := fl.Reach([]Pt{After(starts[0])}, func(nd ast.Node) bool {
				if _, isSend := nd.(*ast.SendStmt); isSend {
					return false
				}
				h, w := touches(nd)
				if h {
					what = w
				}
				return h
			}, nil)
			r.Check(!res.Found, rule, f.Key()+" after the service loop's go statement", p.Pos(fl.node(starts[0])), "only sends on Manager.jobs and the return follow", fmt.Sprintf("after the service loop was started New still performs a %s (%s) on its own goroutine: a closure posted by a watcher that is already running executes concurrently with it", what, fl.traceString(res)))
		})
}
