package main

// c08g.go: C08-g / C05-h a stream is classified only after its id was looked up.
//
// FromPcap walks the packets of every reassembled stream. A packet that comes from an already indexed capture tells
// which existing stream this is: (*index.Reader).StreamByFirstPacketSource recovers the old id. The walk may leave the
// packet loop early — the stream is then written under the id it has at that moment — but while the id is still the
// tentative new one, it may only do so after the lookup for the packet at hand has been made. Seeded C05k moves
// `if touchedByNewPcaps { reset; break }` in front of the lookup ("saves index lookups"): a flow whose later half was
// imported first gets a fresh id when its earlier half arrives, and the old stream stays visible beside it.
//
// Rule (FLOW on block level): in every loop whose body reaches the lookup, no path leads from the start of an
// iteration out of the loop (other than through the loop head) without passing the lookup — its call or the loop that
// contains it — or crossing an edge on which the id is known to differ from the tentative one.

import (
	"fmt"
	"go/ast"
	"go/token"
	"go/types"

	"golang.org/x/tools/go/cfg"
)

func init() {
	const expl = "(FLOW, block level): in builder.FromPcap the loop over a stream's packets is left — other than by running out of packets — only after (*index.Reader).StreamByFirstPacketSource has been asked for the packet at hand, or over an edge on which the id variable is known to differ from the tentative new id (it was already recovered). Leaving earlier writes the stream under a fresh id although an index holds it under its old one: one connection, two visible ids."
	register("C08", "C08-g "+expl, func(p *Prog, r *Res) { ruleLookupBeforeClassify(p, r, "C08-g id-looked-up-before-classification") })
	register("C05", "C05-h "+expl, func(p *Prog, r *Res) { ruleLookupBeforeClassify(p, r, "C05-h id-looked-up-before-classification") })
}

func ruleLookupBeforeClassify(p *Prog, r *Res, rule string) {
	r.Rule(rule + ": the packet walk leaves its loop with a tentative id only after the lookup")
	lookup := p.Method("index", "Reader", "StreamByFirstPacketSource")
	if lookup == nil {
		p.anchorFail("index.Reader.StreamByFirstPacketSource")
		return
	}
	n := 0
	for _, f := range p.FnList {
		if f.Short != "builder" || f.Body() == nil {
			continue
		}
		info := f.Pkg.TypesInfo
		// lookup calls directly in this function (not in nested literals)
		var calls []*ast.CallExpr
		inspectShallow(f.Body(), func(x ast.Node) bool {
			if c, ok := x.(*ast.CallExpr); ok {
				if fn := p.Callee(f.Pkg, c); fn != nil && fn.Origin() == lookup {
					calls = append(calls, c)
				}
			}
			return true
		})
		if len(calls) == 0 {
			continue
		}
		fl := p.Flow(f)
		for _, call := range calls {
			// the loops around the call, innermost first
			var loops []*ast.RangeStmt
			inspectParents(f.Body(), func(x ast.Node, parents []ast.Node) bool {
				if x == ast.Node(call) {
					for i := len(parents) - 1; i >= 0; i-- {
						if rs, ok := parents[i].(*ast.RangeStmt); ok {
							loops = append(loops, rs)
						}
					}
				}
				return true
			})
			if len(loops) < 2 {
				continue // the lookup loop itself is C08-c's subject; this rule is about the walk around it
			}
			inner, walk := loops[0], loops[1]
			// the id variable: assigned from <result>.ID() inside the lookup loop
			var idVar types.Object
			inspectShallow(inner.Body, func(x ast.Node) bool {
				if as, ok := x.(*ast.AssignStmt); ok && len(as.Lhs) == 1 && len(as.Rhs) == 1 {
					if c, ok := ast.Unparen(as.Rhs[0]).(*ast.CallExpr); ok {
						if se, ok := ast.Unparen(c.Fun).(*ast.SelectorExpr); ok && se.Sel.Name == "ID" {
							idVar = identObj(info, as.Lhs[0])
						}
					}
				}
				return true
			})
			n++
			key := fmt.Sprintf("%s packet walk around the lookup@%s", f.Key(), relLine(p, f, walk))
			var body, done, head *cfg.Block
			for _, b := range fl.G.Blocks {
				if b.Stmt == ast.Stmt(walk) {
					switch b.Kind {
					case cfg.KindRangeBody:
						body = b
					case cfg.KindRangeDone:
						done = b
					case cfg.KindRangeLoop:
						head = b
					}
				}
			}
			if body == nil || done == nil || head == nil {
				r.Undecided(rule, key, p.Pos(walk), "loop blocks not found in the CFG")
				continue
			}
			passes := func(nd ast.Node) bool {
				if nd == ast.Node(inner.X) {
					return true
				}
				return fl.hasCall(nd, func(c *ast.CallExpr) bool { return c == call })
			}
			idKnown := func(c ast.Expr, trueEdge bool) bool {
				be, ok := ast.Unparen(c).(*ast.BinaryExpr)
				if !ok || idVar == nil {
					return false
				}
				if identObj(info, be.X) != idVar && identObj(info, be.Y) != idVar {
					return false
				}
				return (be.Op == token.NEQ && trueEdge) || (be.Op == token.EQL && !trueEdge)
			}
			type st struct {
				b *cfg.Block
				i int
			}
			seen := map[st]bool{}
			work := []st{{body, 0}}
			var witness *cfg.Block
			for len(work) > 0 && witness == nil {
				s := work[0]
				work = work[1:]
				if seen[s] {
					continue
				}
				seen[s] = true
				if s.b == head {
					continue // next iteration or the end of the packets
				}
				if s.b == done {
					witness = s.b
					break
				}
				if s.i < len(s.b.Nodes) {
					nd := s.b.Nodes[s.i]
					if passes(nd) || isReturn(nd) {
						continue
					}
					work = append(work, st{s.b, s.i + 1})
					continue
				}
				for si, nb := range s.b.Succs {
					if len(s.b.Succs) == 2 && len(s.b.Nodes) > 0 {
						if cond, ok := s.b.Nodes[len(s.b.Nodes)-1].(ast.Expr); ok {
							pruned := false
							if si == 0 {
								for _, c := range conjuncts(cond) {
									if idKnown(c, true) {
										pruned = true
									}
								}
							} else {
								for _, c := range disjuncts(cond) {
									if idKnown(c, false) {
										pruned = true
									}
								}
							}
							if pruned {
								continue
							}
						}
					}
					work = append(work, st{nb, 0})
				}
			}
			r.Check(witness == nil, rule, key, p.Pos(walk), "every early exit of the packet walk lies behind the lookup or on an edge where the id was already recovered", "the packet walk can be left with the tentative new id before StreamByFirstPacketSource was asked for the packet at hand: a stream that an index already holds is written under a fresh id, and the old one stays visible beside it")
		}
	}
	r.Floor(rule, 1, n)
}
