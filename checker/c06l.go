package main

// c06l.go: C06-l converter output stored on demand re-opens the tags that search it.
//
// A tag with a data filter is decided from the payload and from cached converter output. The converter job's completion
// marks the streams it converted as undecided for every such tag. StreamContext.Data — the API path that converts a
// stream on demand through a view — stored the output and only sent an event: `tag/d = data:StreamID` stayed decided
// with no matches although a search for data:StreamID found the stream (#54).
//
// Rule (CTX + FLOW, callee effect summary): for every call of CachedConverter.Data outside the service goroutine (the
// same API stores C16-g looks at), every closure the function posts to Manager.jobs after the store passes, on every
// path, a raise of the data tags: a call of a function whose body assigns the Uncertain mask of the tags it ranges
// over under a test of FeatureFilterData (the C06-g summary), or such a loop in place.

import (
	"fmt"
	"go/ast"
	"go/types"
	"golang.org/x/tools/go/types/typeutil"
)

func init() {
	register("C06",
		"C06-l (CTX + FLOW, callee effect summary): every closure that a function posts to the service goroutine after it has stored converter output through CachedConverter.Data from outside that goroutine (StreamContext.Data: on-demand conversion through a view) passes, on every path, a raise of the tags with a data filter — a call of a function that assigns Uncertain of the tags it ranges over under a test of FeatureFilterData, or such a loop in place. The converter job does this for what it converts; without it a tag defined by data.<converter>:… stays decided with matches that no longer agree with a search for the same filter.",
		func(p *Prog, r *Res) {
			const rule = "C06-l stored-converter-output-reopens-data-tags"
			r.Rule(rule + ": an on-demand store of converter output is followed by a raise of the data tags")
			ctx := p.Contexts()
			dataM := p.Method("converters", "CachedConverter", "Data")
			unc := p.Field("query", "TagDetails", "Uncertain")
			cc := p.Named("converters", "CachedConverter")
			if dataM == nil || unc == nil || cc == nil {
				p.anchorFail("converters.CachedConverter.Data / query.TagDetails.Uncertain")
				return
			}
			preds := dataFilterPredicates(p)
			raiseLoop := func(info *types.Info, body ast.Node) map[ast.Node]bool {
				out := map[ast.Node]bool{}
				inspectShallow(body, func(x ast.Node) bool {
					rs, ok := x.(*ast.RangeStmt)
					if !ok {
						return true
					}
					testsData := false
					var asg []ast.Node
					ast.Inspect(rs.Body, func(y ast.Node) bool {
						switch s := y.(type) {
						case *ast.SelectorExpr:
							if s.Sel.Name == "FeatureFilterData" {
								testsData = true
							}
						case *ast.CallExpr:
							if fn, ok := typeutil.Callee(info, s).(*types.Func); ok && preds[fn.Origin()] {
								testsData = true
							}
						case *ast.AssignStmt:
							for _, l := range s.Lhs {
								if isFieldOf(info, l, unc) {
									asg = append(asg, s)
								}
							}
						}
						return true
					})
					if testsData && len(asg) > 0 {
						out[rs.X] = true
					}
					return true
				})
				return out
			}
			raisers := map[*types.Func]bool{}
			for _, f := range p.FnList {
				if f.Short != "manager" || f.Body() == nil || f.Lit != nil {
					continue
				}
				if len(raiseLoop(f.Pkg.TypesInfo, f.Body())) > 0 {
					if fo, ok := f.Pkg.TypesInfo.Defs[f.Decl.Name].(*types.Func); ok {
						raisers[fo] = true
					}
				}
			}
			// wrappers: a function whose body calls a raiser as a statement of its outermost block (unconditionally)
			for round := 0; round < 2; round++ {
				for _, f := range p.FnList {
					if f.Short != "manager" || f.Body() == nil || f.Lit != nil {
						continue
					}
					fo, ok := f.Pkg.TypesInfo.Defs[f.Decl.Name].(*types.Func)
					if !ok || raisers[fo] {
						continue
					}
					for _, st := range f.Body().List {
						if es, ok := st.(*ast.ExprStmt); ok {
							if c, ok := es.X.(*ast.CallExpr); ok {
								if fn, ok := typeutil.Callee(f.Pkg.TypesInfo, c).(*types.Func); ok && raisers[fn.Origin()] {
									raisers[fo] = true
								}
							}
						}
					}
				}
			}
			viaIface := func(fn *types.Func) bool {
				if fn.Name() != dataM.Name() {
					return false
				}
				sig, _ := fn.Type().(*types.Signature)
				if sig == nil || sig.Recv() == nil {
					return false
				}
				it, ok := sig.Recv().Type().Underlying().(*types.Interface)
				return ok && types.Implements(types.NewPointer(cc), it)
			}
			n := 0
			for _, f := range p.FnList {
				if f.Body() == nil || (f.Short != "manager" && f.Short != "main") {
					continue
				}
				inspectShallow(f.Body(), func(x ast.Node) bool {
					c, ok := x.(*ast.CallExpr)
					if !ok {
						return true
					}
					fn := p.Callee(f.Pkg, c)
					if fn == nil || !(fn.Origin() == dataM || viaIface(fn)) {
						return true
					}
					root := f.Root()
					if ctx.OnlyLoopInit(root) && ctx.OnlyLoopInit(f) {
						return true // on the service goroutine: the converter job's completion and friends, C06-g/C09-c
					}
					// a job worker started by the service goroutine is the converter job: its completion raises (C09-c / C06-c)
					isWorker := false
					for _, gs := range ctx.GoSites {
						if gs.Callee == root && ctx.Has(gs.In, ctxLOOP) {
							isWorker = true
						}
					}
					if isWorker {
						return true
					}
					n++
					key := fmt.Sprintf("%s stores converter output on demand", f.Key())
					var posted []*Fn
					for _, l := range ctx.postedIn(f) {
						if l.Node().Pos() > c.Pos() {
							posted = append(posted, l)
						}
					}
					if len(posted) == 0 {
						r.Bad(rule, key, p.Pos(c), "nothing is posted to the service goroutine after the store: the tags with a data filter are not told that there is new output to search")
						return true
					}
					okAll := true
					why := ""
					for _, l := range posted {
						lfl := p.Flow(l)
						inplace := raiseLoop(l.Pkg.TypesInfo, l.Body())
						res := lfl.MustPass(func(nd ast.Node) bool {
							if inplace[nd] {
								return true
							}
							return lfl.hasCall(nd, func(cc *ast.CallExpr) bool {
								cf := p.Callee(l.Pkg, cc)
								return cf != nil && raisers[cf]
							})
						})
						if res.Found || fallsOffEndAvoiding(lfl, lfl.Entry(), func(nd ast.Node) bool {
							if inplace[nd] {
								return true
							}
							return lfl.hasCall(nd, func(cc *ast.CallExpr) bool {
								cf := p.Callee(l.Pkg, cc)
								return cf != nil && raisers[cf]
							})
						}) {
							okAll = false
							why = lfl.traceString(res)
						}
					}
					r.Check(okAll, rule, key, p.Pos(c), "the closure posted after the store raises the data tags on every path", "the closure posted after the store can end without raising the tags with a data filter ("+why+"): a tag defined by data.<converter>:… stays decided although the output it would match exists now — `tag:d` and the same filter typed as a search disagree")
					return true
				})
			}
			r.Floor(rule, 1, n)
		})
}
