package main

// c06h.go: C06-h / C02-l the caller's restrictions apply to the main query only.
//
// SearchStreams evaluates the named sub-queries of a query and then the main query in one loop over
// ConditionsSet.SubQueries(). Its caller may restrict the search to a set of stream ids (limitIDs — this is how tag
// membership is evaluated incrementally: updateTagJob passes the tag's Uncertain set, View.prefetchTags the streams of
// a result page) and to a page (limit, skip). Those restrictions are about the streams that are *returned*; a
// sub-query has to be evaluated over all streams, or `tag:x` with a definition that relates a stream to others gives a
// different answer for a restricted and an unrestricted evaluation. Structural necessary condition: inside the loop
// over the sub-queries, whatever is derived from those parameters and handed to a call depends on which pass it is —
// the value has a definition under a condition that reads the loop variable, or the call itself sits under one, or the
// argument mentions the loop variable. Which way round the condition goes is not decided.

import (
	"fmt"
	"go/ast"
	"go/types"
)

func init() {
	const expl = "(typed AST, value flow through locals): in index.SearchStreams, inside the loop over ConditionsSet.SubQueries(), every call argument derived from the caller's restrictions (the id mask limitIDs, limit, skip) depends on the pass: the local it is read from has a definition under a condition that reads the loop variable, or the call sits under such a condition, or the argument mentions the loop variable. A restriction that reaches the per-index search unconditionally also filters the streams a sub-query may see: a tag whose definition contains a sub-query is then decided from the restricted subset (incremental evaluation passes the Uncertain set) and differs from a full evaluation. The polarity of the condition is not decided."
	register("C06", "C06-h "+expl, func(p *Prog, r *Res) { ruleRestrictionsMainOnly(p, r, "C06-h restrictions-apply-to-main-query-only") })
	register("C02", "C02-l "+expl, func(p *Prog, r *Res) { ruleRestrictionsMainOnly(p, r, "C02-l restrictions-apply-to-main-query-only") })
}

func ruleRestrictionsMainOnly(p *Prog, r *Res, rule string) {
	r.Rule(rule + ": limitIDs/limit/skip reach the per-index search only through values that depend on the sub-query pass")
	f := p.Fn("index.SearchStreams")
	subq := p.Method("query", "ConditionsSet", "SubQueries")
	if f == nil || subq == nil {
		p.anchorFail("index.SearchStreams / query.ConditionsSet.SubQueries")
		return
	}
	info := f.Pkg.TypesInfo
	// the restriction parameters: *bitmask.LongBitmask and the unsigned page bounds
	restr := map[types.Object]bool{}
	for _, fld := range f.Decl.Type.Params.List {
		for _, nm := range fld.Names {
			o := info.Defs[nm]
			if o == nil {
				continue
			}
			ts := types.TypeString(o.Type(), func(pk *types.Package) string { return pk.Name() })
			if ts == "*bitmask.LongBitmask" || ts == "uint" {
				restr[o] = true
			}
		}
	}
	if len(restr) == 0 {
		p.anchorFail("restriction parameters of index.SearchStreams (*bitmask.LongBitmask, uint)")
		return
	}
	var loop *ast.RangeStmt
	inspectShallow(f.Body(), func(x ast.Node) bool {
		if rs, ok := x.(*ast.RangeStmt); ok && loop == nil {
			if c, ok := ast.Unparen(rs.X).(*ast.CallExpr); ok && p.Callee(f.Pkg, c) == subq {
				loop = rs
			}
			// the list may have been taken into a local first
			if o := identObj(info, rs.X); o != nil {
				ast.Inspect(f.Body(), func(y ast.Node) bool {
					if as, ok := y.(*ast.AssignStmt); ok && len(as.Lhs) == len(as.Rhs) {
						for i, l := range as.Lhs {
							if identObj(info, l) == o {
								if c, ok := ast.Unparen(as.Rhs[i]).(*ast.CallExpr); ok && p.Callee(f.Pkg, c) == subq {
									loop = rs
								}
							}
						}
					}
					return true
				})
			}
		}
		return true
	})
	if loop == nil || loop.Value == nil && loop.Key == nil {
		p.anchorFail("the loop over ConditionsSet.SubQueries() in index.SearchStreams")
		return
	}
	pass := identObj(info, loop.Value)
	if pass == nil {
		p.anchorFail("the loop variable of the sub-query loop")
		return
	}
	mentions := func(n ast.Node, set func(types.Object) bool) bool {
		hit := false
		ast.Inspect(n, func(x ast.Node) bool {
			if id, ok := x.(*ast.Ident); ok {
				if o := info.Uses[id]; o != nil && set(o) {
					hit = true
				}
			}
			return !hit
		})
		return hit
	}
	// locals of the loop body derived from the restrictions (fixpoint over assignments and var declarations)
	derived := map[types.Object]bool{}
	isRestr := func(o types.Object) bool { return restr[o] || derived[o] }
	type def struct {
		obj   types.Object
		node  ast.Node
		stack []ast.Node
	}
	var defs []def
	inspectParentsAll(loop.Body, func(x ast.Node, stack []ast.Node) {
		switch s := x.(type) {
		case *ast.AssignStmt:
			for _, l := range s.Lhs {
				if o := identObj(info, l); o != nil {
					defs = append(defs, def{o, s, append([]ast.Node(nil), stack...)})
				}
			}
		case *ast.ValueSpec:
			for _, nm := range s.Names {
				if o := info.Defs[nm]; o != nil {
					defs = append(defs, def{o, s, append([]ast.Node(nil), stack...)})
				}
			}
		}
	})
	// a position "depends on the pass": an enclosing if / switch / case inside the loop reads the loop variable — or a
	// boolean local that was defined from it
	passDerived := map[types.Object]bool{pass: true}
	for changed := true; changed; {
		changed = false
		for _, d := range defs {
			if passDerived[d.obj] {
				continue
			}
			var rhs []ast.Expr
			switch s := d.node.(type) {
			case *ast.AssignStmt:
				rhs = s.Rhs
			case *ast.ValueSpec:
				rhs = s.Values
			}
			if b, ok := d.obj.Type().Underlying().(*types.Basic); !ok || b.Kind() != types.Bool {
				continue
			}
			for _, e := range rhs {
				if mentions(e, func(o types.Object) bool { return passDerived[o] }) {
					passDerived[d.obj] = true
					changed = true
				}
			}
		}
	}
	isPass := func(o types.Object) bool { return passDerived[o] }
	underPass := func(stack []ast.Node) bool {
		for _, par := range stack {
			switch s := par.(type) {
			case *ast.IfStmt:
				if mentions(s.Cond, isPass) {
					return true
				}
			case *ast.SwitchStmt:
				if s.Tag != nil && mentions(s.Tag, isPass) {
					return true
				}
			case *ast.CaseClause:
				for _, e := range s.List {
					if mentions(e, isPass) {
						return true
					}
				}
			}
		}
		return false
	}
	// locals with a definition under a condition on the pass: what they hold depends on the pass, and what is computed
	// from them is no longer "the caller's restriction"
	dependsOnPass := map[types.Object]bool{}
	for _, d := range defs {
		if underPass(d.stack) {
			dependsOnPass[d.obj] = true
		}
	}
	for changed := true; changed; {
		changed = false
		for _, d := range defs {
			if derived[d.obj] {
				continue
			}
			var rhs []ast.Expr
			switch s := d.node.(type) {
			case *ast.AssignStmt:
				rhs = s.Rhs
			case *ast.ValueSpec:
				rhs = s.Values
			}
			for _, e := range rhs {
				if mentions(e, func(o types.Object) bool { return isRestr(o) && !dependsOnPass[o] }) {
					derived[d.obj] = true
					changed = true
				}
			}
		}
	}
	n := 0
	inspectParentsAll(loop.Body, func(x ast.Node, stack []ast.Node) {
		c, ok := x.(*ast.CallExpr)
		if !ok {
			return
		}
		if tv, ok := info.Types[c.Fun]; ok && (tv.IsType() || tv.IsBuiltin()) {
			return
		}
		for ai, a := range c.Args {
			if !mentions(a, isRestr) {
				continue
			}
			n++
			key := fmt.Sprintf("%s argument %d of %s", f.Key(), ai+1, exprString(p.Fset, c.Fun))
			okDep, why := false, ""
			switch {
			case underPass(stack):
				okDep, why = true, "the call sits under a condition on the sub-query pass"
			case mentions(a, isPass):
				okDep, why = true, "the argument reads the loop variable"
			default:
				// every restriction-derived identifier in the argument is a local with a pass-dependent definition
				all := true
				ast.Inspect(a, func(y ast.Node) bool {
					if id, ok := y.(*ast.Ident); ok {
						if o := info.Uses[id]; o != nil && isRestr(o) && !dependsOnPass[o] {
							all = false
						}
					}
					return true
				})
				okDep, why = all, "every restriction it reads has a definition under a condition on the sub-query pass"
			}
			r.Check(okDep, rule, key, p.Pos(a), why, "the argument "+exprString(p.Fset, a)+" carries the caller's restriction into every pass of the sub-query loop: named sub-queries are evaluated over the restricted streams only, so a tag with a sub-query in its definition is decided differently by an incremental and by a full evaluation")
		}
	})
	r.Floor(rule, 2, n)
}

// inspectParentsAll walks root including nested function literals, handing every node its ancestor stack.
func inspectParentsAll(root ast.Node, f func(n ast.Node, stack []ast.Node)) {
	var stack []ast.Node
	ast.Inspect(root, func(n ast.Node) bool {
		if n == nil {
			stack = stack[:len(stack)-1]
			return false
		}
		f(n, stack)
		stack = append(stack, n)
		return true
	})
}
