package main

// c16g.go: C16-g snapshot-conversions-revalidated.
//
// CachedConverter.Data is the only function that stores converter output, keyed by stream id alone. Whoever calls it
// outside the service goroutine works on an index snapshot taken earlier: if an import extends the stream between
// the snapshot and the store, the import's invalidation finds nothing to drop (the stream is not cached yet) and
// the output of the OLD payload is stored afterwards. The store must therefore be re-validated by its caller:
//
//   job workers  – the worker's completion closure re-applies, through InvalidateChangedStreams, a Manager mask in
//                  which every import completion records its updated streams while the job is running (the same
//                  discipline as the tagging job's During-masks, C06-c);
//   API callers  – a request goroutine holding a View has no completion on the service goroutine; such a store
//                  cannot be re-validated structurally and is reported.

import (
	"fmt"
	"go/ast"
	"go/token"
	"go/types"
	"strings"

	"golang.org/x/tools/go/cfg"
)

func init() {
	register("C09",
		"C09-e = C16-g, for its settling clause: the converter job's completion clears the running-flag before it re-applies the streams recorded during the job; re-applying under a set flag records them again, so the mask never empties and converter jobs restart for ever.",
		func(p *Prog, r *Res) { ruleC16SnapshotMode(p, r, true) })
	register("C16",
		"C16-g (CTX + FLOW, sibling agreement with C06-c): every call of CachedConverter.Data (the only store into a converter cache, keyed by stream id) outside the service goroutine is re-validated. For a job worker: (1) the function that applies InvalidateChangedStreams at import completion ORs its argument into a Manager bitmask M on every path on which the worker's running-flag may be set, (2) the worker's completion closure clears the flag first, and then on every path on which M is non-empty calls that function with the value of M before the next job can be started, and (3) resets M. A store made from a View's snapshot on a request goroutine has no completion on the service goroutine and is reported as a violation.",
		ruleC16Snapshot)
}

type invFn struct {
	f     *Fn
	param types.Object
}

func ruleC16Snapshot(p *Prog, r *Res) { ruleC16SnapshotMode(p, r, false) }

// ruleC16SnapshotMode: settlingOnly restricts the report to the clause C09 needs (flag cleared before the re-apply);
// the freshness clauses, including the known finding on the on-demand path, belong to C16.
func ruleC16SnapshotMode(p *Prog, r *Res, settlingOnly bool) {
	rule := "C16-g snapshot-conversions-revalidated"
	if settlingOnly {
		rule = "C09-e reapply-after-flag-clear"
	}
	r.Rule(rule + ": converter output stored from an index snapshot is invalidated again if the stream changed meanwhile")
	ctx := p.Contexts()
	dataM := p.Method("converters", "CachedConverter", "Data")
	inv := p.Method("converters", "CachedConverter", "InvalidateChangedStreams")
	mgrT := p.Named("manager", "Manager")
	if dataM == nil || inv == nil || mgrT == nil {
		p.anchorFail("converters.CachedConverter.Data / InvalidateChangedStreams / manager.Manager")
		return
	}
	// the functions that apply the invalidation on the service goroutine, with the parameter that carries the streams
	var invFns []invFn
	for _, f := range p.FnList {
		if f.Short != "manager" || f.Lit != nil || f.Body() == nil {
			continue
		}
		info := f.Pkg.TypesInfo
		for _, c := range callsIn(f.Body()) {
			if fn := p.Callee(f.Pkg, c); fn != nil && fn.Origin() == inv && len(c.Args) == 1 {
				if o := identObj(info, c.Args[0]); o != nil && paramIndex(f, o) >= 0 {
					invFns = append(invFns, invFn{f, o})
				}
			}
		}
	}
	mgrField := func(info *types.Info, e ast.Expr) *types.Var {
		e = ast.Unparen(e)
		if u, ok := e.(*ast.UnaryExpr); ok && u.Op == token.AND {
			e = ast.Unparen(u.X)
		}
		if s, ok := e.(*ast.StarExpr); ok {
			e = ast.Unparen(s.X)
		}
		se, ok := e.(*ast.SelectorExpr)
		if !ok {
			return nil
		}
		v, ok := info.Uses[se.Sel].(*types.Var)
		if !ok || !v.IsField() {
			return nil
		}
		if n := namedOf(info.TypeOf(se.X)); n == nil || n.Obj() != mgrT.Obj() {
			return nil
		}
		return v
	}

	// a call through an interface that *CachedConverter implements (index.ConverterAccess) reaches the same method
	cc := p.Named("converters", "CachedConverter")
	viaIface := func(fn *types.Func) bool {
		if fn.Name() != dataM.Name() || cc == nil {
			return false
		}
		sig, _ := fn.Type().(*types.Signature)
		if sig == nil || sig.Recv() == nil {
			return false
		}
		it, ok := sig.Recv().Type().Underlying().(*types.Interface)
		return ok && types.Implements(types.NewPointer(cc), it)
	}
	nSites := 0
	for _, f := range p.FnList {
		if f.Body() == nil || (f.Short != "manager" && f.Short != "main" && f.Short != "index") {
			continue
		}
		for _, c := range func() []*ast.CallExpr {
			var out []*ast.CallExpr
			inspectShallow(f.Body(), func(x ast.Node) bool {
				if c, ok := x.(*ast.CallExpr); ok {
					if fn := p.Callee(f.Pkg, c); fn != nil && (fn.Origin() == dataM || viaIface(fn)) {
						out = append(out, c)
					}
				}
				return true
			})
			return out
		}() {
			nSites++
			root := f.Root()
			key := fmt.Sprintf("%s stores converter output (CachedConverter.Data)", f.Key())
			if ctx.OnlyLoopInit(root) && ctx.OnlyLoopInit(f) {
				r.Ok(rule, key, p.Pos(c), "runs on the service goroutine: serial with import completions")
				continue
			}
			// a job worker: root is the callee of a go statement in a LOOP function, and it posts a completion
			var starter *Fn
			for _, gs := range ctx.GoSites {
				if gs.Callee == root && ctx.Has(gs.In, ctxLOOP) {
					starter = gs.In
				}
			}
			completions := ctx.completionsIn(root)
			if starter == nil || len(completions) == 0 {
				if settlingOnly {
					continue
				}
				if ok, why := apiStoreRevalidated(p, ctx, f, c, inv, invFns, mgrField); ok {
					r.Ok(rule, key, p.Pos(c), why)
				} else {
					r.Bad(rule, key, p.Pos(c), "output is computed from the caller's index snapshot (a View held by a request goroutine) and stored under the stream id; an import that extended the stream after the snapshot was taken has already run its invalidation, and the store is not re-validated on the service goroutine ("+why+"): the stale output is served until the stream changes again")
				}
				continue
			}
			// running flag: bool Manager field assigned true in the starter and false in a completion
			var flag *types.Var
			sinfo := starter.Pkg.TypesInfo
			inspectShallow(starter.Body(), func(x ast.Node) bool {
				if as, ok := x.(*ast.AssignStmt); ok && len(as.Lhs) == 1 && len(as.Rhs) == 1 {
					if id, ok := as.Rhs[0].(*ast.Ident); ok && id.Name == "true" {
						if v := mgrField(sinfo, as.Lhs[0]); v != nil {
							flag = v
						}
					}
				}
				return true
			})
			if flag == nil {
				r.Undecided(rule, key, p.Pos(c), "cannot identify the running-flag of job "+root.Key()+" (a Manager bool set to true in "+starter.Key()+")")
				continue
			}
			okAll := true
			orderBad := false
			var why []string
			// (2)+(3) completion: clears the flag, re-applies M, resets M
			var M *types.Var
			for _, comp := range completions {
				cinfo := comp.Pkg.TypesInfo
				cfl := p.Flow(comp)
				clears := false
				inspectShallow(comp.Body(), func(x ast.Node) bool {
					if as, ok := x.(*ast.AssignStmt); ok && len(as.Lhs) == 1 && len(as.Rhs) == 1 {
						if id, ok := as.Rhs[0].(*ast.Ident); ok && id.Name == "false" && mgrField(cinfo, as.Lhs[0]) == flag {
							clears = true
						}
					}
					return true
				})
				if !clears {
					continue
				}
				// locals assigned from a Manager bitmask field
				fromField := map[types.Object]*types.Var{}
				inspectShallow(comp.Body(), func(x ast.Node) bool {
					if as, ok := x.(*ast.AssignStmt); ok && len(as.Lhs) == len(as.Rhs) {
						for i, l := range as.Lhs {
							if o := identObj(cinfo, l); o != nil {
								if v := mgrField(cinfo, as.Rhs[i]); v != nil {
									fromField[o] = v
								}
							}
						}
					}
					return true
				})
				isReapply := func(n ast.Node) (bool, *types.Var) {
					var got *types.Var
					hit := cfl.hasCall(n, func(cc *ast.CallExpr) bool {
						fn := p.Callee(comp.Pkg, cc)
						if fn == nil {
							return false
						}
						isInv := fn.Origin() == inv
						for _, ifn := range invFns {
							if p.FnOfObj(fn) == ifn.f {
								isInv = true
							}
						}
						if !isInv || len(cc.Args) != 1 {
							return false
						}
						a := ast.Unparen(cc.Args[0])
						if v := mgrField(cinfo, a); v != nil {
							got = v
							return true
						}
						if u, ok := a.(*ast.UnaryExpr); ok && u.Op == token.AND {
							a = ast.Unparen(u.X)
						}
						if o := identObj(cinfo, a); o != nil && fromField[o] != nil {
							got = fromField[o]
							return true
						}
						return false
					})
					return hit, got
				}
				// the re-apply written out in place: a loop over the converter registry whose body applies the invalidation
				// to the recorded streams. With no converter registered there is nothing to re-apply, so the loop itself —
				// its range expression, which every path into and around the body passes — counts.
				{
					direct := isReapply
					loops := map[ast.Node]*types.Var{}
					convFld := p.Field("manager", "Manager", "converters")
					inspectShallow(comp.Body(), func(x ast.Node) bool {
						rs, ok := x.(*ast.RangeStmt)
						if !ok || convFld == nil || mgrField(cinfo, rs.X) != convFld {
							return true
						}
						ast.Inspect(rs.Body, func(y ast.Node) bool {
							if st, ok := y.(ast.Stmt); ok {
								if h, v := direct(st); h {
									loops[rs.X] = v
								}
							}
							return true
						})
						return true
					})
					isReapply = func(n ast.Node) (bool, *types.Var) {
						if v, ok := loops[n]; ok {
							return true, v
						}
						return direct(n)
					}
				}
				for _, pt := range cfl.Find(func(n ast.Node) bool { h, _ := isReapply(n); return h }) {
					_, M = isReapply(cfl.node(pt))
				}
				if M == nil {
					okAll = false
					why = append(why, "the completion "+comp.Key()+" clears "+flag.Name()+" but never re-applies InvalidateChangedStreams to streams recorded while the job ran")
					continue
				}
				// every path from entry to a (re)start of the job or to the exit either re-applies or takes an edge on which M is empty
				cfl.EdgeOK = func(b *cfg.Block, succ int) bool {
					if len(b.Succs) != 2 || len(b.Nodes) == 0 {
						return true
					}
					cond, ok := b.Nodes[len(b.Nodes)-1].(ast.Expr)
					if !ok {
						return true
					}
					// `!M.IsZero()` false edge / `M.IsZero()` true edge: nothing recorded
					neg := false
					e := ast.Unparen(cond)
					if u, ok := e.(*ast.UnaryExpr); ok && u.Op == token.NOT {
						neg = true
						e = ast.Unparen(u.X)
					}
					if call, ok := e.(*ast.CallExpr); ok {
						if se, ok := call.Fun.(*ast.SelectorExpr); ok && se.Sel.Name == "IsZero" && mgrField(cinfo, se.X) == M {
							emptyOnTrue := !neg
							if (succ == 0) == emptyOnTrue {
								return false // M empty on this edge: nothing to re-apply
							}
						}
					}
					return true
				}
				restarts := func(n ast.Node) bool {
					return cfl.hasCall(n, func(cc *ast.CallExpr) bool {
						fn := p.Callee(comp.Pkg, cc)
						return fn != nil && p.FnOfObj(fn) == starter
					})
				}
				res := cfl.Reach([]Pt{cfl.Entry()}, func(n ast.Node) bool { return restarts(n) || isReturn(n) }, func(n ast.Node) bool { h, _ := isReapply(n); return h })
				if res.Found {
					okAll = false
					why = append(why, "in "+comp.Key()+" a path with recorded streams reaches the next job start or the end without re-applying them ("+cfl.traceString(res)+")")
				}
				// the flag is cleared BEFORE the re-apply: the invalidation function records its argument while the flag
				// is set, so a re-apply under a set flag refills M with the very streams it is applying — every later
				// completion invalidates and re-converts them again, for ever
				isClear := func(n ast.Node) bool {
					as, ok := n.(*ast.AssignStmt)
					if !ok || len(as.Lhs) != 1 || len(as.Rhs) != 1 {
						return false
					}
					id, ok := as.Rhs[0].(*ast.Ident)
					return ok && id.Name == "false" && mgrField(cinfo, as.Lhs[0]) == flag
				}
				if early := cfl.Reach([]Pt{cfl.Entry()}, func(n ast.Node) bool { h, _ := isReapply(n); return h }, isClear); early.Found {
					okAll = false
					orderBad = true
					why = append(why, "in "+comp.Key()+" the recorded streams are re-applied while "+flag.Name()+" is still set ("+cfl.traceString(early)+"): the invalidation records them again, the mask never empties and every completion starts another job")
				}
				// reset of M
				resets := false
				inspectShallow(comp.Body(), func(x ast.Node) bool {
					if as, ok := x.(*ast.AssignStmt); ok && len(as.Lhs) == 1 && mgrField(cinfo, as.Lhs[0]) == M && as.Tok == token.ASSIGN {
						if _, isLit := ast.Unparen(as.Rhs[0]).(*ast.CompositeLit); isLit {
							resets = true
						}
					}
					return true
				})
				if !resets {
					okAll = false
					why = append(why, "Manager."+M.Name()+" is re-applied but never reset: every later completion invalidates the same streams again")
				}
			}
			// (1) recording in the invalidation function(s)
			if M != nil {
				if len(invFns) == 0 {
					okAll = false
					why = append(why, "no function applies InvalidateChangedStreams to a parameter on the service goroutine")
				}
				for _, ifn := range invFns {
					ifl := p.Flow(ifn.f)
					iinfo := ifn.f.Pkg.TypesInfo
					isRecord := func(n ast.Node) bool {
						return ifl.hasCall(n, func(cc *ast.CallExpr) bool {
							se, ok := ast.Unparen(cc.Fun).(*ast.SelectorExpr)
							if !ok || se.Sel.Name != "Or" || len(cc.Args) != 1 || mgrField(iinfo, se.X) != M {
								return false
							}
							a := ast.Unparen(cc.Args[0])
							if s, ok := a.(*ast.StarExpr); ok {
								a = ast.Unparen(s.X)
							}
							return identObj(iinfo, a) == ifn.param
						})
					}
					ifl.EdgeOK = func(b *cfg.Block, succ int) bool {
						if len(b.Succs) != 2 || len(b.Nodes) == 0 {
							return true
						}
						cond, ok := b.Nodes[len(b.Nodes)-1].(ast.Expr)
						if !ok {
							return true
						}
						e := ast.Unparen(cond)
						neg := false
						if u, ok := e.(*ast.UnaryExpr); ok && u.Op == token.NOT {
							neg = true
							e = ast.Unparen(u.X)
						}
						if mgrField(iinfo, e) == flag {
							// edge on which the flag is false: no job in flight, nothing to record
							if (succ == 1) != neg {
								return false
							}
						}
						return true
					}
					// M itself passed as the argument (the re-apply) needs no recording: only judged for the parameter
					res := ifl.ExitAvoiding([]Pt{ifl.Entry()}, isRecord)
					if res.Found {
						okAll = false
						why = append(why, ifn.f.Key()+" does not OR its argument into Manager."+M.Name()+" on every path on which "+flag.Name()+" may be set ("+ifl.traceString(res)+")")
					}
				}
			}
			if settlingOnly {
				skey := fmt.Sprintf("%s completion clears %s before re-applying the recorded streams", root.Key(), flag.Name())
				if orderBad {
					for _, w := range why {
						if strings.Contains(w, "still set") {
							r.Bad(rule, skey, p.Pos(c), w)
						}
					}
				} else {
					r.Ok(rule, skey, p.Pos(c), "the flag is cleared on every path before the invalidation is re-applied")
				}
				continue
			}
			if okAll {
				r.Ok(rule, key, p.Pos(c), fmt.Sprintf("job %s: import completions record updated streams in Manager.%s while %s is set; the completion re-applies and resets it before the next job", root.Key(), M.Name(), flag.Name()))
			} else {
				for _, w := range why {
					r.Bad(rule, key, p.Pos(c), "output is converted from the job's index snapshot; "+w+": a stream extended by an import while the job is in flight keeps the output of its old payload")
				}
			}
		}
	}
	if !settlingOnly {
		r.Floor(rule, 2, nSites)
	} else {
		r.Floor(rule, 1, r.CountRule(rule))
	}
}

// apiStoreRevalidated: a store of converter output made on a request goroutine (call `call` of CachedConverter.Data in
// f) is re-validated on the service goroutine:
//
//	(1) every path from the store to a successful return on which the store may have happened posts a closure on
//	    Manager.jobs (edges on which the call failed or answered "was cached" are pruned);
//	(2) that closure calls the invalidation function with a mask in which the id of the converted stream is set;
//	(3) if the call is conditional, the condition compares a View field with a Manager field (a generation): the Manager
//	    field is incremented on every path through the import completion's own invalidation, and the View field is
//	    assigned from it in the closure that takes the view's index snapshot.
func apiStoreRevalidated(p *Prog, ctx *CtxInfo, f *Fn, call *ast.CallExpr, inv *types.Func, invFns []invFn, mgrField func(*types.Info, ast.Expr) *types.Var) (bool, string) {
	info := f.Pkg.TypesInfo
	fl := p.Flow(f)
	pt, ok := fl.PointOf(call)
	if !ok {
		return false, "store not in the CFG"
	}
	// result variables of the Data call: wasCached (bool) and err
	var cachedVar, errVar types.Object
	if as, ok := fl.node(pt).(*ast.AssignStmt); ok {
		for _, l := range as.Lhs {
			if o := identObj(info, l); o != nil {
				if b, isB := o.Type().Underlying().(*types.Basic); isB && b.Kind() == types.Bool {
					cachedVar = o
				}
				if types.Identical(o.Type(), types.Universe.Lookup("error").Type()) {
					errVar = o
				}
			}
		}
	}
	var posted []*Fn
	for _, l := range ctx.postedIn(f) {
		if l.Node().Pos() > call.Pos() {
			posted = append(posted, l)
		}
	}
	if len(posted) == 0 {
		return false, "nothing is posted on Manager.jobs after the store"
	}
	isPost := func(n ast.Node) bool {
		for _, l := range posted {
			if site := ctx.PostSite[l]; site != nil && site == n {
				return true
			}
		}
		return false
	}
	// (1)
	fl.EdgeOK = func(b *cfg.Block, succ int) bool {
		if len(b.Succs) != 2 || len(b.Nodes) == 0 {
			return true
		}
		cond, ok := b.Nodes[len(b.Nodes)-1].(ast.Expr)
		if !ok {
			return true
		}
		noStore := func(e ast.Expr, truth bool) bool {
			e = ast.Unparen(e)
			if u, ok := e.(*ast.UnaryExpr); ok && u.Op == token.NOT {
				e, truth = ast.Unparen(u.X), !truth
			}
			if o := identObj(info, e); o != nil && o == cachedVar {
				return truth // wasCached is true on this edge
			}
			if be, ok := e.(*ast.BinaryExpr); ok && identObj(info, be.X) == errVar && errVar != nil && types.ExprString(be.Y) == "nil" {
				return (be.Op == token.NEQ) == truth // err != nil on this edge
			}
			return false
		}
		if succ == 0 {
			for _, c := range conjuncts(cond) {
				if noStore(c, true) {
					return false
				}
			}
			return true
		}
		// false edge: some conjunct is false; if every conjunct being false means "no store", the edge means no store
		cs := conjuncts(cond)
		all := len(cs) > 0
		for _, c := range cs {
			if !noStore(c, false) {
				all = false
			}
		}
		return !all
	}
	if res := fl.ExitAvoiding([]Pt{After(pt)}, func(n ast.Node) bool { return isPost(n) || isErrReturn(info, n) }); res.Found {
		return false, "a path on which the output was stored returns without posting to the service goroutine (" + fl.traceString(res) + ")"
	}
	streamArg := ""
	if len(call.Args) > 0 {
		streamArg = types.ExprString(call.Args[0])
	}
	// (2)+(3) in one of the posted closures
	var lastWhy string
	for _, l := range posted {
		linfo := l.Pkg.TypesInfo
		var invCall *ast.CallExpr
		var guards []ast.Expr
		inspectParents(l.Body(), func(x ast.Node, parents []ast.Node) bool {
			cc, ok := x.(*ast.CallExpr)
			if !ok || invCall != nil {
				return true
			}
			fn := p.Callee(l.Pkg, cc)
			if fn == nil {
				return true
			}
			isInv := fn.Origin() == inv
			for _, ifn := range invFns {
				if p.FnOfObj(fn) == ifn.f {
					isInv = true
				}
			}
			if !isInv {
				return true
			}
			invCall = cc
			for i, par := range parents {
				if is, ok := par.(*ast.IfStmt); ok {
					var child ast.Node = x
					if i+1 < len(parents) {
						child = parents[i+1]
					}
					if child == ast.Node(is.Body) {
						guards = append(guards, is.Cond)
					}
				}
			}
			return true
		})
		if invCall == nil || len(invCall.Args) != 1 {
			lastWhy = "the posted closure does not call the invalidation"
			continue
		}
		// the mask: a local on which Set(<id of the converted stream>) is called
		a := ast.Unparen(invCall.Args[0])
		if u, ok := a.(*ast.UnaryExpr); ok && u.Op == token.AND {
			a = ast.Unparen(u.X)
		}
		mask := identObj(linfo, a)
		idOK := false
		if mask != nil {
			// variables holding <streamArg>.ID()
			idVars := map[types.Object]bool{}
			ast.Inspect(f.Body(), func(y ast.Node) bool {
				if as, ok := y.(*ast.AssignStmt); ok && len(as.Lhs) == len(as.Rhs) {
					for i, rh := range as.Rhs {
						if cc, ok := ast.Unparen(rh).(*ast.CallExpr); ok {
							if se, ok := cc.Fun.(*ast.SelectorExpr); ok && se.Sel.Name == "ID" && types.ExprString(se.X) == streamArg {
								if o := identObj(info, as.Lhs[i]); o != nil {
									idVars[o] = true
								}
							}
						}
					}
				}
				return true
			})
			ast.Inspect(l.Body(), func(y ast.Node) bool {
				cc, ok := y.(*ast.CallExpr)
				if !ok || len(cc.Args) != 1 {
					return true
				}
				se, ok := cc.Fun.(*ast.SelectorExpr)
				if !ok || se.Sel.Name != "Set" || identObj(linfo, se.X) != mask {
					return true
				}
				ast.Inspect(cc.Args[0], func(z ast.Node) bool {
					if id, ok := z.(*ast.Ident); ok && idVars[linfo.Uses[id]] {
						idOK = true
					}
					if c2, ok := z.(*ast.CallExpr); ok {
						if s2, ok := c2.Fun.(*ast.SelectorExpr); ok && s2.Sel.Name == "ID" && types.ExprString(s2.X) == streamArg {
							idOK = true
						}
					}
					return true
				})
				return true
			})
		}
		if !idOK {
			lastWhy = "the posted closure invalidates a mask that is not shown to contain the id of the converted stream"
			continue
		}
		if len(guards) == 0 {
			return true, "the store is followed by an unconditional re-invalidation of the stream on the service goroutine"
		}
		// (3) generation comparison
		viewT := p.Named("manager", "View")
		for _, g := range guards {
			be, ok := ast.Unparen(g).(*ast.BinaryExpr)
			if !ok || be.Op != token.NEQ {
				lastWhy = "the re-invalidation is guarded by " + types.ExprString(g) + ", which is not a generation comparison"
				continue
			}
			var vf, mf *types.Var
			for _, side := range []ast.Expr{be.X, be.Y} {
				if m := mgrField(linfo, side); m != nil {
					mf = m
				} else if se, ok := ast.Unparen(side).(*ast.SelectorExpr); ok {
					if v, ok := linfo.Uses[se.Sel].(*types.Var); ok && v.IsField() && viewT != nil {
						if n := namedOf(linfo.TypeOf(se.X)); n != nil && n.Obj() == viewT.Obj() {
							vf = v
						}
					}
				}
			}
			if vf == nil || mf == nil {
				lastWhy = "the re-invalidation is guarded by " + types.ExprString(g) + ", which does not compare a View field with a Manager field"
				continue
			}
			// Manager generation incremented on every path through the import completion's invalidation
			incOK, nInv := true, 0
			for _, g2 := range ctx.Posted {
				if g2.Pkg != l.Pkg || g2 == l {
					continue
				}
				ginfo := g2.Pkg.TypesInfo
				gfl := p.Flow(g2)
				for _, ipt := range gfl.Find(func(n ast.Node) bool {
					return gfl.hasCall(n, func(cc *ast.CallExpr) bool {
						fn := p.Callee(g2.Pkg, cc)
						if fn == nil {
							return false
						}
						for _, ifn := range invFns {
							if p.FnOfObj(fn) == ifn.f {
								// only primary invalidations: the argument is not a Manager field (not the re-apply of a during-mask)
								if len(cc.Args) != 1 || mgrField(ginfo, cc.Args[0]) != nil {
									return false
								}
								a := ast.Unparen(cc.Args[0])
								if ue, ok := a.(*ast.UnaryExpr); ok && ue.Op == token.AND {
									a = ast.Unparen(ue.X) // &local
								}
								ao := identObj(ginfo, a)
								if ao == nil {
									return false
								}
								// a local copy of a during-mask (`updated := mgr.updatedStreamsDuring…`) is a re-apply as well:
								// the import that recorded the streams has counted already
								nDefs, fromField := 0, 0
								ast.Inspect(g2.Body(), func(y ast.Node) bool {
									if as, ok := y.(*ast.AssignStmt); ok && len(as.Lhs) == len(as.Rhs) {
										for i, lh := range as.Lhs {
											if identObj(ginfo, lh) == ao {
												nDefs++
												if mgrField(ginfo, as.Rhs[i]) != nil {
													fromField++
												}
											}
										}
									}
									return true
								})
								return !(nDefs > 0 && nDefs == fromField)
							}
						}
						return false
					})
				}) {
					nInv++
					isInc := func(n ast.Node) bool {
						switch s := n.(type) {
						case *ast.IncDecStmt:
							return s.Tok == token.INC && mgrField(ginfo, s.X) == mf
						case *ast.AssignStmt:
							return len(s.Lhs) == 1 && mgrField(ginfo, s.Lhs[0]) == mf && s.Tok == token.ADD_ASSIGN
						}
						return false
					}
					before := gfl.Reach([]Pt{gfl.Entry()}, func(n ast.Node) bool { return n == gfl.node(ipt) }, isInc)
					after := gfl.ExitAvoiding([]Pt{After(ipt)}, isInc)
					if before.Found && after.Found {
						incOK = false
					}
				}
			}
			if nInv == 0 || !incOK {
				lastWhy = "Manager." + mf.Name() + " is not incremented on every path through the import completion's invalidation: a view would not notice the import"
				continue
			}
			// View generation taken together with the index snapshot
			snapOK := false
			copyM := p.Method("manager", "Manager", "getIndexesCopy")
			for _, g2 := range ctx.Posted {
				ginfo := g2.Pkg.TypesInfo
				takes, sets := false, false
				// the closure itself and the package's helpers it calls directly (the snapshot may be taken in a method)
				bodies := []ast.Node{g2.Body()}
				for _, cc := range callsIn(g2.Body()) {
					if fn := p.Callee(g2.Pkg, cc); fn != nil {
						if h := p.FnOfObj(fn); h != nil && h.Pkg == g2.Pkg && h.Body() != nil && calledOnlyFrom(p, h, func(c *Fn) bool { return c == g2 }, 0) {
							bodies = append(bodies, h.Body())
						}
					}
				}
				for _, body := range bodies {
					inspectShallow(body, func(y ast.Node) bool {
						switch s := y.(type) {
						case *ast.CallExpr:
							if p.Callee(g2.Pkg, s) == copyM {
								takes = true
							}
						case *ast.AssignStmt:
							for i, lh := range s.Lhs {
								if se, ok := ast.Unparen(lh).(*ast.SelectorExpr); ok && ginfo.Uses[se.Sel] == types.Object(vf) && i < len(s.Rhs) && mgrField(ginfo, s.Rhs[i]) == mf {
									sets = true
								}
							}
						}
						return true
					})
				}
				if takes && sets {
					snapOK = true
				}
			}
			if !snapOK {
				lastWhy = "View." + vf.Name() + " is not assigned from Manager." + mf.Name() + " in the closure that takes the view's index snapshot"
				continue
			}
			return true, fmt.Sprintf("after a store the request posts a closure that invalidates the stream again when the view is older than the last import (View.%s != Manager.%s; the Manager field is incremented with every import completion's invalidation, the View field is taken with the index snapshot)", vf.Name(), mf.Name())
		}
	}
	if lastWhy == "" {
		lastWhy = "no posted closure re-validates the store"
	}
	return false, lastWhy
}
