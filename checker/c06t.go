package main

// c06t.go: C06-t / C02-x the decided tag details supersede the ones that were handed in.
//
// index.SearchStreams first decides the pending tags that cannot be inlined (those with sub-queries of their own, #70):
// decideTagsWithSubQueries returns a COPY of the map in which they are decided, the caller's map is left alone. From
// that point on the old map is a stale version of the same information: its pending tags still carry the Matches of
// before. Seeded C06r gave the result a name of its own, switched two of the three later uses over and left
// buildSearchObjects with the parameter: `tag:x` of a pending tag with a sub-query answered from the stale bits ([] and
// [0 1 2 3] for `tag:x` and `-tag:x`, the definition says [1] and [0 2 3]).
//
// Rule (FLOW, liveness): in package index, after a call of a function of the package that takes a
// map[string]query.TagDetails and returns one (a decider), the variable that was handed in is dead — on no path from the
// call is it read before it is assigned again — unless the result is assigned to that very variable.

import (
	"fmt"
	"go/ast"
	"go/types"
)

func ruleDecidedSupersede(id string) func(p *Prog, r *Res) {
	return func(p *Prog, r *Res) {
		rule := id + " decided-tags-supersede-their-argument"
		r.Rule(rule + ": after the pending tags were decided in a copy, the map that was handed in is not read again")
		isTagMap := func(t types.Type) bool {
			m, ok := t.Underlying().(*types.Map)
			if !ok {
				return false
			}
			n, ok := m.Elem().(*types.Named)
			return ok && n.Obj().Name() == "TagDetails" && n.Obj().Pkg() != nil && n.Obj().Pkg().Name() == "query"
		}
		n := 0
		for _, f := range p.FnList {
			if f.Short != "index" || f.Body() == nil {
				continue
			}
			info := f.Pkg.TypesInfo
			var fl *Flow
			for _, c := range callsIn(f.Body()) {
				fn := p.Callee(f.Pkg, c)
				if fn == nil || fn.Pkg() != f.Pkg.Types {
					continue
				}
				sig, _ := fn.Type().(*types.Signature)
				if sig == nil || sig.Results().Len() == 0 || !isTagMap(sig.Results().At(0).Type()) {
					continue
				}
				// the argument of that type
				var arg types.Object
				for i, a := range c.Args {
					if i < sig.Params().Len() && isTagMap(sig.Params().At(i).Type()) {
						arg = identObj(info, a)
					}
				}
				if arg == nil {
					continue
				}
				if fl == nil {
					fl = p.Flow(f)
				}
				pt, ok := fl.PointOf(c)
				if !ok {
					continue
				}
				n++
				key := fmt.Sprintf("%s after %s", f.Key(), fn.Name())
				// the statement of the call: does it assign the result to the argument variable?
				if as, isAs := fl.node(pt).(*ast.AssignStmt); isAs && len(as.Lhs) >= 1 && identObj(info, as.Lhs[0]) == arg {
					r.Ok(rule, key, p.Pos(c), "the result replaces "+arg.Name())
					continue
				}
				reads := func(nd ast.Node) bool {
					hit := false
					ast.Inspect(nd, func(x ast.Node) bool {
						switch s := x.(type) {
						case *ast.FuncLit:
							// a literal that mentions the variable may run at any later time
						case *ast.AssignStmt:
							// left-hand sides that ARE the variable are writes
							for _, rh := range s.Rhs {
								ast.Inspect(rh, func(y ast.Node) bool {
									if id, ok := y.(*ast.Ident); ok && info.Uses[id] == arg {
										hit = true
									}
									return !hit
								})
							}
							for _, l := range s.Lhs {
								if identObj(info, l) == arg {
									continue
								}
								ast.Inspect(l, func(y ast.Node) bool {
									if id, ok := y.(*ast.Ident); ok && info.Uses[id] == arg {
										hit = true
									}
									return !hit
								})
							}
							return false
						case *ast.Ident:
							if info.Uses[s] == arg {
								hit = true
							}
						}
						return !hit
					})
					return hit
				}
				kills := func(nd ast.Node) bool {
					as, ok := nd.(*ast.AssignStmt)
					if !ok || reads(nd) {
						return false
					}
					for _, l := range as.Lhs {
						if identObj(info, l) == arg {
							return true
						}
					}
					return false
				}
				res := fl.Reach([]Pt{After(pt)}, reads, kills)
				r.Check(!res.Found, rule, key, p.Pos(c), arg.Name()+" is not read after the call", "the tag details that were handed to "+fn.Name()+" are read again after it returned the decided copy ("+fl.traceString(res)+"): the pending tags in "+arg.Name()+" still have the matches of before they were decided — a filter on such a tag is answered from stale bits while the tag is reported as decided")
			}
		}
		r.Floor(rule, 1, n)
	}
}

func init() {
	const expl = " (FLOW, liveness): in package index, after a call of a function of the package that takes a map[string]query.TagDetails and returns one (decideTagsWithSubQueries: pending tags that cannot be inlined are decided in a COPY), the variable that was handed in is dead — on no path from the call is it read before it is assigned again — unless the result is assigned to that very variable. The old map is a stale version of the same information; a later use of it (buildSearchObjects in seeded C06r) answers `tag:x` of a pending tag from the matches of before."
	register("C06", "C06-t"+expl, ruleDecidedSupersede("C06-t"))
	register("C02", "C02-x"+expl, ruleDecidedSupersede("C02-x"))
}
