package main

// fresh_bm.go: FRESH for bitmasks — copy-on-write of published bitmasks (C06-a, C10-b(ii), C20).
//
// LongBitmask is a struct around one slice; assigning it copies the header and shares the words.
// Tag snapshots (query.TagDetails) are copied by value into views and tagging jobs, so every in-place
// mutation must act on words this function allocated since the last time the value was shared.

import (
	"fmt"
	"go/ast"
	"go/token"
	"go/types"
	"sort"
	"strings"
)

var bmMutators = map[string]bool{"Set": true, "Unset": true, "Flip": true, "Or": true, "And": true, "Xor": true, "Sub": true, "Shrink": true, "Inject": true, "Extract": true}

func isBitmaskNamed(t types.Type) bool {
	n := namedOf(t)
	return n != nil && n.Obj().Pkg() != nil && strings.HasSuffix(n.Obj().Pkg().Path(), "/tools/bitmask") && strings.HasSuffix(n.Obj().Name(), "Bitmask")
}

// accessPath returns the root variable and dotted field path of e (x, x.f, x.f.g, (*x).f), or ok=false.
func accessPath(info *types.Info, e ast.Expr) (root types.Object, path string, ok bool) {
	var parts []string
	for {
		e = ast.Unparen(e)
		switch x := e.(type) {
		case *ast.SelectorExpr:
			if v, isVar := info.Uses[x.Sel].(*types.Var); !isVar || !v.IsField() {
				return nil, "", false
			}
			parts = append([]string{x.Sel.Name}, parts...)
			e = x.X
		case *ast.StarExpr:
			e = x.X
		case *ast.Ident:
			o := info.ObjectOf(x)
			if _, isVar := o.(*types.Var); !isVar {
				return nil, "", false
			}
			return o, strings.Join(append([]string{x.Name}, parts...), "."), true
		default:
			return nil, "", false
		}
	}
}

// freshBitmaskExpr: the expression yields a bitmask whose words are not shared with anything else.
func freshBitmaskExpr(p *Prog, f *Fn, e ast.Expr) bool {
	info := f.Pkg.TypesInfo
	switch x := ast.Unparen(e).(type) {
	case *ast.CompositeLit:
		return len(x.Elts) == 0
	case *ast.Ident:
		// a local that is defined once, from a fresh expression (possibly as the first result of a call), and
		// moved from exactly once: `ids, ok := conds.StreamIDs(n); … x.Matches = ids`
		v, ok := info.Uses[x].(*types.Var)
		if !ok || v.IsField() || v.Parent() == nil || v.Pkg() == nil || v.Parent() == v.Pkg().Scope() {
			return false
		}
		var def ast.Expr
		nDef, nUse := 0, 0
		ast.Inspect(f.Root().Body(), func(y ast.Node) bool {
			switch st := y.(type) {
			case *ast.AssignStmt:
				for i, l := range st.Lhs {
					if id, ok := l.(*ast.Ident); ok && (info.Defs[id] == types.Object(v) || info.Uses[id] == types.Object(v)) {
						nDef++
						if len(st.Rhs) == len(st.Lhs) {
							def = st.Rhs[i]
						} else if len(st.Rhs) == 1 && i == 0 {
							def = st.Rhs[0]
						}
					}
				}
			case *ast.Ident:
				if info.Uses[st] == types.Object(v) {
					nUse++
				}
			}
			return true
		})
		// nUse counts the uses outside definitions too; assignment left sides with `=` are Uses as well
		if nDef == 1 && def != nil && nUse <= 1 {
			return freshBitmaskExpr(p, f, def)
		}
		return false
	case *ast.CallExpr:
		// a function of the repository whose bitmask result is, on every return, an empty literal or a local that
		// starts as one (built with Set calls in the function): query.ConditionsSet.StreamIDs
		if fn := p.Callee(f.Pkg, x); fn != nil {
			if h := p.FnOfObj(fn); h != nil && h.Lit == nil && h.Body() != nil && !strings.HasSuffix(fn.Pkg().Path(), "/tools/bitmask") {
				hinfo := h.Pkg.TypesInfo
				okAll, any := true, false
				inspectShallow(h.Body(), func(y ast.Node) bool {
					ret, ok := y.(*ast.ReturnStmt)
					if !ok || len(ret.Results) == 0 {
						return true
					}
					any = true
					r0 := ast.Unparen(ret.Results[0])
					if cl, ok := r0.(*ast.CompositeLit); ok && len(cl.Elts) == 0 {
						return true
					}
					if id, ok := r0.(*ast.Ident); ok {
						if lv, ok := hinfo.Uses[id].(*types.Var); ok && !lv.IsField() && h.Body().Pos() <= lv.Pos() && lv.Pos() < h.Body().End() {
							// every assignment to the local is an empty literal
							fresh := true
							ast.Inspect(h.Body(), func(z ast.Node) bool {
								if as, ok := z.(*ast.AssignStmt); ok && len(as.Lhs) == len(as.Rhs) {
									for i, l := range as.Lhs {
										if identObj(hinfo, l) == types.Object(lv) {
											if cl, ok := ast.Unparen(as.Rhs[i]).(*ast.CompositeLit); !ok || len(cl.Elts) != 0 {
												fresh = false
											}
										}
									}
								}
								return true
							})
							if fresh {
								return true
							}
						}
					}
					okAll = false
					return true
				})
				if any && okAll {
					return true
				}
			}
		}
		if fn := p.Callee(f.Pkg, x); fn != nil && fn.Pkg() != nil && strings.HasSuffix(fn.Pkg().Path(), "/tools/bitmask") {
			if fn.Name() == "Copy" || strings.HasSuffix(fn.Name(), "Copy") || strings.HasPrefix(fn.Name(), "Make") {
				return true
			}
			if fn.Name() == "WrapAsLongBitmask" {
				// wraps the given words: fresh iff the words come from a freshly decoded / allocated slice
				oc := newOwnCtx(p)
				ok, _ := oc.owned(f, x.Args[0])
				if !ok {
					// a field of a local struct value decoded in this function (state file entry)
					if r, _, okp := accessPath(info, x.Args[0]); okp && r != nil && f.Root().Node().Pos() <= r.Pos() && r.Pos() < f.Root().Node().End() {
						return true
					}
				}
				return ok
			}
		}
	}
	return false
}

type bmEvent struct {
	pt    Pt
	fresh bool
	what  string
}

// ruleFreshBitmasks checks every mutating bitmask call in the given packages.
func ruleFreshBitmasks(p *Prog, r *Res, rule string, pkgs []string, floor int) {
	r.Rule(rule + ": every in-place bitmask mutation acts on words allocated by this function since the value was last shared (copy-on-write)")
	want := map[string]bool{}
	for _, s := range pkgs {
		want[s] = true
	}
	// loop-private accumulators, derived: bitmask-valued fields of Manager that are only ever assigned the empty
	// literal (reset) — their words are allocated by the in-place mutators applied to the field itself, so they are
	// unshared as long as no alias of the field escapes (the accumulator obligations below).
	accum := map[*types.Var]bool{}
	if mt := p.Named("manager", "Manager"); mt != nil {
		st := mt.Underlying().(*types.Struct)
		cand := map[*types.Var]int{} // field -> number of resets seen; -1 = disqualified
		for i := 0; i < st.NumFields(); i++ {
			if isBitmaskNamed(st.Field(i).Type()) {
				cand[st.Field(i)] = 0
			}
		}
		for _, f := range p.FnList {
			if f.Short != "manager" || f.Body() == nil {
				continue
			}
			info := f.Pkg.TypesInfo
			inspectShallow(f.Body(), func(x ast.Node) bool {
				as, ok := x.(*ast.AssignStmt)
				if !ok {
					return true
				}
				for i, l := range as.Lhs {
					se, ok := ast.Unparen(l).(*ast.SelectorExpr)
					if !ok {
						continue
					}
					fv, ok := info.Uses[se.Sel].(*types.Var)
					if !ok {
						continue
					}
					if _, isCand := cand[fv]; !isCand || cand[fv] < 0 {
						continue
					}
					empty := false
					if len(as.Rhs) == len(as.Lhs) {
						if cl, ok := ast.Unparen(as.Rhs[i]).(*ast.CompositeLit); ok && len(cl.Elts) == 0 {
							empty = true
						}
					}
					if empty {
						cand[fv]++
					} else {
						cand[fv] = -1
					}
				}
				return true
			})
		}
		var names []string
		for fv, n := range cand {
			if n > 0 {
				accum[fv] = true
				names = append(names, fv.Name())
			}
		}
		sort.Strings(names)
		r.Note("%s: loop-private accumulators (Manager bitmask fields only ever assigned the empty literal): %v", rule, names)
	}
	nMut := 0
	for _, f := range p.FnList {
		if !want[f.Short] {
			continue
		}
		info := f.Pkg.TypesInfo
		fl := p.Flow(f)
		idx := 0
		for _, b := range fl.G.Blocks {
			if !b.Live {
				continue
			}
			for i, node := range b.Nodes {
				inspectShallow(node, func(x ast.Node) bool {
					c, ok := x.(*ast.CallExpr)
					if !ok {
						return true
					}
					se, ok := ast.Unparen(c.Fun).(*ast.SelectorExpr)
					if !ok || !bmMutators[se.Sel.Name] {
						return true
					}
					fn := p.Callee(f.Pkg, c)
					if fn == nil || fn.Pkg() == nil || !strings.HasSuffix(fn.Pkg().Path(), "/tools/bitmask") {
						return true
					}
					idx++
					nMut++
					recvT := info.TypeOf(se.X)
					key := fmt.Sprintf("%s %s.%s#%d", f.Key(), types.ExprString(se.X), se.Sel.Name, idx)
					if _, isPtr := recvT.Underlying().(*types.Pointer); isPtr {
						r.Exempt(rule, key, p.Pos(c), "receiver is a *Bitmask cell (streamsToConvert entry / job-owned list / pointer parameter): such cells are owned by one goroutine at a time and handed over by replacing the entry, which the C20 hand-over rule checks; they are never copied by value into snapshots")
						return true
					}
					root, path, okp := accessPath(info, se.X)
					if !okp {
						// element of a slice/map of bitmasks owned by the search (result.matchingQueryPart[i] …)
						r.Undecided(rule, key, p.Pos(c), "receiver is not a variable/field path; cannot establish that its words are unshared")
						return true
					}
					// loop-private accumulators
					if s2, isSel := ast.Unparen(se.X).(*ast.SelectorExpr); isSel {
						if fv, isVar := info.Uses[s2.Sel].(*types.Var); isVar && accum[fv] {
							r.Ok(rule, key, p.Pos(c), "loop-private accumulator field (never aliased: checked by the accumulator obligations)")
							return true
						}
					}
					ok2, why := freshAt(p, f, fl, Pt{b, i}, root, path)
					if ok2 {
						r.Ok(rule, key, p.Pos(c), why)
					} else {
						r.Bad(rule, key, p.Pos(c), "in-place mutation of a bitmask whose words may be shared with a published snapshot (view, tagging job, another tag): "+why)
					}
					return true
				})
			}
		}
	}
	r.Floor(rule, floor, nMut)

	// accumulator obligations: the three During-masks are never aliased
	for fv := range accum {
		for _, f := range p.FnList {
			if f.Short != "manager" {
				continue
			}
			info := f.Pkg.TypesInfo
			inspectParents(f.Body(), func(n ast.Node, parents []ast.Node) bool {
				if se, ok := n.(*ast.SelectorExpr); ok && info.Uses[se.Sel] == types.Object(fv) && len(parents) > 0 {
					par := parents[len(parents)-1]
					okUse, why := false, ""
					switch pn := par.(type) {
					case *ast.SelectorExpr:
						okUse, why = true, "method receiver" // mgr.X.Or / IsZero
					case *ast.AssignStmt:
						for _, l := range pn.Lhs {
							if l == ast.Expr(se) {
								okUse, why = true, "assignment target"
							}
						}
						// move: `local := mgr.F` immediately followed by `mgr.F = bitmask.LongBitmask{}` — the local takes
						// over the old words, the field starts afresh
						if !okUse && len(parents) >= 2 {
							if blk, isBlk := parents[len(parents)-2].(*ast.BlockStmt); isBlk {
								for i, st := range blk.List {
									if st != ast.Stmt(pn) || i+1 >= len(blk.List) {
										continue
									}
									if nx, isAs := blk.List[i+1].(*ast.AssignStmt); isAs && len(nx.Lhs) == 1 && len(nx.Rhs) == 1 {
										if s3, isSel := ast.Unparen(nx.Lhs[0]).(*ast.SelectorExpr); isSel && info.Uses[s3.Sel] == types.Object(fv) {
											if cl, isLit := ast.Unparen(nx.Rhs[0]).(*ast.CompositeLit); isLit && len(cl.Elts) == 0 {
												okUse, why = true, "moved into a local: the field is reset to the empty mask in the next statement"
											}
										}
									}
								}
							}
						}
					case *ast.CallExpr:
						if fn := p.Callee(f.Pkg, pn); fn != nil {
							if tf := p.FnOfObj(fn); tf != nil && paramsNotRetained(p, tf) {
								okUse, why = true, "by-value argument of "+tf.Key()+", which only reads its bitmask parameters"
							}
							if fn.Pkg() != nil && strings.HasSuffix(fn.Pkg().Path(), "/tools/bitmask") {
								okUse, why = true, "operand of a bitmask method"
							}
						}
					}
					key := fmt.Sprintf("%s use of Manager.%s@%s", f.Key(), fv.Name(), relLine(p, f, se))
					if okUse {
						r.OkTrivial(rule+" accumulators", key, p.Pos(se), why)
					} else {
						r.Bad(rule+" accumulators", key, p.Pos(se), "the accumulator is copied/stored/passed where it could be retained; it is mutated in place on the service goroutine, so any alias would change under its holder")
					}
				}
				return true
			})
		}
	}
}

// paramsNotRetained: every bitmask-typed parameter of fn is only used as an operand of bitmask methods
// or as a method receiver of non-mutating methods.
func paramsNotRetained(p *Prog, fn *Fn) bool {
	info := fn.Pkg.TypesInfo
	ok := true
	for _, fld := range fn.Type().Params.List {
		for _, id := range fld.Names {
			obj := info.Defs[id]
			if obj == nil || !isBitmaskNamed(obj.Type()) {
				continue
			}
			inspectParents(fn.Body(), func(n ast.Node, parents []ast.Node) bool {
				if u, isID := n.(*ast.Ident); isID && info.ObjectOf(u) == obj && len(parents) > 0 {
					switch pn := parents[len(parents)-1].(type) {
					case *ast.CallExpr:
						cf := p.Callee(fn.Pkg, pn)
						if cf == nil || cf.Pkg() == nil || !strings.HasSuffix(cf.Pkg().Path(), "/tools/bitmask") {
							ok = false
						}
					case *ast.SelectorExpr:
						if bmMutators[pn.Sel.Name] {
							ok = false
						}
					default:
						ok = false
					}
				}
				return true
			})
		}
	}
	return ok
}

// freshAt: at CFG point use, the bitmask at access path (root, path) is fresh on every path.
func freshAt(p *Prog, f *Fn, fl *Flow, use Pt, root types.Object, path string) (bool, string) {
	info := f.Pkg.TypesInfo
	var starts []Pt
	var startWhy = map[Pt]string{}
	isFreshDef := map[ast.Node]bool{}
	addStart := func(pt Pt, why string) {
		starts = append(starts, pt)
		startWhy[pt] = why
	}
	isPrefix := func(q string) bool { return q == path || strings.HasPrefix(path, q+".") }
	isExt := func(q string) bool { return q == path || strings.HasPrefix(q, path+".") }

	// is root declared inside this function (then its declaration point is where tracking starts),
	// or outside (parameter, captured variable, receiver: shared at entry)?
	declaredHere := f.Body().Pos() <= root.Pos() && root.Pos() < f.Body().End()
	if !declaredHere {
		if !paramFreshAtEveryCall(p, f, root, path) {
			addStart(fl.Entry(), types.ExprString(ast.NewIdent(path))+" comes from outside the function (parameter, captured variable or field): shared at entry")
		}
	}
	for _, b := range fl.G.Blocks {
		if !b.Live {
			continue
		}
		// range statements rebind their variables at the top of every iteration
		if rs, ok := b.Stmt.(*ast.RangeStmt); ok && b.Kind.String() == "RangeBody" {
			for _, kv := range []ast.Expr{rs.Key, rs.Value} {
				if id, ok := kv.(*ast.Ident); ok && info.ObjectOf(id) == root {
					addStart(Pt{b, 0}, "range variable "+id.Name+" is rebound to an element of "+types.ExprString(rs.X))
				}
			}
		}
		for i, n := range b.Nodes {
			switch s := n.(type) {
			case *ast.AssignStmt:
				for li, l := range s.Lhs {
					r2, q, ok := accessPath(info, l)
					if !ok || r2 != root {
						continue
					}
					var rhs ast.Expr
					if len(s.Rhs) == len(s.Lhs) {
						rhs = s.Rhs[li]
					} else if len(s.Rhs) == 1 {
						rhs = s.Rhs[0]
					}
					switch {
					case q == path:
						if rhs != nil && freshBitmaskExpr(p, f, rhs) {
							isFreshDef[n] = true
						} else {
							addStart(Pt{b, i + 1}, fmt.Sprintf("assigned %s at line %d (shares the words of the source)", exprStr(rhs), lineOf(p.Fset, n)))
						}
					case isPrefix(q):
						// the enclosing struct/pointer is overwritten: fresh only for a literal that leaves the field zero or fresh
						if cl, isCL := ast.Unparen(unaddr(rhs)).(*ast.CompositeLit); isCL && literalFieldFresh(p, f, cl, strings.TrimPrefix(path, q+".")) {
							isFreshDef[n] = true
						} else {
							addStart(Pt{b, i + 1}, fmt.Sprintf("%s is overwritten with %s at line %d (a copy shares all contained bitmasks)", q, exprStr(rhs), lineOf(p.Fset, n)))
						}
					}
				}
				// sharing events: the path (or an extension / prefix of it) is read as a value on the right-hand side
				for _, rhs := range s.Rhs {
					if sharesPath(info, rhs, root, isPrefix, isExt) && !isFreshDef[n] {
						// `x = x.Copy()`-style statements are fresh defs; a plain read `y = x…` shares
						if !(len(s.Lhs) == 1 && sameAccess(info, s.Lhs[0], root, path)) {
							addStart(Pt{b, i + 1}, fmt.Sprintf("copied into %s at line %d", types.ExprString(s.Lhs[0]), lineOf(p.Fset, n)))
						}
					}
				}
			case *ast.DeclStmt:
				if gd, ok := s.Decl.(*ast.GenDecl); ok && gd.Tok == token.VAR {
					for _, sp := range gd.Specs {
						vs := sp.(*ast.ValueSpec)
						for vi, id := range vs.Names {
							if info.Defs[id] == root {
								if len(vs.Values) == 0 {
									isFreshDef[n] = true
								} else if vi < len(vs.Values) && freshBitmaskExpr(p, f, vs.Values[vi]) && path == id.Name {
									isFreshDef[n] = true
								} else {
									addStart(Pt{b, i + 1}, "declared from a shared value")
								}
							}
						}
					}
				}
			default:
				// other statements that let the value escape: go/defer/send/call arguments/composite literals
				if e, ok := n.(ast.Node); ok {
					if escapesIn(p, f, e, root, isPrefix, isExt) {
						addStart(Pt{b, i + 1}, fmt.Sprintf("escapes at line %d (stored, sent, captured or passed by value)", lineOf(p.Fset, n)))
					}
				}
			}
		}
	}
	useNode := fl.node(use)
	res := fl.Reach(starts, func(n ast.Node) bool { return n == useNode }, func(n ast.Node) bool { return isFreshDef[n] })
	if res.Found {
		why := "shared"
		if len(res.Trace) > 0 {
			// find which start produced it: the first trace node's predecessor
			for pt, w := range startWhy {
				if fl.node(pt) == res.Trace[0] || (pt.I > 0 && pt.B == fl.at[res.Trace[0]].B) {
					why = w
				}
			}
		}
		return false, why + "; no copy (Copy/…Copy/empty literal) is assigned to " + path + " on " + fl.traceString(res)
	}
	return true, "every path to the mutation assigns " + path + " a fresh copy after the last point where it was shared"
}

func exprStr(e ast.Expr) string {
	if e == nil {
		return "?"
	}
	return types.ExprString(e)
}

func unaddr(e ast.Expr) ast.Expr {
	if e == nil {
		return &ast.BadExpr{}
	}
	if u, ok := ast.Unparen(e).(*ast.UnaryExpr); ok && u.Op == token.AND {
		return u.X
	}
	return e
}

func sameAccess(info *types.Info, e ast.Expr, root types.Object, path string) bool {
	r, q, ok := accessPath(info, e)
	return ok && r == root && q == path
}

// literalFieldFresh: in composite literal cl, the (possibly nested) field rest is absent (zero) or fresh.
func literalFieldFresh(p *Prog, f *Fn, cl *ast.CompositeLit, rest string) bool {
	parts := strings.SplitN(rest, ".", 2)
	for _, el := range cl.Elts {
		kv, ok := el.(*ast.KeyValueExpr)
		if !ok {
			return false // positional literal: give up
		}
		id, ok := kv.Key.(*ast.Ident)
		if !ok || id.Name != parts[0] {
			continue
		}
		if len(parts) == 2 {
			if inner, ok := ast.Unparen(kv.Value).(*ast.CompositeLit); ok {
				return literalFieldFresh(p, f, inner, parts[1])
			}
			return false
		}
		return freshBitmaskExpr(p, f, kv.Value)
	}
	return true // field not mentioned: zero value
}

// sharesPath: expression e reads the tracked path (or a struct containing it / contained in it) as a value
// in a way that copies the header: plain use, field of composite literal, dereferenced struct copy.
// Method calls on it (x.Copy(), x.IsZero(), x.Or(…) operand) do not share.
func sharesPath(info *types.Info, e ast.Expr, root types.Object, isPrefix, isExt func(string) bool) bool {
	shared := false
	var visit func(n ast.Node, inCallFun bool)
	visit = func(n ast.Node, _ bool) {
		ast.Inspect(n, func(x ast.Node) bool {
			if shared || x == nil {
				return false
			}
			switch s := x.(type) {
			case *ast.FuncLit:
				return false
			case *ast.CallExpr:
				// receiver and operands of bitmask/other method calls are inspected separately: a method call on the
				// path reads it; it does not store the header. Arguments may retain: handled by escapesIn for statements.
				if se, ok := ast.Unparen(s.Fun).(*ast.SelectorExpr); ok {
					if r, q, okp := accessPath(info, se.X); okp && r == root && (isPrefix(q) || isExt(q)) {
						// skip the receiver; still look at the arguments
						for _, a := range s.Args {
							_ = a
						}
						return false
					}
				}
				return true
			case *ast.SelectorExpr, *ast.Ident, *ast.StarExpr:
				if ex, ok := s.(ast.Expr); ok {
					if r, q, okp := accessPath(info, ex); okp {
						// maximal access path: judge it as a whole, never its sub-expressions
						if r == root && (isPrefix(q) || isExt(q)) {
							t := info.TypeOf(ex)
							if t != nil {
								if _, isPtr := t.Underlying().(*types.Pointer); isPtr {
									// copying a pointer does not copy the struct; storing it publishes: treated by escapesIn
									return false
								}
							}
							shared = true
						}
						return false
					}
				}
			}
			return true
		})
	}
	visit(e, false)
	return shared
}

// escapesIn: statement n lets the tracked value (or its address / enclosing struct) escape this function's
// exclusive ownership: sent, passed to go/defer or a non-bitmask call by value or address, stored in a map/field.
func escapesIn(p *Prog, f *Fn, n ast.Node, root types.Object, isPrefix, isExt func(string) bool) bool {
	info := f.Pkg.TypesInfo
	esc := false
	mentions := func(e ast.Expr) bool {
		m := false
		ast.Inspect(e, func(x ast.Node) bool {
			if _, isLit := x.(*ast.FuncLit); isLit {
				return false
			}
			if ex, ok := x.(ast.Expr); ok {
				if r, q, okp := accessPath(info, ex); okp {
					if r == root && (isPrefix(q) || isExt(q)) {
						m = true
					}
					return false // maximal access path: do not judge its sub-expressions
				}
			}
			return !m
		})
		return m
	}
	switch s := n.(type) {
	case *ast.SendStmt:
		// a posted closure capturing the variable
		if lit, ok := ast.Unparen(s.Value).(*ast.FuncLit); ok {
			ast.Inspect(lit.Body, func(x ast.Node) bool {
				if id, ok := x.(*ast.Ident); ok && info.ObjectOf(id) == root {
					esc = true
				}
				return !esc
			})
		} else if mentions(s.Value) {
			esc = true
		}
	case *ast.GoStmt:
		for _, a := range s.Call.Args {
			if mentions(a) {
				esc = true
			}
		}
		if lit, ok := ast.Unparen(s.Call.Fun).(*ast.FuncLit); ok {
			ast.Inspect(lit.Body, func(x ast.Node) bool {
				if id, ok := x.(*ast.Ident); ok && info.ObjectOf(id) == root {
					esc = true
				}
				return !esc
			})
		}
	case *ast.ExprStmt, *ast.ReturnStmt, *ast.DeferStmt:
		inspectShallow(n, func(x ast.Node) bool {
			c, ok := x.(*ast.CallExpr)
			if !ok {
				return true
			}
			fn := p.Callee(f.Pkg, c)
			if fn != nil && fn.Pkg() != nil && strings.HasSuffix(fn.Pkg().Path(), "/tools/bitmask") {
				return true // operands of bitmask methods are only read
			}
			if isBuiltin(info, c, "len") || isBuiltin(info, c, "cap") {
				return true
			}
			for ai, a := range c.Args {
				if mentions(a) {
					// passing the value or its address to a non-bitmask function
					if tf := p.FnOfObj(fnOrNil(fn)); tf != nil && paramsNotRetained(p, tf) && isBitmaskNamed(info.TypeOf(a)) {
						continue
					}
					// the address of the struct handed to a helper that only reaches through the pointer (t.Matches.Set(…)):
					// nothing is retained, the struct stays the caller's
					if u, ok := ast.Unparen(a).(*ast.UnaryExpr); ok && u.Op == token.AND {
						if tf := p.FnOfObj(fnOrNil(fn)); tf != nil && ptrParamOnlyDereferenced(tf, ai) {
							continue
						}
					}
					esc = true
				}
			}
			return true
		})
	}
	return esc
}

func fnOrNil(f *types.Func) *types.Func {
	if f == nil {
		return types.NewFunc(token.NoPos, nil, "", types.NewSignatureType(nil, nil, nil, nil, nil, false))
	}
	return f
}

// paramFreshAtEveryCall: root is a pointer parameter of the unexported declared function f, and every call of f in its
// package passes `&x` for it with x a local of the caller whose corresponding path (x.Matches for t.Matches) is fresh
// at the call — the helper works on its caller's private copy (addStreamsToMarkTag(&newTag, …)).
func paramFreshAtEveryCall(p *Prog, f *Fn, root types.Object, path string) bool {
	if f.Lit != nil || f.Decl == nil || ast.IsExported(f.Decl.Name.Name) {
		return false
	}
	idx := paramIndex(f, root)
	if idx < 0 {
		return false
	}
	if _, isPtr := root.Type().Underlying().(*types.Pointer); !isPtr {
		return false
	}
	fobj, _ := f.Pkg.TypesInfo.Defs[f.Decl.Name].(*types.Func)
	if fobj == nil {
		return false
	}
	busyKey := f.Key() + "|" + path
	if p.paramFreshBusy == nil {
		p.paramFreshBusy = map[string]bool{}
	}
	if p.paramFreshBusy[busyKey] {
		return false
	}
	p.paramFreshBusy[busyKey] = true
	defer delete(p.paramFreshBusy, busyKey)
	suffix := strings.TrimPrefix(path, root.Name())
	sites, good := 0, 0
	for _, g := range p.FnList {
		if g.Pkg != f.Pkg || g.Body() == nil {
			continue
		}
		ginfo := g.Pkg.TypesInfo
		var gfl *Flow
		inspectShallow(g.Body(), func(x ast.Node) bool {
			c, ok := x.(*ast.CallExpr)
			if !ok || p.Callee(g.Pkg, c) != fobj || idx >= len(c.Args) {
				return true
			}
			sites++
			u, ok := ast.Unparen(c.Args[idx]).(*ast.UnaryExpr)
			if !ok || u.Op != token.AND {
				return true
			}
			xo := identObj(ginfo, u.X)
			if xo == nil {
				return true
			}
			if gfl == nil {
				gfl = p.Flow(g)
			}
			// the CFG node that contains the call
			var pt Pt
			found := false
			for _, b := range gfl.G.Blocks {
				for i, nd := range b.Nodes {
					if nd.Pos() <= c.Pos() && c.End() <= nd.End() && !found {
						pt, found = Pt{b, i}, true
					}
				}
			}
			if !found {
				return true
			}
			if ok2, _ := freshAt(p, g, gfl, pt, xo, xo.Name()+suffix); ok2 {
				good++
			}
			return true
		})
	}
	return sites > 0 && sites == good
}

// ptrParamOnlyDereferenced: every mention of the idx-th parameter of the declared function tf is the operand of a field
// selection (po.F…): the pointer is neither stored, returned, passed on nor captured by a literal that is started with go.
func ptrParamOnlyDereferenced(tf *Fn, idx int) bool {
	if tf.Lit != nil || tf.Body() == nil {
		return false
	}
	po := paramObj(tf, idx)
	if po == nil {
		return false
	}
	info := tf.Pkg.TypesInfo
	ok := true
	inspectParents(tf.Body(), func(x ast.Node, ps []ast.Node) bool {
		id, isID := x.(*ast.Ident)
		if !isID || info.Uses[id] != po || len(ps) == 0 {
			return true
		}
		if se, isSel := ps[len(ps)-1].(*ast.SelectorExpr); isSel && se.X == ast.Expr(id) {
			return true
		}
		ok = false
		return true
	})
	// nested literals are not visited by inspectParents: any mention inside one counts as retained
	ast.Inspect(tf.Body(), func(x ast.Node) bool {
		if lit, isLit := x.(*ast.FuncLit); isLit {
			ast.Inspect(lit.Body, func(y ast.Node) bool {
				if id, isID := y.(*ast.Ident); isID && info.Uses[id] == po {
					ok = false
				}
				return true
			})
			return false
		}
		return true
	})
	return ok
}
