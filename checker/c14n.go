package main

// c14n.go: C14-n a loop over a range of numbers taken from the query is bounded by something else than the query.
//
// `id:0:1000000000000` is fifteen bytes of query text. Two places in package query walk from the lower to the upper
// bound of an id filter, number by number: cleanSimpleIDFilter (the fast path for generated id lists) and
// ConditionsSet.StreamIDs. Both are safe today for a structural reason — the first only runs when both bounds are equal
// (one iteration), the second clamps the upper bound to the number of streams that exist. Seeded C14q widened the guard
// of the first ("closed ranges are what this function produces itself") and Parse of the fifteen bytes no longer
// answers.
//
// Rule (FLOW, edge-pruned): in package query, for every counted loop `for i := lo; i <= hi; i++` (or `<`) whose two
// bounds are results of one call, every path from that call to the loop either passes an edge on which lo == hi holds
// (false edge of a condition with the disjunct `lo != hi`, true edge of one with the conjunct `lo == hi`) or a
// comparison of hi with a value that does not come from the query (a parameter of the function): the clamp.

import (
	"fmt"
	"go/ast"
	"go/token"
	"go/types"

	"golang.org/x/tools/go/cfg"
)

func init() {
	register("C14",
		"C14-n (FLOW, edge-pruned): in package query, for every counted loop `for i := lo; i <= hi; i++` (or `<`) whose two bounds are results of one call (the bounds of an id filter), every path from that call to the loop passes an edge on which lo == hi holds (one iteration) or a comparison of hi with a parameter of the function (the clamp to the number of streams that exist). A range is a few bytes of query text; walking it number by number makes the answer time of Parse a function of the VALUES in the query (`id:0:1000000000000`), not of its length. How long the bounded loops take is NOT decided.",
		func(p *Prog, r *Res) {
			const rule = "C14-n range-walk-is-bounded"
			r.Rule(rule + ": a loop from the lower to the upper bound of a filter runs once or up to a bound that is not part of the query")
			n := 0
			for _, f := range p.FnList {
				if f.Short != "query" || f.Body() == nil {
					continue
				}
				info := f.Pkg.TypesInfo
				var fl *Flow
				inspectShallow(f.Body(), func(x ast.Node) bool {
					fs, ok := x.(*ast.ForStmt)
					if !ok || fs.Init == nil || fs.Cond == nil {
						return true
					}
					init, ok := fs.Init.(*ast.AssignStmt)
					if !ok || len(init.Lhs) != 1 || len(init.Rhs) != 1 {
						return true
					}
					iv := identObj(info, init.Lhs[0])
					lo := identObj(info, init.Rhs[0])
					be, ok := ast.Unparen(fs.Cond).(*ast.BinaryExpr)
					if !ok || (be.Op != token.LEQ && be.Op != token.LSS) || iv == nil || identObj(info, be.X) != iv {
						return true
					}
					hi := identObj(info, be.Y)
					if lo == nil || hi == nil || lo == hi {
						return true
					}
					// both bounds defined by one multi-value call assignment
					var def *ast.AssignStmt
					nDefLo := 0
					inspectShallow(f.Body(), func(y ast.Node) bool {
						as, ok := y.(*ast.AssignStmt)
						if !ok {
							return true
						}
						hasLo, hasHi := false, false
						for _, l := range as.Lhs {
							if identObj(info, l) == lo {
								hasLo = true
								nDefLo++
							}
							if identObj(info, l) == hi {
								hasHi = true
							}
						}
						if hasLo && hasHi && len(as.Rhs) == 1 {
							if _, isCall := ast.Unparen(as.Rhs[0]).(*ast.CallExpr); isCall {
								def = as
							}
						}
						return true
					})
					if def == nil || nDefLo != 1 {
						return true
					}
					if fl == nil {
						fl = p.Flow(f)
					}
					dpt, ok1 := fl.PointOf(def)
					if !ok1 {
						return true
					}
					n++
					key := fmt.Sprintf("%s walks %s..%s", f.Key(), lo.Name(), hi.Name())
					isEq := func(c ast.Expr, op token.Token) bool {
						b, ok := ast.Unparen(c).(*ast.BinaryExpr)
						if !ok || b.Op != op {
							return false
						}
						x, y := identObj(info, b.X), identObj(info, b.Y)
						return (x == lo && y == hi) || (x == hi && y == lo)
					}
					var mentionsParamD func(e ast.Expr, depth int) bool
					mentionsParamD = func(e ast.Expr, depth int) bool {
						hit := false
						ast.Inspect(e, func(z ast.Node) bool {
							id, ok := z.(*ast.Ident)
							if !ok || hit {
								return !hit
							}
							o := info.Uses[id]
							if o == nil || o == lo || o == hi {
								return true
							}
							if paramIndexDeep(f, o) >= 0 {
								hit = true
								return false
							}
							// a local with one definition that comes from a parameter: limit := uint(nextStreamID)
							if v, isVar := o.(*types.Var); isVar && !v.IsField() && depth < 2 {
								var defs []ast.Expr
								inspectShallow(f.Body(), func(y ast.Node) bool {
									if as, ok := y.(*ast.AssignStmt); ok && len(as.Lhs) == len(as.Rhs) {
										for i, l := range as.Lhs {
											if identObj(info, l) == o {
												defs = append(defs, as.Rhs[i])
											}
										}
									}
									return true
								})
								if len(defs) == 1 && mentionsParamD(defs[0], depth+1) {
									hit = true
								}
							}
							return !hit
						})
						return hit
					}
					mentionsParam := func(e ast.Expr) bool { return mentionsParamD(e, 0) }
					// the clamp: hi compared with something that comes from the caller
					clamp := func(nd ast.Node) bool {
						if as, isAs := nd.(*ast.AssignStmt); isAs && len(as.Lhs) == len(as.Rhs) {
							// hi = min(hi, uint(nextStreamID))
							for i, l := range as.Lhs {
								if identObj(info, l) == hi && mentionsParam(as.Rhs[i]) {
									return true
								}
							}
							return false
						}
						e, ok := nd.(ast.Expr)
						if !ok {
							return false
						}
						for _, c := range append(conjuncts(e), disjuncts(e)...) {
							b, ok := ast.Unparen(c).(*ast.BinaryExpr)
							if !ok {
								continue
							}
							switch b.Op {
							case token.LSS, token.LEQ, token.GTR, token.GEQ:
							default:
								continue
							}
							if (identObj(info, b.X) == hi && mentionsParam(b.Y)) || (identObj(info, b.Y) == hi && mentionsParam(b.X)) {
								return true
							}
						}
						return false
					}
					saved := fl.EdgeOK
					fl.EdgeOK = func(b *cfg.Block, succ int) bool {
						if saved != nil && !saved(b, succ) {
							return false
						}
						if len(b.Succs) != 2 || len(b.Nodes) == 0 {
							return true
						}
						cond, ok := b.Nodes[len(b.Nodes)-1].(ast.Expr)
						if !ok {
							return true
						}
						if succ == 1 {
							for _, d := range disjuncts(cond) {
								if isEq(d, token.NEQ) {
									return false // all disjuncts false: lo == hi
								}
							}
							return true
						}
						for _, c := range conjuncts(cond) {
							if isEq(c, token.EQL) {
								return false
							}
						}
						return true
					}
					res := fl.Reach([]Pt{After(dpt)}, func(nd ast.Node) bool { return nd == ast.Node(fs.Init) }, clamp)
					fl.EdgeOK = saved
					r.Check(!res.Found, rule, key, p.Pos(fs), "reached only with "+lo.Name()+" == "+hi.Name()+" or behind a comparison of "+hi.Name()+" with a parameter", "the loop walks from "+lo.Name()+" to "+hi.Name()+", both taken from the query, and is reached without a test that they are equal and without a clamp of "+hi.Name()+" to a value of the caller ("+fl.traceString(res)+"): `id:0:1000000000000` is fifteen bytes, and the query does not answer")
					return true
				})
			}
			r.Floor(rule, 2, n)
		})
}
