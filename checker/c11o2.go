package main

// c11o2.go: C11-p a definition is rebuilt from a tag's matches only when the matches are complete.
//
// A mark (or generated) tag is a plain list of stream ids; removing a stream rewrites the definition from the tag's
// Matches — "a bit hacky but much faster than parsing the definition of long mark tags again". Matches is only what is
// DECIDED: after the list was replaced (change_query, accepted for any plain id filter) every stream is pending and
// Matches is empty until the tagging job has run. A mark_del in that window — the 'unmark' of the UI right after a bulk
// edit, with imports keeping the tags busy — rebuilt the definition from the empty set: `id:10,11,12,13` minus stream 11
// became `id:-1`, the tag lost 10, 12 and 13 as well, both calls having returned success (#91,
// probes/c11_unmark_on_a_pending_mark_tag).
//
// Rule (typed AST): in package manager a function that writes a definition text from a loop over X.Matches
// (`X.Matches.Next(&i)` feeding a strings.Builder) also assigns X.Matches from the definition — the result of
// Conditions.StreamIDs — under a condition that asks Uncertain.IsZero().

import (
	"go/ast"
	"go/types"
)

func init() {
	register("C11",
		"C11-p (typed AST): in package manager a function that writes a definition text from a loop over a tag's Matches (`X.Matches.Next(&i)` feeding a strings.Builder) also assigns X.Matches from the definition — the result of ConditionsSet.StreamIDs — under a condition that asks Uncertain.IsZero(). Matches holds what is decided; for a tag whose list was just replaced nothing is decided yet, and a definition rebuilt from the empty set drops every stream of the list, not only the one the call named — while the call reports success.",
		func(p *Prog, r *Res) {
			const rule = "C11-p definition-rebuilt-from-complete-matches"
			r.Rule(rule + ": a definition text derived from Matches refreshes Matches from the definition when the tag is pending")
			matches := p.Field("query", "TagDetails", "Matches")
			unc := p.Field("query", "TagDetails", "Uncertain")
			if matches == nil || unc == nil {
				p.anchorFail("query.TagDetails.Matches / Uncertain")
				return
			}
			n := 0
			for _, f := range p.FnList {
				if f.Short != "manager" || f.Body() == nil {
					continue
				}
				info := f.Pkg.TypesInfo
				var loop ast.Node
				inspectShallow(f.Body(), func(x ast.Node) bool {
					fs, ok := x.(*ast.ForStmt)
					if !ok || fs.Cond == nil {
						return true
					}
					c, ok := ast.Unparen(fs.Cond).(*ast.CallExpr)
					if !ok {
						return true
					}
					se, ok := ast.Unparen(c.Fun).(*ast.SelectorExpr)
					if !ok || se.Sel.Name != "Next" {
						return true
					}
					if ms, ok := ast.Unparen(se.X).(*ast.SelectorExpr); !ok || info.Uses[ms.Sel] != types.Object(matches) {
						// the loop stands in a helper that is handed the match set: streamIDListQuery(newTag.Matches)
						po := identObj(info, se.X)
						idx := -1
						if po != nil && f.Lit == nil && f.Decl != nil {
							idx = paramIndex(f, po)
						}
						if idx < 0 {
							return true
						}
						fobj, _ := info.Defs[f.Decl.Name].(*types.Func)
						handed := false
						for _, g := range p.FnList {
							if g.Pkg != f.Pkg || g.Body() == nil || fobj == nil {
								continue
							}
							for _, cc := range callsIn(g.Body()) {
								if p.Callee(g.Pkg, cc) == fobj && idx < len(cc.Args) {
									if as, ok := ast.Unparen(cc.Args[idx]).(*ast.SelectorExpr); ok && g.Pkg.TypesInfo.Uses[as.Sel] == types.Object(matches) {
										handed = true
									}
								}
							}
						}
						if !handed {
							return true
						}
					}
					writes := false
					for _, cc := range callsIn(fs.Body) {
						if fn := p.Callee(f.Pkg, cc); fn != nil && (fn.FullName() == "fmt.Fprintf" || fn.FullName() == "(*strings.Builder).WriteString" || fn.FullName() == "fmt.Fprint") {
							writes = true
						}
					}
					if writes {
						loop = fs
					}
					return true
				})
				if loop == nil {
					continue
				}
				n++
				refreshedIn := func(f *Fn) bool {
					info := f.Pkg.TypesInfo
					refreshed := false
					inspectShallow(f.Body(), func(x ast.Node) bool {
						ifs, ok := x.(*ast.IfStmt)
						if !ok {
							return true
						}
						asksPending := false
						var condParts []ast.Node
						condParts = append(condParts, ifs.Cond)
						if ifs.Init != nil {
							condParts = append(condParts, ifs.Init)
						}
						// booleans of the condition that are defined elsewhere in the function (tagIsPending := !tag.Uncertain.IsZero())
						ast.Inspect(ifs.Cond, func(y ast.Node) bool {
							if id, ok := y.(*ast.Ident); ok {
								if o := info.Uses[id]; o != nil {
									inspectShallow(f.Body(), func(z ast.Node) bool {
										if as, ok := z.(*ast.AssignStmt); ok && len(as.Lhs) == len(as.Rhs) {
											for i, l := range as.Lhs {
												if identObj(info, l) == o {
													condParts = append(condParts, as.Rhs[i])
												}
											}
										}
										return true
									})
								}
							}
							return true
						})
						for _, part := range condParts {
							ast.Inspect(part, func(y ast.Node) bool {
								if c, ok := y.(*ast.CallExpr); ok {
									if se, ok := ast.Unparen(c.Fun).(*ast.SelectorExpr); ok && se.Sel.Name == "IsZero" {
										if us, ok := ast.Unparen(se.X).(*ast.SelectorExpr); ok && info.Uses[us.Sel] == types.Object(unc) {
											asksPending = true
										}
									}
								}
								return true
							})
						}
						if !asksPending {
							return true
						}
						// inside: X.Matches = <value that comes from StreamIDs>
						fromDef := map[types.Object]bool{}
						ast.Inspect(ifs.Body, func(y ast.Node) bool {
							switch st := y.(type) {
							case *ast.AssignStmt:
								for _, rh := range st.Rhs {
									if c, ok := ast.Unparen(rh).(*ast.CallExpr); ok {
										if fn := p.Callee(f.Pkg, c); fn != nil && fn.Name() == "StreamIDs" {
											for _, l := range st.Lhs {
												if o := identObj(info, l); o != nil {
													fromDef[o] = true
												}
												if ls, ok := ast.Unparen(l).(*ast.SelectorExpr); ok && info.Uses[ls.Sel] == types.Object(matches) {
													refreshed = true
												}
											}
										}
									}
								}
								for i, l := range st.Lhs {
									if ls, ok := ast.Unparen(l).(*ast.SelectorExpr); ok && info.Uses[ls.Sel] == types.Object(matches) && i < len(st.Rhs) {
										if fromDef[identObj(info, st.Rhs[i])] {
											refreshed = true
										}
									}
								}
							case *ast.IfStmt:
								if as, ok := st.Init.(*ast.AssignStmt); ok && len(as.Rhs) == 1 {
									if c, ok := ast.Unparen(as.Rhs[0]).(*ast.CallExpr); ok {
										if fn := p.Callee(f.Pkg, c); fn != nil && fn.Name() == "StreamIDs" {
											for _, l := range as.Lhs {
												if o := identObj(info, l); o != nil {
													fromDef[o] = true
												}
											}
										}
									}
								}
							}
							return true
						})
						return true
					})
					return refreshed
				}
				refreshed := refreshedIn(f)
				if !refreshed && f.Lit == nil && f.Decl != nil && !ast.IsExported(f.Decl.Name.Name) {
					// the text is written by a helper: the refresh may stand in every function that calls it
					if fobj, _ := info.Defs[f.Decl.Name].(*types.Func); fobj != nil {
						sites, good := 0, 0
						for _, g := range p.FnList {
							if g.Pkg != f.Pkg || g.Body() == nil {
								continue
							}
							for _, c := range callsIn(g.Body()) {
								if p.Callee(g.Pkg, c) == fobj {
									sites++
									if refreshedIn(g) {
										good++
									}
								}
							}
						}
						refreshed = sites > 0 && sites == good
					}
				}
				r.Check(refreshed, rule, f.Key()+" writes a definition from Matches", p.Pos(loop), "Matches is taken from the definition while the tag is pending", "the definition text is rebuilt from Matches and nothing refreshes Matches from the definition when the tag is not decided: for a tag whose list was just replaced Matches is empty, so removing ONE stream rewrites the definition to `id:-1` — all streams of the list are gone and the call reports success")
			}
			r.Floor(rule, 1, n)
		})
}
