package main

// c06s.go: C06-s which pending tags are decided before a search looks at converter names.
//
// All data filters of one alternative of a query must name the same converter (the search answers anything else with
// the error "all data conditions must have the same converter name"). A pending tag is searched by inlining its
// definition — so `-tag:decoded cdata:foo` with tag/decoded = `data.up:FLAG` is fine once the tag is decided and fails
// with that error for as long as it is pending: right after every import, tag edit, converter run and restart, the same
// search alternates between an answer and HTTP 500 (#92, probes/c06_pending_tag_with_another_converter). Pending tags
// with sub-queries of their own are already decided up front by a nested search instead of being inlined (#70).
//
// Rule (typed AST): the function of package index that chooses the pending tags that are decided before
// InlineTagFilters (it reads TagDetails.Uncertain and calls SearchStreams) reads DataConditionElement.ConverterName, and a condition of the function depends on what was
// read (through assignments, map stores and len).

import (
	"go/ast"
	"go/types"
)

func init() {
	register("C06",
		"C06-s (typed AST): the function of package index that decides pending tags by a nested search before the rest are inlined (it reads TagDetails.Uncertain and calls SearchStreams, other than SearchStreams itself) reads DataConditionElement.ConverterName: a pending tag whose data filter names another converter than the filters it would be inlined next to is decided, not inlined. All data filters of one alternative must name the same converter; inlined next to a filter with another name the definition of a pending tag turns a correct search into an error for as long as the tag is pending.",
		func(p *Prog, r *Res) {
			const rule = "C06-s pending-tags-with-another-converter-are-decided"
			r.Rule(rule + ": the choice between deciding and inlining a pending tag looks at converter names")
			unc := p.Field("query", "TagDetails", "Uncertain")
			conv := p.Field("query", "DataConditionElement", "ConverterName")
			if unc == nil || conv == nil {
				p.anchorFail("query.TagDetails.Uncertain / query.DataConditionElement.ConverterName")
				return
			}
			n := 0
			type cand struct {
				f  *Fn
				ok bool
			}
			var cands []cand
			// functions of the package whose RESULT depends on converter names (usesMixedConverters(qs, tagDetails) bool,
			// extracted from the chooser): a call of one is as good as reading the names
			derivedResult := map[*types.Func]bool{}
			for round := 0; round < 2; round++ {
				for _, h := range p.FnList {
					if h.Short != "index" || h.Lit != nil || h.Body() == nil || h.Decl == nil {
						continue
					}
					hobj, _ := h.Pkg.TypesInfo.Defs[h.Decl.Name].(*types.Func)
					if hobj == nil || derivedResult[hobj] {
						continue
					}
					// one result that is a plain value (a flag, a count, a set of names) — not an error, and not a
					// function that searches itself (its result depends on everything)
					hsig, _ := hobj.Type().(*types.Signature)
					if hsig == nil || hsig.Results().Len() != 1 {
						continue
					}
					if _, isIface := hsig.Results().At(0).Type().Underlying().(*types.Interface); isIface {
						continue
					}
					hSearches := false
					for _, c := range callsInDeep(h.Body()) {
						if fn := p.Callee(h.Pkg, c); fn != nil && fn.Name() == "SearchStreams" {
							hSearches = true
						}
					}
					if hSearches {
						continue
					}
					_, hm := converterTaint(p, h, conv, derivedResult)
					inspectShallow(h.Body(), func(x ast.Node) bool {
						if ret, ok := x.(*ast.ReturnStmt); ok {
							for _, e := range ret.Results {
								if hm(e) {
									derivedResult[hobj] = true
								}
							}
						}
						return true
					})
				}
			}
			for _, f := range p.FnList {
				if f.Short != "index" || f.Lit != nil || f.Body() == nil || f.Name == "SearchStreams" {
					continue
				}
				info := f.Pkg.TypesInfo
				readsUnc, searches, readsConv := false, false, false
				ast.Inspect(f.Body(), func(x ast.Node) bool {
					switch s := x.(type) {
					case *ast.SelectorExpr:
						if info.Uses[s.Sel] == types.Object(unc) {
							readsUnc = true
						}
						if info.Uses[s.Sel] == types.Object(conv) {
							readsConv = true
						}
					case *ast.CallExpr:
						if fn := p.Callee(f.Pkg, s); fn != nil && fn.Name() == "SearchStreams" {
							searches = true
						}
					}
					return true
				})
				if !searches {
					// … or calls a function of the package that runs the nested search (decideTag)
					for _, c := range callsInDeep(f.Body()) {
						if fn := p.Callee(f.Pkg, c); fn != nil {
							if h := p.FnOfObj(fn); h != nil && h.Short == "index" && h.Lit == nil && h.Body() != nil && h.Name != "SearchStreams" {
								for _, c2 := range callsInDeep(h.Body()) {
									if fn2 := p.Callee(h.Pkg, c2); fn2 != nil && fn2.Name() == "SearchStreams" {
										searches = true
									}
								}
							}
						}
					}
				}
				hasLoop := false
				ast.Inspect(f.Body(), func(x ast.Node) bool {
					if _, ok := x.(*ast.RangeStmt); ok {
						hasLoop = true
					}
					return true
				})
				if !readsUnc || !searches || !hasLoop {
					continue
				}
				// … and a condition of the function depends on what was read: taint from ConverterName through
				// assignments, map stores (m[name] = …) and len()
				_, mentions := converterTaint(p, f, conv, derivedResult)
				condDepends := false
				ast.Inspect(f.Body(), func(y ast.Node) bool {
					if ifs, ok := y.(*ast.IfStmt); ok && mentions(ifs.Cond) {
						condDepends = true
					}
					return true
				})
				for _, c := range callsInDeep(f.Body()) {
					if fn := p.Callee(f.Pkg, c); fn != nil && derivedResult[fn.Origin()] {
						readsConv = true
					}
				}
				readsConv = readsConv && condDepends
				cands = append(cands, cand{f, readsConv})
			}
			// the choice is made in ONE of the functions that decide pending tags (the others are helpers of it: the
			// nested search extracted into a function of its own); the rule holds when one of them looks at the names
			anyOK := false
			for _, c := range cands {
				if c.ok {
					anyOK = true
				}
			}
			for _, c := range cands {
				if anyOK && !c.ok {
					continue
				}
				n++
				r.Check(c.ok, rule, c.f.Key()+" chooses the pending tags to decide", p.Pos(c.f.Node()), "converter names are part of the choice", "pending tags are decided up front only for reasons that do not include the converter their data filters name: a tag on converter output (`data.up:FLAG`) that is pending is inlined next to a filter on the raw data, and the search fails with 'all data conditions must have the same converter name' until the tagging job has caught up")
			}
			r.Floor(rule, 1, n)
		})
}

// converterTaint: the locals of f that hold a value derived from DataConditionElement.ConverterName — through
// assignments, map stores (m[name] = …), len(), and the results of functions of the package that derive theirs from
// the names — and a predicate 'this node mentions the names or such a local'.
func converterTaint(p *Prog, f *Fn, conv *types.Var, derived map[*types.Func]bool) (map[types.Object]bool, func(ast.Node) bool) {
	info := f.Pkg.TypesInfo
	tainted := map[types.Object]bool{}
	mentions := func(nd ast.Node) bool {
		hit := false
		ast.Inspect(nd, func(y ast.Node) bool {
			switch z := y.(type) {
			case *ast.SelectorExpr:
				if info.Uses[z.Sel] == types.Object(conv) {
					hit = true
				}
			case *ast.Ident:
				if o := info.Uses[z]; o != nil && tainted[o] {
					hit = true
				}
			case *ast.CallExpr:
				if fn := p.Callee(f.Pkg, z); fn != nil && derived[fn.Origin()] {
					hit = true
				}
			}
			return !hit
		})
		return hit
	}
	for round := 0; round < 4; round++ {
		ast.Inspect(f.Body(), func(y ast.Node) bool {
			as, ok := y.(*ast.AssignStmt)
			if !ok {
				return true
			}
			for i, l := range as.Lhs {
				var rh ast.Node
				if len(as.Rhs) == len(as.Lhs) {
					rh = as.Rhs[i]
				} else if len(as.Rhs) == 1 {
					rh = as.Rhs[0]
				}
				if _, isLit := rh.(*ast.FuncLit); isLit {
					continue // a function value is not a value derived from the names
				}
				if ix, ok := ast.Unparen(l).(*ast.IndexExpr); ok {
					if o := identObj(info, ix.X); o != nil && (mentions(ix.Index) || (rh != nil && mentions(rh))) {
						tainted[o] = true
					}
					continue
				}
				if o := identObj(info, l); o != nil && rh != nil && mentions(rh) {
					tainted[o] = true
				}
			}
			return true
		})
	}
	return tainted, mentions
}
