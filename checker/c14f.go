package main

// c14f.go: C14-f string-index-guarded.
//
// In package query a byte index s[k] on a string value (text that comes from the query) is reached only over CFG
// edges that establish len(s) > k: the true edge of a conjunct `len(s) > c`, `len(s) >= c`, `len(s) != 0`, `s != ""`,
// strings.HasPrefix/HasSuffix(s, lit) with a long enough literal; the false edge of a disjunct `len(s) == 0`,
// `s == ""`, `len(s) < c`, `len(s) <= c`; or the index is the key of a range over s / a counted loop bounded by len(s).
// An assignment to s on the way forgets the fact.

import (
	"fmt"
	"go/ast"
	"go/constant"
	"go/token"
	"go/types"

	"golang.org/x/tools/go/cfg"
)

func init() {
	register("C14",
		"C14-f (FLOW): in package query every byte index s[k] on a non-constant string is reached only over edges that establish len(s) > k (length comparisons, s != \"\", HasPrefix/HasSuffix with a literal longer than k), or k is the key of a range over s or bounded by len(s) in the loop condition; an assignment to s forgets the fact. Parse must answer malformed text (an empty element of a list, an empty value) with an error, not with an index-out-of-range panic.",
		ruleC14StringIndex)
}

func ruleC14StringIndex(p *Prog, r *Res) {
	const rule = "C14-f string-index-guarded"
	r.Rule(rule + ": s[k] on a string needs len(s) > k on every path")
	n, nStrIdx := 0, 0
	for _, f := range p.FnList {
		if f.Short != "query" || f.Body() == nil {
			continue
		}
		info := f.Pkg.TypesInfo
		inspectParents(f.Body(), func(x ast.Node, parents []ast.Node) bool {
			ix, ok := x.(*ast.IndexExpr)
			if !ok {
				return true
			}
			tv, ok := info.Types[ix.X]
			if !ok || tv.Value != nil {
				return true
			}
			if b, ok := tv.Type.Underlying().(*types.Basic); !ok || b.Info()&types.IsString == 0 {
				return true
			}
			nStrIdx++
			sObj := identObj(info, ix.X)
			sStr := exprString(p.Fset, ast.Unparen(ix.X))
			key := fmt.Sprintf("%s %s[%s]", f.Key(), sStr, exprString(p.Fset, ix.Index))
			n++
			isS := func(e ast.Expr) bool {
				if sObj != nil {
					return identObj(info, e) == sObj
				}
				return exprString(p.Fset, ast.Unparen(e)) == sStr
			}
			lenOfS := func(e ast.Expr) bool {
				c, ok := ast.Unparen(e).(*ast.CallExpr)
				return ok && isBuiltin(info, c, "len") && len(c.Args) == 1 && isS(c.Args[0])
			}
			constOf := func(e ast.Expr) (int64, bool) {
				if tv, ok := info.Types[e]; ok && tv.Value != nil && tv.Value.Kind() == constant.Int {
					v, exact := constant.Int64Val(tv.Value)
					return v, exact
				}
				return 0, false
			}
			// variable index: range key over s, or bounded by len(s) in an enclosing loop condition
			k, isConst := constOf(ix.Index)
			if !isConst {
				iv := identObj(info, ix.Index)
				okLoop := false
				for _, par := range parents {
					switch l := par.(type) {
					case *ast.RangeStmt:
						if iv != nil && identObj(info, l.Key) == iv && isS(l.X) {
							okLoop = true
						}
					case *ast.ForStmt:
						if l.Cond != nil && iv != nil {
							for _, c := range conjuncts(l.Cond) {
								if be, ok := ast.Unparen(c).(*ast.BinaryExpr); ok && be.Op == token.LSS && identObj(info, be.X) == iv && lenOfS(be.Y) {
									okLoop = true
								}
							}
						}
					}
				}
				if okLoop {
					r.Ok(rule, key, p.Pos(ix), "the index is bounded by the loop over the same string")
				} else {
					r.Exempt(rule, key, p.Pos(ix), "variable index: bounded by arithmetic this rule does not decide")
				}
				return true
			}
			// does taking the edge establish len(s) > k?
			establishes := func(c ast.Expr, trueEdge bool) bool {
				c = ast.Unparen(c)
				if call, ok := c.(*ast.CallExpr); ok && trueEdge {
					if fn := p.Callee(f.Pkg, call); fn != nil && fn.Pkg() != nil && fn.Pkg().Path() == "strings" && (fn.Name() == "HasPrefix" || fn.Name() == "HasSuffix") && len(call.Args) == 2 && isS(call.Args[0]) {
						if tv, ok := info.Types[call.Args[1]]; ok && tv.Value != nil && tv.Value.Kind() == constant.String {
							return int64(len(constant.StringVal(tv.Value))) > k
						}
					}
					return false
				}
				be, ok := c.(*ast.BinaryExpr)
				if !ok {
					return false
				}
				op := be.Op
				var other ast.Expr
				switch {
				case lenOfS(be.X):
					other = be.Y
				case lenOfS(be.Y):
					other = be.X
					switch op {
					case token.LSS:
						op = token.GTR
					case token.GTR:
						op = token.LSS
					case token.LEQ:
						op = token.GEQ
					case token.GEQ:
						op = token.LEQ
					}
				case isS(be.X) || isS(be.Y):
					// s != "" / s == ""
					o := be.Y
					if isS(be.Y) {
						o = be.X
					}
					if tv, ok := info.Types[o]; ok && tv.Value != nil && tv.Value.Kind() == constant.String && constant.StringVal(tv.Value) == "" && k == 0 {
						return (trueEdge && op == token.NEQ) || (!trueEdge && op == token.EQL)
					}
					return false
				default:
					return false
				}
				cv, ok := constOf(other)
				if !ok {
					return false
				}
				if trueEdge {
					switch op {
					case token.GTR:
						return cv >= k
					case token.GEQ:
						return cv > k
					case token.NEQ:
						return cv == 0 && k == 0
					case token.EQL:
						return cv > k
					}
					return false
				}
				switch op {
				case token.LSS:
					return cv > k
				case token.LEQ:
					return cv >= k
				case token.EQL:
					return cv == 0 && k == 0
				}
				return false
			}
			fl := p.Flow(f)
			fl.EdgeOK = func(b *cfg.Block, succ int) bool {
				if len(b.Succs) != 2 || len(b.Nodes) == 0 {
					return true
				}
				cond, ok := b.Nodes[len(b.Nodes)-1].(ast.Expr)
				if !ok {
					return true
				}
				if succ == 0 {
					for _, c := range conjuncts(cond) {
						if establishes(c, true) {
							return false
						}
					}
				} else {
					for _, c := range disjuncts(cond) {
						if establishes(c, false) {
							return false
						}
					}
				}
				return true
			}
			pt, okp := fl.PointOf(ix)
			if !okp {
				r.Undecided(rule, key, p.Pos(ix), "index expression not found in the CFG")
				return true
			}
			target := fl.node(pt)
			// the index inside the very condition that guards it: `len(s) > 0 && s[0] == '-'`
			if e, ok := target.(ast.Expr); ok {
				for _, grp := range [][]ast.Expr{conjuncts(e), disjuncts(e)} {
					_ = grp
				}
				guardedInCond := false
				cs := conjuncts(e)
				for i, c := range cs {
					if c.Pos() <= ix.Pos() && ix.End() <= c.End() {
						for _, prev := range cs[:i] {
							if establishes(prev, true) {
								guardedInCond = true
							}
						}
					}
				}
				ds := disjuncts(e)
				for i, c := range ds {
					if c.Pos() <= ix.Pos() && ix.End() <= c.End() {
						for _, prev := range ds[:i] {
							if establishes(prev, false) {
								guardedInCond = true
							}
						}
					}
				}
				if guardedInCond {
					r.Ok(rule, key, p.Pos(ix), "an earlier operand of the same condition establishes the length")
					return true
				}
			}
			// starts: function entry and every assignment to s (which forgets what was known)
			starts := []Pt{fl.Entry()}
			for _, b := range fl.G.Blocks {
				for i, nd := range b.Nodes {
					forget := false
					switch s := nd.(type) {
					case *ast.AssignStmt:
						for _, l := range s.Lhs {
							if isS(l) {
								forget = true
							}
						}
					case *ast.Ident:
						// range value/key definition nodes
						if sObj != nil && (info.Defs[s] == sObj || info.Uses[s] == sObj) {
							if _, isRangeVar := rangeVarOwner(f, s); isRangeVar {
								forget = true
							}
						}
					}
					if forget && nd != target {
						starts = append(starts, Pt{b, i + 1})
					}
				}
			}
			res := fl.Reach(starts, func(nd ast.Node) bool { return nd == target }, nil)
			r.Check(!res.Found, rule, key, p.Pos(ix), fmt.Sprintf("len(%s) > %d is established on every path to the index", sStr, k), fmt.Sprintf("%s[%d] is evaluated on a path on which nothing establishes len(%s) > %d (%s): an empty or short piece of query text makes Parse panic with an index out of range instead of returning an error", sStr, k, sStr, k, fl.traceString(res)))
			return true
		})
	}
	r.Note("%s: %d byte-index expressions on strings in package query", rule, nStrIdx)
	_ = n
}

// rangeVarOwner reports whether id is the key or value identifier of a range statement of f.
func rangeVarOwner(f *Fn, id *ast.Ident) (*ast.RangeStmt, bool) {
	var owner *ast.RangeStmt
	inspectShallow(f.Body(), func(x ast.Node) bool {
		if rs, ok := x.(*ast.RangeStmt); ok {
			if rs.Key == ast.Expr(id) || rs.Value == ast.Expr(id) {
				owner = rs
			}
		}
		return owner == nil
	})
	return owner, owner != nil
}
