package main

// c01j.go: C01-j / C05-o a packed table of fixed-size records is searched record by record.
//
// The hosts of a host group are stored back to back in one []byte, 4 or 16 bytes each; a host is identified by its
// position divided by the record size. Three independent sub-agents (seeded C01f, C05l, C01m) replaced the record-wise
// comparison loop by `bytes.Index(g.hosts, host)`: a byte-granular search also finds the address where it straddles two
// records (hosts 10.0.1.2 and 3.4.0.0 contain 1.2.3.4 at offset 2), `pos / g.hostSize` then names the wrong host, and a
// stream is stored — and merged — with an endpoint that never took part in it.
//
// Rule (typed AST): in package index a []byte field that the package steps through by a non-constant record size
// (`pos += size` under `pos < len(X.F)`), whose length it divides by one, or which it slices at a multiple of one, is a
// packed table; a call of bytes.Index / LastIndex / IndexByte /
// Contains (and their Func / Any variants) whose first argument is such a field is allowed only in a function that tests
// the found position for alignment (`… % size`).

import (
	"fmt"
	"go/ast"
	"go/token"
	"go/types"
	"strings"
)

func rulePackedTableSearch(id string) func(p *Prog, r *Res) {
	return func(p *Prog, r *Res) {
		rule := id + " packed-table-searched-record-wise"
		r.Rule(rule + ": no byte-granular search over a table of fixed-size records without an alignment test")
		packed := map[*types.Var]string{}
		for _, f := range p.FnList {
			if f.Short != "index" || f.Body() == nil {
				continue
			}
			info := f.Pkg.TypesInfo
			ast.Inspect(f.Body(), func(x ast.Node) bool {
				fs, ok := x.(*ast.ForStmt)
				if !ok || fs.Cond == nil || fs.Post == nil {
					return true
				}
				post, ok := fs.Post.(*ast.AssignStmt)
				if !ok || post.Tok != token.ADD_ASSIGN || len(post.Rhs) != 1 {
					return true
				}
				if tv, ok := info.Types[post.Rhs[0]]; ok && tv.Value != nil {
					return true // a constant step is not a record size chosen per table
				}
				be, ok := ast.Unparen(fs.Cond).(*ast.BinaryExpr)
				if !ok || be.Op != token.LSS {
					return true
				}
				c, ok := ast.Unparen(be.Y).(*ast.CallExpr)
				if !ok || !isBuiltin(info, c, "len") || len(c.Args) != 1 {
					return true
				}
				se, ok := ast.Unparen(c.Args[0]).(*ast.SelectorExpr)
				if !ok {
					return true
				}
				fld, ok := info.Uses[se.Sel].(*types.Var)
				if !ok || !fld.IsField() || types.TypeString(fld.Type(), nil) != "[]byte" {
					return true
				}
				packed[fld] = types.ExprString(post.Rhs[0])
				return true
			})
		}
		// further evidence: len(X.F) divided by a non-constant size, X.F sliced at a multiple of a non-constant size
		for _, f := range p.FnList {
			if f.Short != "index" || f.Body() == nil {
				continue
			}
			info := f.Pkg.TypesInfo
			tableOf := func(e ast.Expr) *types.Var {
				se, ok := ast.Unparen(e).(*ast.SelectorExpr)
				if !ok {
					return nil
				}
				fld, ok := info.Uses[se.Sel].(*types.Var)
				if !ok || !fld.IsField() || types.TypeString(fld.Type(), nil) != "[]byte" {
					return nil
				}
				return fld
			}
			nonConst := func(e ast.Expr) bool {
				tv, ok := info.Types[e]
				return ok && tv.Value == nil
			}
			ast.Inspect(f.Body(), func(x ast.Node) bool {
				switch s := x.(type) {
				case *ast.BinaryExpr:
					if s.Op == token.QUO || s.Op == token.REM {
						if c, ok := ast.Unparen(s.X).(*ast.CallExpr); ok && isBuiltin(info, c, "len") && len(c.Args) == 1 && nonConst(s.Y) {
							if fld := tableOf(c.Args[0]); fld != nil {
								if _, ok := packed[fld]; !ok {
									packed[fld] = types.ExprString(s.Y)
								}
							}
						}
					}
				case *ast.SliceExpr:
					if fld := tableOf(s.X); fld != nil && s.Low != nil {
						if m, ok := ast.Unparen(s.Low).(*ast.BinaryExpr); ok && m.Op == token.MUL && (nonConst(m.X) && nonConst(m.Y)) {
							if _, ok := packed[fld]; !ok {
								packed[fld] = types.ExprString(m.X)
							}
						}
					}
				}
				return true
			})
		}
		n := len(packed)
		for _, f := range p.FnList {
			if f.Short != "index" || f.Body() == nil {
				continue
			}
			info := f.Pkg.TypesInfo
			for _, c := range callsIn(f.Body()) {
				fn := p.Callee(f.Pkg, c)
				if fn == nil || fn.Pkg() == nil || fn.Pkg().Path() != "bytes" || len(c.Args) < 1 {
					continue
				}
				switch {
				case strings.HasPrefix(fn.Name(), "Index"), strings.HasPrefix(fn.Name(), "LastIndex"), strings.HasPrefix(fn.Name(), "Contains"):
				default:
					continue
				}
				se, ok := ast.Unparen(c.Args[0]).(*ast.SelectorExpr)
				if !ok {
					continue
				}
				fld, ok := info.Uses[se.Sel].(*types.Var)
				if !ok {
					continue
				}
				size, isPacked := packed[fld]
				if !isPacked {
					continue
				}
				n++
				aligned := false
				ast.Inspect(f.Root().Body(), func(y ast.Node) bool {
					if be, ok := y.(*ast.BinaryExpr); ok && be.Op == token.REM {
						aligned = true
					}
					return true
				})
				key := fmt.Sprintf("%s bytes.%s over %s", f.Key(), fn.Name(), types.ExprString(c.Args[0]))
				r.Check(aligned, rule, key, p.Pos(c), "the found position is tested for alignment", "the table "+types.ExprString(c.Args[0])+" holds records of "+size+" bytes back to back and is searched byte by byte: a match that straddles two records is taken for a record, the position divided by the record size names the wrong entry — a stream is stored with an endpoint that never took part in it")
			}
		}
		var names []string
		for fld, s := range packed {
			names = append(names, fld.Name()+" (step "+s+")")
		}
		r.Note("%s: packed tables: %s", rule, strings.Join(names, ", "))
		r.Floor(rule, 1, n)
	}
}

func init() {
	const expl = " (typed AST): in package index a []byte field that some loop steps through by a non-constant record size (`pos += size` under `pos < len(X.F)`) is a packed table of fixed-size records; a call of bytes.Index / LastIndex / IndexByte / Contains… with such a field as first argument is allowed only in a function that tests the found position for alignment (`% size`). A byte-granular search also matches where a value straddles two records; the position divided by the record size then names the wrong host, and a stream is stored with an endpoint that never took part in it. Written independently by three sub-agents as the same 'optimisation'."
	register("C01", "C01-j"+expl, rulePackedTableSearch("C01-j"))
	register("C05", "C05-o"+expl, rulePackedTableSearch("C05-o"))
}
