package main

import (
	"fmt"
	"go/ast"
	"go/types"
)

func init() {
	register("C02",
		"C02-a (FLOW): in (*Reader).searchStreams the closure filterAndAddToResult is the only code that stores into resultData.streams and it does not de-duplicate; the rule locates every call of that closure (one per scan strategy), requires that no control-flow path leads from one scan's call site to another's (so one invocation runs exactly one scan strategy; two scans over overlapping index sets would list a stream twice), and that every scan is followed on all paths by a return before any other scan. C02-d (who-may-write): resultData.streams is written only inside that closure, and no resultData value is reachable from a package-level variable or a Reader field (searches on shared readers cannot interleave results).",
		ruleC02Scan)
}

func ruleC02Scan(p *Prog, r *Res) {
	const rule = "C02-a one-scan"
	r.Rule(rule + ": scan strategies in searchStreams are mutually unreachable")
	f := p.Fn("index.Reader.searchStreams")
	if f == nil {
		return
	}
	info := f.Pkg.TypesInfo
	// the closure variable
	var clo types.Object
	var cloLit *ast.FuncLit
	inspectShallow(f.Body(), func(x ast.Node) bool {
		if as, ok := x.(*ast.AssignStmt); ok && len(as.Lhs) == 1 && len(as.Rhs) == 1 {
			if lit, ok := as.Rhs[0].(*ast.FuncLit); ok {
				if id, ok := as.Lhs[0].(*ast.Ident); ok && clo == nil {
					// the closure that appends to result.streams
					writes := false
					ast.Inspect(lit.Body, func(y ast.Node) bool {
						if a2, ok := y.(*ast.AssignStmt); ok {
							for _, l := range a2.Lhs {
								if isFieldSel(info, l, "resultData", "streams") {
									writes = true
								}
							}
						}
						return true
					})
					if writes {
						clo = info.ObjectOf(id)
						cloLit = lit
					}
				}
			}
		}
		return true
	})
	if clo == nil {
		p.anchorFail("closure storing into resultData.streams in index.Reader.searchStreams")
		return
	}
	fl := p.Flow(f)
	isScanCall := func(n ast.Node) bool {
		return fl.hasCall(n, func(c *ast.CallExpr) bool {
			id, ok := ast.Unparen(c.Fun).(*ast.Ident)
			return ok && info.ObjectOf(id) == clo
		})
	}
	sites := fl.Find(isScanCall)
	r.Floor(rule+" scan sites", 4, len(sites))
	loops := fl.Loops()
	loopOf := func(pt Pt) int {
		best := -1
		for i, l := range loops {
			if l.Blocks[pt.B] {
				if best == -1 || within(l.Stmt, loops[best].Stmt) {
					best = i
				}
			}
		}
		return best
	}
	for i, a := range sites {
		la := loopOf(a)
		key := fmt.Sprintf("index.Reader.searchStreams scan#%d", i+1)
		if la < 0 {
			r.Undecided(rule, key, p.Pos(fl.node(a)), "scan call is not inside a loop; strategy structure changed")
			continue
		}
		bad := false
		for j, b := range sites {
			if i == j {
				continue
			}
			res := fl.Reach([]Pt{After(a)}, func(n ast.Node) bool { return n == fl.node(b) }, nil)
			if res.Found {
				bad = true
				r.Bad(rule, key, p.Pos(fl.node(a)), fmt.Sprintf("after the scan at line %d control can reach the scan at line %d (%s): matching streams are added to the result twice",
					lineOf(p.Fset, fl.node(a)), lineOf(p.Fset, fl.node(b)), fl.traceString(res)))
				break
			}
		}
		if !bad {
			r.Ok(rule, key, p.Pos(fl.node(a)), "no path from this scan to any other scan")
		}
	}

	// C02-d who-may-write resultData.streams
	const rule2 = "C02-d result-owner"
	r.Rule(rule2 + ": resultData.streams is stored only by filterAndAddToResult; resultData is not reachable from globals or Reader fields")
	writers := 0
	for _, g := range p.FnList {
		if g.Short != "index" {
			continue
		}
		inspectShallow(g.Body(), func(x ast.Node) bool {
			as, ok := x.(*ast.AssignStmt)
			if !ok {
				return true
			}
			for _, l := range as.Lhs {
				base := l
				if ix, ok := ast.Unparen(l).(*ast.IndexExpr); ok {
					base = ix.X
				}
				if isFieldSel(g.Pkg.TypesInfo, base, "resultData", "streams") {
					writers++
					okw := g.Lit == cloLit
					// a literal nested in the owner closure (a local helper such as moveSlot) is part of the owner
					if !okw && g.Lit != nil && cloLit != nil && cloLit.Pos() <= g.Lit.Pos() && g.Lit.End() <= cloLit.End() {
						okw = true
					}
					if !okw && g.Lit == nil && g.Decl != nil && g.Decl.Recv != nil {
						// a method of resultData that only the owner closure calls is part of the owner
						if rn := namedOf(recvTypeOfFn(g)); rn != nil && rn.Obj().Name() == "resultData" {
							nCalls, allInside := 0, true
							gobj, _ := g.Pkg.TypesInfo.Defs[g.Decl.Name].(*types.Func)
							for _, h := range p.FnList {
								if h.Pkg != g.Pkg || h.Body() == nil {
									continue
								}
								inspectShallow(h.Body(), func(y ast.Node) bool {
									if c, ok := y.(*ast.CallExpr); ok {
										if fn := p.Callee(h.Pkg, c); fn != nil && gobj != nil && fn.Origin() == gobj {
											nCalls++
											if h.Lit != cloLit {
												allInside = false
											}
										}
									}
									return true
								})
							}
							okw = nCalls > 0 && allInside
						}
					}
					r.Check(okw, rule2, "store to resultData.streams in "+g.Key(), p.Pos(as), "inside filterAndAddToResult (or a resultData method only it calls)", "resultData.streams is written outside filterAndAddToResult: a second way for a stream to enter (or leave) the result bypasses limit/sort/group bookkeeping")
				}
			}
			return true
		})
	}
	r.Floor(rule2+" stores", 4, writers)
	// no package-level var or Reader field of a type containing resultData
	rd := p.Named("index", "resultData")
	if rd != nil {
		contains := func(t types.Type) bool { return typeContains(t, rd, map[types.Type]bool{}) }
		sc := p.By["index"].Types.Scope()
		for _, name := range sc.Names() {
			if v, ok := sc.Lookup(name).(*types.Var); ok {
				r.Check(!contains(v.Type()), rule2, "package var index."+name, p.PosOf(v.Pos()), "does not hold resultData", "package-level variable can hold resultData: concurrent searches would share an accumulator")
			}
		}
		if rn := p.Named("index", "Reader"); rn != nil {
			st := rn.Underlying().(*types.Struct)
			for i := 0; i < st.NumFields(); i++ {
				fld := st.Field(i)
				r.Check(!contains(fld.Type()), rule2, "field index.Reader."+fld.Name(), p.PosOf(fld.Pos()), "does not hold resultData", "Reader field can hold resultData: searches sharing a reader would share an accumulator")
			}
		}
	}
}

// isFieldSel reports whether e is a selector of field `field` of struct type named typ (through pointers).
func isFieldSel(info *types.Info, e ast.Expr, typ, field string) bool {
	se, ok := ast.Unparen(e).(*ast.SelectorExpr)
	if !ok || se.Sel.Name != field {
		return false
	}
	v, ok := info.Uses[se.Sel].(*types.Var)
	if !ok || !v.IsField() {
		return false
	}
	t := info.TypeOf(se.X)
	n := namedOf(t)
	return n != nil && n.Obj().Name() == typ
}

func typeContains(t types.Type, target *types.Named, seen map[types.Type]bool) bool {
	t = types.Unalias(t)
	if seen[t] {
		return false
	}
	seen[t] = true
	if n, ok := t.(*types.Named); ok {
		if n.Obj() == target.Obj() {
			return true
		}
		return typeContains(n.Underlying(), target, seen)
	}
	switch u := t.(type) {
	case *types.Pointer:
		return typeContains(u.Elem(), target, seen)
	case *types.Slice:
		return typeContains(u.Elem(), target, seen)
	case *types.Array:
		return typeContains(u.Elem(), target, seen)
	case *types.Map:
		return typeContains(u.Key(), target, seen) || typeContains(u.Elem(), target, seen)
	case *types.Chan:
		return typeContains(u.Elem(), target, seen)
	case *types.Struct:
		for i := 0; i < u.NumFields(); i++ {
			if typeContains(u.Field(i).Type(), target, seen) {
				return true
			}
		}
	}
	return false
}
