package main

// c03f.go: C03-f a field-by-field copy of a condition copies every field.
//
// Where package query duplicates a condition value by assigning its fields one by one (the upper bound of a single
// value is a copy of the lower bound: `tcs[1].Duration = tcs[0].Duration; tcs[1].Summands = copy of tcs[0].Summands`),
// a field that is left out keeps its zero value in the copy. For TimeCondition that field was ReferenceTimeFactor: the
// upper bound of `ftime:"2020-01-01 1200"` lost its reference-time term, so the two bounds of one absolute time point
// disagreed about being absolute (Features() then classifies the filter as relative-time, tags refuse it, the
// invalidation class is wrong) and moved differently under UpdateReferenceTime.
// Rule: in every block of package query, if at least two fields of a struct value X are assigned (or copy()-ed) from
// the same fields of another value Y of the same struct type, every field of that type is.

import (
	"fmt"
	"go/ast"
	"go/token"
	"go/types"
	"sort"
	"strings"
)

func init() {
	register("C03",
		"C03-f (typed AST): in package query, a block that assigns (or fills with copy) at least two fields of a struct value X from the same-named fields of another value Y of the same struct type does so for every field of the type: a field-by-field duplicate of a condition that leaves a field out is a different condition (the reference-time term of the upper bound of a single absolute time value).",
		func(p *Prog, r *Res) {
			const rule = "C03-f fieldwise-copy-is-complete"
			r.Rule(rule + ": field-by-field duplicates of a struct copy every field")
			n := 0
			for _, f := range p.FnList {
				if f.Short != "query" || f.Body() == nil {
					continue
				}
				info := f.Pkg.TypesInfo
				structOf := func(e ast.Expr) *types.Named {
					t := info.TypeOf(e)
					if t == nil {
						return nil
					}
					nt := namedOf(derefType(t))
					if nt == nil {
						return nil
					}
					if _, ok := nt.Underlying().(*types.Struct); !ok {
						return nil
					}
					return nt
				}
				inspectShallow(f.Body(), func(x ast.Node) bool {
					blk, ok := x.(*ast.BlockStmt)
					if !ok {
						return true
					}
					type pair struct{ x, y string }
					copied := map[pair]map[string]bool{}
					typ := map[pair]*types.Named{}
					pos := map[pair]ast.Node{}
					note := func(xs, ys ast.Expr, field string, at ast.Node) {
						xt, yt := structOf(xs), structOf(ys)
						if xt == nil || xt != yt {
							return
						}
						k := pair{exprString(p.Fset, xs), exprString(p.Fset, ys)}
						if k.x == k.y {
							return
						}
						if copied[k] == nil {
							copied[k] = map[string]bool{}
							typ[k] = xt
							pos[k] = at
						}
						copied[k][field] = true
					}
					for _, st := range blk.List {
						switch s := st.(type) {
						case *ast.AssignStmt:
							if len(s.Lhs) != len(s.Rhs) || (s.Tok != token.ASSIGN && s.Tok != token.DEFINE) {
								continue // x.F += y.F accumulates, it does not copy
							}
							for i, l := range s.Lhs {
								ls, ok := ast.Unparen(l).(*ast.SelectorExpr)
								if !ok {
									continue
								}
								// the value is the same field of another value: Y.F itself, a clone of it, or a slice made with its length
								// (filled by the copy() that follows)
								var src *ast.SelectorExpr
								switch v := ast.Unparen(s.Rhs[i]).(type) {
								case *ast.SelectorExpr:
									src = v
								case *ast.CallExpr:
									isCloneLike := isBuiltin(info, v, "make") || isBuiltin(info, v, "append")
									if fn := p.Callee(f.Pkg, v); fn != nil && fn.Pkg() != nil && fn.Pkg().Path() == "slices" && fn.Name() == "Clone" {
										isCloneLike = true
									}
									if isCloneLike {
										ast.Inspect(v, func(y ast.Node) bool {
											if rs, ok := y.(*ast.SelectorExpr); ok && rs.Sel.Name == ls.Sel.Name && info.Uses[rs.Sel] == info.Uses[ls.Sel] {
												src = rs
											}
											return true
										})
									}
								}
								if src != nil && src.Sel.Name == ls.Sel.Name && info.Uses[src.Sel] == info.Uses[ls.Sel] {
									note(ls.X, src.X, ls.Sel.Name, s)
								}
							}
						case *ast.ExprStmt:
							if c, ok := s.X.(*ast.CallExpr); ok && isBuiltin(info, c, "copy") && len(c.Args) == 2 {
								ls, ok1 := ast.Unparen(c.Args[0]).(*ast.SelectorExpr)
								rs, ok2 := ast.Unparen(c.Args[1]).(*ast.SelectorExpr)
								if ok1 && ok2 && ls.Sel.Name == rs.Sel.Name {
									note(ls.X, rs.X, ls.Sel.Name, s)
								}
							}
						}
					}
					var keys []pair
					for k := range copied {
						keys = append(keys, k)
					}
					sort.Slice(keys, func(i, j int) bool { return keys[i].x+keys[i].y < keys[j].x+keys[j].y })
					for _, k := range keys {
						if len(copied[k]) < 2 {
							continue
						}
						n++
						st := typ[k].Underlying().(*types.Struct)
						var missing []string
						for i := 0; i < st.NumFields(); i++ {
							if !copied[k][st.Field(i).Name()] {
								missing = append(missing, st.Field(i).Name())
							}
						}
						key := fmt.Sprintf("%s copies %s from %s@%s", f.Key(), k.x, k.y, relLine(p, f, pos[k]))
						r.Check(len(missing) == 0, rule, key, p.Pos(pos[k]), "all "+fmt.Sprint(st.NumFields())+" fields of "+typ[k].Obj().Name()+" are copied", k.x+" is built as a field-by-field copy of "+k.y+" but "+strings.Join(missing, ", ")+" is left out and stays zero: the copy is a different condition than its original")
					}
					return true
				})
			}
			r.Floor(rule, 2, n)
		})
}
