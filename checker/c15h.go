package main

// c15h.go: C15-h a record that is superseded is discarded in the file as well.
//
// The cache file is append-only between compactions and the load scan indexes the LATEST record of a stream id that
// does not carry the tombstone id. An invalidation tombstones the record the in-memory index points to — the latest one.
// If storing a stream that already has a record only moved the index entry to the new record, the older record would
// stay alive in the file: after `store X; store X; invalidate X; reopen` the first version is served again.
// Rule: in package converters, outside the constructor (the load scan) and the compaction routine (which rewrites the
// offsets of records it has just moved), every element store into cacheFile.streamInfos is reachable from the entry of
// its function only through a comma-ok lookup of streamInfos whose found-branch writes the tombstone (WriteAt on the
// cache file, directly or in a package helper that does it, with the marker constant the load scan tests for — C15-d).

import (
	"fmt"
	"go/ast"
	"go/token"
	"go/types"

	"golang.org/x/tools/go/cfg"
)

func init() {
	register("C15",
		"C15-h (FLOW): outside NewCacheFile's load scan, every element store that does not write a looked-up entry back (the compaction moves a record and updates its offset) into cacheFile.streamInfos is preceded on every path by a comma-ok lookup of the same map whose found branch discards the old record in the file (a WriteAt on the cache file, directly or through a package helper; the marker it writes is checked by C15-d). The load scan indexes the latest record without a tombstone, and an invalidation tombstones only the record the index points to: a store that merely moves the index entry leaves the older record alive, and `store X, store X, invalidate X, reopen` serves the first version again.",
		func(p *Prog, r *Res) {
			const rule = "C15-h superseded-record-is-discarded"
			r.Rule(rule + ": storing over an existing entry discards the old record in the file")
			siFld := p.Field("converters", "cacheFile", "streamInfos")
			fileFld := p.Field("converters", "cacheFile", "file")
			if siFld == nil || fileFld == nil {
				return
			}
			// helpers that write into the file at a position (tombstone writers)
			writesAt := func(f *Fn, body ast.Node) bool {
				hit := false
				for _, c := range callsIn(body) {
					if se, ok := ast.Unparen(c.Fun).(*ast.SelectorExpr); ok && se.Sel.Name == "WriteAt" && isFieldOf(f.Pkg.TypesInfo, se.X, fileFld) {
						hit = true
					}
				}
				return hit
			}
			n := 0
			for _, f := range p.FnList {
				if f.Short != "converters" || f.Body() == nil || f.Lit != nil {
					continue
				}
				if f.Key() == "converters.NewCacheFile" || calledOnlyFrom(p, f, func(g *Fn) bool { return g.Root().Key() == "converters.NewCacheFile" }, 1) {
					continue // the load scan (or a helper only it calls): latest record wins (C15-a)
				}
				info := f.Pkg.TypesInfo
				fl := p.Flow(f)
				stores := fl.Find(func(nd ast.Node) bool {
					as, ok := nd.(*ast.AssignStmt)
					if !ok {
						return false
					}
					for _, l := range as.Lhs {
						if ix, ok := ast.Unparen(l).(*ast.IndexExpr); ok && isFieldOf(info, ix.X, siFld) {
							return true
						}
					}
					return false
				})
				if len(stores) == 0 {
					continue
				}
				// the compaction routine moves records and rewrites their offsets: it ranges over streamInfos itself
				compaction := false
				inspectShallow(f.Body(), func(x ast.Node) bool {
					if rs, ok := x.(*ast.RangeStmt); ok && isFieldOf(info, rs.X, siFld) {
						compaction = true
					}
					return true
				})
				if compaction {
					r.Note("%s: %s rewrites the offsets of records it has moved (ranges over streamInfos): not a store of a new record", rule, f.Key())
					continue
				}
				// values that were looked up from the map: storing one of them back (after changing its offset) updates the
				// entry of the SAME record, nothing is superseded
				lookedUp := map[types.Object]bool{}
				inspectShallow(f.Body(), func(x ast.Node) bool {
					if as, ok := x.(*ast.AssignStmt); ok && len(as.Rhs) == 1 && len(as.Lhs) >= 1 {
						if ix, ok := ast.Unparen(as.Rhs[0]).(*ast.IndexExpr); ok && isFieldOf(info, ix.X, siFld) {
							if o := identObj(info, as.Lhs[0]); o != nil {
								lookedUp[o] = true
							}
						}
					}
					return true
				})
				for _, sp := range stores {
					store := fl.node(sp)
					if as, ok := store.(*ast.AssignStmt); ok && len(as.Rhs) == 1 {
						if o := identObj(info, as.Rhs[0]); o != nil && lookedUp[o] {
							r.Note("%s: %s line %d stores a looked-up entry back (same record, new offset)", rule, f.Key(), lineOf(p.Fset, store))
							continue
						}
					}
					n++
					key := fmt.Sprintf("%s store into streamInfos@%s", f.Key(), relLine(p, f, store))
					// lookups: `v, ok := X.streamInfos[k]` followed by a condition on ok; prune the edge on which the entry is
					// absent; on the found edge a tombstone write must come before the store
					type lk struct {
						ok types.Object
					}
					okVars := map[types.Object]bool{}
					for _, b := range fl.G.Blocks {
						for _, nd := range b.Nodes {
							if as, ok := nd.(*ast.AssignStmt); ok && len(as.Lhs) == 2 && len(as.Rhs) == 1 {
								if ix, ok := ast.Unparen(as.Rhs[0]).(*ast.IndexExpr); ok && isFieldOf(info, ix.X, siFld) {
									if o := identObj(info, as.Lhs[1]); o != nil {
										okVars[o] = true
									}
								}
							}
						}
					}
					discards := func(nd ast.Node) bool {
						if writesAt(f, nd) {
							return true
						}
						hit := false
						for _, c := range callsIn(nd) {
							if fn := p.Callee(f.Pkg, c); fn != nil {
								if h := p.FnOfObj(fn); h != nil && h.Pkg == f.Pkg && h.Lit == nil && h.Body() != nil && writesAt(h, h.Body()) {
									hit = true
								}
							}
						}
						return hit
					}
					// the absent edge: false edge of `ok`, true edge of `!ok`
					fl.EdgeOK = func(b *cfg.Block, succ int) bool {
						if len(b.Succs) != 2 || len(b.Nodes) == 0 {
							return true
						}
						cond, isE := b.Nodes[len(b.Nodes)-1].(ast.Expr)
						if !isE {
							return true
						}
						cond = ast.Unparen(cond)
						neg := false
						if ue, ok := cond.(*ast.UnaryExpr); ok && ue.Op == token.NOT {
							neg = true
							cond = ast.Unparen(ue.X)
						}
						if o := identObj(info, cond); o != nil && okVars[o] {
							absent := 1
							if neg {
								absent = 0
							}
							return succ != absent // the entry is absent on that edge: nothing is superseded there
						}
						return true
					}
					res := fl.Reach([]Pt{fl.Entry()}, func(nd ast.Node) bool { return nd == store }, discards)
					fl.EdgeOK = nil
					checked := len(okVars) > 0
					why := "the store can be reached on a path on which an existing entry was found (or never looked up) and its record was not discarded in the file (" + fl.traceString(res) + ")"
					if !checked {
						why = "the function never looks the id up before it stores it: an existing record is superseded in memory only"
					}
					r.Check(checked && !res.Found, rule, key, p.Pos(store), "an existing entry is looked up first and its record is discarded in the file", why+": the older record stays alive in the append-only file; after an invalidation (which tombstones only the latest record) and a reopen, the load scan indexes the older version again")
				}
			}
			r.Floor(rule, 1, n)
		})
}
