package main

// c06o.go: C06-o / C02-s a stored condition set with sub-queries of its own is not negated.
//
// An alternative of a ConditionsSet is existential in its sub-queries: `@x:cport:4 cport:@x:cport@` reads "there is a
// stream x with client port 4 whose client port equals mine". ConditionsSet.invert negates condition by condition and so
// turns the definition into "there is a stream x with ANOTHER client port, or one whose port differs from mine" — not
// into "there is no such stream", which no set of alternatives can express. For the text of a query the parser deals
// with this at parse time; for the STORED conditions of a tag that are negated when `-tag:t` is evaluated on demand
// (inlineTagFilter, while t is pending) nothing does: with t0 = `-@x:cport:4 -cport:@x:cport@ cdata:"aa"` the search
// `-tag:t0 cport:2` returns [3] while t0 is pending and [] once it is decided
// (probes/open_c06_negated_tag_with_subquery). Found while validating the repair of C06-m with a pending-vs-decided
// differential probe. Not repaired: it needs a second evaluation strategy for such filters (evaluate the tag positively
// over the pending streams and subtract), not a change of the normal form.
//
// Rule (FLOW, value flow): in package query a ConditionsSet that derives from TagDetails.Conditions reaches
// ConditionsSet.invert only over an edge of a condition that calls, on that set, a function of the package that reads a
// sub-query field (SubQuery / SubQueries) — the test for "has sub-queries of its own".

import (
	"fmt"
	"go/ast"
	"go/types"

	"golang.org/x/tools/go/cfg"
)

func init() {
	const expl = "(FLOW, value flow): in package query a ConditionsSet that derives from the stored conditions of a tag (TagDetails.Conditions) is handed to ConditionsSet.invert only over an edge of a condition that asks, through a function of the package that reads SubQuery/SubQueries fields, whether that set uses sub-queries of its own. An alternative is existential in its sub-queries; negating it condition by condition gives 'there is a stream x that does not fit' instead of 'there is no stream x that fits', so `-tag:t` answers differently while t is pending and after it was decided whenever the definition of t has a sub-query. The test was missing (#70); with it, such tags are never inlined: index.SearchStreams decides them for their pending streams before it inlines the others."
	register("C06", "C06-o "+expl, func(p *Prog, r *Res) {
		ruleNoNegationOfExistential(p, r, "C06-o stored-set-with-sub-queries-not-negated")
	})
	register("C02", "C02-s "+expl, func(p *Prog, r *Res) {
		ruleNoNegationOfExistential(p, r, "C02-s stored-set-with-sub-queries-not-negated")
	})
}

func ruleNoNegationOfExistential(p *Prog, r *Res, rule string) {
	r.Rule(rule + ": invert() of a tag's stored conditions is guarded by a test for sub-queries of their own")
	inv := p.Method("query", "ConditionsSet", "invert")
	tdC := p.Field("query", "TagDetails", "Conditions")
	if inv == nil || tdC == nil {
		p.anchorFail("query.ConditionsSet.invert / TagDetails.Conditions")
		return
	}
	// functions of package query that read a sub-query field and answer with a boolean (depth 1 through package callees)
	readsSubQuery := map[*Fn]bool{}
	for _, g := range p.FnList {
		if g.Short != "query" || g.Body() == nil || g.Lit != nil {
			continue
		}
		ast.Inspect(g.Body(), func(x ast.Node) bool {
			if se, ok := x.(*ast.SelectorExpr); ok && (se.Sel.Name == "SubQuery" || se.Sel.Name == "SubQueries") {
				if v, ok := g.Pkg.TypesInfo.Uses[se.Sel].(*types.Var); ok && v.IsField() {
					readsSubQuery[g] = true
				}
			}
			return true
		})
	}
	n := 0
	for _, f := range p.FnList {
		if f.Short != "query" || f.Body() == nil {
			continue
		}
		info := f.Pkg.TypesInfo
		var derives func(e ast.Expr, seen map[types.Object]bool) bool
		derives = func(e ast.Expr, seen map[types.Object]bool) bool {
			e = ast.Unparen(e)
			switch x := e.(type) {
			case *ast.SelectorExpr:
				return info.Uses[x.Sel] == types.Object(tdC)
			case *ast.CallExpr:
				if se, ok := ast.Unparen(x.Fun).(*ast.SelectorExpr); ok {
					if fn := p.Callee(f.Pkg, x); fn != nil && fn.Origin() == inv {
						return false
					}
					if _, isMethod := info.Selections[se]; isMethod {
						return derives(se.X, seen)
					}
				}
			case *ast.Ident:
				o := info.Uses[x]
				if o == nil || seen[o] {
					return false
				}
				seen[o] = true
				found := false
				inspectShallow(f.Body(), func(y ast.Node) bool {
					if as, ok := y.(*ast.AssignStmt); ok && len(as.Lhs) == len(as.Rhs) {
						for i, l := range as.Lhs {
							if identObj(info, l) == o && derives(as.Rhs[i], seen) {
								found = true
							}
						}
					}
					return !found
				})
				return found
			}
			return false
		}
		inspectShallow(f.Body(), func(x ast.Node) bool {
			c, ok := x.(*ast.CallExpr)
			if !ok {
				return true
			}
			fn := p.Callee(f.Pkg, c)
			if fn == nil || fn.Origin() != inv {
				return true
			}
			se, ok := ast.Unparen(c.Fun).(*ast.SelectorExpr)
			if !ok || !derives(se.X, map[types.Object]bool{}) {
				return true
			}
			n++
			rtxt := exprString(p.Fset, ast.Unparen(se.X))
			key := fmt.Sprintf("%s negates %s", f.Key(), rtxt)
			fl := p.Flow(f)
			var asks func(e ast.Expr) bool
			asks = func(e ast.Expr) bool {
				hit := false
				ast.Inspect(e, func(y ast.Node) bool {
					// a local that holds the answer (`own := td.Conditions.SubQueries(); if len(own) > 1`)
					if id, ok := y.(*ast.Ident); ok && !hit {
						if o := info.Uses[id]; o != nil {
							var defs []ast.Expr
							inspectShallow(f.Body(), func(z ast.Node) bool {
								if as, ok := z.(*ast.AssignStmt); ok && len(as.Lhs) == len(as.Rhs) {
									for i, l := range as.Lhs {
										if identObj(info, l) == o {
											defs = append(defs, as.Rhs[i])
										}
									}
								}
								return true
							})
							if len(defs) == 1 {
								if _, isCall := ast.Unparen(defs[0]).(*ast.CallExpr); isCall && asks(defs[0]) {
									hit = true
								}
							}
						}
						return !hit
					}
					gc, ok := y.(*ast.CallExpr)
					if !ok {
						return true
					}
					gfn := p.Callee(f.Pkg, gc)
					if gfn == nil || !readsSubQuery[p.FnOfObj(gfn)] {
						return true
					}
					// asked of the set that is negated, or of the stored set it was made from
					onSet := false
					if gs, ok := ast.Unparen(gc.Fun).(*ast.SelectorExpr); ok && (exprString(p.Fset, ast.Unparen(gs.X)) == rtxt || derives(gs.X, map[types.Object]bool{})) {
						onSet = true
					}
					for _, a := range gc.Args {
						if exprString(p.Fset, ast.Unparen(a)) == rtxt || derives(a, map[types.Object]bool{}) {
							onSet = true
						}
					}
					if onSet {
						hit = true
					}
					return !hit
				})
				return hit
			}
			fl.EdgeOK = func(b *cfg.Block, succ int) bool {
				if len(b.Succs) != 2 || len(b.Nodes) == 0 {
					return true
				}
				cond, ok := b.Nodes[len(b.Nodes)-1].(ast.Expr)
				return !(ok && asks(cond)) // either edge of such a test: the code distinguishes the two cases
			}
			pt, okp := fl.PointOf(c)
			if !okp {
				fl.EdgeOK = nil
				r.Undecided(rule, key, p.Pos(c), "call not found in the CFG")
				return true
			}
			target := fl.node(pt)
			res := fl.Reach([]Pt{fl.Entry()}, func(nd ast.Node) bool { return nd == target }, nil)
			fl.EdgeOK = nil
			r.Check(!res.Found, rule, key, p.Pos(c), "reached only behind a test for sub-queries of the set", rtxt+" holds the stored conditions of a tag and is negated without a test whether they use sub-queries of their own ("+fl.traceString(res)+"): an alternative is existential in its sub-queries, its condition-wise negation says 'some stream x does not fit' where 'no stream x fits' is meant — `-tag:t` selects other streams while t is pending than after it was decided")
			return true
		})
	}
	// no floor: a repair that stops negating stored sets altogether leaves nothing to check
	r.Note("%s: %d negations of stored tag conditions", rule, n)
}
